// C20 correspondence harness: drives the real sparse primary index (PKIndexWriterImpl.Build, NewKeyCondition,
// PKIndexReaderImpl.Scan, KeyConditionImpl.MayBeInRange / CheckInRange) on generated sorted key records and condition
// trees, applies the DIRECT ORACLE (brute-force row matching: every fragment that contains a matching row must lie in
// a returned range / must have may_be = true / canBeTrue = true) and prints one JSON object per case. The Coq model is
// evaluated on the same cases by props/C20/run.py.
//
// usage:  c20 gen <n>            generated stream (seed VERIF_SEED)
//         c20 replay <file>...   re-run the case inputs stored in the given JSON files (one object, field "in")
package main

import (
	"encoding/json"
	"fmt"
	"math"
	"math/big"
	"os"
	"sort"
	"strconv"

	"github.com/openGemini/openGemini/engine/immutable/colstore"
	"github.com/openGemini/openGemini/lib/binaryfilterfunc"
	"github.com/openGemini/openGemini/engine/index/sparseindex"
	"github.com/openGemini/openGemini/lib/fragment"
	"github.com/openGemini/openGemini/lib/record"
	"github.com/openGemini/openGemini/lib/util/lifted/influx/influxql"
	"github.com/openGemini/openGemini/lib/util/lifted/vm/protoparser/influx"
	"verifharness/internal/gen"
)

// ---------------------------------------------------------------------------------------------
// case input (fully determines a run; stored in replay / corpus files)

type Cond struct {
	Op    string  `json:"op"`              // and or | = != < <= > >= in like
	Args  []*Cond `json:"args,omitempty"`  // and/or
	Col   int     `json:"col"`             // key column index; -1 = the non-key column "v"
	Lit   string  `json:"lit,omitempty"`   // literal in the column's textual form
	Lits  []string `json:"lits,omitempty"` // IN list
	Flip  bool    `json:"flip,omitempty"`  // written as  lit op' col
	Paren bool    `json:"paren,omitempty"` // wrapped in parentheses
	Enc   *int64  `json:"enc,omitempty"`   // order-preserving encoding of Lit (output only)
	// LitTy: the literal is written with ANOTHER numeric type than the column's: "int" = an integer literal compared with a
	// float key column (f = 1), "float" = a number literal compared with an integer key column (k < 2.5). Lit is then in the
	// literal's own textual form. EncCur = encoding of the value today's genRPNElementByVal stores (the literal's bits read
	// as a value of the column's type); Enc = encoding of the literal converted exactly (nil when it is not a value of the
	// column's type, e.g. 2.5 for an integer column)
	LitTy  string `json:"litty,omitempty"`
	EncCur *int64 `json:"enccur,omitempty"`
}

type CaseIn struct {
	Types    []string    `json:"types"`    // key column types: int float string bool
	Rows     [][]*string `json:"rows"`     // in the writer's sort order (generated cases); each row: key columns then "v" (int)
	Sizes    []int       `json:"sizes"`    // fragment sizes, all >= 1, sum = len(rows)
	Cond     *Cond       `json:"cond"`
	TimeCond bool        `json:"timecond"` // pass a time-bounds condition as the first argument of NewKeyCondition
	Coarse   int         `json:"coarse"`
	MinRows  int         `json:"minrows"`
	RPF      int         `json:"rpf"`      // rowsNumPerFragment property of the reader
	Probes   [][2]int    `json:"probes"`   // extra (start,end) fragment ranges for MayBeInRange
	Tag      string      `json:"tag,omitempty"`
	// WriterSort: the rows are handed to record.SortHelper.SortForColumnStore (the memtable's flush sort) before Build,
	// instead of being sorted by the harness in the order in which the index reader interprets keys
	WriterSort bool `json:"writersort,omitempty"`
	// NoTail: the index record is handed to Scan WITHOUT its trailing last-key row (the shape of the index the attached flush
	// writes: one row per fragment start only); the reader then reads row N behind the record and must take it for "no
	// upper bound". Only the direct oracle on Scan is applied to such a case (the model's index always has the last row).
	NoTail bool `json:"notail,omitempty"`
}

type Rect struct {
	Lo  []*int64 `json:"lo"` // per used column: encoded bound, nil = see LoK
	LoK []int    `json:"lok"` // -1 NegInf, 0 finite, 1 PosInf
	Hi  []*int64 `json:"hi"`
	HiK []int    `json:"hik"`
}

type CbEntry struct {
	Lo  []*int64 `json:"lo"`
	LoK []int    `json:"lok"`
	Hi  []*int64 `json:"hi"`
	HiK []int    `json:"hik"`
	LI  []bool   `json:"li"`
	RI  []bool   `json:"ri"`
	T   bool     `json:"t"`
	F   bool     `json:"f"`
}

// CbProbe: checkInAnyRange over index rows S,E driven with pseudo-random call-back marks (one per visited rectangle)
type CbProbe struct {
	S     int       `json:"s"`
	E     int       `json:"e"`
	Table []CbEntry `json:"table"`
	Final [2]int    `json:"final"` // canBeTrue, canBeFalse; -1 error; -2 panic
}

type CaseOut struct {
	ID     int     `json:"id"`
	In     *CaseIn `json:"in"`
	IsInt  []bool  `json:"isint"`
	Pads   []int64 `json:"pads"` // per key column: encoding of the value the writer's sort pads a null with
	Keys   [][]*int64 `json:"keys"` // encoded key rows
	Used   int     `json:"used"`
	EffCond *Cond  `json:"effcond,omitempty"` // condition incl. the time bounds when the time column is a key column (else = in.cond)
	NFrag  int     `json:"nfrag"`
	MinMarks int   `json:"minmarks"`
	CondErr string `json:"conderr"` // error of NewKeyCondition ("" = none)
	ScanErr string `json:"scanerr"`
	Ranges [][2]int `json:"ranges"`
	Binary bool    `json:"binary"` // CanDoBinarySearch
	CbProbes []CbProbe `json:"cbprobes"`
	MayBe  []int   `json:"maybe"`  // per probe (first nfrag probes are the single fragments): 1/0, -1 error, -2 panic
	Rects  []Rect  `json:"rects"`  // min/max rectangles per fragment (CheckInRange stream)
	Marks  [][2]int `json:"marks"` // per rect: canBeTrue, canBeFalse (or -1,-1 on error / -2 panic)
	Match  []bool  `json:"match"`  // per fragment: contains a row satisfying the condition (brute force)
	MatchEq []bool `json:"matcheq"` // the same with MATCHPHRASE / IPINRANGE atoms read as equality (string-operator stream)
	Mutated bool   `json:"mutated"` // the index record differs from a fresh Build after Scan
	Oracle []string `json:"oracle"` // direct-oracle failures
	Nontriv bool   `json:"nontrivial"`
}

// ---------------------------------------------------------------------------------------------
// typed values

type tval struct {
	null bool
	i    int64
	f    float64
	s    string
	b    bool
}

func parseVal(ty string, s *string) tval {
	if s == nil {
		return tval{null: true}
	}
	switch ty {
	case "int", "time":
		v, err := strconv.ParseInt(*s, 10, 64)
		if err != nil {
			panic(err)
		}
		return tval{i: v}
	case "float":
		v, err := strconv.ParseFloat(*s, 64)
		if err != nil {
			panic(err)
		}
		return tval{f: v}
	case "string":
		return tval{s: *s}
	case "bool":
		return tval{b: *s == "true"}
	}
	panic("type " + ty)
}

func fmtVal(ty string, v tval) *string {
	if v.null {
		return nil
	}
	var s string
	switch ty {
	case "int", "time":
		s = strconv.FormatInt(v.i, 10)
	case "float":
		s = strconv.FormatFloat(v.f, 'g', -1, 64)
	case "string":
		s = v.s
	case "bool":
		s = strconv.FormatBool(v.b)
	}
	return &s
}

// cmpVal: non-null values of one type; -1 0 1
func cmpVal(ty string, a, b tval) int {
	switch ty {
	case "int", "time":
		if a.i < b.i {
			return -1
		} else if a.i > b.i {
			return 1
		}
		return 0
	case "float":
		if a.f < b.f {
			return -1
		} else if a.f > b.f {
			return 1
		}
		return 0
	case "string":
		if a.s < b.s {
			return -1
		} else if a.s > b.s {
			return 1
		}
		return 0
	case "bool":
		if a.b == b.b {
			return 0
		} else if !a.b {
			return -1
		}
		return 1
	}
	panic("type")
}

// padVal: the value record.SortForColumnStore sorts a null of this type as (lib/record/sort_item.go Pad*Slice)
func padVal(ty string) tval {
	switch ty {
	case "int", "time":
		return tval{i: math.MinInt64}
	case "float":
		return tval{f: -math.MaxFloat64}
	case "string":
		return tval{s: ""}
	case "bool":
		return tval{b: false}
	}
	panic("type")
}

// cmpMixed: exact numeric comparison of a column value (type ty: float or int) with a literal of the other numeric type
func cmpMixed(ty string, x, lit tval) int {
	if ty == "float" { // lit is an integer
		return big.NewFloat(x.f).Cmp(new(big.Float).SetInt64(lit.i))
	}
	return new(big.Float).SetInt64(x.i).Cmp(big.NewFloat(lit.f)) // ty int, lit is a float
}

// litAs: the literal of an atom with LitTy, as a value of the column's type: today's reading (the bits of the literal read as
// the column's type) and the exact conversion (ok = false when the literal is not a value of the column's type)
func litAs(ty string, c *Cond) (cur tval, exact tval, ok bool) {
	lit := parseVal(c.LitTy, &c.Lit)
	if ty == "float" {
		return tval{f: math.Float64frombits(uint64(lit.i))}, tval{f: float64(lit.i)}, lit.i > -(1<<53) && lit.i < (1<<53)
	}
	v := int64(lit.f)
	return tval{i: int64(math.Float64bits(lit.f))}, tval{i: v}, math.Abs(lit.f) < (1<<53) && float64(v) == lit.f
}

func fieldType(ty string) int {
	switch ty {
	case "int", "time":
		return influx.Field_Type_Int
	case "float":
		return influx.Field_Type_Float
	case "string":
		return influx.Field_Type_String
	case "bool":
		return influx.Field_Type_Boolean
	}
	panic("type")
}

func appendVal(cv *record.ColVal, ty string, v tval) {
	switch ty {
	case "int", "time":
		if v.null {
			cv.AppendIntegerNull()
		} else {
			cv.AppendInteger(v.i)
		}
	case "float":
		if v.null {
			cv.AppendFloatNull()
		} else {
			cv.AppendFloat(v.f)
		}
	case "string":
		if v.null {
			cv.AppendStringNull()
		} else {
			cv.AppendString(v.s)
		}
	case "bool":
		if v.null {
			cv.AppendBooleanNull()
		} else {
			cv.AppendBoolean(v.b)
		}
	}
}

func readVal(cv *record.ColVal, ty string, row int) tval {
	if cv.IsNil(row) {
		return tval{null: true}
	}
	switch ty {
	case "int", "time":
		v, _ := cv.IntegerValue(row)
		return tval{i: v}
	case "float":
		v, _ := cv.FloatValue(row)
		return tval{f: v}
	case "string":
		b, _ := cv.BytesUnsafe(row)
		return tval{s: string(b)}
	default:
		v, _ := cv.BooleanValue(row)
		return tval{b: v}
	}
}

// timeCol: index of the key column of type "time" in the case being run (-1: none). Such a key column is the record's
// time column itself (a primary key / sort key may name "time"); set by newWorld.
var timeCol = -1

func keyName(i int) string {
	if i == timeCol {
		return "time"
	}
	return "k" + strconv.Itoa(i)
}

// ---------------------------------------------------------------------------------------------
// running one case on the real code

type world struct {
	in     *CaseIn
	nk     int
	rows   [][]tval // typed rows (key columns + v)
	pkSch  record.Schemas
	src    *record.Record
	rowsNum []int
	recCol []int // key column (and v at index nk) -> column of src
}

func newWorld(in *CaseIn) *world {
	w := &world{in: in, nk: len(in.Types)}
	for _, r := range in.Rows {
		tr := make([]tval, w.nk+1)
		for c := 0; c < w.nk; c++ {
			tr[c] = parseVal(in.Types[c], r[c])
		}
		tr[w.nk] = parseVal("int", r[w.nk])
		w.rows = append(w.rows, tr)
	}
	timeCol = -1
	for c, ty := range in.Types {
		if ty == "time" {
			timeCol = c
		}
	}
	// record layout: the key columns that are not the time column, then "v", then "time" (always the last column)
	var sch record.Schemas
	w.recCol = make([]int, w.nk+1)
	for c := 0; c < w.nk; c++ {
		f := record.Field{Name: keyName(c), Type: fieldType(in.Types[c])}
		w.pkSch = append(w.pkSch, f)
		if c != timeCol {
			w.recCol[c] = len(sch)
			sch = append(sch, f)
		}
	}
	w.recCol[w.nk] = len(sch)
	sch = append(sch, record.Field{Name: "v", Type: influx.Field_Type_Int})
	if timeCol >= 0 {
		w.recCol[timeCol] = len(sch)
	}
	sch = append(sch, record.Field{Name: "time", Type: influx.Field_Type_Int})
	w.src = record.NewRecord(sch, false)
	for ri, r := range w.rows {
		for c := 0; c <= w.nk; c++ {
			ty := "int"
			if c < w.nk {
				ty = in.Types[c]
			}
			appendVal(w.src.Column(w.recCol[c]), ty, r[c])
		}
		if timeCol < 0 {
			w.src.Column(len(sch) - 1).AppendInteger(int64(1000 + ri))
		}
	}
	if in.WriterSort {
		var order []record.PrimaryKey
		for c := 0; c < w.nk; c++ {
			order = append(order, record.PrimaryKey{Key: keyName(c), Type: int32(fieldType(in.Types[c]))})
		}
		hlp := record.NewSortHelper()
		w.src = hlp.SortForColumnStore(w.src, order, false, 0)
		// read the rows back in the writer's order
		for ri := range w.rows {
			for c := 0; c <= w.nk; c++ {
				ty := "int"
				if c < w.nk {
					ty = in.Types[c]
				}
				w.rows[ri][c] = readVal(w.src.Column(w.recCol[c]), ty, ri)
			}
		}
	}
	acc := 0
	for j, s := range in.Sizes {
		acc += s
		if j == len(in.Sizes)-1 {
			w.rowsNum = append(w.rowsNum, len(w.rows)-1)
		} else {
			w.rowsNum = append(w.rowsNum, acc)
		}
	}
	return w
}

func (w *world) build() (*record.Record, fragment.IndexFragment, error) {
	pk := make(record.Schemas, len(w.pkSch))
	copy(pk, w.pkSch)
	return sparseindex.NewPKIndexWriter().Build(w.src, pk, append([]int(nil), w.rowsNum...), colstore.DefaultTCLocation, 0)
}

func litExpr(ty string, lit string) influxql.Expr {
	v := parseVal(ty, &lit)
	switch ty {
	case "int", "time":
		return &influxql.IntegerLiteral{Val: v.i}
	case "float":
		return &influxql.NumberLiteral{Val: v.f}
	case "string":
		return &influxql.StringLiteral{Val: v.s}
	case "bool":
		return &influxql.BooleanLiteral{Val: v.b}
	}
	panic("type")
}

func varType(ty string) influxql.DataType {
	switch ty {
	case "int", "time":
		return influxql.Integer
	case "float":
		return influxql.Float
	case "string":
		return influxql.String
	case "bool":
		return influxql.Boolean
	}
	return influxql.Unknown
}

var opTok = map[string]influxql.Token{"=": influxql.EQ, "!=": influxql.NEQ, "<": influxql.LT, "<=": influxql.LTE,
	">": influxql.GT, ">=": influxql.GTE, "in": influxql.IN, "like": influxql.LIKE, "match": influxql.MATCHPHRASE,
	"ipinrange": influxql.IPINRANGE, "matchop": influxql.MATCH}

func isStrOp(op string) bool { return op == "like" || op == "match" || op == "ipinrange" || op == "matchop" }
var flipOp = map[string]string{"=": "=", "!=": "!=", "<": ">", "<=": ">=", ">": "<", ">=": "<="}

func (w *world) colType(col int) string {
	if col < 0 {
		return "int"
	}
	return w.in.Types[col]
}
func colName(col int) string {
	if col < 0 {
		return "v"
	}
	return keyName(col)
}

func (w *world) expr(c *Cond) influxql.Expr {
	var e influxql.Expr
	switch c.Op {
	case "and", "or":
		op := influxql.AND
		if c.Op == "or" {
			op = influxql.OR
		}
		e = &influxql.BinaryExpr{Op: influxql.Token(op), LHS: w.expr(c.Args[0]), RHS: w.expr(c.Args[1])}
	case "in":
		ty := w.colType(c.Col)
		set := &influxql.SetLiteral{Vals: map[interface{}]bool{}}
		for _, l := range c.Lits {
			v := parseVal(ty, &l)
			switch ty {
			case "int", "time":
				set.Vals[v.i] = true
			case "float":
				set.Vals[v.f] = true
			case "string":
				set.Vals[v.s] = true
			case "bool":
				set.Vals[v.b] = true
			}
		}
		e = &influxql.BinaryExpr{Op: influxql.IN, LHS: &influxql.VarRef{Val: colName(c.Col), Type: varType(ty)}, RHS: set}
	default:
		ty := w.colType(c.Col)
		vr := &influxql.VarRef{Val: colName(c.Col), Type: varType(ty)}
		var lit influxql.Expr
		if c.LitTy != "" {
			lit = litExpr(c.LitTy, c.Lit)
		} else {
			lit = litExpr(ty, c.Lit)
		}
		if c.Flip && !isStrOp(c.Op) {
			e = &influxql.BinaryExpr{Op: opTok[flipOp[c.Op]], LHS: lit, RHS: vr}
		} else {
			e = &influxql.BinaryExpr{Op: opTok[c.Op], LHS: vr, RHS: lit}
		}
	}
	if c.Paren {
		e = &influxql.ParenExpr{Expr: e}
	}
	return e
}

// brute-force evaluation of the condition on a row. A null never satisfies a comparison (the engine's row filter
// drops nulls for every operator, including !=); the non-key column and LIKE/IN on it are evaluated on the value.
func (w *world) eval(c *Cond, row []tval) bool { return w.evalMode(c, row, false) }

// evalMode: asEq evaluates MATCHPHRASE / IPINRANGE atoms as equality (the primary-key index's reading of them).
func (w *world) evalMode(c *Cond, row []tval, asEq bool) bool {
	switch c.Op {
	case "and":
		return w.evalMode(c.Args[0], row, asEq) && w.evalMode(c.Args[1], row, asEq)
	case "or":
		return w.evalMode(c.Args[0], row, asEq) || w.evalMode(c.Args[1], row, asEq)
	}
	col := c.Col
	if col < 0 {
		col = w.nk
	}
	ty := w.colType(c.Col)
	x := row[col]
	if x.null {
		return false
	}
	if c.Op == "in" {
		for _, l := range c.Lits {
			if cmpVal(ty, x, parseVal(ty, &l)) == 0 {
				return true
			}
		}
		return false
	}
	switch c.Op {
	case "match": // the engine's row predicate: token-bounded containment (lib/tokenizer SimpleTokenFinder)
		if asEq {
			return x.s == c.Lit
		}
		return phraseMatches(x.s, c.Lit)
	case "ipinrange": // the engine's row predicate
		if asEq {
			return x.s == c.Lit
		}
		return binaryfilterfunc.IsIpInRange(x.s, c.Lit)
	case "like", "matchop": // lib/binaryfilterfunc has no entry for these operators: operationMap yields 0 = GT
		return x.s > c.Lit
	}
	var k int
	if c.LitTy != "" {
		k = cmpMixed(ty, x, parseVal(c.LitTy, &c.Lit))
	} else {
		k = cmpVal(ty, x, parseVal(ty, &c.Lit))
	}
	switch c.Op {
	case "=":
		return k == 0
	case "!=":
		return k != 0
	case "<":
		return k < 0
	case "<=":
		return k <= 0
	case ">":
		return k > 0
	case ">=":
		return k >= 0
	}
	panic("op " + c.Op)
}

func (w *world) fragBounds() [][2]int {
	var res [][2]int
	acc := 0
	for _, s := range w.in.Sizes {
		res = append(res, [2]int{acc, acc + s})
		acc += s
	}
	return res
}

// encoders: int columns keep their value; other columns get the dense rank among all values of that column that
// occur in the rows or in literals of the condition (order preserving, equality preserving).
type encoder struct {
	ty   string
	vals []tval
}

func (e *encoder) add(v tval) {
	if !v.null {
		e.vals = append(e.vals, v)
	}
}
func (e *encoder) finish() {
	sort.Slice(e.vals, func(i, j int) bool { return cmpVal(e.ty, e.vals[i], e.vals[j]) < 0 })
	var u []tval
	for _, v := range e.vals {
		if len(u) == 0 || cmpVal(e.ty, u[len(u)-1], v) != 0 {
			u = append(u, v)
		}
	}
	e.vals = u
}
func (e *encoder) enc(v tval) *int64 {
	if v.null {
		return nil
	}
	if e.ty == "int" || e.ty == "time" {
		x := v.i
		return &x
	}
	i := sort.Search(len(e.vals), func(i int) bool { return cmpVal(e.ty, e.vals[i], v) >= 0 })
	x := int64(i)
	return &x
}

func collectLits(c *Cond, f func(*Cond)) {
	if c.Op == "and" || c.Op == "or" {
		collectLits(c.Args[0], f)
		collectLits(c.Args[1], f)
		return
	}
	f(c)
}

func guard(f func()) (pan string) {
	defer func() {
		if r := recover(); r != nil {
			pan = fmt.Sprint(r)
			if len(pan) > 160 {
				pan = pan[:160]
			}
		}
	}()
	f()
	return ""
}

func sameRecord(a, b *record.Record) bool {
	if a.ColNums() != b.ColNums() {
		return false
	}
	for i := range a.ColVals {
		x, y := &a.ColVals[i], &b.ColVals[i]
		if x.Len != y.Len || x.NilCount != y.NilCount || string(x.Val) != string(y.Val) || string(x.Bitmap) != string(y.Bitmap) {
			return false
		}
	}
	return true
}

func runCase(id int, in *CaseIn) *CaseOut {
	w := newWorld(in)
	out := &CaseOut{ID: id, In: in, NFrag: len(in.Sizes), Ranges: [][2]int{}, Oracle: []string{}}
	// encodings
	encs := make([]*encoder, w.nk)
	for c := 0; c < w.nk; c++ {
		encs[c] = &encoder{ty: in.Types[c]}
		out.IsInt = append(out.IsInt, in.Types[c] == "int" || in.Types[c] == "time")
		for _, r := range w.rows {
			encs[c].add(r[c])
		}
		encs[c].add(padVal(in.Types[c]))
	}
	// the condition the index sees: NewKeyCondition ANDs the query's time bounds to it; they are ordinary key atoms when
	// the time column is a key column (otherwise AlwaysTrue elements, which change no mark: mand (true,false) m = m)
	eff := in.Cond
	if in.TimeCond && timeCol >= 0 {
		eff = &Cond{Op: "and", Args: []*Cond{
			{Op: "and", Args: []*Cond{{Op: ">=", Col: timeCol, Lit: "0"}, {Op: "<=", Col: timeCol, Lit: strconv.FormatInt(1<<40, 10)}}},
			in.Cond}}
		out.EffCond = eff
	}
	collectLits(eff, func(a *Cond) {
		if a.Col >= 0 && a.Op != "in" && a.LitTy != "" {
			cur, exact, ok := litAs(in.Types[a.Col], a)
			if !(in.Types[a.Col] == "float" && math.IsNaN(cur.f)) {
				encs[a.Col].add(cur)
			}
			if ok {
				encs[a.Col].add(exact)
			}
			return
		}
		if a.Col >= 0 && a.Op != "in" {
			encs[a.Col].add(parseVal(in.Types[a.Col], &a.Lit))
		}
	})
	for c := 0; c < w.nk; c++ {
		encs[c].finish()
		out.Pads = append(out.Pads, *encs[c].enc(padVal(in.Types[c])))
	}
	for _, r := range w.rows {
		kr := make([]*int64, w.nk)
		for c := 0; c < w.nk; c++ {
			kr[c] = encs[c].enc(r[c])
		}
		out.Keys = append(out.Keys, kr)
	}
	collectLits(eff, func(a *Cond) {
		if a.Op == "in" {
			return
		}
		if a.Col >= 0 && a.LitTy != "" {
			cur, exact, ok := litAs(in.Types[a.Col], a)
			if !(in.Types[a.Col] == "float" && math.IsNaN(cur.f)) {
				a.EncCur = encs[a.Col].enc(cur)
			}
			if ok {
				a.Enc = encs[a.Col].enc(exact)
			}
		} else if a.Col >= 0 {
			a.Enc = encs[a.Col].enc(parseVal(in.Types[a.Col], &a.Lit))
		} else {
			v := parseVal("int", &a.Lit)
			a.Enc = &v.i
		}
	})
	// brute force
	fb := w.fragBounds()
	for _, b := range fb {
		m := false
		for r := b[0]; r < b[1]; r++ {
			if w.eval(eff, w.rows[r]) {
				m = true
			}
		}
		out.Match = append(out.Match, m)
		me := false
		for r := b[0]; r < b[1]; r++ {
			if w.evalMode(eff, w.rows[r], true) {
				me = true
			}
		}
		out.MatchEq = append(out.MatchEq, me)
	}
	out.MinMarks = 0
	if in.RPF > 0 {
		out.MinMarks = (in.MinRows + in.RPF - 1) / in.RPF
	}

	// condition
	var timeCond influxql.Expr
	if in.TimeCond {
		timeCond = &influxql.BinaryExpr{Op: influxql.AND,
			LHS: &influxql.BinaryExpr{Op: influxql.GTE, LHS: &influxql.VarRef{Val: "time", Type: influxql.Integer}, RHS: &influxql.IntegerLiteral{Val: 0}},
			RHS: &influxql.BinaryExpr{Op: influxql.LTE, LHS: &influxql.VarRef{Val: "time", Type: influxql.Integer}, RHS: &influxql.IntegerLiteral{Val: 1 << 40}}}
	}
	newCond := func() (kc *sparseindex.KeyConditionImpl, err error) {
		p := guard(func() {
			pk := make(record.Schemas, len(w.pkSch))
			copy(pk, w.pkSch)
			kc, err = sparseindex.NewKeyCondition(timeCond, w.expr(in.Cond), pk)
		})
		if p != "" {
			return nil, fmt.Errorf("panic: %s", p)
		}
		return
	}
	kc, err := newCond()
	if err != nil {
		out.CondErr = err.Error()
		return out
	}
	out.Used = kc.GetMaxKeyIndex() + 1
	out.Binary = kc.CanDoBinarySearch()

	// Scan on a fresh index
	pkRec, pkMark, err := w.build()
	if err != nil {
		out.ScanErr = "build: " + err.Error()
		return out
	}
	if int(pkMark.GetFragmentCount()) != out.NFrag {
		out.Oracle = append(out.Oracle, fmt.Sprintf("fragment count %d != %d", pkMark.GetFragmentCount(), out.NFrag))
	}
	if in.NoTail {
		cut := record.NewRecord(pkRec.Schema.Copy(), false)
		cut.AppendRec(pkRec, 0, pkRec.RowNums()-1)
		pkRec = cut
	}
	reader := sparseindex.NewPKIndexReader(in.RPF, in.Coarse, in.MinRows)
	var rgs fragment.FragmentRanges
	p := guard(func() { rgs, err = reader.Scan("verif.idx", pkRec, pkMark, kc) })
	if p != "" {
		out.ScanErr = "panic: " + p
		out.Oracle = append(out.Oracle, "scan panic: "+p)
	} else if err != nil {
		out.ScanErr = err.Error()
	} else {
		for _, r := range rgs {
			out.Ranges = append(out.Ranges, [2]int{int(r.Start), int(r.End)})
		}
		for f, m := range out.Match {
			if !m {
				continue
			}
			cov := false
			for _, r := range out.Ranges {
				if r[0] <= f && f < r[1] {
					cov = true
				}
			}
			if !cov {
				out.Oracle = append(out.Oracle, fmt.Sprintf("scan pruned fragment %d which contains a matching row", f))
			}
		}
	}
	if in.NoTail {
		pruned := 0
		for f := 0; f < out.NFrag; f++ {
			cov := false
			for _, r := range out.Ranges {
				cov = cov || (r[0] <= f && f < r[1])
			}
			if !cov {
				pruned++
			}
		}
		for _, m := range out.Match {
			out.Nontriv = out.Nontriv || (m && pruned > 0 && out.Used > 0 && out.ScanErr == "")
		}
		return out
	}
	if fresh, _, e2 := w.build(); e2 == nil && !sameRecord(fresh, pkRec) {
		out.Mutated = true
	}

	// MayBeInRange probes, each on a fresh index and a fresh condition
	probes := [][2]int{}
	for f := 0; f < out.NFrag; f++ {
		probes = append(probes, [2]int{f, f + 1})
	}
	probes = append(probes, in.Probes...)
	types := make([]int, w.nk)
	for c := 0; c < w.nk; c++ {
		types[c] = fieldType(in.Types[c])
	}
	for _, pr := range probes {
		res := -1
		kc2, e1 := newCond()
		idx, _, e2 := w.build()
		if e1 == nil && e2 == nil {
			used := kc2.GetMaxKeyIndex() + 1
			// index rows read through the reader's own createFieldRefFunc (hook VerifIndexRowRefs): a null cell is read
			// the way PKIndexReaderImpl.Scan reads it
			L := reader.VerifIndexRowRefs(idx, used, pr[0])
			R := reader.VerifIndexRowRefs(idx, used, pr[1])
			var ok bool
			var e3 error
			p := guard(func() { ok, e3 = kc2.MayBeInRange(used, L, R, types) })
			if p != "" {
				res = -2
			} else if e3 == nil {
				if ok {
					res = 1
				} else {
					res = 0
				}
			}
			// a single call rewrites row s upwards and row e downwards; within one Scan the two can cancel out, so the
			// index is also compared with a fresh Build after every single call
			if fresh, _, e4 := w.build(); e4 == nil && !sameRecord(fresh, idx) {
				out.Mutated = true
			}
		}
		out.MayBe = append(out.MayBe, res)
		if res == 0 {
			for f := pr[0]; f < pr[1]; f++ {
				if out.Match[f] {
					out.Oracle = append(out.Oracle, fmt.Sprintf("may_be(%d,%d)=false but fragment %d contains a matching row", pr[0], pr[1], f))
					break
				}
			}
		}
	}

	// checkInAnyRange with pseudo-random call-back marks: ties the OR-combination / early exits / rectangle
	// generation of the code to the model's ciar independently of any condition
	{
		hb, _ := json.Marshal(in)
		var h uint64 = 1469598103934665603
		for _, b := range hb {
			h = (h ^ uint64(b)) * 1099511628211
		}
		rnd := gen.New(h)
		var cps [][2]int
		cps = append(cps, in.Probes...)
		for f := 0; f < out.NFrag && f < 3; f++ {
			cps = append(cps, [2]int{f, f + 1})
		}
		if len(cps) > 5 {
			cps = cps[:5]
		}
		for _, pr := range cps {
			kc2, e1 := newCond()
			idx, _, e2 := w.build()
			if e1 != nil || e2 != nil || out.Used == 0 {
				continue
			}
			used := out.Used
			// index rows read through the reader's own createFieldRefFunc (hook VerifIndexRowRefs): a null cell is read
			// the way PKIndexReaderImpl.Scan reads it
			L := reader.VerifIndexRowRefs(idx, used, pr[0])
			R := reader.VerifIndexRowRefs(idx, used, pr[1])
			cp := CbProbe{S: pr[0], E: pr[1], Table: []CbEntry{}, Final: [2]int{-1, -1}}
			end := func(c int, f *sparseindex.FieldRef) (*int64, int) {
				if f.IsNegativeInfinity() {
					return nil, -1
				}
				if f.IsPositiveInfinity() {
					return nil, 1
				}
				col, row := sparseindex.VerifFieldCell(f)
				if col == nil || col.IsNil(row) {
					return nil, 1
				}
				var v tval
				switch in.Types[c] {
				case "int", "time":
					v.i, _ = col.IntegerValue(row)
				case "float":
					v.f, _ = col.FloatValue(row)
				case "string":
					b, _ := col.BytesUnsafe(row)
					v.s = string(b)
				case "bool":
					v.b, _ = col.BooleanValue(row)
				}
				return encs[c].enc(v), 0
			}
			cb := func(rgs []*sparseindex.Range) (sparseindex.Mark, error) {
				e := CbEntry{T: rnd.Bool(), F: rnd.Bool()}
				for c, rg := range rgs {
					l, r, li, ri := sparseindex.VerifRangeEnds(rg)
					lo, lok := end(c, l)
					hi, hik := end(c, r)
					e.Lo, e.LoK, e.Hi, e.HiK = append(e.Lo, lo), append(e.LoK, lok), append(e.Hi, hi), append(e.HiK, hik)
					e.LI, e.RI = append(e.LI, li), append(e.RI, ri)
				}
				cp.Table = append(cp.Table, e)
				return sparseindex.NewMark(e.T, e.F), nil
			}
			var m sparseindex.Mark
			var e3 error
			p := guard(func() { m, e3 = kc2.VerifCheckInAnyRange(used, L, R, types, cb) })
			if p != "" {
				cp.Final = [2]int{-2, -2}
			} else if e3 == nil {
				t, f := markBits(m)
				cp.Final = [2]int{b2i(t), b2i(f)}
			}
			out.CbProbes = append(out.CbProbes, cp)
		}
	}

	// CheckInRange on the min/max rectangle of every fragment (the way a min-max skip index uses the condition)
	for f, b := range fb {
		used := out.Used
		if used == 0 {
			break
		}
		mm := record.NewRecord(w.pkSch[:used].Copy(), false)
		rect := Rect{}
		allNull := make([]bool, used)
		for c := 0; c < used; c++ {
			ty := in.Types[c]
			var mn, mx tval
			first := true
			for r := b[0]; r < b[1]; r++ {
				x := w.rows[r][c]
				if x.null {
					continue
				}
				if first || cmpVal(ty, x, mn) < 0 {
					mn = x
				}
				if first || cmpVal(ty, x, mx) > 0 {
					mx = x
				}
				first = false
			}
			allNull[c] = first
			if first {
				mn, mx = tval{null: true}, tval{null: true}
			}
			appendVal(mm.Column(c), ty, mn)
			appendVal(mm.Column(c), ty, mx)
			lo, hi := encs[c].enc(mn), encs[c].enc(mx)
			lok, hik := 0, 0
			// exactly the rectangle of coq/C20/MinMax.v mm_rect: [min, max] of the non-null values, nulls ignored (a null
			// satisfies no comparison); a column without any value: the point +inf
			if allNull[c] {
				lo, hi, lok, hik = nil, nil, 1, 1
			}
			rect.Lo, rect.LoK, rect.Hi, rect.HiK = append(rect.Lo, lo), append(rect.LoK, lok), append(rect.Hi, hi), append(rect.HiK, hik)
		}
		cols := make([]*sparseindex.ColumnRef, used)
		for c := 0; c < used; c++ {
			cols[c] = sparseindex.NewColumnRef(keyName(c), types[c], mm.Column(c))
		}
		rgs := make([]*sparseindex.Range, used)
		for c := 0; c < used; c++ {
			l := sparseindex.NewFieldRef(cols, c, 0)
			r := sparseindex.NewFieldRef(cols, c, 1)
			if allNull[c] {
				l.SetPositiveInfinity()
			}
			if allNull[c] {
				r.SetPositiveInfinity()
			}
			rgs[c] = sparseindex.NewRange(l, r, true, true)
		}
		mk := [2]int{-1, -1}
		kc3, e1 := newCond()
		if e1 == nil {
			var m sparseindex.Mark
			var e3 error
			p := guard(func() { m, e3 = kc3.CheckInRange(rgs, types) })
			if p != "" {
				mk = [2]int{-2, -2}
			} else if e3 == nil {
				t, fl := markBits(m)
				mk = [2]int{b2i(t), b2i(fl)}
			}
		}
		out.Rects = append(out.Rects, rect)
		out.Marks = append(out.Marks, mk)
		if mk[0] == 0 && out.Match[f] {
			out.Oracle = append(out.Oracle, fmt.Sprintf("CheckInRange(min/max of fragment %d).canBeTrue=false but the fragment contains a matching row", f))
		}
	}

	// non-trivial: the condition constrains at least one key column, at least one fragment matches and at least one
	// fragment was pruned (so both outcomes of the decision occur in the case)
	pruned := 0
	for f := 0; f < out.NFrag; f++ {
		cov := false
		for _, r := range out.Ranges {
			if r[0] <= f && f < r[1] {
				cov = true
			}
		}
		if !cov {
			pruned++
		}
	}
	anyMatch := false
	for _, m := range out.Match {
		anyMatch = anyMatch || m
	}
	out.Nontriv = out.Used > 0 && anyMatch && pruned > 0 && out.ScanErr == ""
	return out
}

// markBits recovers the two unexported bits of a Mark by comparing with the four possible values.
func markBits(m sparseindex.Mark) (bool, bool) {
	for _, t := range []bool{false, true} {
		for _, f := range []bool{false, true} {
			if m == sparseindex.NewMark(t, f) {
				return t, f
			}
		}
	}
	panic("mark")
}

func b2i(b bool) int {
	if b {
		return 1
	}
	return 0
}

// ---------------------------------------------------------------------------------------------
// generation

var intDom = []int64{-3, -1, 0, 1, 2, 3, 4, 5, 7, 9}
var intEdge = []int64{math.MaxInt64, math.MinInt64, math.MaxInt64 - 1, math.MinInt64 + 1}
var floatDom = []float64{-2.5, -1, 0, 0.5, 1, 1.5, 2, 3.25, 1e300, -1e300, math.Inf(1), math.Inf(-1), 5e-324,
	math.Copysign(0, -1), -math.MaxFloat64, math.MaxFloat64, -5e-324}
var strDom = []string{"", "A", "B", "C", "D", "E", "Da", "a", "ab", "b", "\x00", "\xff", "é", "日本", "日", "a\u00e9", "\U0001F600", "z"}

// a key column of type "time" is the record's time column (never null); values inside the time bounds 0 .. 1<<40 that a
// time condition of the query carries, duplicates allowed
var timeDom = []int64{0, 1, 2, 5, 1000, 1001, 1 << 20, 1<<40 - 1, 1 << 40, 7, 8, 9}

var textMode bool

// litMode: comparisons of a float key column with integer literals / of an integer key column with number literals
var litMode bool
var textDom = []string{"hello", "hello world", "world", "GET /a", "a b c", "10.0.0.5", "10.0.1.7", "192.168.1.1", "", "zeta", "hello,world", "world hello"}
var textLits = []string{"hello", "world", "a", "GET", "b c", "zeta", "10.0.0.0/24", "10.0.0.0/8", "192.168.1.1/32", "hello world", "10.0.0.5"}

func genVal(r *gen.Rand, ty string, small int) tval {
	if textMode && ty == "string" {
		return tval{s: textDom[r.Intn(len(textDom))]}
	}
	switch ty {
	case "time":
		return tval{i: timeDom[r.Intn(min(small, len(timeDom)))]}
	case "int":
		if r.Chance(1, 25) {
			return tval{i: gen.Pick(r, intEdge)}
		}
		return tval{i: intDom[r.Intn(min(small, len(intDom)))]}
	case "float":
		if r.Chance(1, 6) { // edge values: +-Inf, denormals, -0.0, +-MaxFloat64 (the writer pads a null with -MaxFloat64)
			return tval{f: floatDom[8+r.Intn(len(floatDom)-8)]}
		}
		return tval{f: floatDom[r.Intn(min(small+1, len(floatDom)))]}
	case "string":
		if r.Chance(1, 6) { // \x00, \xff, multi-byte characters
			return tval{s: strDom[10+r.Intn(len(strDom)-10)]}
		}
		return tval{s: strDom[r.Intn(min(small+1, len(strDom)))]}
	case "bool":
		return tval{b: r.Bool()}
	}
	panic("type")
}

func genCase(r *gen.Rand) *CaseIn {
	in := &CaseIn{}
	nk := 1 + r.Intn(3)
	if r.Chance(1, 3) {
		nk = 2
	}
	tys := []string{"int", "float", "string", "bool"}
	for c := 0; c < nk; c++ {
		in.Types = append(in.Types, gen.Pick(r, tys))
	}
	if r.Chance(1, 6) {
		in.Types[r.Intn(nk)] = "time" // the sort key / primary key names the time column
	}
	if textMode {
		in.Types[r.Intn(nk)] = "string"
	}
	n := 1 + r.Intn(36)
	if r.Chance(1, 10) {
		n = 1 + r.Intn(4)
	}
	nullPct := 0
	if r.Chance(2, 5) {
		nullPct = 5 + r.Intn(30)
	}
	small := make([]int, nk)
	for c := range small {
		small[c] = 2 + r.Intn(8)
	}
	rows := make([][]tval, n)
	for i := range rows {
		row := make([]tval, nk+1)
		for c := 0; c < nk; c++ {
			if r.Intn(100) < nullPct && in.Types[c] != "time" {
				row[c] = tval{null: true}
			} else {
				row[c] = genVal(r, in.Types[c], small[c])
			}
		}
		row[nk] = tval{i: int64(r.Intn(4))}
		rows[i] = row
	}
	// the rows are put into the order of the column store's flush sort by the REAL record.SortHelper.SortForColumnStore
	// (a null key sorts as the smallest value the writer knows for the type, lib/record/sort_item.go Pad*Slice); this is
	// the only order a primary-index record is ever built from
	{
		tmp := &CaseIn{Types: in.Types, WriterSort: true}
		for _, row := range rows {
			sr := make([]*string, nk+1)
			for c := 0; c < nk; c++ {
				sr[c] = fmtVal(in.Types[c], row[c])
			}
			sr[nk] = fmtVal("int", row[nk])
			tmp.Rows = append(tmp.Rows, sr)
		}
		rows = newWorld(tmp).rows
		in.WriterSort = true
	}
	for _, row := range rows {
		sr := make([]*string, nk+1)
		for c := 0; c < nk; c++ {
			sr[c] = fmtVal(in.Types[c], row[c])
		}
		sr[nk] = fmtVal("int", row[nk])
		in.Rows = append(in.Rows, sr)
	}
	// fragment sizes
	switch r.Intn(3) {
	case 0: // fixed size with a short last fragment
		sz := 1 + r.Intn(6)
		for left := n; left > 0; left -= sz {
			in.Sizes = append(in.Sizes, min(sz, left))
		}
		in.RPF = sz
	default:
		for left := n; left > 0; {
			s := 1 + r.Intn(5)
			if s > left {
				s = left
			}
			in.Sizes = append(in.Sizes, s)
			left -= s
		}
		in.RPF = 1 + r.Intn(5)
	}
	nf := len(in.Sizes)
	// values that sit on fragment boundaries
	var bnd []int
	acc := 0
	for _, s := range in.Sizes {
		bnd = append(bnd, acc)
		acc += s
	}
	bnd = append(bnd, n-1)
	// focus mode: most literals are taken from the two index rows that delimit one fragment range, so that the
	// condition is decided differently by the middle / left-bound / right-bound rectangles of that range
	focus := r.Chance(2, 5)
	fs := r.Intn(len(bnd) - 1)
	focusRows := []int{bnd[fs], bnd[fs+1]}
	pickLit := func(col int) string {
		ty := "int"
		c := col
		if col >= 0 {
			ty = in.Types[col]
		} else {
			c = nk
		}
		for try := 0; try < 4; try++ {
			var v tval
			switch k := r.Intn(10); {
			case focus && k < 8:
				v = rows[focusRows[r.Intn(2)]][c]
			case k < 6:
				v = rows[bnd[r.Intn(len(bnd))]][c]
			case k < 8:
				v = rows[r.Intn(n)][c]
			default:
				v = genVal(r, ty, 10)
			}
			if !v.null {
				return *fmtVal(ty, v)
			}
		}
		return *fmtVal(ty, genVal(r, ty, 10))
	}
	ops := []string{"=", "!=", "<", "<=", ">", ">=", "=", "!="}
	var genCond func(depth int) *Cond
	genCond = func(depth int) *Cond {
		if depth > 0 && r.Chance(3, 5) {
			op := "and"
			if r.Bool() {
				op = "or"
			}
			return &Cond{Op: op, Args: []*Cond{genCond(depth - 1), genCond(depth - 1)}, Paren: r.Chance(1, 3)}
		}
		col := r.Intn(nk)
		if r.Chance(1, 3) {
			col = 0
		}
		if r.Chance(1, 8) {
			col = -1
		}
		if textMode && col >= 0 && in.Types[col] == "string" && r.Chance(3, 5) {
			op := gen.Pick(r, []string{"match", "match", "ipinrange", "like", "matchop"})
			lit := gen.Pick(r, textLits)
			if op == "ipinrange" {
				lit = gen.Pick(r, []string{"10.0.0.0/24", "10.0.0.0/8", "192.168.1.1/32", "10.0.1.0/24"})
			}
			return &Cond{Op: op, Col: col, Lit: lit, Paren: r.Chance(1, 8)}
		}
		if litMode && col >= 0 && (in.Types[col] == "float" || in.Types[col] == "int") && r.Chance(3, 5) {
			c := &Cond{Op: gen.Pick(r, ops), Col: col, Flip: r.Chance(1, 6)}
			if in.Types[col] == "float" {
				c.LitTy = "int"
				// non-negative only: the bits of a negative int64 are a NaN when read as a float (today's reading), and a NaN
				// bound answers "may be true, may be false" for every range - a corner the model does not express
				c.Lit = strconv.FormatInt(gen.Pick(r, []int64{0, 1, 2, 3, 4, 7, 1, 2}), 10)
			} else {
				c.LitTy = "float"
				c.Lit = strconv.FormatFloat(gen.Pick(r, []float64{-2.5, -1, 0, 0.5, 1, 1.5, 2, 3, 4.5, 7}), 'g', -1, 64)
			}
			return c
		}
		return &Cond{Op: gen.Pick(r, ops), Col: col, Lit: pickLit(col), Flip: r.Chance(1, 6), Paren: r.Chance(1, 8)}
	}
	in.Cond = genCond(r.Intn(4))
	// point lookups: a conjunction of equalities on EVERY key column with the values of one stored row (the commonest
	// query form; with three key columns it drives the exclusion search through the left-bound and the right-bound
	// rectangle of one range with the same shared range slice)
	if !textMode && !litMode && r.Chance(1, 6) {
		row := rows[r.Intn(n)]
		okRow := true
		for c := 0; c < nk; c++ {
			if row[c].null {
				okRow = false
			}
		}
		if okRow {
			var pc *Cond
			for c := 0; c < nk; c++ {
				eq := &Cond{Op: "=", Col: c, Lit: *fmtVal(in.Types[c], row[c])}
				if pc == nil {
					pc = eq
				} else {
					pc = &Cond{Op: "and", Args: []*Cond{pc, eq}}
				}
			}
			in.Cond = pc
		}
	}
	in.TimeCond = r.Chance(1, 6)
	in.Coarse = gen.Pick(r, []int{2, 2, 3, 4, 8, 8, 16})
	in.MinRows = gen.Pick(r, []int{0, 0, 1, in.RPF, 2 * in.RPF, 3*in.RPF + 1, 100})
	for k := 0; k < 3 && nf > 1; k++ {
		s := r.Intn(nf)
		e := s + 1 + r.Intn(nf-s)
		in.Probes = append(in.Probes, [2]int{s, e})
	}
	in.Probes = append(in.Probes, [2]int{0, nf})
	return in
}

// special streams: IN (the primary-key condition builder has no set support), coarse index <= 1
func genSpecial(r *gen.Rand, base *CaseIn) *CaseIn {
	in := *base
	switch r.Intn(3) {
	case 0:
		col := r.Intn(len(in.Types))
		ty := in.Types[col]
		var lits []string
		for k := 0; k < 1+r.Intn(3); k++ {
			lits = append(lits, *fmtVal(ty, genVal(r, ty, 10)))
		}
		a := &Cond{Op: "in", Col: col, Lits: lits}
		if r.Bool() {
			in.Cond = &Cond{Op: gen.Pick(r, []string{"and", "or"}), Args: []*Cond{a, base.Cond}}
		} else {
			in.Cond = a
		}
		in.Tag = "in"
	case 1:
		in.Coarse = r.Intn(2)
		in.Tag = "coarse"
	default:
		in.Tag = "plain"
	}
	return &in
}

func workDir() string {
	if d := os.Getenv("VERIF_WORK"); d != "" {
		return d
	}
	return os.TempDir()
}

func main() {
	if len(os.Args) >= 3 && os.Args[1] == "replay" {
		for i, f := range os.Args[2:] {
			b, err := os.ReadFile(f)
			if err != nil {
				fmt.Fprintln(os.Stderr, err)
				os.Exit(2)
			}
			var kind struct {
				In struct {
					Kind string `json:"kind"`
				} `json:"in"`
			}
			_ = json.Unmarshal(b, &kind)
			if kind.In.Kind == "multi" {
				var mh struct {
					In *MultiIn `json:"in"`
				}
				if err := json.Unmarshal(b, &mh); err != nil || mh.In == nil {
					fmt.Fprintln(os.Stderr, "bad case file", f, err)
					os.Exit(2)
				}
				gen.Emit(runMultiCase(i, mh.In, workDir()))
				continue
			}
			if kind.In.Kind == "bloom" {
				var bh struct {
					In *BloomIn `json:"in"`
				}
				if err := json.Unmarshal(b, &bh); err != nil || bh.In == nil {
					fmt.Fprintln(os.Stderr, "bad case file", f, err)
					os.Exit(2)
				}
				gen.Emit(runBloomCase(i, bh.In, workDir()))
				continue
			}
			var holder struct {
				In *CaseIn `json:"in"`
			}
			if err := json.Unmarshal(b, &holder); err != nil || holder.In == nil {
				fmt.Fprintln(os.Stderr, "bad case file", f, err)
				os.Exit(2)
			}
			gen.Emit(runCase(i, holder.In))
		}
		return
	}
	n := 300
	if len(os.Args) >= 3 {
		n, _ = strconv.Atoi(os.Args[2])
	}
	if len(os.Args) >= 3 && os.Args[1] == "enum" {
		enumerate(n)
		return
	}
	if len(os.Args) >= 2 && os.Args[1] == "grouped" {
		r := gen.FromEnv(2022)
		for i := 0; i < n; i++ {
			in := genCase(r)
			if i%3 == 0 { // more rows per key group: groups that span several segments of 8 rows
				for len(in.Rows) < 40 {
					in.Rows = append(in.Rows, in.Rows[r.Intn(len(in.Rows))])
				}
			}
			in.Tag = "grouped"
			in.TimeCond = false
			gen.Emit(runGroupedCase(i, in))
		}
		return
	}
	if len(os.Args) >= 2 && os.Args[1] == "multi" {
		r := gen.FromEnv(2021)
		for i := 0; i < n; i++ {
			gen.Emit(runMultiCase(i, genMultiCase(r), workDir()))
		}
		return
	}
	if len(os.Args) >= 2 && os.Args[1] == "bloom" {
		probeMinMaxSet()
		r := gen.FromEnv(2020)
		for i := 0; i < n; i++ {
			gen.Emit(runBloomCase(i, genBloomCase(r), workDir()))
		}
		nv := 4
		if len(os.Args) >= 4 {
			nv, _ = strconv.Atoi(os.Args[3])
		}
		for i := 0; i < nv; i++ {
			gen.Emit(runBloomCase(n+i, genVerticalCase(r), workDir()))
		}
		return
	}
	r := gen.FromEnv(20)
	for i := 0; i < n; i++ {
		textMode = i%8 == 7
		in := genCase(r)
		if textMode {
			hasStr := false
			for _, ty := range in.Types {
				hasStr = hasStr || ty == "string"
			}
			if !hasStr {
				textMode = false
				in = genCase(r)
			} else {
				in.Tag = "strop"
			}
		}
		textMode = false
		if i%10 == 3 && in.Tag == "" {
			litMode = true
			lin := genCase(r)
			litMode = false
			hasLit := false
			collectLits(lin.Cond, func(a *Cond) { hasLit = hasLit || a.LitTy != "" })
			if hasLit {
				in = lin
				in.Tag = "litmix"
			}
		}
		if i%12 == 7 && in.Tag == "" {
			in.NoTail = true
			in.Tag = "notail"
		}
		if i%25 == 24 && in.Tag == "" {
			in = genSpecial(r, in)
		}
		gen.Emit(runCase(i, in))
	}
}

// enumerate: bounded-exhaustive stream (thorough tier). One generated record with nk key columns; every condition tree of
// depth <= 3 (shapes A, A.B, (A.B).C, A.(B.C) with . in {AND, OR}) over the atoms  column op value  where value is the
// column's value in one of the two index rows that delimit one fragment range and op in a small set.
func enumerate(nk int) {
	r := gen.FromEnv(uint64(7700 + nk))
	var base *CaseIn
	for {
		base = genCase(r)
		if len(base.Types) == nk && len(base.Rows) >= 12 && len(base.Sizes) >= 3 && base.Tag == "" {
			break
		}
	}
	nf := len(base.Sizes)
	fs := r.Intn(nf - 1)
	var bnd []int
	acc := 0
	for _, s := range base.Sizes {
		bnd = append(bnd, acc)
		acc += s
	}
	bnd = append(bnd, len(base.Rows)-1)
	ops := []string{"=", "!=", "<", ">="}
	if nk >= 3 {
		ops = []string{"=", "!=", ">"}
	}
	var atoms []*Cond
	for c := 0; c < nk; c++ {
		seen := map[string]bool{}
		for _, row := range []int{bnd[fs], bnd[fs+1]} {
			v := base.Rows[row][c]
			if v == nil || seen[*v] {
				continue
			}
			seen[*v] = true
			for _, op := range ops {
				atoms = append(atoms, &Cond{Op: op, Col: c, Lit: *v})
			}
		}
	}
	base.Probes = [][2]int{{fs, fs + 1}, {0, nf}}
	base.TimeCond = false
	base.Tag = "enum"
	id := 0
	emit := func(c *Cond) {
		in := *base
		// deep copy of the tree: runCase writes the encodings into the atoms
		var cp func(x *Cond) *Cond
		cp = func(x *Cond) *Cond {
			y := *x
			y.Enc = nil
			if len(x.Args) > 0 {
				y.Args = []*Cond{cp(x.Args[0]), cp(x.Args[1])}
			}
			return &y
		}
		in.Cond = cp(c)
		gen.Emit(runCase(id, &in))
		id++
	}
	bin := func(op string, a, b *Cond) *Cond { return &Cond{Op: op, Args: []*Cond{a, b}} }
	for _, a := range atoms {
		emit(a)
	}
	for _, o1 := range []string{"and", "or"} {
		for _, a := range atoms {
			for _, b := range atoms {
				emit(bin(o1, a, b))
				for _, o2 := range []string{"and", "or"} {
					if o1 == o2 {
						continue // associativity: (a.b).c with the same connective is covered by the mixed shapes below only once
					}
					for _, c := range atoms {
						emit(bin(o2, bin(o1, a, b), c))
						emit(bin(o2, c, bin(o1, a, b)))
					}
				}
			}
		}
	}
	for _, o := range []string{"and", "or"} {
		for _, a := range atoms {
			for _, b := range atoms {
				for _, c := range atoms {
					emit(bin(o, bin(o, a, b), c))
				}
			}
		}
	}
}
