// C13 black-box harness: starts the repository's ts-server (binary built from the working tree) on private ports under
// VERIF_WORK, runs generated histories - writes (in memory, flushed, out of order, two shard groups), then a drop (DROP SERIES
// with a predicate selecting none / some / all series, DROP MEASUREMENT + re-creation, DROP RETENTION POLICY, DROP DATABASE),
// further writes, flush + compaction, kill -9 + restart - and after every step asks the full read-shape matrix over HTTP.
// DIRECT ORACLE: a reference map of the rows that must be visible (dropped data absent from every read shape, everything
// else unchanged, nothing reappears, writes after a drop behave as writes to a fresh series). One JSON object per history.
package main

import (
	"encoding/json"
	"errors"
	"fmt"
	"io"
	"net/http"
	"net/url"
	"os"
	"os/exec"
	"path/filepath"
	"sort"
	"strconv"
	"strings"
	"sync"
	"syscall"
	"time"

	"verifharness/internal/gen"
)

// ---------------------------------------------------------------------------------------------------------
// server

type server struct {
	bin, conf, dir string
	port           int
	cmd            *exec.Cmd
	base           string
	hc             *http.Client
}

func newServer(bin, confTemplate, dir string, port int) (*server, error) {
	raw, err := os.ReadFile(confTemplate)
	if err != nil {
		return nil, err
	}
	txt := strings.ReplaceAll(string(raw), "/tmp/openGemini", filepath.Join(dir, "og"))
	ports := map[string]int{"8086": 0, "8091": 1, "8092": 2, "8088": 3, "8087": 4, "8400": 5, "8401": 6, "8305": 7, "8010": 8, "8011": 9}
	for from, off := range ports {
		txt = strings.ReplaceAll(txt, "127.0.0.1:"+from, fmt.Sprintf("127.0.0.1:%d", port+off))
	}
	txt = strings.Replace(txt, "store-enabled = true", "store-enabled = false", 1)
	conf := filepath.Join(dir, "ts-server.conf")
	if err := os.WriteFile(conf, []byte(txt), 0o644); err != nil {
		return nil, err
	}
	return &server{bin: bin, conf: conf, dir: dir, port: port, base: fmt.Sprintf("http://127.0.0.1:%d", port),
		hc: &http.Client{Timeout: 120 * time.Second}}, nil
}

func (s *server) start() error {
	logf, err := os.OpenFile(filepath.Join(s.dir, "ts-server.log"), os.O_CREATE|os.O_APPEND|os.O_WRONLY, 0o644)
	if err != nil {
		return err
	}
	// nothing may be listening on our port: talking to somebody else's server (another run of this check) would mix two histories
	if resp, err := s.hc.Get(s.base + "/ping"); err == nil {
		resp.Body.Close()
		return fmt.Errorf("port %d is in use by another server", s.port)
	}
	cmd := exec.Command(s.bin, "-config", s.conf)
	cmd.Dir = s.dir
	cmd.Stdout, cmd.Stderr = logf, logf
	cmd.Env = append(os.Environ(), "HOME="+s.dir, "TMPDIR="+s.dir)
	// own process group: only processes this harness started are ever signalled
	cmd.SysProcAttr = &syscall.SysProcAttr{Setpgid: true, Pdeathsig: syscall.SIGKILL}
	if err := cmd.Start(); err != nil {
		return err
	}
	s.cmd = cmd
	deadline := time.Now().Add(90 * time.Second)
	for time.Now().Before(deadline) {
		resp, err := s.hc.Get(s.base + "/ping")
		if err == nil {
			resp.Body.Close()
			if resp.StatusCode < 300 {
				// the store registers with the meta service a little later: wait until a statement goes through
				for i := 0; i < 100; i++ {
					if _, err := s.query("", "show databases"); err == nil {
						return nil
					}
					time.Sleep(200 * time.Millisecond)
				}
				return nil
			}
		}
		time.Sleep(200 * time.Millisecond)
	}
	s.kill()
	return fmt.Errorf("ts-server did not become ready on %s", s.base)
}

// kill -9 of the server this harness started (its own process group), never by name
func (s *server) kill() {
	if s == nil || s.cmd == nil || s.cmd.Process == nil {
		return
	}
	_ = syscall.Kill(-s.cmd.Process.Pid, syscall.SIGKILL)
	_, _ = s.cmd.Process.Wait()
	s.cmd = nil
}

type qSeries struct {
	Name    string            `json:"name"`
	Tags    map[string]string `json:"tags"`
	Columns []string          `json:"columns"`
	Values  [][]any           `json:"values"`
}
type qResult struct {
	Series []qSeries `json:"series"`
	Error  string    `json:"error"`
}
type qResp struct {
	Results []qResult `json:"results"`
	Error   string    `json:"error"`
}

// query returns the series of the single statement; an error in the answer is returned as error text
func (s *server) query(db, q string) ([]qSeries, error) {
	v := url.Values{"q": {q}, "epoch": {"ns"}}
	if db != "" {
		v.Set("db", db)
	}
	resp, err := s.hc.PostForm(s.base+"/query", v)
	if err != nil {
		if isTimeout(err) {
			return nil, fmt.Errorf("harness-timeout: the statement was not answered within %s (its fate is unknown): %v", s.hc.Timeout, err)
		}
		return nil, err
	}
	defer resp.Body.Close()
	b, _ := io.ReadAll(resp.Body)
	var r qResp
	dec := json.NewDecoder(strings.NewReader(string(b)))
	dec.UseNumber()
	if err := dec.Decode(&r); err != nil {
		return nil, fmt.Errorf("status %d: unparsable answer %.200q", resp.StatusCode, b)
	}
	if r.Error != "" {
		return nil, fmt.Errorf("%s", r.Error)
	}
	if len(r.Results) == 0 {
		return nil, nil
	}
	if r.Results[0].Error != "" {
		return nil, fmt.Errorf("%s", r.Results[0].Error)
	}
	return r.Results[0].Series, nil
}

// write sends a batch; an attempt the server refused (or that could not be delivered) is sent again. It returns the refused
// attempts: the server may still apply such an attempt LATER (its coordinator retries towards the store on its own), so a
// history with a refused attempt of a write is not judged - rows of that write landing after a drop are new writes, not
// dropped data coming back.
func (s *server) write(db, rp, body string) (refused []string, err error) {
	u := s.base + "/write?db=" + url.QueryEscape(db)
	if rp != "" {
		u += "&rp=" + url.QueryEscape(rp)
	}
	var last error
	for i := 0; i < 20; i++ {
		resp, err := s.hc.Post(u, "text/plain", strings.NewReader(body))
		if err != nil {
			if isTimeout(err) {
				// the request may still be executed by the server later: never send it again
				return refused, fmt.Errorf("harness-timeout: the write was not answered within %s (its fate is unknown): %v", s.hc.Timeout, err)
			}
			last = err
			refused = append(refused, err.Error())
			time.Sleep(300 * time.Millisecond)
			continue
		}
		b, _ := io.ReadAll(resp.Body)
		resp.Body.Close()
		if resp.StatusCode < 300 {
			return refused, nil
		}
		last = fmt.Errorf("write status %d: %.300s", resp.StatusCode, b)
		refused = append(refused, last.Error())
		time.Sleep(300 * time.Millisecond)
	}
	return refused, last
}

func isTimeout(err error) bool {
	var ue *url.Error
	return errors.As(err, &ue) && ue.Timeout()
}

func (s *server) ctrl(params string) error {
	resp, err := s.hc.Post(s.base+"/debug/ctrl?"+params, "text/plain", nil)
	if err != nil {
		return err
	}
	defer resp.Body.Close()
	io.Copy(io.Discard, resp.Body)
	if resp.StatusCode >= 300 {
		return fmt.Errorf("ctrl %s: status %d", params, resp.StatusCode)
	}
	return nil
}

// ---------------------------------------------------------------------------------------------------------
// histories and the reference

type SeriesKey struct {
	Mst  string            `json:"mst"`
	Tags map[string]string `json:"tags"` // host is unique per series within a measurement
}

func (k SeriesKey) id() string {
	ks := make([]string, 0, len(k.Tags))
	for t := range k.Tags {
		ks = append(ks, t)
	}
	sort.Strings(ks)
	s := k.Mst
	for _, t := range ks {
		s += "," + t + "=" + k.Tags[t]
	}
	return s
}

type Point struct {
	S int   `json:"s"` // index into History.Series
	T int64 `json:"t"` // seconds offset from the base time
	V int64 `json:"v"`
}

type Pred struct {
	Kind string `json:"kind"` // none (no where clause) | eq | neq | re | absent | and | or
	Key  string `json:"key,omitempty"`
	Val  string `json:"val,omitempty"`
	Key2 string `json:"key2,omitempty"`
	Val2 string `json:"val2,omitempty"`
}

func (p *Pred) sql() string {
	switch p.Kind {
	case "eq":
		return fmt.Sprintf("%s = '%s'", p.Key, p.Val)
	case "neq":
		return fmt.Sprintf("%s != '%s'", p.Key, p.Val)
	case "re":
		return fmt.Sprintf("%s =~ /^%s$/", p.Key, p.Val) // ^...$ of a plain word: anchored or not, the same series
	case "absent":
		return fmt.Sprintf("%s = ''", p.Key)
	case "and":
		return fmt.Sprintf("%s = '%s' AND %s = '%s'", p.Key, p.Val, p.Key2, p.Val2)
	case "or":
		return fmt.Sprintf("%s = '%s' OR %s = '%s'", p.Key, p.Val, p.Key2, p.Val2)
	}
	return ""
}
func (p *Pred) match(tags map[string]string) bool {
	switch p.Kind {
	case "none":
		return true
	case "eq", "re":
		return tags[p.Key] == p.Val
	case "neq":
		return tags[p.Key] != p.Val
	case "absent":
		return tags[p.Key] == ""
	case "and":
		return tags[p.Key] == p.Val && tags[p.Key2] == p.Val2
	case "or":
		return tags[p.Key] == p.Val || tags[p.Key2] == p.Val2
	}
	return false
}

type Drop struct {
	Kind string `json:"kind"` // series | measurement | rp | db
	Mst  string `json:"mst,omitempty"`
	Pred *Pred  `json:"pred,omitempty"`
	N    int    `json:"n"` // series: how many series the predicate selects
}

type History struct {
	I       int         `json:"i"`
	DB      string      `json:"db"`
	RP      string      `json:"rp"` // "" = default policy; else an explicitly created one (DROP RETENTION POLICY histories)
	Msts    []string    `json:"msts"`
	Series  []SeriesKey `json:"series"`
	W1      []Point     `json:"w1"`    // written first, then flushed to files
	W2      []Point     `json:"w2"`    // second batch, older timestamps (out of order; some in another shard group); stays in memory until after the drop
	PrimeTF bool        `json:"prime"` // the tag-filter shapes are also asked before the drop (primes the tag-filter cache)
	Drop    Drop        `json:"drop"`
	W3      []Point     `json:"w3"` // written after the drop (also to dropped keys / the re-created measurement)
}

type row struct {
	S int
	T int64
	V int64
}

// reference: the rows that must be visible
type ref struct {
	h    *History
	rows []row
	dead map[string]bool // measurement dropped and not re-created
	gone bool            // database / policy dropped and not re-created
	// tag keys the current incarnation of a measurement has seen (its schema): an identifier the schema does not know is
	// not a tag, so `region = ''` is not "tag absent" there
	known map[string]map[string]bool
}

func (r *ref) add(ps []Point) {
	for _, p := range ps {
		k := r.h.Series[p.S]
		if r.known[k.Mst] == nil {
			r.known[k.Mst] = map[string]bool{}
		}
		for t := range k.Tags {
			r.known[k.Mst][t] = true
		}
		replaced := false
		for i := range r.rows {
			if r.rows[i].S == p.S && r.rows[i].T == p.T {
				r.rows[i].V = p.V
				replaced = true
			}
		}
		if !replaced {
			r.rows = append(r.rows, row{p.S, p.T, p.V})
		}
	}
}

func (r *ref) applyDrop(d *Drop) (dropped []row) {
	keep := r.rows[:0:0]
	for _, x := range r.rows {
		k := r.h.Series[x.S]
		hit := false
		switch d.Kind {
		case "series":
			hit = k.Mst == d.Mst && d.Pred.match(k.Tags)
		case "measurement":
			hit = k.Mst == d.Mst
		case "rp", "db":
			hit = true
		}
		if hit {
			dropped = append(dropped, x)
		} else {
			keep = append(keep, x)
		}
	}
	r.rows = keep
	return
}

const baseSec = int64(1700000000)

func lineOf(k SeriesKey, t, v int64) string {
	ks := make([]string, 0, len(k.Tags))
	for t := range k.Tags {
		ks = append(ks, t)
	}
	sort.Strings(ks)
	s := k.Mst
	for _, t := range ks {
		s += "," + t + "=" + k.Tags[t]
	}
	return fmt.Sprintf("%s v=%di %d", s, v, (baseSec+t)*1e9)
}

// ---------------------------------------------------------------------------------------------------------
// read shapes

type Shape struct {
	Name   string `json:"name"`
	Path   int    `json:"path"`             // 0 select path, 1 listing path, 2 projection listing (tag keys / values)
	Q      *Pred  `json:"q,omitempty"`      // tag predicate of the shape (nil = none)
	OrVals bool   `json:"orvals,omitempty"` // the regex is an alternation (translated into exact-value lookups)
	Neg    bool   `json:"neg,omitempty"`    // !~ of the alternation
	TF     bool   `json:"tf,omitempty"`     // single tag filter evaluated through the tag-filter cache
	Agg    bool   `json:"agg,omitempty"`    // aggregated: series are not identifiable in the answer
	Region bool   `json:"region,omitempty"` // the shape's condition is on the tag region (asked only when the schema knows it)
}

type Obs struct {
	Shape  string   `json:"shape"`
	Mst    string   `json:"mst"`
	Rows   []string `json:"rows"`             // canonical answer
	Want   []string `json:"want"`             // canonical expectation from the reference
	Series []string `json:"series,omitempty"` // host values of the series that contributed (when identifiable)
	Err    string   `json:"err,omitempty"`
	OK     bool     `json:"ok"`
	Extra  string   `json:"extra,omitempty"` // classification help: "dropped-only" when got = want + rows of dropped series
	// a wrong first answer that became right on an immediate retry
	Transient bool     `json:"transient,omitempty"`
	First     []string `json:"first,omitempty"`
}

type Step struct {
	Phase string `json:"phase"` // before | after-drop | after-writes | after-flush | after-restart
	Obs   []Obs  `json:"obs"`
}

type Out struct {
	History
	Steps     []Step   `json:"steps"`
	Oracle    []string `json:"oracle"` // direct-oracle failures, human readable
	Nontriv   bool     `json:"nontrivial"`
	Transient []string `json:"transient"`
	StepErrs  []string `json:"step_errors"` // a statement or write of the history itself was refused, or the restart failed
	DropAt    int64    `json:"drop_unix_ms"`
	Drop2     *Drop    `json:"drop2,omitempty"` // the drop that is followed by kill -9 at once
	// late drops (participants only): Drop3 names a series (host=e) that lives only in an index created AFTER the restart,
	// Drop4 a series (host=f) of the ordinary time range; both series still have their rows in the WAL at the kill -9
	Drop3 *Drop       `json:"drop3,omitempty"`
	Drop4 *Drop       `json:"drop4,omitempty"`
	W4    []Point     `json:"w4,omitempty"`
	Churn []Point     `json:"churn,omitempty"`
	Late  []SeriesKey `json:"late_series,omitempty"` // series added by the late phase (indexes into Series continue)
	// Drop5: a catalogue drop (DROP DATABASE / RETENTION POLICY / MEASUREMENT) acknowledged shortly before the kill -9: the
	// meta leader's deletion round (every 500 ms: delete on the stores, then the Drop command) is cut at an arbitrary point;
	// W6: written after the restart into the re-created object
	Drop5 *Drop   `json:"drop5,omitempty"`
	W6    []Point `json:"w6,omitempty"`
	// write attempts the server refused before it accepted the batch (the refused attempt may be applied later by the server)
	Refused []string `json:"refused_write_attempts,omitempty"`
}

const fieldK = 5 // threshold of the field filter

type runner struct {
	s        *server
	h        *History
	ref      *ref
	out      *Out
	dropped  []row // rows removed by the drop (for the classification)
	dropped2 []row // rows removed by the second drop (the one followed by kill -9)
	dropped3 []row
	dropped4 []row
	// crash phase: the candidate sets (label -> rows); a wrong answer is classified by the subset of them that explains it
	sets      map[string][]row
	prefer    map[string]int // measurement -> subset (bit mask over the sorted labels) that explained a raw select in this phase
	late      bool           // takes part in the late phase
	lastWrite time.Time
}

func fullMst(h *History, m string) string {
	if h.RP != "" {
		return h.RP + "." + m
	}
	return m
}

func toInt(x any) (int64, bool) {
	switch v := x.(type) {
	case json.Number:
		if i, err := v.Int64(); err == nil {
			return i, true
		}
		if f, err := v.Float64(); err == nil {
			return int64(f), true
		}
	case float64:
		return int64(v), true
	}
	return 0, false
}

func col(s qSeries, name string) int {
	for i, c := range s.Columns {
		if c == name {
			return i
		}
	}
	return -1
}

// rows of a raw select as "host|t|v"
func canonRaw(ss []qSeries) (rows []string, hosts []string) {
	seen := map[string]bool{}
	for _, s := range ss {
		ti, vi, hi := col(s, "time"), col(s, "v"), col(s, "host")
		for _, r := range s.Values {
			host := s.Tags["host"]
			if hi >= 0 && r[hi] != nil {
				host, _ = r[hi].(string)
			}
			t, _ := toInt(r[ti])
			v, _ := toInt(r[vi])
			rows = append(rows, fmt.Sprintf("%s|%d|%d", host, t/1e9-baseSec, v))
			if !seen[host] {
				seen[host] = true
				hosts = append(hosts, host)
			}
		}
	}
	sort.Strings(rows)
	sort.Strings(hosts)
	return
}

func (rn *runner) liveRows(m string, q *Pred, field bool) []row {
	var out []row
	if rn.ref.gone || rn.ref.dead[m] {
		return nil
	}
	for _, x := range rn.ref.rows {
		k := rn.h.Series[x.S]
		if k.Mst != m {
			continue
		}
		if q != nil && !q.match(k.Tags) {
			continue
		}
		if field && !(x.V > fieldK) {
			continue
		}
		out = append(out, x)
	}
	return out
}

// inRange: the rows of the time-range shapes, [45 s, 95 s) after the base time
func inRange(rows []row) []row {
	out := rows[:0:0]
	for _, x := range rows {
		if x.T >= 45 && x.T < 95 {
			out = append(out, x)
		}
	}
	return out
}

func wantRaw(h *History, rows []row) []string {
	var out []string
	for _, x := range rows {
		out = append(out, fmt.Sprintf("%s|%d|%d", h.Series[x.S].Tags["host"], x.T, x.V))
	}
	sort.Strings(out)
	return out
}

func eqS(a, b []string) bool {
	if len(a) != len(b) {
		return false
	}
	for i := range a {
		if a[i] != b[i] {
			return false
		}
	}
	return true
}

// tolerated "nothing there" answers of a dropped measurement / policy / database
func benignErr(err error) bool {
	if err == nil {
		return false
	}
	e := strings.ToLower(err.Error())
	for _, s := range []string{"not found", "being delete", "not exist", "doesn't exist", "no such"} {
		if strings.Contains(e, s) {
			return true
		}
	}
	return false
}

func (rn *runner) readAll(phase string, prime bool) {
	st := Step{Phase: phase}
	h := rn.h
	or2 := &Pred{Kind: "or", Key: "host", Val: "a", Key2: "host", Val2: "b"}
	for _, m := range h.Msts {
		fm := fullMst(h, m)
		type shp struct {
			Shape
			sql   string
			field bool
			kind  string // raw | groupraw | count | countby | counttime | series | tagvalues | tagkeys
		}
		eqA := &Pred{Kind: "eq", Key: "host", Val: "a"}
		neqA := &Pred{Kind: "neq", Key: "host", Val: "a"}
		absR := &Pred{Kind: "absent", Key: "region"}
		shapes := []shp{
			{Shape{Name: "select-all", Path: 0}, "select * from " + fm, false, "raw"},
			{Shape{Name: "field-filter", Path: 0}, fmt.Sprintf("select * from %s where v > %d", fm, fieldK), true, "raw"},
			{Shape{Name: "group-by-tag", Path: 0}, "select v from " + fm + " group by host", false, "groupraw"},
			{Shape{Name: "agg-pushdown", Path: 0, Agg: true}, "select count(v), sum(v) from " + fm, false, "count"},
			{Shape{Name: "agg-by-tag", Path: 0}, "select count(v), sum(v) from " + fm + " group by host", false, "countby"},
			{Shape{Name: "agg-no-pushdown", Path: 0, Agg: true}, fmt.Sprintf("select count(v), sum(v) from %s where v > %d", fm, fieldK), true, "count"},
			{Shape{Name: "agg-by-time", Path: 0, Agg: true}, fmt.Sprintf("select count(v) from %s where time >= %d and time < %d group by time(20s)", fm, baseSec*1e9, (baseSec+100)*1e9), false, "counttime"},
			{Shape{Name: "tag-neq", Path: 0, Q: neqA}, "select * from " + fm + " where host != 'a'", false, "raw"},
			{Shape{Name: "tag-absent", Path: 0, Q: absR}, "select * from " + fm + " where region = ''", false, "raw"},
			{Shape{Name: "tag-re-alternation", Path: 0, Q: or2, OrVals: true}, "select * from " + fm + " where host =~ /a|b/", false, "raw"},
			{Shape{Name: "tag-nre-alternation", Path: 0, Q: or2, OrVals: true, Neg: true}, "select * from " + fm + " where host !~ /a|b/", false, "raw"},
			{Shape{Name: "tag-eq-and-field", Path: 0, Q: eqA}, fmt.Sprintf("select * from %s where host = 'a' and v > %d", fm, fieldK), true, "raw"},
			{Shape{Name: "show-series", Path: 1}, "show series from " + fm, false, "series"},
			{Shape{Name: "show-series-where", Path: 1, Q: eqA}, "show series from " + fm + " where host = 'a'", false, "series"},
			{Shape{Name: "show-tag-values", Path: 2}, "show tag values from " + fm + " with key = host", false, "tagvalues"},
			{Shape{Name: "show-tag-keys", Path: 2}, "show tag keys from " + fm, false, "tagkeys"},
		}
		// conditioned listings: the listing of one tag restricted by a condition on (mostly) another tag, every operator;
		// a dropped series always carries a host value no surviving series of the measurement has, so a leak is visible
		regX := &Pred{Kind: "eq", Key: "region", Val: "x"}
		regY := &Pred{Kind: "eq", Key: "region", Val: "y"}
		regNX := &Pred{Kind: "neq", Key: "region", Val: "x"}
		regXY := &Pred{Kind: "or", Key: "region", Val: "x", Key2: "region", Val2: "y"}
		hostNB := &Pred{Kind: "neq", Key: "host", Val: "b"}
		hostNZ := &Pred{Kind: "neq", Key: "host", Val: "zz"}
		tv := "show tag values from " + fm + " with key = host where "
		shapes = append(shapes,
			shp{Shape{Name: "tv-where-eq", Path: 2, Q: regX, Region: true}, tv + "region = 'x'", false, "tagvalues"},
			shp{Shape{Name: "tv-where-eq-y", Path: 2, Q: regY, Region: true}, tv + "region = 'y'", false, "tagvalues"},
			shp{Shape{Name: "tv-where-neq", Path: 2, Q: regNX, Region: true}, tv + "region != 'x'", false, "tagvalues"},
			shp{Shape{Name: "tv-where-re", Path: 2, Q: regXY, Region: true}, tv + "region =~ /x|y/", false, "tagvalues"},
			shp{Shape{Name: "tv-where-nre", Path: 2, Q: regNX, Region: true}, tv + "region !~ /x/", false, "tagvalues"},
			shp{Shape{Name: "tv-where-host-neq", Path: 2, Q: hostNB}, tv + "host != 'b'", false, "tagvalues"},
			shp{Shape{Name: "tv-keyre-where", Path: 2, Q: regX, Region: true}, "show tag values from " + fm + " with key =~ /ho.*/ where region = 'x'", false, "tagvalues"},
			shp{Shape{Name: "tv-in-where", Path: 2, Q: hostNZ}, "show tag values from " + fm + " with key in (host, region) where host != 'zz'", false, "tagvalueskv"},
			shp{Shape{Name: "tk-where-host", Path: 2, Q: eqA}, "show tag keys from " + fm + " where host = 'a'", false, "tagkeys"},
			shp{Shape{Name: "tk-where-region", Path: 2, Q: regX, Region: true}, "show tag keys from " + fm + " where region = 'x'", false, "tagkeys"},
			shp{Shape{Name: "ss-where-neq", Path: 1, Q: neqA}, "show series from " + fm + " where host != 'a'", false, "series"},
			shp{Shape{Name: "ss-where-re", Path: 1, Q: or2}, "show series from " + fm + " where host =~ /a|b/", false, "series"},
			shp{Shape{Name: "ss-where-nre", Path: 1, Q: or2, Neg: true}, "show series from " + fm + " where host !~ /a|b/", false, "series"},
			shp{Shape{Name: "ss-where-region", Path: 1, Q: regX, Region: true}, "show series from " + fm + " where region = 'x'", false, "series"},
			shp{Shape{Name: "time-range", Path: 0}, fmt.Sprintf("select * from %s where time >= %d and time < %d", fm, (baseSec+45)*1e9, (baseSec+95)*1e9), false, "rawrange"},
			shp{Shape{Name: "time-range-tag-neq", Path: 0, Q: neqA}, fmt.Sprintf("select * from %s where host != 'a' and time >= %d and time < %d", fm, (baseSec+45)*1e9, (baseSec+95)*1e9), false, "rawrange"},
			shp{Shape{Name: "max-by-tag", Path: 0}, "select max(v) from " + fm + " group by host", false, "maxby"},
			shp{Shape{Name: "last-by-tag", Path: 0}, "select last(v) from " + fm + " group by host", false, "lastby"},
			shp{Shape{Name: "card-series-exact", Path: 2, Agg: true}, "show series exact cardinality from " + fm, false, "card"},
			shp{Shape{Name: "card-tagvalues-exact", Path: 2, Agg: true}, "show tag values exact cardinality from " + fm + " with key = host", false, "tvcard"},
		)
		// single tag filters that go through the tag-filter cache: asked before the drop only in "prime" histories
		if phase != "before" || prime {
			shapes = append(shapes,
				shp{Shape{Name: "tag-eq", Path: 0, Q: eqA, TF: true}, "select * from " + fm + " where host = 'a'", false, "raw"},
				shp{Shape{Name: "tag-re-literal", Path: 0, Q: eqA, TF: true}, "select * from " + fm + " where host =~ /a/", false, "raw"},
			)
		}
		for _, sh := range shapes {
			if (sh.Name == "tag-absent" || sh.Region) && !rn.ref.known[m]["region"] {
				continue // the schema of the measurement does not know the tag: the identifier would not be a tag
			}
			o := Obs{Shape: sh.Name, Mst: m}
			q := sh.Q
			var live []row
			if sh.Neg {
				for _, x := range rn.liveRows(m, nil, sh.field) {
					if !q.match(h.Series[x.S].Tags) {
						live = append(live, x)
					}
				}
			} else {
				live = rn.liveRows(m, q, sh.field)
			}
			if sh.kind == "counttime" {
				in := live[:0:0]
				for _, x := range live {
					if x.T >= 0 && x.T < 100 {
						in = append(in, x)
					}
				}
				live = in
			}
			if sh.kind == "rawrange" {
				live = inRange(live)
			}
			attempt := 0
		again:
			o.Rows, o.Series, o.Want, o.Err = nil, nil, nil, ""
			ss, err := rn.s.query(h.DB, sh.sql)
			if err != nil {
				o.Err = err.Error()
				o.OK = len(live) == 0 && benignErr(err)
				if (rn.ref.gone || rn.ref.dead[m]) && benignErr(err) {
					o.OK = true
				}
				o.Want = wantRaw(h, live)
				st.Obs = append(st.Obs, o)
				if !o.OK {
					rn.out.Oracle = append(rn.out.Oracle, fmt.Sprintf("%s %s %s: error %q, expected %d rows", phase, m, sh.Name, o.Err, len(live)))
				}
				continue
			}
			switch sh.kind {
			case "raw", "groupraw", "rawrange":
				o.Rows, o.Series = canonRaw(ss)
				o.Want = wantRaw(h, live)
			case "maxby", "lastby":
				o.Want = rn.wantOf(sh.kind, live)
				for _, s := range ss {
					ti, vi := col(s, "time"), col(s, "max")
					if sh.kind == "lastby" {
						vi = col(s, "last")
					}
					for _, r := range s.Values {
						if vi < 0 || r[vi] == nil {
							continue
						}
						v, _ := toInt(r[vi])
						if sh.kind == "maxby" {
							o.Rows = append(o.Rows, fmt.Sprintf("%s|%d", s.Tags["host"], v))
						} else {
							t, _ := toInt(r[ti])
							o.Rows = append(o.Rows, fmt.Sprintf("%s|%d|%d", s.Tags["host"], t/1e9-baseSec, v))
						}
						o.Series = append(o.Series, s.Tags["host"])
					}
				}
				sort.Strings(o.Rows)
				sort.Strings(o.Series)
			case "count", "countby", "counttime":
				// canonical: "<group>|count|sum"
				groups := map[string][2]int64{}
				for _, x := range live {
					g := ""
					if sh.kind == "countby" {
						g = h.Series[x.S].Tags["host"]
					} else if sh.kind == "counttime" {
						g = strconv.FormatInt(x.T/20*20, 10)
					}
					c := groups[g]
					c[0]++
					c[1] += x.V
					groups[g] = c
				}
				for g, c := range groups {
					if sh.kind == "counttime" {
						o.Want = append(o.Want, fmt.Sprintf("%s|%d", g, c[0]))
					} else {
						o.Want = append(o.Want, fmt.Sprintf("%s|%d|%d", g, c[0], c[1]))
					}
				}
				sort.Strings(o.Want)
				for _, s := range ss {
					ci, si, ti := col(s, "count"), col(s, "sum"), col(s, "time")
					for _, r := range s.Values {
						c, _ := toInt(r[ci])
						if c == 0 {
							continue
						}
						switch sh.kind {
						case "counttime":
							t, _ := toInt(r[ti])
							o.Rows = append(o.Rows, fmt.Sprintf("%d|%d", t/1e9-baseSec, c))
						case "countby":
							sm, _ := toInt(r[si])
							o.Rows = append(o.Rows, fmt.Sprintf("%s|%d|%d", s.Tags["host"], c, sm))
							o.Series = append(o.Series, s.Tags["host"])
						default:
							sm, _ := toInt(r[si])
							o.Rows = append(o.Rows, fmt.Sprintf("|%d|%d", c, sm))
						}
					}
				}
				sort.Strings(o.Rows)
				sort.Strings(o.Series)
			case "series":
				seen := map[string]bool{}
				for _, x := range live {
					k := h.Series[x.S]
					if !seen[k.id()] {
						seen[k.id()] = true
						o.Want = append(o.Want, k.id())
					}
				}
				sort.Strings(o.Want)
				for _, s := range ss {
					for _, r := range s.Values {
						key, _ := r[0].(string)
						o.Rows = append(o.Rows, key)
						for _, kv := range strings.Split(key, ",")[1:] {
							if strings.HasPrefix(kv, "host=") {
								o.Series = append(o.Series, kv[5:])
							}
						}
					}
				}
				sort.Strings(o.Rows)
				sort.Strings(o.Series)
			case "tagvalues":
				seen := map[string]bool{}
				for _, x := range live {
					v := h.Series[x.S].Tags["host"]
					if !seen[v] {
						seen[v] = true
						o.Want = append(o.Want, v)
					}
				}
				sort.Strings(o.Want)
				for _, s := range ss {
					vi := col(s, "value")
					for _, r := range s.Values {
						v, _ := r[vi].(string)
						o.Rows = append(o.Rows, v)
					}
				}
				sort.Strings(o.Rows)
			case "tagvalueskv":
				seen := map[string]bool{}
				for _, x := range live {
					for k, v := range h.Series[x.S].Tags {
						if !seen[k+"="+v] {
							seen[k+"="+v] = true
							o.Want = append(o.Want, k+"="+v)
						}
					}
				}
				sort.Strings(o.Want)
				for _, s := range ss {
					ki, vi := col(s, "key"), col(s, "value")
					for _, r := range s.Values {
						k, _ := r[ki].(string)
						v, _ := r[vi].(string)
						o.Rows = append(o.Rows, k+"="+v)
					}
				}
				sort.Strings(o.Rows)
			case "card", "tvcard":
				seen := map[string]bool{}
				for _, x := range live {
					if sh.kind == "card" {
						seen[h.Series[x.S].id()] = true
					} else {
						seen[h.Series[x.S].Tags["host"]] = true
					}
				}
				if len(seen) > 0 {
					o.Want = []string{strconv.Itoa(len(seen))}
				}
				for _, s := range ss {
					ci := col(s, "count")
					for _, r := range s.Values {
						if c, _ := toInt(r[ci]); c != 0 {
							o.Rows = append(o.Rows, strconv.FormatInt(c, 10))
						}
					}
				}
			case "tagkeys":
				seen := map[string]bool{}
				for _, x := range live {
					for k := range h.Series[x.S].Tags {
						if !seen[k] {
							seen[k] = true
							o.Want = append(o.Want, k)
						}
					}
				}
				sort.Strings(o.Want)
				for _, s := range ss {
					for _, r := range s.Values {
						v, _ := r[0].(string)
						o.Rows = append(o.Rows, v)
					}
				}
				sort.Strings(o.Rows)
			}
			if o.Rows == nil {
				o.Rows = []string{}
			}
			if o.Want == nil {
				o.Want = []string{}
			}
			o.OK = eqS(o.Rows, o.Want)
			if !o.OK {
				o.Extra = rn.classify(m, &sh.Shape, sh.field, sh.kind, o.Rows, o.Want)
			}
			// (an answer that is exactly "expected + dropped rows" is a persistent leak, not worth asking again)
			// ... and within 14 s of the history's last write a wrong answer may be a cached tag filter that does not know the
			// newest series yet (the tag-filter cache is refreshed up to 10 s after the index flush - for any new series, dropped
			// before or not): it is asked again until that time has passed
			fresh := time.Since(rn.lastWrite) < 14*time.Second
			if !o.OK && (attempt < 4 || fresh) && !strings.HasPrefix(o.Extra, "dropped-only") {
				// ask again: an answer that is wrong once and right on the immediate retry is recorded as transient
				if attempt == 0 {
					o.First = append([]string{}, o.Rows...)
				}
				attempt++
				if attempt > 4 {
					time.Sleep(500 * time.Millisecond)
				} else {
					time.Sleep(250 * time.Millisecond)
				}
				goto again
			}
			if o.OK && attempt > 0 {
				o.Transient = true
				rn.out.Transient = append(rn.out.Transient, fmt.Sprintf("%s %s %s: first answer %v, then %v", phase, m, sh.Name, o.First, o.Rows))
			}
			if !o.OK {
				o.Extra = rn.classify(m, &sh.Shape, sh.field, sh.kind, o.Rows, o.Want)
				rn.out.Oracle = append(rn.out.Oracle, fmt.Sprintf("%s %s %s: got %v, want %v", phase, m, sh.Name, o.Rows, o.Want))
			}
			st.Obs = append(st.Obs, o)
		}
	}
	rn.out.Steps = append(rn.out.Steps, st)
}

// classify says whether a wrong answer is exactly "the expected answer plus (some of) the rows the drop removed"
func (rn *runner) classify(m string, sh *Shape, field bool, kind string, got, want []string) string {
	if rn.sets != nil {
		// which of the late drops would, if undone, explain the answer exactly
		labels := make([]string, 0, len(rn.sets))
		for l := range rn.sets {
			labels = append(labels, l)
		}
		sort.Strings(labels)
		saved := rn.dropped
		defer func() { rn.dropped = saved }()
		// count-only shapes (cardinalities) can be explained by several subsets: the subset that explained a raw select of the
		// same measurement in this phase is tried first
		masks := make([]int, 0, 1<<len(labels))
		if pm, ok := rn.prefer[m]; ok {
			masks = append(masks, pm)
		}
		for mask := 1; mask < 1<<len(labels); mask++ {
			masks = append(masks, mask)
		}
		for _, mask := range masks {
			var rows []row
			name := ""
			for i, l := range labels {
				if mask&(1<<i) != 0 {
					rows = append(rows, rn.sets[l]...)
					name += "+" + l
				}
			}
			rn.dropped = rows
			if rn.classify1(m, sh, field, kind, got, want, true) == "dropped-only" {
				if kind == "raw" || kind == "groupraw" {
					if rn.prefer == nil {
						rn.prefer = map[string]int{}
					}
					rn.prefer[m] = mask
				}
				return "dropped-only:" + name[1:]
			}
		}
		return "other"
	}
	return rn.classify1(m, sh, field, kind, got, want, false)
}

// classify1: exact = the answer must contain ALL rows of rn.dropped (of this measurement) that the shape selects
func (rn *runner) classify1(m string, sh *Shape, field bool, kind string, got, want []string, exact bool) string {
	if len(rn.dropped) == 0 {
		return ""
	}
	h := rn.h
	if kind == "raw" || kind == "groupraw" || kind == "rawrange" {
		extra := map[string]int{}
		for _, g := range got {
			extra[g]++
		}
		for _, w := range want {
			extra[w]--
		}
		dr := map[string]bool{}
		for _, x := range rn.dropped {
			if h.Series[x.S].Mst == m && (kind != "rawrange" || (x.T >= 45 && x.T < 95)) {
				dr[fmt.Sprintf("%s|%d|%d", h.Series[x.S].Tags["host"], x.T, x.V)] = true
			}
		}
		for r, n := range extra {
			if n < 0 {
				return "missing-rows"
			}
			if n > 0 && !dr[r] {
				return "foreign-rows"
			}
		}
		if exact {
			// fall through: compare with the expectation computed with the dropped rows put back
		} else {
			return "dropped-only"
		}
	}
	// aggregated / listing shapes: the answer must equal the expectation computed with the dropped rows put back
	saved := rn.ref.rows
	rn.ref.rows = append(append([]row{}, saved...), rn.dropped...)
	defer func() { rn.ref.rows = saved }()
	var live []row
	if sh.Neg {
		for _, x := range rn.liveRows(m, nil, field) {
			if !sh.Q.match(h.Series[x.S].Tags) {
				live = append(live, x)
			}
		}
	} else {
		live = rn.liveRows(m, sh.Q, field)
	}
	var w []string
	if kind == "rawrange" {
		live = inRange(live)
	}
	if kind == "raw" || kind == "groupraw" || kind == "rawrange" {
		w = wantRaw(h, live)
		if w == nil {
			w = []string{}
		}
	} else {
		w = rn.wantOf(kind, live)
	}
	if w == nil {
		return ""
	}
	if eqS(w, got) {
		return "dropped-only"
	}
	return "other"
}

// wantOf: the canonical expectation of an aggregated / listing shape over the given live rows
func (rn *runner) wantOf(kind string, live []row) []string {
	h := rn.h
	w := []string{}
	seen := map[string]bool{}
	add := func(x string) {
		if !seen[x] {
			seen[x] = true
			w = append(w, x)
		}
	}
	switch kind {
	case "count", "countby", "counttime":
		groups := map[string][2]int64{}
		for _, x := range live {
			if kind == "counttime" && !(x.T >= 0 && x.T < 100) {
				continue
			}
			g := ""
			if kind == "countby" {
				g = h.Series[x.S].Tags["host"]
			} else if kind == "counttime" {
				g = strconv.FormatInt(x.T/20*20, 10)
			}
			c := groups[g]
			c[0]++
			c[1] += x.V
			groups[g] = c
		}
		for g, c := range groups {
			if kind == "counttime" {
				w = append(w, fmt.Sprintf("%s|%d", g, c[0]))
			} else {
				w = append(w, fmt.Sprintf("%s|%d|%d", g, c[0], c[1]))
			}
		}
	case "maxby", "lastby":
		best := map[string]row{}
		for _, x := range live {
			hst := h.Series[x.S].Tags["host"]
			b, ok := best[hst]
			if !ok || (kind == "maxby" && x.V > b.V) || (kind == "lastby" && x.T > b.T) {
				best[hst] = x
			}
		}
		for hst, b := range best {
			if kind == "maxby" {
				w = append(w, fmt.Sprintf("%s|%d", hst, b.V))
			} else {
				w = append(w, fmt.Sprintf("%s|%d|%d", hst, b.T, b.V))
			}
		}
	case "series":
		for _, x := range live {
			add(h.Series[x.S].id())
		}
	case "tagvalues":
		for _, x := range live {
			add(h.Series[x.S].Tags["host"])
		}
	case "tagvalueskv":
		for _, x := range live {
			for k, v := range h.Series[x.S].Tags {
				add(k + "=" + v)
			}
		}
	case "tagkeys":
		for _, x := range live {
			for k := range h.Series[x.S].Tags {
				add(k)
			}
		}
	case "card", "tvcard":
		for _, x := range live {
			if kind == "card" {
				seen[h.Series[x.S].id()] = true
			} else {
				seen[h.Series[x.S].Tags["host"]] = true
			}
		}
		if len(seen) > 0 {
			w = []string{strconv.Itoa(len(seen))}
		}
	default:
		return nil
	}
	sort.Strings(w)
	return w
}

// waitVisible waits (bounded) until the listing shows every series the reference expects: index items become searchable
// only after the periodic index flush, and a DROP SERIES or a read issued earlier would not be about the written data yet.
// It never waits for series to DISAPPEAR and it decides nothing: the read matrix that follows is what is judged.
func (rn *runner) waitVisible() {
	deadline := time.Now().Add(12 * time.Second)
	for _, m := range rn.h.Msts {
		want := map[string]bool{}
		for _, x := range rn.liveRows(m, nil, false) {
			want[rn.h.Series[x.S].id()] = true
		}
		for len(want) > 0 && time.Now().Before(deadline) {
			ss, err := rn.s.query(rn.h.DB, "show series from "+fullMst(rn.h, m))
			have := map[string]bool{}
			if err == nil {
				for _, s := range ss {
					for _, r := range s.Values {
						k, _ := r[0].(string)
						have[k] = true
					}
				}
			}
			missing := 0
			for k := range want {
				if !have[k] {
					missing++
				}
			}
			if missing == 0 {
				break
			}
			time.Sleep(300 * time.Millisecond)
		}
	}
}

// readRaw asks one raw select and records it as a step of its own (used right before / right after the drop statement)
func (rn *runner) readRaw(phase, m string, sh Shape, sql string) {
	o := Obs{Shape: sh.Name, Mst: m}
	live := rn.liveRows(m, sh.Q, false)
	o.Want = wantRaw(rn.h, live)
	ss, err := rn.s.query(rn.h.DB, sql)
	if err != nil {
		o.Err = err.Error()
		o.OK = len(live) == 0 && benignErr(err)
	} else {
		o.Rows, o.Series = canonRaw(ss)
		if o.Rows == nil {
			o.Rows = []string{}
		}
		if o.Want == nil {
			o.Want = []string{}
		}
		o.OK = eqS(o.Rows, o.Want)
		if !o.OK {
			o.Extra = rn.classify(m, &sh, false, "raw", o.Rows, o.Want)
		}
	}
	if !o.OK {
		rn.out.Oracle = append(rn.out.Oracle, fmt.Sprintf("%s %s %s: got %v (%s), want %v", phase, m, sh.Name, o.Rows, o.Err, o.Want))
	}
	rn.out.Steps = append(rn.out.Steps, Step{Phase: phase, Obs: []Obs{o}})
}

// readSeries asks SHOW SERIES of one measurement once and records it as a step of its own (right after a catalogue drop)
func (rn *runner) readSeries(phase, m string) {
	o := Obs{Shape: "show-series", Mst: m, Rows: []string{}, Want: []string{}}
	seen := map[string]bool{}
	for _, x := range rn.liveRows(m, nil, false) {
		if k := rn.h.Series[x.S].id(); !seen[k] {
			seen[k] = true
			o.Want = append(o.Want, k)
		}
	}
	sort.Strings(o.Want)
	ss, err := rn.s.query(rn.h.DB, "show series from "+fullMst(rn.h, m))
	if err != nil {
		o.Err = err.Error()
		o.OK = len(o.Want) == 0 && benignErr(err)
	} else {
		for _, s := range ss {
			for _, r := range s.Values {
				key, _ := r[0].(string)
				o.Rows = append(o.Rows, key)
				for _, kv := range strings.Split(key, ",")[1:] {
					if strings.HasPrefix(kv, "host=") {
						o.Series = append(o.Series, kv[5:])
					}
				}
			}
		}
		sort.Strings(o.Rows)
		sort.Strings(o.Series)
		o.OK = eqS(o.Rows, o.Want)
	}
	if !o.OK {
		rn.out.Oracle = append(rn.out.Oracle, fmt.Sprintf("%s %s show-series: got %v (%s), want %v", phase, m, o.Rows, o.Err, o.Want))
	}
	rn.out.Steps = append(rn.out.Steps, Step{Phase: phase, Obs: []Obs{o}})
}

func (rn *runner) writePoints(ps []Point) error {
	if len(ps) == 0 {
		return nil
	}
	var sb strings.Builder
	for _, p := range ps {
		sb.WriteString(lineOf(rn.h.Series[p.S], p.T, p.V))
		sb.WriteByte('\n')
	}
	rn.lastWrite = time.Now()
	refused, err := rn.s.write(rn.h.DB, rn.h.RP, sb.String())
	for _, m := range refused {
		rn.out.Refused = append(rn.out.Refused, fmt.Sprintf("%d points from t=%d: %.160s", len(ps), ps[0].T, m))
	}
	return err
}

const churnRounds = 8
const churnHistories = 8
const maxLate = 5
const lateOff = int64(-3000000) // about 35 days before the base time: a shard group and an index of its own

// firstLive: the first measurement of the history that exists and has visible rows
func (rn *runner) firstLive() string {
	for _, m := range rn.h.Msts {
		if !rn.ref.dead[m] && len(rn.liveRows(m, nil, false)) > 0 {
			return m
		}
	}
	return ""
}

// churnPoints: per existing measurement one in-order point (newer than everything) and one out-of-order point (older than
// everything of the ordinary range) on its first series
func (rn *runner) churnPoints(round int) []Point {
	// quick tier: the first churnHistories histories only - the compactor starts a bounded number of compactions per tick (every
	// 10 s), and with all measurements waiting the last ones are rewritten two ticks later
	if rn.ref.gone || (os.Getenv("VERIF_TIER") != "thorough" && rn.h.I >= churnHistories) {
		return nil
	}
	var ps []Point
	for _, m := range rn.h.Msts {
		if rn.ref.dead[m] {
			continue
		}
		for s, k := range rn.h.Series {
			if k.Mst == m {
				ps = append(ps, Point{S: s, T: int64(100 + round), V: int64(round)}, Point{S: s, T: int64(-10 - round), V: int64(round + 1)})
				break
			}
		}
	}
	return ps
}

// waitCompaction waits (bounded) until no measurement directory holds churnRounds or more level-0 files any more, i.e. the
// level compaction has rewritten them. File names are <sequence>-<level>-<extent>.tssp; out-of-order files live in a
// subdirectory. It decides nothing about the data: the read matrix that follows is what is judged.
func waitCompaction(dataDir string, max time.Duration) map[string]any {
	deadline := time.Now().Add(max)
	start := time.Now()
	scan := func() (dirs, pending, compacted, ooo int) {
		_ = filepath.WalkDir(dataDir, func(p string, d os.DirEntry, err error) error {
			if err != nil || !d.IsDir() || filepath.Base(filepath.Dir(p)) != "tssp" {
				return nil
			}
			ents, _ := os.ReadDir(p)
			l0, hi := 0, 0
			for _, e := range ents {
				parts := strings.Split(strings.TrimSuffix(e.Name(), ".tssp"), "-")
				if e.IsDir() || len(parts) != 3 || !strings.HasSuffix(e.Name(), ".tssp") {
					continue
				}
				if parts[1] == "0000" {
					l0++
				} else {
					hi++
				}
			}
			if oo, err := os.ReadDir(filepath.Join(p, "out-of-order")); err == nil {
				for _, e := range oo {
					if strings.HasSuffix(e.Name(), ".tssp") {
						ooo++
					}
				}
			}
			dirs++
			if l0 >= churnRounds {
				pending++
			}
			if hi > 0 {
				compacted++
			}
			return nil
		})
		return
	}
	dirs0, pending0, _, ooo0 := scan()
	for {
		dirs, pending, compacted, ooo := scan()
		if (pending == 0 && compacted > 0) || time.Now().After(deadline) {
			return map[string]any{"measurement_dirs": dirs, "dirs_at_start": dirs0, "dirs_with_8_level0_files_at_start": pending0,
				"dirs_still_uncompacted": pending, "dirs_with_compacted_file": compacted, "out_of_order_files_at_start": ooo0,
				"out_of_order_files_at_end": ooo, "waited_ms": time.Since(start).Milliseconds()}
		}
		time.Sleep(400 * time.Millisecond)
	}
}

// ---------------------------------------------------------------------------------------------------------
// generation

var mstPool = [][]string{{"m", "n"}, {"n", "m"}, {"cpu", "m"}, {"m", "cpu"}, {"m"}, {"mm", "z", "a"}, {"b", "aa"}}

// All histories with DROP SERIES / DROP MEASUREMENT share ONE database (one index, one deleted-id set) and use measurement
// names of their own; DROP RETENTION POLICY / DROP DATABASE histories get a database each. (Series ids of different
// databases created within seconds of each other collide, and today's code lets one index's deleted set leak into the
// listings of another - see finding C13-stale-deleted-set; sharing one index keeps that out of the main histories.)
const sharedDB = "shared"

func uniq(names []string, i int) []string {
	out := make([]string, len(names))
	for j, n := range names {
		out[j] = fmt.Sprintf("%s%d", n, i)
	}
	return out
}

func genHistory(r *gen.Rand, i int) *History {
	h := &History{I: i, DB: sharedDB}
	msts := gen.Pick(r, mstPool)
	h.Msts = uniq(msts, i)
	hosts := []string{"a", "b", "c", "d"}
	for _, m := range h.Msts {
		n := r.Range(2, 4)
		for j := 0; j < n; j++ {
			tags := map[string]string{"host": hosts[j]}
			if r.Chance(1, 2) {
				tags["region"] = gen.Pick(r, []string{"x", "y"})
			}
			h.Series = append(h.Series, SeriesKey{Mst: m, Tags: tags})
		}
	}
	used := map[[2]int64]bool{}
	pts := func(n int, lo, hi int64, only func(k SeriesKey) bool) []Point {
		var ps []Point
		for len(ps) < n {
			s := r.Intn(len(h.Series))
			if only != nil && !only(h.Series[s]) {
				if r.Chance(1, 50) {
					break
				}
				continue
			}
			t := lo + int64(r.Intn(int(hi-lo)))
			if used[[2]int64{int64(s), t}] {
				continue
			}
			used[[2]int64{int64(s), t}] = true
			ps = append(ps, Point{S: s, T: t, V: int64(r.Intn(12))})
		}
		return ps
	}
	// every series gets at least one point in W1
	for s := range h.Series {
		t := int64(40 + r.Intn(40))
		used[[2]int64{int64(s), t}] = true
		h.W1 = append(h.W1, Point{S: s, T: t, V: int64(r.Intn(12))})
	}
	h.W1 = append(h.W1, pts(r.Range(2, 8), 40, 80, nil)...)
	h.W2 = pts(r.Range(0, 6), 0, 40, nil) // older than W1: out of order after the flush
	if r.Chance(1, 3) {                   // a few points more than a week earlier: another shard group
		h.W2 = append(h.W2, pts(r.Range(1, 3), -700000, -699000, nil)...)
	}
	h.PrimeTF = r.Chance(1, 2)
	// the drop
	m := gen.Pick(r, h.Msts)
	switch k := r.Intn(10); {
	case k < 6:
		var p *Pred
		switch r.Intn(7) {
		case 0:
			p = &Pred{Kind: "eq", Key: "host", Val: "a"}
		case 1:
			p = &Pred{Kind: "eq", Key: "host", Val: gen.Pick(r, []string{"b", "c", "zz"})} // zz selects none
		case 2:
			p = &Pred{Kind: "neq", Key: "host", Val: "a"}
		case 3:
			p = &Pred{Kind: "none"} // all series of the measurement
		case 4:
			p = &Pred{Kind: "eq", Key: "region", Val: gen.Pick(r, []string{"x", "y"})}
		case 5:
			p = &Pred{Kind: "or", Key: "host", Val: "a", Key2: "host", Val2: "c"}
		default:
			p = &Pred{Kind: "and", Key: "host", Val: "a", Key2: "region", Val2: "x"}
		}
		h.Drop = Drop{Kind: "series", Mst: m, Pred: p}
		for _, k := range h.Series {
			if k.Mst == m && p.match(k.Tags) {
				h.Drop.N++
			}
		}
	case k < 8:
		h.Drop = Drop{Kind: "measurement", Mst: m}
	case k < 9:
		h.DB = fmt.Sprintf("d%d", i)
		h.RP = "rp2"
		h.Drop = Drop{Kind: "rp"}
	default:
		h.DB = fmt.Sprintf("d%d", i)
		h.Drop = Drop{Kind: "db"}
	}
	// writes after the drop: to what was dropped (must behave as fresh) and to the rest
	h.W3 = pts(r.Range(2, 6), 80, 100, nil)
	return h
}

// ---------------------------------------------------------------------------------------------------------

func fatal(f string, a ...any) {
	fmt.Fprintf(os.Stderr, f+"\n", a...)
	os.Exit(3)
}

func main() {
	if len(os.Args) < 5 {
		fatal("usage: c13 <ts-server binary> <config template> <port> <n histories> [replay files]")
	}
	work := os.Getenv("VERIF_WORK")
	if work == "" {
		fatal("VERIF_WORK not set")
	}
	port, _ := strconv.Atoi(os.Args[3])
	n, _ := strconv.Atoi(os.Args[4])
	dir := filepath.Join(work, "c13srv")
	_ = os.RemoveAll(dir)
	if err := os.MkdirAll(dir, 0o755); err != nil {
		fatal("%v", err)
	}
	srv, err := newServer(os.Args[1], os.Args[2], dir, port)
	if err != nil {
		fatal("%v", err)
	}
	if err := srv.start(); err != nil {
		fatal("%v", err)
	}
	defer srv.kill()

	var hs []*History
	for _, f := range os.Args[5:] {
		data, err := os.ReadFile(f)
		if err != nil {
			fatal("%v", err)
		}
		for _, line := range strings.Split(string(data), "\n") {
			line = strings.TrimSpace(line)
			if !strings.HasPrefix(line, "{") {
				continue
			}
			var h History
			if err := json.Unmarshal([]byte(line), &h); err != nil {
				fatal("bad case in %s: %v", f, err)
			}
			h.I = len(hs)
			if h.Drop.Kind == "rp" || h.Drop.Kind == "db" {
				h.DB = fmt.Sprintf("k%d", len(hs))
			} else {
				h.DB = sharedDB
				ren := map[string]string{}
				for j, m := range h.Msts {
					ren[m] = fmt.Sprintf("%sk%d", m, len(hs))
					h.Msts[j] = ren[m]
				}
				for j := range h.Series {
					h.Series[j].Mst = ren[h.Series[j].Mst]
				}
				h.Drop.Mst = ren[h.Drop.Mst]
			}
			hs = append(hs, &h)
		}
	}
	r := gen.FromEnv(13)
	for i := 0; i < n; i++ {
		hs = append(hs, genHistory(r.Fork(), len(hs)))
	}
	rs := make([]*runner, len(hs))
	settle := func() { time.Sleep(3200 * time.Millisecond) } // index items become searchable <= ~3 s after the write
	// after writes that no drop follows: the listing barrier (waitVisible) and the re-asking of fresh answers do the rest
	settleShort := func() { time.Sleep(2000 * time.Millisecond) }
	t00 := time.Now()
	trace := func(name string) {
		if os.Getenv("C13_TRACE") != "" {
			fmt.Fprintf(os.Stderr, "TRACE %6.1fs %s\n", time.Since(t00).Seconds(), name)
		}
	}
	step := func(name string, f func(rn *runner) error) {
		trace(name)
		for _, rn := range rs {
			if err := f(rn); err != nil {
				rn.out.StepErrs = append(rn.out.StepErrs, fmt.Sprintf("%s: %v", name, err))
			}
		}
	}
	// read-only steps run on a few histories at a time (each history has its own runner; the server is shared)
	pstep := func(name string, f func(rn *runner) error) {
		trace(name)
		var wg sync.WaitGroup
		ch := make(chan *runner)
		for w := 0; w < 4; w++ {
			wg.Add(1)
			go func() {
				defer wg.Done()
				for rn := range ch {
					if err := f(rn); err != nil {
						rn.out.StepErrs = append(rn.out.StepErrs, fmt.Sprintf("%s: %v", name, err))
					}
				}
			}()
		}
		for _, rn := range rs {
			ch <- rn
		}
		close(ch)
		wg.Wait()
	}
	for i, h := range hs {
		rs[i] = &runner{s: srv, h: h, ref: &ref{h: h, dead: map[string]bool{}, known: map[string]map[string]bool{}}, out: &Out{History: *h, Oracle: []string{}, Transient: []string{}, StepErrs: []string{}}}
	}
	// phase 1: create + write
	if _, err := srv.query("", "create database "+sharedDB); err != nil {
		fatal("create shared database: %v", err)
	}
	pstep("create", func(rn *runner) error {
		if rn.h.DB != sharedDB {
			if _, err := srv.query("", "create database "+rn.h.DB); err != nil {
				return err
			}
		}
		if rn.h.RP != "" {
			if _, err := srv.query("", fmt.Sprintf("create retention policy %s on %s duration 0s replication 1", rn.h.RP, rn.h.DB)); err != nil {
				return err
			}
		}
		return nil
	})
	pstep("write1", func(rn *runner) error { rn.ref.add(rn.h.W1); return rn.writePoints(rn.h.W1) })
	_ = srv.ctrl("mod=compen&allshards=true")
	_ = srv.ctrl("mod=merge&allshards=true")
	_ = srv.ctrl("mod=flush") // W1 is in files now; W2 (older timestamps) stays in the memtable until after the drop
	pstep("write2", func(rn *runner) error { rn.ref.add(rn.h.W2); return rn.writePoints(rn.h.W2) })
	settle()
	pstep("visible1", func(rn *runner) error { rn.waitVisible(); return nil })
	pstep("before", func(rn *runner) error { rn.readAll("before", rn.h.PrimeTF); return nil })
	// phase 2: the drop
	step("drop", func(rn *runner) error {
		h := rn.h
		var q string
		switch h.Drop.Kind {
		case "series":
			q = "drop series from " + h.Drop.Mst
			if h.Drop.Pred.Kind != "none" {
				q += " where " + h.Drop.Pred.sql()
			}
		case "measurement":
			q = "drop measurement " + h.Drop.Mst
		case "rp":
			q = fmt.Sprintf("drop retention policy %s on %s", h.RP, h.DB)
		case "db":
			q = "drop database " + h.DB
		}
		rn.dropped = rn.ref.applyDrop(&h.Drop)
		switch h.Drop.Kind {
		case "measurement":
			rn.ref.dead[h.Drop.Mst] = true
			delete(rn.ref.known, h.Drop.Mst)
		case "rp", "db":
			rn.ref.gone = true
			rn.ref.known = map[string]map[string]bool{}
		}
		rn.out.Nontriv = len(rn.dropped) > 0 && len(rn.ref.rows) > 0
		eqA := &Pred{Kind: "eq", Key: "host", Val: "a"}
		tf := Shape{Name: "tag-eq", Path: 0, Q: eqA, TF: true}
		tfSQL := "select * from " + fullMst(h, h.Drop.Mst) + " where host = 'a'"
		if h.Drop.Kind == "series" && h.PrimeTF {
			// the same tag filter right before the drop (it is answered from the index and cached) ...
			saved := rn.ref.rows
			rn.ref.rows = append(append([]row{}, saved...), rn.dropped...)
			rn.readRaw("right-before-drop", h.Drop.Mst, tf, tfSQL)
			rn.ref.rows = saved
		}
		rn.out.DropAt = time.Now().UnixMilli()
		_, err := srv.query(h.DB, q)
		if err == nil && h.Drop.Kind == "series" && h.PrimeTF {
			// ... and right after the drop was acknowledged
			rn.readRaw("right-after-drop", h.Drop.Mst, tf, tfSQL)
		}
		if err == nil && h.Drop.Kind != "series" {
			// DROP MEASUREMENT / RETENTION POLICY / DATABASE are acknowledged when the object is MARKED in the catalogue; the stores
			// delete later (within the meta leader's next round): the mark alone must hide the data at once
			m := h.Drop.Mst
			if m == "" {
				m = h.Msts[0]
			}
			rn.readRaw("right-after-drop", m, Shape{Name: "select-all", Path: 0}, "select * from "+fullMst(h, m))
			rn.readSeries("right-after-drop", m)
		}
		return err
	})
	pstep("after-drop", func(rn *runner) error { rn.readAll("after-drop", false); return nil })
	// phase 3: writes after the drop (re-creating what was dropped)
	pstep("write3", func(rn *runner) error {
		h := rn.h
		switch h.Drop.Kind {
		case "db":
			if _, err := srv.query("", "create database "+h.DB); err != nil {
				return err
			}
			rn.ref.gone = false
		case "rp":
			if _, err := srv.query("", fmt.Sprintf("create retention policy %s on %s duration 0s replication 1", h.RP, h.DB)); err != nil {
				return err
			}
			rn.ref.gone = false
		case "measurement":
			for _, p := range h.W3 {
				if h.Series[p.S].Mst == h.Drop.Mst {
					rn.ref.dead[h.Drop.Mst] = false
				}
			}
		}
		rn.ref.add(h.W3)
		return rn.writePoints(h.W3)
	})
	settleShort()
	pstep("visible2", func(rn *runner) error { rn.waitVisible(); return nil })
	pstep("after-writes", func(rn *runner) error { rn.readAll("after-writes", false); return nil })
	// phase 4: flush, then force compaction and out-of-order merge: eight write+flush rounds give every measurement eight
	// level-0 files and eight out-of-order files; the level compaction and the merge fire at the compactor's next tick (10 s).
	// The rows of dropped series are still in those files and are rewritten by the compaction.
	_ = srv.ctrl("mod=flush")
	for r := 0; r < churnRounds; r++ {
		round := r
		step("churn", func(rn *runner) error {
			ps := rn.churnPoints(round)
			rn.out.Churn = append(rn.out.Churn, ps...)
			rn.ref.add(ps)
			return rn.writePoints(ps)
		})
		_ = srv.ctrl("mod=flush")
	}
	comp := waitCompaction(filepath.Join(dir, "og", "data", "data"), 40*time.Second)
	pstep("after-flush", func(rn *runner) error { rn.readAll("after-flush", false); return nil })
	// phase 5: kill -9 and restart
	srv.kill()
	if err := srv.start(); err != nil {
		for _, rn := range rs {
			rn.out.StepErrs = append(rn.out.StepErrs, "restart failed: "+err.Error())
		}
	} else {
		time.Sleep(1500 * time.Millisecond)
		pstep("after-restart", func(rn *runner) error { rn.readAll("after-restart", false); return nil })
	}
	// phase 6 (late drops and the crash). For the first few DROP SERIES / DROP MEASUREMENT histories of the shared database:
	//   * W4: a series host=e whose points lie in a time range that has no index yet (its index is created now, AFTER the
	//     deleted-series table of the policy was opened by the restart), and a series host=f in the ordinary range;
	//   * DROP SERIES host=e (drop3) and host=f (drop4), acknowledged; the full read matrix ("after-late-drop");
	//   * a writer keeps both shards warm from W4 to the kill, so the rows of W4 are still in the WAL (no cold flush);
	// then, >= 3 s after those drops (the deleted-series table has flushed them to disk by then), for every history a DROP
	// SERIES on what is left (drop2), acknowledged, and kill -9 IMMEDIATELY afterwards: an acknowledged drop must survive a
	// crash like an acknowledged write does, and rows written before a drop must not come back from the WAL.
	if srv.cmd != nil {
		nlate := 0
		for _, rn := range rs {
			if rn.h.DB == sharedDB && !rn.ref.gone && nlate < maxLate && rn.firstLive() != "" {
				rn.late = true
				nlate++
			}
		}
		stopWarm := make(chan struct{})
		warmDone := make(chan struct{})
		go func() {
			defer close(warmDone)
			for i := int64(0); ; i++ {
				select {
				case <-stopWarm:
					return
				default:
				}
				_, _ = srv.write(sharedDB, "", fmt.Sprintf("warm,host=w v=1i %d\nwarm,host=w v=1i %d", (baseSec+1000+i)*1e9, (baseSec+lateOff+1000+i)*1e9))
				time.Sleep(700 * time.Millisecond)
			}
		}()
		step("write4", func(rn *runner) error {
			if !rn.late {
				return nil
			}
			h := rn.h
			m := rn.firstLive()
			e := len(h.Series)
			h.Series = append(h.Series, SeriesKey{Mst: m, Tags: map[string]string{"host": "e"}}, SeriesKey{Mst: m, Tags: map[string]string{"host": "f"}})
			rn.out.Late = h.Series[e:]
			rn.out.W4 = []Point{{S: e, T: lateOff + 5, V: 7}, {S: e, T: lateOff + 9, V: 3}, {S: e + 1, T: 61, V: 8}, {S: e + 1, T: 67, V: 2}}
			rn.ref.add(rn.out.W4)
			return rn.writePoints(rn.out.W4)
		})
		settle()
		pstep("visible4", func(rn *runner) error {
			if rn.late {
				rn.waitVisible()
			}
			return nil
		})
		lateAt := time.Now()
		step("drop34", func(rn *runner) error {
			if !rn.late {
				return nil
			}
			h := rn.h
			m := rn.out.Late[0].Mst
			d3 := Drop{Kind: "series", Mst: m, Pred: &Pred{Kind: "eq", Key: "host", Val: "e"}, N: 1}
			d4 := Drop{Kind: "series", Mst: m, Pred: &Pred{Kind: "eq", Key: "host", Val: "f"}, N: 1}
			rn.out.Drop3, rn.out.Drop4 = &d3, &d4
			rn.dropped3 = rn.ref.applyDrop(&d3)
			if _, err := srv.query(h.DB, "drop series from "+fullMst(h, m)+" where host = 'e'"); err != nil {
				return err
			}
			rn.dropped4 = rn.ref.applyDrop(&d4)
			_, err := srv.query(h.DB, "drop series from "+fullMst(h, m)+" where host = 'f'")
			return err
		})
		pstep("after-late-drop", func(rn *runner) error {
			if rn.late {
				rn.sets, rn.prefer = map[string][]row{"d3": rn.dropped3, "d4": rn.dropped4}, nil
				rn.readAll("after-late-drop", false)
				rn.sets, rn.prefer = nil, nil
			}
			return nil
		})
		// catalogue drops cut by the crash. DROP DATABASE / RETENTION POLICY (databases of their own): half of them about a
		// second before the kill (the deletion round of the meta leader, every 500 ms, is under way or done), half right before
		// the series drops. DROP MEASUREMENT flushes the shard's memtable when the store executes it - that would take the rows
		// of the late series out of the WAL - so measurements are dropped before the SECOND kill further down.
		catalogueDrop := func(rn *runner, measurements bool) error {
			h := rn.h
			var q string
			switch {
			case rn.out.Drop5 != nil:
				return nil
			case !measurements && h.Drop.Kind == "db" && !rn.ref.gone:
				q = "drop database " + h.DB
			case !measurements && h.Drop.Kind == "rp" && !rn.ref.gone:
				q = fmt.Sprintf("drop retention policy %s on %s", h.RP, h.DB)
			case measurements && h.Drop.Kind == "measurement" && rn.firstLive() != "":
				m := rn.firstLive()
				rn.out.Drop5 = &Drop{Kind: "measurement", Mst: m}
				rn.ref.applyDrop(rn.out.Drop5)
				rn.ref.dead[m] = true
				delete(rn.ref.known, m)
				_, err := srv.query(h.DB, "drop measurement "+m)
				return err
			default:
				return nil
			}
			rn.out.Drop5 = &Drop{Kind: h.Drop.Kind}
			rn.ref.applyDrop(rn.out.Drop5)
			rn.ref.gone = true
			rn.ref.known = map[string]map[string]bool{}
			_, err := srv.query(h.DB, q)
			return err
		}
		step("drop5-early", func(rn *runner) error {
			if rn.h.I%2 == 0 {
				return catalogueDrop(rn, false)
			}
			return nil
		})
		if d := 3200*time.Millisecond - time.Since(lateAt); d > 0 {
			time.Sleep(d)
		}
		step("drop5-late", func(rn *runner) error {
			if rn.h.I%2 == 1 {
				return catalogueDrop(rn, false)
			}
			return nil
		})
		step("drop2", func(rn *runner) error {
			h := rn.h
			if h.DB != sharedDB || rn.ref.gone || rn.out.Drop5 != nil {
				return nil
			}
			for _, m := range h.Msts {
				live := rn.liveRows(m, nil, false)
				if rn.ref.dead[m] || len(live) == 0 {
					continue
				}
				host := h.Series[live[0].S].Tags["host"]
				d := Drop{Kind: "series", Mst: m, Pred: &Pred{Kind: "eq", Key: "host", Val: host}, N: 1}
				rn.out.Drop2 = &d
				rn.dropped2 = rn.ref.applyDrop(&d)
				_, err := srv.query(h.DB, "drop series from "+fullMst(h, m)+" where host = '"+host+"'")
				return err
			}
			return nil
		})
		srv.kill()
		close(stopWarm)
		<-warmDone
		if err := srv.start(); err != nil {
			for _, rn := range rs {
				rn.out.StepErrs = append(rn.out.StepErrs, "restart after crash failed: "+err.Error())
			}
		} else {
			time.Sleep(1500 * time.Millisecond)
			// what a lost late drop (d2) or rows replayed from the WAL (d3, d4) left behind stays until something else removes it:
			// the phases that follow classify wrong answers by the same subsets
			lateSets := func(rn *runner) {
				rn.sets, rn.prefer = nil, nil
				if rn.out.Drop2 != nil || rn.late {
					rn.sets = map[string][]row{}
					if rn.out.Drop2 != nil {
						rn.sets["d2"] = rn.dropped2
					}
					if rn.late {
						rn.sets["d3"], rn.sets["d4"] = rn.dropped3, rn.dropped4
					}
				}
			}
			pstep("after-crash", func(rn *runner) error {
				if rn.out.Drop5 != nil {
					rn.readAll("after-crash", false)
					return nil
				}
				if rn.out.Drop2 != nil || rn.late {
					// a wrong answer in this phase is classified by the subset of the late drops whose undoing explains it
					rn.sets, rn.prefer = map[string][]row{}, nil
					if rn.out.Drop2 != nil {
						rn.sets["d2"] = rn.dropped2
					}
					if rn.late {
						rn.sets["d3"], rn.sets["d4"] = rn.dropped3, rn.dropped4
					}
					rn.readAll("after-crash", false)
					rn.sets = nil
				}
				return nil
			})
			// the objects dropped right before the crash are created again - refused while the interrupted deletion is being
			// completed (bounded wait) - and written to; then one more kill -9: nothing of the old objects may come back, neither
			// now nor when the directories are loaded again
			step("recreate5", func(rn *runner) error {
				h := rn.h
				if rn.out.Drop5 == nil {
					return nil
				}
				retry := func(q string) error {
					var err error
					for deadline := time.Now().Add(30 * time.Second); time.Now().Before(deadline); time.Sleep(400 * time.Millisecond) {
						if _, err = srv.query("", q); err == nil || !strings.Contains(strings.ToLower(err.Error()), "delet") {
							return err
						}
					}
					return fmt.Errorf("still refused after 30 s: %v", err)
				}
				switch rn.out.Drop5.Kind {
				case "db":
					if err := retry("create database " + h.DB); err != nil {
						return err
					}
					if h.RP != "" {
						if err := retry(fmt.Sprintf("create retention policy %s on %s duration 0s replication 1", h.RP, h.DB)); err != nil {
							return err
						}
					}
					rn.ref.gone = false
				case "rp":
					if err := retry(fmt.Sprintf("create retention policy %s on %s duration 0s replication 1", h.RP, h.DB)); err != nil {
						return err
					}
					rn.ref.gone = false
				}
				for _, m := range h.Msts {
					if rn.ref.dead[m] {
						continue
					}
					for s, k := range h.Series {
						if k.Mst == m {
							rn.out.W6 = append(rn.out.W6, Point{S: s, T: 120, V: 5}, Point{S: s, T: 55, V: 9})
							break
						}
					}
				}
				rn.ref.add(rn.out.W6)
				return rn.writePoints(rn.out.W6)
			})
			any5 := false
			for _, rn := range rs {
				any5 = any5 || rn.out.Drop5 != nil || (rn.h.Drop.Kind == "measurement" && rn.firstLive() != "")
			}
			if any5 {
				settleShort()
				pstep("visible6", func(rn *runner) error {
					if rn.out.Drop5 != nil {
						rn.waitVisible()
					}
					return nil
				})
				pstep("after-recreate", func(rn *runner) error {
					if rn.out.Drop5 != nil {
						lateSets(rn)
						rn.readAll("after-recreate", false)
						rn.sets = nil
					}
					return nil
				})
				// everything written so far goes to files first: a kill -9 that cuts a (cold) flush between the file and the removal of
				// its WAL leaves rows in both, and the replay then makes count() see them twice - crash recovery, not dropping
				_ = srv.ctrl("mod=flush")
				step("drop5-measurement", func(rn *runner) error { return catalogueDrop(rn, true) })
				srv.kill()
				if err := srv.start(); err != nil {
					for _, rn := range rs {
						rn.out.StepErrs = append(rn.out.StepErrs, "restart after re-creation failed: "+err.Error())
					}
				} else {
					time.Sleep(1500 * time.Millisecond)
					pstep("after-recreate-restart", func(rn *runner) error {
						if rn.out.Drop5 != nil {
							lateSets(rn)
							rn.readAll("after-recreate-restart", false)
							rn.sets = nil
						}
						return nil
					})
					// the measurements dropped right before that kill are written to again: a new incarnation
					anyM := false
					step("recreate5-measurement", func(rn *runner) error {
						if rn.out.Drop5 == nil || rn.out.Drop5.Kind != "measurement" {
							return nil
						}
						anyM = true
						m := rn.out.Drop5.Mst
						rn.ref.dead[m] = false
						for s, k := range rn.h.Series {
							if k.Mst == m {
								rn.out.W6 = append(rn.out.W6, Point{S: s, T: 120, V: 5}, Point{S: s, T: 55, V: 9})
								break
							}
						}
						rn.ref.add(rn.out.W6)
						return rn.writePoints(rn.out.W6)
					})
					if anyM {
						settleShort()
						pstep("after-recreate-measurement", func(rn *runner) error {
							if rn.out.Drop5 != nil && rn.out.Drop5.Kind == "measurement" {
								rn.waitVisible()
								lateSets(rn)
								rn.readAll("after-recreate-measurement", false)
								rn.sets = nil
							}
							return nil
						})
					}
				}
			}
		}
	}
	// the series indexes on disk: <index id>_<start ns>_<end ns> (the tree model's index groups must be these time ranges)
	var idxRanges [][2]int64
	if ents, err := filepath.Glob(filepath.Join(dir, "og", "data", "data", "*", "*", "*", "index", "*")); err == nil {
		for _, e := range ents {
			parts := strings.Split(filepath.Base(e), "_")
			if len(parts) != 3 {
				continue
			}
			a, err1 := strconv.ParseInt(parts[1], 10, 64)
			b, err2 := strconv.ParseInt(parts[2], 10, 64)
			if err1 == nil && err2 == nil && b > a { // (the deleted-series table is <max uint64>_0_0)
				idxRanges = append(idxRanges, [2]int64{a / 1e9, b / 1e9})
			}
		}
	}
	gen.Emit(map[string]any{"index_ranges": idxRanges, "base_sec": baseSec})
	gen.Emit(map[string]any{"compaction": comp})
	for _, rn := range rs {
		gen.Emit(rn.out)
	}
}
