package main

// Prometheus remote write through the same handler and points writer: a snappy-compressed protobuf WriteRequest to
// /api/v1/prom/write. DIRECT ORACLE: an acknowledged request hands on, for every sample, a row whose measurement is the
// value of the __name__ label, whose tags are exactly the labels (names and values byte for byte, any characters),
// whose field `value` has the sample's bits and whose time is the sample's millisecond timestamp in nanoseconds.
// (NaN and infinities belong to C07 and are not generated.) Oracle only - this path is not in the Coq model.

import (
	"fmt"
	"math"
	"sort"

	"github.com/golang/snappy"
	"github.com/prometheus/prometheus/prompb"
	"verifharness/internal/gen"
)

func casePromWrite(r *gen.Rand, idx int) {
	httpSetup()
	env := httpEnvs[len(httpEnvs)-1] // the handler without max-body-size
	var req prompb.WriteRequest
	type want struct {
		name   string
		labels [][2]string
		bits   uint64
		ts     int64
	}
	var wants []want
	for i, n := 0, r.Range(1, 4); i < n; i++ {
		name := genName(r, true)
		labels := [][2]string{{"__name__", name}}
		seen := map[string]bool{"__name__": true}
		for k, m := 0, r.Intn(4); k < m; k++ {
			key := genName(r, false)
			if seen[key] || key == "time" {
				continue
			}
			seen[key] = true
			labels = append(labels, [2]string{key, genBytes(r, 1, 8, gen.Pick(r, []int{0, 20, 50}))})
		}
		ts := prompb.TimeSeries{}
		for _, l := range labels {
			ts.Labels = append(ts.Labels, prompb.Label{Name: l[0], Value: l[1]})
		}
		for k, m := 0, r.Range(1, 3); k < m; k++ {
			f := math.Float64frombits(r.Uint64())
			for math.IsNaN(f) || math.IsInf(f, 0) {
				f = math.Float64frombits(r.Uint64())
			}
			if r.Chance(1, 3) {
				f = float64(r.Intn(1000)) / 8
			}
			t := int64(1600000000000) + int64(len(wants))*1000 + int64(r.Intn(1000))
			ts.Samples = append(ts.Samples, prompb.Sample{Value: f, Timestamp: t})
			sorted := append([][2]string{}, labels...)
			sort.Slice(sorted, func(a, b int) bool { return sorted[a][0] < sorted[b][0] })
			wants = append(wants, want{name, sorted, math.Float64bits(f), t * 1000000})
		}
		req.Timeseries = append(req.Timeseries, ts)
	}
	raw, err := req.Marshal()
	if err != nil {
		fmt.Println("ERROR prom marshal", err)
		return
	}
	body := snappy.Encode(nil, raw)
	env.w.take()
	status := doRawPath(env.srv.Listener.Addr().String(), "/api/v1/write", "db=db0",
		[]string{fmt.Sprintf("Content-Length: %d", len(body)), "Content-Encoding: snappy", "Content-Type: application/x-protobuf"}, [][]byte{body}, false)
	groups := env.w.take()
	var rows []RowObs
	for _, g := range groups {
		rows = append(rows, g...)
	}
	c := &Case{I: idx, Class: "promwrite", Mult: 1, In: hx(string(raw)), Text: fmt.Sprintf("%d series, %d samples", len(req.Timeseries), len(wants)),
		Err: status < 200 || status >= 300, Rows: rows, Judged: true, Nontrivial: true, HTTP: &HttpInfo{Kind: "prom-remote-write", Status: status, Groups: len(groups), Answer: lastAnswer, Declared: len(body), Sent: len(body)}}
	none := func(f string, a ...any) { c.Oracle = append(c.Oracle, OracleFail{"none", fmt.Sprintf(f, a...)}) }
	switch {
	case status == -1:
		c.Sub, c.Judged = "no-answer", false
	case c.Err:
		// refused: nothing that is handed on may differ from a written sample
		c.Sub, c.Judged = "valid-refused", false
		fallthrough
	default:
		used := map[int]bool{}
		for _, ro := range rows {
			found := -1
			for i, w := range wants {
				if used[i] || ro.Ts == nil || *ro.Ts != w.ts || ro.Name != hx(w.name) {
					continue
				}
				found = i
				break
			}
			if found < 0 {
				none("a row (measurement %s, time %v) is handed on that no sample of the request says", ro.Name, ro.Ts)
				continue
			}
			used[found] = true
			w := wants[found]
			if len(ro.Tags) != len(w.labels) {
				none("series %q: %d labels written, %d tags handed on", w.name, len(w.labels), len(ro.Tags))
			} else {
				for k := range w.labels {
					if ro.Tags[k][0] != hx(w.labels[k][0]) || ro.Tags[k][1] != hx(w.labels[k][1]) {
						none("series %q: label %q=%q handed on as %s=%s", w.name, w.labels[k][0], w.labels[k][1], ro.Tags[k][0], ro.Tags[k][1])
					}
				}
			}
			if len(ro.Fields) != 1 || ro.Fields[0].K != hx("value") || ro.Fields[0].Bits != w.bits {
				none("series %q: sample value bits %x handed on as %+v", w.name, w.bits, ro.Fields)
			}
		}
		if !c.Err {
			for i, w := range wants {
				if !used[i] {
					none("answered %d but the sample of series %q at %d is not handed on", status, w.name, w.ts)
					break
				}
			}
		}
	}
	emit(c)
}
