package main

// End-to-end black-box part of C06: one ts-server built from the repository, HTTP /write then /query?epoch=ns, the JSON
// answer compared with the point the text denotes; invalid lines must be answered 4xx and store nothing.

import (
	"bytes"
	"encoding/csv"
	"encoding/json"
	"fmt"
	"io"
	"math"
	"net/http"
	"net/url"
	"os"
	"os/exec"
	"path/filepath"
	"sort"
	"strconv"
	"strings"
	"syscall"
	"time"

	"github.com/openGemini/openGemini/lib/util/lifted/vm/protoparser/influx"
	"github.com/tinylib/msgp/msgp"
	"verifharness/internal/gen"
)

const (
	e2eMeta  = 20600
	e2eHTTP  = 20610
	e2eBlock = 256 // [http] read-block-size of the server under test
	e2eLimit = 3000 // [http] max-body-size of the server under test
)

var e2eBase = fmt.Sprintf("http://127.0.0.1:%d", e2eHTTP)
var httpc = &http.Client{Timeout: 60 * time.Second}

type E2ECase struct {
	E2E    int          `json:"e2e"`
	Class  string       `json:"class"`
	Sub    string       `json:"sub,omitempty"`
	Prec   string       `json:"prec"`
	Text   string       `json:"text"`
	Status int          `json:"status"`
	Got    string       `json:"got"`
	Oracle []OracleFail `json:"oracle"`
}

func startServer(bin, tmpl, work string) (*exec.Cmd, error) {
	b, err := os.ReadFile(tmpl)
	if err != nil {
		return nil, err
	}
	root := filepath.Join(work, "og")
	s := strings.ReplaceAll(string(b), "/tmp/openGemini", root)
	rep := map[string]int{"8092": e2eMeta + 2, "8088": e2eMeta, "8091": e2eMeta + 1, "8086": e2eHTTP, "8087": e2eHTTP + 1,
		"8400": e2eHTTP + 10, "8401": e2eHTTP + 11, "8305": e2eHTTP + 20}
	for k, v := range rep {
		s = strings.ReplaceAll(s, "127.0.0.1:"+k, fmt.Sprintf("127.0.0.1:%d", v))
	}
	s = strings.ReplaceAll(s, "\r\n", "\n") // the template has CRLF line ends
	s = strings.Replace(s, "[http]\n", fmt.Sprintf("[http]\n  read-block-size = %d\n  max-body-size = %d\n", e2eBlock, e2eLimit), 1)
	if !strings.Contains(s, fmt.Sprintf("\n  read-block-size = %d\n  max-body-size = %d\n", e2eBlock, e2eLimit)) {
		return nil, fmt.Errorf("config template has no [http] section to put read-block-size / max-body-size into")
	}
	s = strings.ReplaceAll(s, "flight-enabled = true", "flight-enabled = false")
	s = strings.ReplaceAll(s, "store-enabled = true", "store-enabled = false")
	conf := filepath.Join(work, "c06.conf")
	if err := os.WriteFile(conf, []byte(s), 0o644); err != nil {
		return nil, err
	}
	lf, err := os.Create(filepath.Join(work, "ts-server.out"))
	if err != nil {
		return nil, err
	}
	// the answers must come from the server started here, not from a stray one on the same port
	// (another check of this property may be finishing: wait for it up to three minutes before giving up)
	for waited := 0; ; waited++ {
		resp, err := httpc.Get(e2eBase + "/ping")
		if err != nil {
			break
		}
		resp.Body.Close()
		if waited >= 180 {
			return nil, fmt.Errorf("port %d is already served by another process", e2eHTTP)
		}
		time.Sleep(time.Second)
	}
	cmd := exec.Command(bin, "-config", conf)
	cmd.Dir = work
	cmd.Env = append(os.Environ(), "HOME="+work)
	cmd.Stdout, cmd.Stderr = lf, lf
	// own process group, killed with this harness; nothing is ever killed by name
	cmd.SysProcAttr = &syscall.SysProcAttr{Setpgid: true, Pdeathsig: syscall.SIGKILL}
	if err := cmd.Start(); err != nil {
		return nil, err
	}
	for i := 0; i < 400; i++ {
		resp, err := httpc.Get(e2eBase + "/ping")
		if err == nil {
			resp.Body.Close()
			if resp.StatusCode == 204 {
				return cmd, nil
			}
		}
		time.Sleep(100 * time.Millisecond)
	}
	stopServer(cmd)
	return nil, fmt.Errorf("server did not come up")
}

func stopServer(cmd *exec.Cmd) {
	if cmd != nil && cmd.Process != nil {
		_ = syscall.Kill(-cmd.Process.Pid, syscall.SIGKILL)
		_, _ = cmd.Process.Wait()
	}
}

func httpPost(path string, vals url.Values, body []byte) (int, []byte, error) {
	resp, err := httpc.Post(e2eBase+path+"?"+vals.Encode(), "text/plain", bytes.NewReader(body))
	if err != nil {
		return 0, nil, err
	}
	defer resp.Body.Close()
	b, _ := io.ReadAll(resp.Body)
	return resp.StatusCode, b, nil
}

type qResp struct {
	Results []struct {
		Series []struct {
			Name    string          `json:"name"`
			Columns []string        `json:"columns"`
			Values  [][]interface{} `json:"values"`
		} `json:"series"`
		Error string `json:"error"`
	} `json:"results"`
	Error string `json:"error"`
}

func query(q string) (*qResp, string, error) {
	resp, err := httpc.Get(e2eBase + "/query?" + url.Values{"db": {"c06"}, "epoch": {"ns"}, "q": {q}}.Encode())
	if err != nil {
		return nil, "", err
	}
	defer resp.Body.Close()
	raw, _ := io.ReadAll(resp.Body)
	var r qResp
	dec := json.NewDecoder(bytes.NewReader(raw))
	dec.UseNumber()
	if err := dec.Decode(&r); err != nil {
		return nil, string(raw), err
	}
	return &r, string(raw), nil
}

// rowsOf returns the rows of measurement m as column->value maps.
func rowsOf(m string) ([]map[string]interface{}, string, error) {
	r, raw, err := query("SELECT * FROM " + m)
	if err != nil {
		return nil, raw, err
	}
	var out []map[string]interface{}
	for _, res := range r.Results {
		for _, s := range res.Series {
			for _, v := range s.Values {
				row := map[string]interface{}{}
				for i, c := range s.Columns {
					if i < len(v) {
						row[c] = v[i]
					}
				}
				out = append(out, row)
			}
		}
	}
	return out, raw, nil
}

// rowToObs turns a JSON row into the observation shape the direct oracle compares.
func rowToObs(p Point, m string, row map[string]interface{}) RowObs {
	ro := RowObs{Name: hx(m), Tags: [][2]string{}, Fields: []FieldObs{}}
	if n, ok := row["time"].(json.Number); ok {
		if v, err := strconv.ParseInt(string(n), 10, 64); err == nil {
			ro.Ts = &v
		}
	}
	keys := [][2]string{}
	for _, t := range p.Tags {
		keys = append(keys, t)
	}
	sort.Slice(keys, func(i, j int) bool { return keys[i][0] < keys[j][0] })
	for _, t := range keys {
		if s, ok := row[t[0]].(string); ok {
			ro.Tags = append(ro.Tags, [2]string{hx(t[0]), hx(s)})
		}
	}
	for _, f := range p.Fields {
		fo := FieldObs{K: hx(f.K), T: -1}
		switch v := row[f.K].(type) {
		case json.Number:
			if f.V.Kind == 'i' && !strings.ContainsAny(string(v), ".eE") {
				if n, err := strconv.ParseInt(string(v), 10, 64); err == nil {
					fo.T, fo.Stored = influx.Field_Type_Int, n
				}
			} else if x, err := strconv.ParseFloat(string(v), 64); err == nil {
				fo.T, fo.Bits = influx.Field_Type_Float, math.Float64bits(x)
			}
		case bool:
			fo.T = influx.Field_Type_Boolean
			if v {
				fo.Bits = math.Float64bits(1)
			}
		case string:
			fo.T, fo.S = influx.Field_Type_String, hx(v)
		}
		ro.Fields = append(ro.Fields, fo)
	}
	return ro
}

var specialsE2E = []string{",", " ", "=", "\"", "\\", "\\", ",", " ", "=", "#", "!", "[", "]", "'", ":", ".", "/", "+", "é", "温", "度", "😀", "ß", "f", "i", "e"}

func e2eMain(bin, tmpl, work string, n int) int {
	specials = specialsE2E
	cmd, err := startServer(bin, tmpl, work)
	if err != nil {
		fmt.Println("ERROR e2e:", err)
		return 2
	}
	defer stopServer(cmd)
	if st, body, err := httpPost("/query", url.Values{"q": {"CREATE DATABASE c06"}}, nil); err != nil || st != 200 {
		fmt.Println("ERROR e2e: create database", st, string(body), err)
		return 2
	}
	r := gen.FromEnv(606)
	precs := []struct {
		name string
		mult int64
	}{{"ns", 1}, {"", 1}, {"u", 1000}, {"ms", 1000000}, {"s", 1000000000}}
	bases := []int64{1600000000, 1600600000, 1700000000} // seconds; three shard groups
	type pending struct {
		c     *E2ECase
		m     string
		p     Point
		mult  int64
		valid bool
	}
	var pend []pending
	for i := 0; i < n; i++ {
		m := fmt.Sprintf("m%d", i)
		pr := precs[r.Intn(len(precs))]
		c := &E2ECase{E2E: i, Prec: pr.name}
		vals := url.Values{"db": {"c06"}}
		if pr.name != "" {
			vals.Set("precision", pr.name)
		}
		switch x := r.Intn(10); {
		case x < 6: // a valid point, every escape form and numeric spelling, unique measurement
			p := genPoint(r)
			for !pointStorable(p) {
				p = genPoint(r)
			}
			p.Name = m
			// distinct column names over tags and fields
			seen := map[string]bool{"time": true}
			var tags [][2]string
			for _, t := range p.Tags {
				if !seen[t[0]] {
					seen[t[0]] = true
					tags = append(tags, t)
				}
			}
			p.Tags = tags
			var fields []PField
			for _, f := range p.Fields {
				if !seen[f.K] {
					seen[f.K] = true
					fields = append(fields, f)
				}
			}
			if len(fields) == 0 {
				fields = []PField{{K: "v" + strconv.Itoa(i), V: genVal(r)}}
				for fields[0].V.Kind == 'f' && math.IsInf(math.Float64frombits(fields[0].V.FBits), 0) {
					fields[0].V = genVal(r)
				}
			}
			p.Fields = fields
			p.HasTs = true
			sec := bases[r.Intn(len(bases))] + int64(r.Intn(3600))
			switch pr.mult {
			case 1:
				p.Ts = sec*1000000000 + int64(r.Intn(1000000000))
			case 1000:
				p.Ts = sec*1000000 + int64(r.Intn(1000000))
			case 1000000:
				p.Ts = sec*1000 + int64(r.Intn(1000))
			default:
				p.Ts = sec
			}
			c.Class, c.Text = "valid", render(r, p)
			st, _, err := httpPost("/write", vals, []byte(c.Text))
			if err != nil {
				fmt.Println("ERROR e2e: write", err)
				return 2
			}
			c.Status = st
			pend = append(pend, pending{c, m, p, pr.mult, true})
		case x < 9: // an invalid line
			b := genBad(r)
			// keep the measurement recognisable: replace the leading identifier where the class has one
			text := b.text
			if b.sub != "no-measurement" && b.sub != "no-field" {
				if j := strings.IndexAny(text, ", "); j > 0 {
					text = m + text[j:]
				}
			}
			c.Class, c.Sub, c.Text = "malformed", b.sub, text
			st, _, err := httpPost("/write", vals, []byte(text))
			if err != nil {
				fmt.Println("ERROR e2e: write", err)
				return 2
			}
			c.Status = st
			if st < 400 || st >= 500 {
				c.Oracle = append(c.Oracle, OracleFail{b.sig, fmt.Sprintf("invalid line (%s) answered %d", b.sub, st)})
			}
			pend = append(pend, pending{c, m, Point{}, 1, false})
		default: // valid, invalid, valid in one request
			ts := bases[0] * 1000000000 * 1
			if pr.mult != 1 {
				ts = bases[0] * 1000000000 / pr.mult
			}
			text := fmt.Sprintf("%s,k=a x=1i %d\n%s,k=b bad\n%s,k=c x=2i %d", m, ts, m, m, ts+1)
			c.Class, c.Sub, c.Text = "batch", "valid-invalid-valid", text
			st, _, err := httpPost("/write", vals, []byte(text))
			if err != nil {
				fmt.Println("ERROR e2e: write", err)
				return 2
			}
			c.Status = st
			if st < 400 || st >= 500 {
				c.Oracle = append(c.Oracle, OracleFail{"C06-midbatch-error-lost", fmt.Sprintf("request with an invalid middle line answered %d", st)})
			}
			pend = append(pend, pending{c, m, Point{}, 1, false})
		}
	}
	// query back (fresh points can take a moment to become visible)
	time.Sleep(1500 * time.Millisecond)
	for _, pd := range pend {
		var rows []map[string]interface{}
		var raw string
		for try := 0; try < 20; try++ {
			rows, raw, err = rowsOf(pd.m)
			if err != nil {
				fmt.Println("ERROR e2e: query", err, raw)
				return 2
			}
			if !pd.valid || pd.c.Status != 204 || len(rows) > 0 {
				break
			}
			time.Sleep(250 * time.Millisecond)
		}
		c := pd.c
		if len(raw) > 600 {
			raw = raw[:600]
		}
		c.Got = raw
		switch {
		case pd.valid && c.Status == 204:
			if len(rows) != 1 {
				c.Oracle = append(c.Oracle, OracleFail{"none", fmt.Sprintf("accepted point not returned (%d rows)", len(rows))})
			} else {
				c.Oracle = append(c.Oracle, comparePoint(pd.p, rowToObs(pd.p, pd.m, rows[0]), pd.mult)...)
			}
		case pd.valid:
			c.Sub = "valid-refused"
			if len(rows) != 0 {
				c.Oracle = append(c.Oracle, OracleFail{"none", "refused point is returned by the query"})
			}
		case c.Status >= 400:
			if len(rows) != 0 {
				c.Oracle = append(c.Oracle, OracleFail{"none", fmt.Sprintf("request answered %d but %d row(s) stored", c.Status, len(rows))})
			}
		}
		if c.Oracle == nil {
			c.Oracle = []OracleFail{}
		}
		gen.Emit(c)
	}
	extra := 0
	nm := 5
	if n >= 200 {
		nm = 40
	}
	if rc := e2eFormats(r, len(pend), nm, &extra); rc != 0 {
		return rc
	}
	if rc := e2eBlocks(len(pend)+extra, &extra); rc != 0 {
		return rc
	}
	if rc := e2eTsOverflow(len(pend)+extra, &extra); rc != 0 {
		return rc
	}
	if rc := e2eFraming(r, len(pend)+extra, &extra); rc != 0 {
		return rc
	}
	if rc := e2eReserved(r, len(pend)+extra, &extra); rc != 0 {
		return rc
	}
	fmt.Printf("{\"e2e_done\":%d}\n", len(pend)+extra)
	return 0
}


// ---------------------------------------------------------------------------------------------
// every response format of /query over points with different field sets in one measurement

type respFormat struct {
	name   string
	accept string
	params [][2]string
}

var respFormats = []respFormat{
	{"json", "", nil},
	{"json-pretty", "application/json", [][2]string{{"pretty", "true"}}},
	{"json-chunked", "", [][2]string{{"chunked", "true"}, {"chunk_size", "1"}}},
	{"csv", "application/csv", nil},
	{"text-csv", "text/csv", nil},
	{"msgpack", "application/x-msgpack", nil},
}

func fetch(q string, f respFormat) ([]byte, error) {
	vals := url.Values{"db": {"c06"}, "epoch": {"ns"}, "q": {q}}
	for _, kv := range f.params {
		vals.Set(kv[0], kv[1])
	}
	req, _ := http.NewRequest("GET", e2eBase+"/query?"+vals.Encode(), nil)
	if f.accept != "" {
		req.Header.Set("Accept", f.accept)
	}
	resp, err := httpc.Do(req)
	if err != nil {
		return nil, err
	}
	defer resp.Body.Close()
	return io.ReadAll(resp.Body)
}

// decodeRows: rows as column -> cell. JSON/msgpack cells are typed values (nil = null); CSV cells are strings
// ("" = null).
func decodeRows(raw []byte, f respFormat) ([]map[string]interface{}, error) {
	var out []map[string]interface{}
	addSeries := func(cols []string, values [][]interface{}) {
		for _, v := range values {
			row := map[string]interface{}{}
			for i, c := range cols {
				if i < len(v) {
					row[c] = v[i]
				}
			}
			out = append(out, row)
		}
	}
	switch {
	case strings.HasPrefix(f.name, "json"):
		dec := json.NewDecoder(bytes.NewReader(raw))
		dec.UseNumber()
		for {
			var r qResp
			if err := dec.Decode(&r); err == io.EOF {
				break
			} else if err != nil {
				return nil, err
			}
			if r.Error != "" {
				return nil, fmt.Errorf("%s", r.Error)
			}
			for _, res := range r.Results {
				if res.Error != "" {
					return nil, fmt.Errorf("%s", res.Error)
				}
				for _, s := range res.Series {
					addSeries(s.Columns, s.Values)
				}
			}
		}
	case strings.Contains(f.name, "csv"):
		rd := csv.NewReader(bytes.NewReader(raw))
		rd.FieldsPerRecord = -1
		recs, err := rd.ReadAll()
		if err != nil {
			return nil, err
		}
		var hdr []string
		for _, rec := range recs {
			if len(rec) > 0 && rec[0] == "name" && (hdr == nil || len(rec) != len(hdr) || rec[1] == "tags") {
				hdr = rec
				continue
			}
			if hdr == nil {
				return nil, fmt.Errorf("csv without header")
			}
			row := map[string]interface{}{}
			for i := 2; i < len(hdr) && i < len(rec); i++ {
				row[hdr[i]] = rec[i]
			}
			out = append(out, row)
		}
	default: // msgpack
		v, err := msgp.NewReader(bytes.NewReader(raw)).ReadIntf()
		if err != nil {
			return nil, err
		}
		top, _ := v.(map[string]interface{})
		if e, ok := top["error"]; ok {
			return nil, fmt.Errorf("%v", e)
		}
		results, _ := top["results"].([]interface{})
		for _, r := range results {
			rm, _ := r.(map[string]interface{})
			if e, ok := rm["error"]; ok {
				return nil, fmt.Errorf("%v", e)
			}
			series, _ := rm["series"].([]interface{})
			for _, s := range series {
				sm, _ := s.(map[string]interface{})
				var cols []string
				for _, c := range sm["columns"].([]interface{}) {
					cols = append(cols, fmt.Sprint(c))
				}
				var values [][]interface{}
				for _, vs := range sm["values"].([]interface{}) {
					values = append(values, vs.([]interface{}))
				}
				addSeries(cols, values)
			}
		}
	}
	return out, nil
}

func cellInt(v interface{}) (int64, bool) {
	switch x := v.(type) {
	case json.Number:
		if strings.ContainsAny(string(x), ".eE") {
			return 0, false
		}
		n, err := strconv.ParseInt(string(x), 10, 64)
		return n, err == nil
	case string:
		n, err := strconv.ParseInt(x, 10, 64)
		return n, err == nil
	case int64:
		return x, true
	case int:
		return int64(x), true
	case int32:
		return int64(x), true
	case uint64:
		return int64(x), x <= math.MaxInt64
	case time.Time:
		return x.UnixNano(), true
	}
	return 0, false
}

// cellObs: the returned cell seen as a value of the kind the field was written with.
func cellObs(key string, kind byte, v interface{}) FieldObs {
	fo := FieldObs{K: hx(key), T: -1}
	switch kind {
	case 'i':
		if n, ok := cellInt(v); ok {
			fo.T, fo.Stored = influx.Field_Type_Int, n
		}
	case 'f':
		switch x := v.(type) {
		case json.Number:
			if f, err := strconv.ParseFloat(string(x), 64); err == nil {
				fo.T, fo.Bits = influx.Field_Type_Float, math.Float64bits(f)
			}
		case string:
			if f, err := strconv.ParseFloat(x, 64); err == nil {
				fo.T, fo.Bits = influx.Field_Type_Float, math.Float64bits(f)
			}
		case float64:
			fo.T, fo.Bits = influx.Field_Type_Float, math.Float64bits(x)
		case float32:
			fo.T, fo.Bits = influx.Field_Type_Float, math.Float64bits(float64(x))
		}
	case 'b':
		switch x := v.(type) {
		case bool:
			fo.T = influx.Field_Type_Boolean
			if x {
				fo.Bits = math.Float64bits(1)
			}
		case string:
			if x == "true" || x == "false" {
				fo.T = influx.Field_Type_Boolean
				if x == "true" {
					fo.Bits = math.Float64bits(1)
				}
			}
		}
	case 's':
		if x, ok := v.(string); ok {
			fo.T, fo.S = influx.Field_Type_String, hx(x)
		}
	}
	return fo
}

func cleanVal(r *gen.Rand, kind byte) PVal {
	switch kind {
	case 'i':
		n := int64(r.Uint64()>>uint(11+r.Intn(40))) - int64(r.Intn(2000))
		return PVal{Kind: 'i', Int: n, Text: strconv.FormatInt(n, 10) + "i"}
	case 'f':
		lit := digits(r, r.Range(1, 6)) + "." + digits(r, r.Range(1, 6))
		if r.Bool() {
			lit = "-" + lit
		}
		f, _ := strconv.ParseFloat(lit, 64)
		return PVal{Kind: 'f', Lit: lit, FBits: math.Float64bits(f), Text: lit}
	case 'b':
		b := r.Bool()
		return PVal{Kind: 'b', Bool: b, Text: map[bool]string{true: "true", false: "false"}[b]}
	default:
		s := genBsqString(r)
		if r.Bool() {
			s = genBytes(r, 1, 10, 30)
		}
		s = strings.NewReplacer("\n", "", "\r", "").Replace(s)
		if s == "" {
			s = "x"
		}
		return PVal{Kind: 's', Str: s, Text: "\"" + escStr(r, s, false) + "\""}
	}
}

// e2eFormats: nm measurements; each gets 4..6 points with different subsets of four typed fields (a row with every
// field first, then rows in which every column is null at least once after a non-null), written in one request and
// read back in every response format.
func e2eFormats(r *gen.Rand, base, nm int, extra *int) int {
	kinds := []byte{'f', 'i', 'b', 's'}
	for j := 0; j < nm; j++ {
		m := fmt.Sprintf("r%d", j)
		keys := []string{"fa" + strconv.Itoa(r.Intn(10)), "ib" + strconv.Itoa(r.Intn(10)), "ok" + strconv.Itoa(r.Intn(10)), "s" + genBytes(r, 1, 4, 0)}
		np := r.Range(4, 6)
		var pts []Point
		var lines []string
		for i := 0; i < np; i++ {
			p := Point{Name: m, HasTs: true, Ts: 1600000000000000000 + int64(j)*1000 + int64(i)}
			for k := range keys {
				present := i == 0 || (i-1 != k && r.Intn(3) > 0) // row k+1 lacks column k; later rows lack columns at random
				if present {
					p.Fields = append(p.Fields, PField{K: keys[k], V: cleanVal(r, kinds[k])})
				}
			}
			if len(p.Fields) == 0 {
				p.Fields = append(p.Fields, PField{K: keys[0], V: cleanVal(r, kinds[0])})
			}
			pts = append(pts, p)
			lines = append(lines, render(r, p))
		}
		body := strings.Join(lines, "\n")
		st, rb, err := httpPost("/write", url.Values{"db": {"c06"}}, []byte(body))
		if err != nil {
			fmt.Println("ERROR e2e: write", err)
			return 2
		}
		if st != 204 {
			c := &E2ECase{E2E: base + *extra, Class: "formats", Sub: "write", Text: body, Status: st, Got: string(rb)}
			c.Oracle = []OracleFail{{"none", fmt.Sprintf("valid multi-line body answered %d", st)}}
			gen.Emit(c)
			*extra++
			continue
		}
		// wait until all rows are visible
		for try := 0; try < 40; try++ {
			raw, _ := fetch("SELECT * FROM "+m, respFormats[0])
			rows, _ := decodeRows(raw, respFormats[0])
			if len(rows) >= np {
				break
			}
			time.Sleep(250 * time.Millisecond)
		}
		for _, f := range respFormats {
			raw, err := fetch("SELECT * FROM "+m, f)
			if err != nil {
				fmt.Println("ERROR e2e: query", err)
				return 2
			}
			c := &E2ECase{E2E: base + *extra, Class: "formats", Sub: f.name, Text: body, Status: 204, Oracle: []OracleFail{}}
			*extra++
			got := string(raw)
			if f.name == "msgpack" {
				got = fmt.Sprintf("%x", raw)
			}
			if len(got) > 700 {
				got = got[:700]
			}
			c.Got = got
			rows, err := decodeRows(raw, f)
			if err != nil {
				c.Oracle = append(c.Oracle, OracleFail{"none", "undecodable " + f.name + " answer: " + err.Error()})
				gen.Emit(c)
				continue
			}
			sort.SliceStable(rows, func(a, b int) bool {
				x, _ := cellInt(rows[a]["time"])
				y, _ := cellInt(rows[b]["time"])
				return x < y
			})
			if len(rows) != np {
				c.Oracle = append(c.Oracle, OracleFail{"none", fmt.Sprintf("%d points written, %d rows in the %s answer", np, len(rows), f.name)})
				gen.Emit(c)
				continue
			}
			for i, p := range pts {
				ro := RowObs{Name: hx(m), Tags: [][2]string{}}
				if ts, ok := cellInt(rows[i]["time"]); ok {
					ro.Ts = &ts
				}
				have := map[string]bool{}
				for _, fl := range p.Fields {
					have[fl.K] = true
					ro.Fields = append(ro.Fields, cellObs(fl.K, fl.V.Kind, rows[i][fl.K]))
				}
				for _, of := range comparePoint(p, ro, 1) {
					of.What = f.name + " row " + strconv.Itoa(i) + ": " + of.What
					c.Oracle = append(c.Oracle, of)
				}
				for _, k := range keys {
					if have[k] {
						continue
					}
					if v, ok := rows[i][k]; ok && v != nil && v != "" {
						c.Oracle = append(c.Oracle, OracleFail{"none", fmt.Sprintf("%s row %d: column %s returns %v for a point that was written without that field", f.name, i, k, v)})
					}
				}
			}
			gen.Emit(c)
		}
	}
	return 0
}

// e2eBlocks: request bodies whose length lands on and around multiples of the server's read-block size, with and
// without a final newline: every line of the body must come back from a query.
func e2eBlocks(base int, extra *int) int {
	type job struct {
		m    string
		want []string
		c    *E2ECase
	}
	var jobs []job
	for k := 1; k <= 3; k++ {
		for d := -2; d <= 2; d++ {
			for _, final := range []bool{false, true} {
				L := k*e2eBlock + d
				m := fmt.Sprintf("sb%d_%v", L, final)
				body, want := sweepBody(m, L, "\n", final, false)
				if body == "" {
					continue
				}
				st, rb, err := httpPost("/write", url.Values{"db": {"c06"}}, []byte(body))
				if err != nil {
					fmt.Println("ERROR e2e: write", err)
					return 2
				}
				c := &E2ECase{E2E: base + *extra, Class: "blocks", Sub: fmt.Sprintf("len=%d final-newline=%v", L, final), Text: body, Status: st, Oracle: []OracleFail{}}
				*extra++
				if st != 204 {
					c.Got = string(rb)
					c.Oracle = append(c.Oracle, OracleFail{"none", fmt.Sprintf("valid body of %d bytes answered %d", L, st)})
				}
				jobs = append(jobs, job{m, want, c})
			}
		}
	}
	time.Sleep(1200 * time.Millisecond)
	for _, j := range jobs {
		if j.c.Status == 204 {
			var rows []map[string]interface{}
			var raw string
			var err error
			for try := 0; try < 12; try++ {
				rows, raw, err = rowsOf(j.m)
				if err != nil {
					fmt.Println("ERROR e2e: query", err, raw)
					return 2
				}
				if len(rows) >= len(j.want) {
					break
				}
				time.Sleep(250 * time.Millisecond)
			}
			if len(raw) > 500 {
				raw = raw[:500]
			}
			j.c.Got = raw
			if len(rows) != len(j.want) {
				j.c.Oracle = append(j.c.Oracle, OracleFail{"none", fmt.Sprintf("%d lines written and acknowledged, %d rows returned", len(j.want), len(rows))})
			} else {
				sort.SliceStable(rows, func(a, b int) bool {
					x, _ := cellInt(rows[a]["time"])
					y, _ := cellInt(rows[b]["time"])
					return x < y
				})
				for i, w := range j.want {
					if s, _ := rows[i]["h"].(string); s != w {
						j.c.Oracle = append(j.c.Oracle, OracleFail{"none", fmt.Sprintf("line %d: tag %q returned as %q", i, w, s)})
						break
					}
				}
			}
		}
		gen.Emit(j.c)
	}
	return 0
}


// e2eTsOverflow: valid timestamps that denote an instant beyond int64 nanoseconds under a coarse precision must be
// refused (4xx) and store nothing; storing them at some other instant is a failure.
func e2eTsOverflow(base int, extra *int) int {
	cases := []struct {
		prec string
		ts   string
	}{{"s", "18446744074"}, {"s", "9223372037"}, {"ms", "18446744073710"}, {"h", "5124096"}, {"m", "307445735"}, {"u", "18446744073709552"}}
	for i, tc := range cases {
		m := fmt.Sprintf("tsov%d", i)
		text := m + " x=1i " + tc.ts
		st, rb, err := httpPost("/write", url.Values{"db": {"c06"}, "precision": {tc.prec}}, []byte(text))
		if err != nil {
			fmt.Println("ERROR e2e: write", err)
			return 2
		}
		c := &E2ECase{E2E: base + *extra, Class: "ts-overflow", Prec: tc.prec, Text: text, Status: st, Got: string(rb), Oracle: []OracleFail{}}
		*extra++
		time.Sleep(300 * time.Millisecond)
		var rows []map[string]interface{}
		for try := 0; try < 8; try++ {
			rows, _, err = rowsOf(m)
			if err != nil {
				fmt.Println("ERROR e2e: query", err)
				return 2
			}
			if len(rows) > 0 || st != 204 {
				break
			}
			time.Sleep(250 * time.Millisecond)
		}
		if len(rows) > 0 {
			ts, _ := cellInt(rows[0]["time"])
			c.Oracle = append(c.Oracle, OracleFail{"C06-ts-overflow", fmt.Sprintf("timestamp %s (precision %s) is beyond int64 ns; answered %d and stored at %d", tc.ts, tc.prec, st, ts)})
		} else if st < 400 || st >= 500 {
			c.Oracle = append(c.Oracle, OracleFail{"C06-ts-overflow", fmt.Sprintf("timestamp %s (precision %s) is beyond int64 ns; answered %d without an error (no row visible)", tc.ts, tc.prec, st)})
		}
		gen.Emit(c)
	}
	return 0
}


// e2eFraming: the body framing on the running server (max-body-size 3000, read-block-size 256): chunked uploads below,
// at and beyond the limit, gzip bodies (text below and beyond the limit), a declared length beyond the limit, an upload
// that breaks off. Acknowledged: every line comes back from a query. Otherwise: what comes back are complete lines
// of the body with the values written, from its beginning.
func e2eFraming(r *gen.Rand, base int, extra *int) int {
	type job struct {
		m    string
		want []string
		c    *E2ECase
	}
	var jobs []job
	addr := fmt.Sprintf("127.0.0.1:%d", e2eHTTP)
	plans := []struct {
		kind string
		L    int
	}{{"chunked", 1200}, {"chunked", e2eLimit - 1}, {"chunked", e2eLimit}, {"chunked", e2eLimit + 1}, {"chunked", e2eLimit + 2}, {"chunked", 2*e2eLimit + 17},
		{"gzip-cl", 2500}, {"gzip-cl", 2*e2eLimit + 100}, {"gzip-chunked", e2eLimit + 1}, {"cl", e2eLimit}, {"cl", e2eLimit + 1},
		{"chunked-abort", 2000}, {"gzip-broken", 2600}}
	for i, pl := range plans {
		m := fmt.Sprintf("fr%d", i)
		body, want := sweepBody(m, pl.L, "\n", i%2 == 0, false)
		if body == "" {
			continue
		}
		raw := []byte(body)
		var hdr []string
		var wire [][]byte
		abort := false
		switch pl.kind {
		case "cl":
			hdr, wire = []string{fmt.Sprintf("Content-Length: %d", len(raw))}, [][]byte{raw}
		case "chunked":
			hdr, wire = []string{"Transfer-Encoding: chunked"}, chunkedWire(r, raw)
		case "gzip-cl":
			z := gz(raw)
			hdr, wire = []string{"Content-Encoding: gzip", fmt.Sprintf("Content-Length: %d", len(z))}, [][]byte{z}
		case "gzip-chunked":
			hdr, wire = []string{"Content-Encoding: gzip", "Transfer-Encoding: chunked"}, chunkedWire(r, gz(raw))
		case "chunked-abort":
			k := len(raw)/2 + 7 // inside a line
			wire = chunkedWire(r, raw[:k])
			hdr, wire, abort = []string{"Transfer-Encoding: chunked"}, wire[:len(wire)-1], true
		case "gzip-broken":
			z := gz(raw)
			z = z[:len(z)*2/3]
			hdr, wire = []string{"Content-Encoding: gzip", fmt.Sprintf("Content-Length: %d", len(z))}, [][]byte{z}
		}
		st := doRaw(addr, "db=c06", hdr, wire, abort)
		c := &E2ECase{E2E: base + *extra, Class: "framing", Sub: fmt.Sprintf("%s len=%d", pl.kind, pl.L), Text: body, Status: st, Oracle: []OracleFail{}}
		*extra++
		jobs = append(jobs, job{m, want, c})
	}
	time.Sleep(1200 * time.Millisecond)
	for _, j := range jobs {
		ack := j.c.Status >= 200 && j.c.Status < 300
		var rows []map[string]interface{}
		var raw string
		var err error
		for try := 0; try < 12; try++ {
			rows, raw, err = rowsOf(j.m)
			if err != nil {
				fmt.Println("ERROR e2e: query", err, raw)
				return 2
			}
			if !ack || len(rows) >= len(j.want) {
				break
			}
			time.Sleep(250 * time.Millisecond)
		}
		if len(raw) > 500 {
			raw = raw[:500]
		}
		j.c.Got = raw
		sort.SliceStable(rows, func(a, b int) bool {
			x, _ := cellInt(rows[a]["time"])
			y, _ := cellInt(rows[b]["time"])
			return x < y
		})
		if ack && len(rows) != len(j.want) {
			j.c.Oracle = append(j.c.Oracle, OracleFail{"none", fmt.Sprintf("%d lines written and acknowledged (%d), %d rows returned", len(j.want), j.c.Status, len(rows))})
		}
		// every returned row must be a complete line of the body: time 1000+i, tag h as written, v = i
		for _, row := range rows {
			ts, _ := cellInt(row["time"])
			i := int(ts - 1000)
			h, _ := row["h"].(string)
			v, vok := cellInt(row["v"])
			if i < 0 || i >= len(j.want) || h != j.want[i] || !vok || v != int64(i) {
				j.c.Oracle = append(j.c.Oracle, OracleFail{"none", fmt.Sprintf("answered %d; a row (time %d, h=%q, v=%v) is returned that no complete line of the body says", j.c.Status, ts, h, row["v"])})
				break
			}
		}
		gen.Emit(j.c)
	}
	return 0
}


// e2eReserved: the reserved key `time` (the line-protocol documentation: a point that uses it as a tag or field key is
// discarded). A field or tag of that name cannot come back from a query, so the only answers that keep the promise are
// a refusal that stores nothing, or - for the field - nothing else either.
func e2eReserved(r *gen.Rand, base int, extra *int) int {
	type job struct {
		m    string
		kind string
		c    *E2ECase
	}
	var jobs []job
	mk := func(kind, m, text string) {
		st, _, err := httpPost("/write", url.Values{"db": {"c06"}}, []byte(text))
		if err != nil {
			st = -1
		}
		c := &E2ECase{E2E: base + *extra, Class: "reserved", Sub: kind, Text: text, Status: st, Oracle: []OracleFail{}}
		*extra++
		jobs = append(jobs, job{m, kind, c})
	}
	vals := []string{"5i", "2.5", "\"a\"", "true"}
	for i := 0; i < 3; i++ {
		m := fmt.Sprintf("rsvf%d", i)
		v := vals[r.Intn(len(vals))]
		ts := 1600000000000000000 + int64(r.Intn(1000000))
		switch i {
		case 0:
			mk("time-field", m, fmt.Sprintf("%s time=%s,x=1i %d", m, v, ts))
		case 1:
			mk("time-field", m, fmt.Sprintf("%s a=2i,time=%s,x=1i %d", m, v, ts))
		default:
			mk("time-field", m, fmt.Sprintf("%s,k=v x=1i,time=%s %d", m, v, ts))
		}
	}
	for i := 0; i < 2; i++ {
		m := fmt.Sprintf("rsvt%d", i)
		ts := 1600000000000000000 + int64(r.Intn(1000000))
		if i == 0 {
			mk("time-tag", m, fmt.Sprintf("%s,time=a x=1i %d", m, ts))
		} else {
			mk("time-tag", m, fmt.Sprintf("%s,host=h,time=%s x=1i %d", m, genBytes(r, 1, 4, 0), ts))
		}
	}
	time.Sleep(1200 * time.Millisecond)
	for _, j := range jobs {
		ack := j.c.Status >= 200 && j.c.Status < 300
		var rows []map[string]interface{}
		var raw string
		var err error
		for try := 0; try < 8; try++ {
			rows, raw, err = rowsOf(j.m)
			if err != nil {
				fmt.Println("ERROR e2e: query", err, raw)
				return 2
			}
			if len(rows) > 0 {
				break
			}
			time.Sleep(250 * time.Millisecond)
		}
		if len(raw) > 400 {
			raw = raw[:400]
		}
		j.c.Got = raw
		switch {
		case j.kind == "time-field" && ack:
			j.c.Oracle = append(j.c.Oracle, OracleFail{"C06-time-field-dropped", fmt.Sprintf("answered %d; the field named time is not stored (%d row(s) come back without it)", j.c.Status, len(rows))})
		case j.kind == "time-tag" && len(rows) > 0:
			j.c.Oracle = append(j.c.Oracle, OracleFail{"C06-time-tag-dropped", fmt.Sprintf("answered %d; the point is stored without its tag named time, under a series the text did not say", j.c.Status)})
		case j.kind == "time-tag" && ack:
			j.c.Oracle = append(j.c.Oracle, OracleFail{"none", fmt.Sprintf("answered %d but nothing comes back", j.c.Status)})
		case !ack && len(rows) > 0:
			j.c.Oracle = append(j.c.Oracle, OracleFail{"none", fmt.Sprintf("answered %d but %d row(s) stored", j.c.Status, len(rows))})
		}
		gen.Emit(j.c)
	}
	return 0
}
