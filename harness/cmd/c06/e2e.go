package main

// End-to-end black-box part of C06: one ts-server built from the repository, HTTP /write then /query?epoch=ns, the JSON
// answer compared with the point the text denotes; invalid lines must be answered 4xx and store nothing.

import (
	"bytes"
	"encoding/json"
	"fmt"
	"io"
	"math"
	"net/http"
	"net/url"
	"os"
	"os/exec"
	"path/filepath"
	"sort"
	"strconv"
	"strings"
	"syscall"
	"time"

	"github.com/openGemini/openGemini/lib/util/lifted/vm/protoparser/influx"
	"verifharness/internal/gen"
)

const (
	e2eMeta = 20600
	e2eHTTP = 20610
)

var e2eBase = fmt.Sprintf("http://127.0.0.1:%d", e2eHTTP)
var httpc = &http.Client{Timeout: 60 * time.Second}

type E2ECase struct {
	E2E    int          `json:"e2e"`
	Class  string       `json:"class"`
	Sub    string       `json:"sub,omitempty"`
	Prec   string       `json:"prec"`
	Text   string       `json:"text"`
	Status int          `json:"status"`
	Got    string       `json:"got"`
	Oracle []OracleFail `json:"oracle"`
}

func startServer(bin, tmpl, work string) (*exec.Cmd, error) {
	b, err := os.ReadFile(tmpl)
	if err != nil {
		return nil, err
	}
	root := filepath.Join(work, "og")
	s := strings.ReplaceAll(string(b), "/tmp/openGemini", root)
	rep := map[string]int{"8092": e2eMeta + 2, "8088": e2eMeta, "8091": e2eMeta + 1, "8086": e2eHTTP, "8087": e2eHTTP + 1,
		"8400": e2eHTTP + 10, "8401": e2eHTTP + 11, "8305": e2eHTTP + 20}
	for k, v := range rep {
		s = strings.ReplaceAll(s, "127.0.0.1:"+k, fmt.Sprintf("127.0.0.1:%d", v))
	}
	s = strings.ReplaceAll(s, "flight-enabled = true", "flight-enabled = false")
	s = strings.ReplaceAll(s, "store-enabled = true", "store-enabled = false")
	conf := filepath.Join(work, "c06.conf")
	if err := os.WriteFile(conf, []byte(s), 0o644); err != nil {
		return nil, err
	}
	lf, err := os.Create(filepath.Join(work, "ts-server.out"))
	if err != nil {
		return nil, err
	}
	cmd := exec.Command(bin, "-config", conf)
	cmd.Dir = work
	cmd.Env = append(os.Environ(), "HOME="+work)
	cmd.Stdout, cmd.Stderr = lf, lf
	// own process group, killed with this harness; nothing is ever killed by name
	cmd.SysProcAttr = &syscall.SysProcAttr{Setpgid: true, Pdeathsig: syscall.SIGKILL}
	if err := cmd.Start(); err != nil {
		return nil, err
	}
	for i := 0; i < 400; i++ {
		resp, err := httpc.Get(e2eBase + "/ping")
		if err == nil {
			resp.Body.Close()
			if resp.StatusCode == 204 {
				return cmd, nil
			}
		}
		time.Sleep(100 * time.Millisecond)
	}
	stopServer(cmd)
	return nil, fmt.Errorf("server did not come up")
}

func stopServer(cmd *exec.Cmd) {
	if cmd != nil && cmd.Process != nil {
		_ = syscall.Kill(-cmd.Process.Pid, syscall.SIGKILL)
		_, _ = cmd.Process.Wait()
	}
}

func httpPost(path string, vals url.Values, body []byte) (int, []byte, error) {
	resp, err := httpc.Post(e2eBase+path+"?"+vals.Encode(), "text/plain", bytes.NewReader(body))
	if err != nil {
		return 0, nil, err
	}
	defer resp.Body.Close()
	b, _ := io.ReadAll(resp.Body)
	return resp.StatusCode, b, nil
}

type qResp struct {
	Results []struct {
		Series []struct {
			Name    string          `json:"name"`
			Columns []string        `json:"columns"`
			Values  [][]interface{} `json:"values"`
		} `json:"series"`
		Error string `json:"error"`
	} `json:"results"`
	Error string `json:"error"`
}

func query(q string) (*qResp, string, error) {
	resp, err := httpc.Get(e2eBase + "/query?" + url.Values{"db": {"c06"}, "epoch": {"ns"}, "q": {q}}.Encode())
	if err != nil {
		return nil, "", err
	}
	defer resp.Body.Close()
	raw, _ := io.ReadAll(resp.Body)
	var r qResp
	dec := json.NewDecoder(bytes.NewReader(raw))
	dec.UseNumber()
	if err := dec.Decode(&r); err != nil {
		return nil, string(raw), err
	}
	return &r, string(raw), nil
}

// rowsOf returns the rows of measurement m as column->value maps.
func rowsOf(m string) ([]map[string]interface{}, string, error) {
	r, raw, err := query("SELECT * FROM " + m)
	if err != nil {
		return nil, raw, err
	}
	var out []map[string]interface{}
	for _, res := range r.Results {
		for _, s := range res.Series {
			for _, v := range s.Values {
				row := map[string]interface{}{}
				for i, c := range s.Columns {
					if i < len(v) {
						row[c] = v[i]
					}
				}
				out = append(out, row)
			}
		}
	}
	return out, raw, nil
}

// rowToObs turns a JSON row into the observation shape the direct oracle compares.
func rowToObs(p Point, m string, row map[string]interface{}) RowObs {
	ro := RowObs{Name: hx(m), Tags: [][2]string{}, Fields: []FieldObs{}}
	if n, ok := row["time"].(json.Number); ok {
		if v, err := strconv.ParseInt(string(n), 10, 64); err == nil {
			ro.Ts = &v
		}
	}
	keys := [][2]string{}
	for _, t := range p.Tags {
		keys = append(keys, t)
	}
	sort.Slice(keys, func(i, j int) bool { return keys[i][0] < keys[j][0] })
	for _, t := range keys {
		if s, ok := row[t[0]].(string); ok {
			ro.Tags = append(ro.Tags, [2]string{hx(t[0]), hx(s)})
		}
	}
	for _, f := range p.Fields {
		fo := FieldObs{K: hx(f.K), T: -1}
		switch v := row[f.K].(type) {
		case json.Number:
			if f.V.Kind == 'i' && !strings.ContainsAny(string(v), ".eE") {
				if n, err := strconv.ParseInt(string(v), 10, 64); err == nil {
					fo.T, fo.Stored = influx.Field_Type_Int, n
				}
			} else if x, err := strconv.ParseFloat(string(v), 64); err == nil {
				fo.T, fo.Bits = influx.Field_Type_Float, math.Float64bits(x)
			}
		case bool:
			fo.T = influx.Field_Type_Boolean
			if v {
				fo.Bits = math.Float64bits(1)
			}
		case string:
			fo.T, fo.S = influx.Field_Type_String, hx(v)
		}
		ro.Fields = append(ro.Fields, fo)
	}
	return ro
}

var specialsE2E = []string{",", " ", "=", "\"", "\\", "\\", ",", " ", "=", "#", "!", "[", "]", "'", ":", ".", "/", "+", "é", "温", "度", "😀", "ß", "f", "i", "e"}

func e2eMain(bin, tmpl, work string, n int) int {
	specials = specialsE2E
	cmd, err := startServer(bin, tmpl, work)
	if err != nil {
		fmt.Println("ERROR e2e:", err)
		return 2
	}
	defer stopServer(cmd)
	if st, body, err := httpPost("/query", url.Values{"q": {"CREATE DATABASE c06"}}, nil); err != nil || st != 200 {
		fmt.Println("ERROR e2e: create database", st, string(body), err)
		return 2
	}
	r := gen.FromEnv(606)
	precs := []struct {
		name string
		mult int64
	}{{"ns", 1}, {"", 1}, {"u", 1000}, {"ms", 1000000}, {"s", 1000000000}}
	bases := []int64{1600000000, 1600600000, 1700000000} // seconds; three shard groups
	type pending struct {
		c     *E2ECase
		m     string
		p     Point
		mult  int64
		valid bool
	}
	var pend []pending
	for i := 0; i < n; i++ {
		m := fmt.Sprintf("m%d", i)
		pr := precs[r.Intn(len(precs))]
		c := &E2ECase{E2E: i, Prec: pr.name}
		vals := url.Values{"db": {"c06"}}
		if pr.name != "" {
			vals.Set("precision", pr.name)
		}
		switch x := r.Intn(10); {
		case x < 6: // a valid point, every escape form and numeric spelling, unique measurement
			p := genPoint(r)
			for !pointStorable(p) {
				p = genPoint(r)
			}
			p.Name = m
			// distinct column names over tags and fields
			seen := map[string]bool{"time": true}
			var tags [][2]string
			for _, t := range p.Tags {
				if !seen[t[0]] {
					seen[t[0]] = true
					tags = append(tags, t)
				}
			}
			p.Tags = tags
			var fields []PField
			for _, f := range p.Fields {
				if !seen[f.K] {
					seen[f.K] = true
					fields = append(fields, f)
				}
			}
			if len(fields) == 0 {
				fields = []PField{{K: "v" + strconv.Itoa(i), V: genVal(r)}}
				for fields[0].V.Kind == 'f' && math.IsInf(math.Float64frombits(fields[0].V.FBits), 0) {
					fields[0].V = genVal(r)
				}
			}
			p.Fields = fields
			p.HasTs = true
			sec := bases[r.Intn(len(bases))] + int64(r.Intn(3600))
			switch pr.mult {
			case 1:
				p.Ts = sec*1000000000 + int64(r.Intn(1000000000))
			case 1000:
				p.Ts = sec*1000000 + int64(r.Intn(1000000))
			case 1000000:
				p.Ts = sec*1000 + int64(r.Intn(1000))
			default:
				p.Ts = sec
			}
			c.Class, c.Text = "valid", render(r, p)
			st, _, err := httpPost("/write", vals, []byte(c.Text))
			if err != nil {
				fmt.Println("ERROR e2e: write", err)
				return 2
			}
			c.Status = st
			pend = append(pend, pending{c, m, p, pr.mult, true})
		case x < 9: // an invalid line
			b := genBad(r)
			// keep the measurement recognisable: replace the leading identifier where the class has one
			text := b.text
			if b.sub != "no-measurement" && b.sub != "no-field" {
				if j := strings.IndexAny(text, ", "); j > 0 {
					text = m + text[j:]
				}
			}
			c.Class, c.Sub, c.Text = "malformed", b.sub, text
			st, _, err := httpPost("/write", vals, []byte(text))
			if err != nil {
				fmt.Println("ERROR e2e: write", err)
				return 2
			}
			c.Status = st
			if st < 400 || st >= 500 {
				c.Oracle = append(c.Oracle, OracleFail{b.sig, fmt.Sprintf("invalid line (%s) answered %d", b.sub, st)})
			}
			pend = append(pend, pending{c, m, Point{}, 1, false})
		default: // valid, invalid, valid in one request
			ts := bases[0] * 1000000000 * 1
			if pr.mult != 1 {
				ts = bases[0] * 1000000000 / pr.mult
			}
			text := fmt.Sprintf("%s,k=a x=1i %d\n%s,k=b bad\n%s,k=c x=2i %d", m, ts, m, m, ts+1)
			c.Class, c.Sub, c.Text = "batch", "valid-invalid-valid", text
			st, _, err := httpPost("/write", vals, []byte(text))
			if err != nil {
				fmt.Println("ERROR e2e: write", err)
				return 2
			}
			c.Status = st
			if st < 400 || st >= 500 {
				c.Oracle = append(c.Oracle, OracleFail{"C06-midbatch-error-lost", fmt.Sprintf("request with an invalid middle line answered %d", st)})
			}
			pend = append(pend, pending{c, m, Point{}, 1, false})
		}
	}
	// query back (fresh points can take a moment to become visible)
	time.Sleep(1500 * time.Millisecond)
	for _, pd := range pend {
		var rows []map[string]interface{}
		var raw string
		for try := 0; try < 20; try++ {
			rows, raw, err = rowsOf(pd.m)
			if err != nil {
				fmt.Println("ERROR e2e: query", err, raw)
				return 2
			}
			if !pd.valid || pd.c.Status != 204 || len(rows) > 0 {
				break
			}
			time.Sleep(250 * time.Millisecond)
		}
		c := pd.c
		if len(raw) > 600 {
			raw = raw[:600]
		}
		c.Got = raw
		switch {
		case pd.valid && c.Status == 204:
			if len(rows) != 1 {
				c.Oracle = append(c.Oracle, OracleFail{"none", fmt.Sprintf("accepted point not returned (%d rows)", len(rows))})
			} else {
				c.Oracle = append(c.Oracle, comparePoint(pd.p, rowToObs(pd.p, pd.m, rows[0]), pd.mult)...)
			}
		case pd.valid:
			c.Sub = "valid-refused"
			if len(rows) != 0 {
				c.Oracle = append(c.Oracle, OracleFail{"none", "refused point is returned by the query"})
			}
		case c.Status >= 400:
			if len(rows) != 0 {
				c.Oracle = append(c.Oracle, OracleFail{"none", fmt.Sprintf("request answered %d but %d row(s) stored", c.Status, len(rows))})
			}
		}
		if c.Oracle == nil {
			c.Oracle = []OracleFail{}
		}
		gen.Emit(c)
	}
	fmt.Printf("{\"e2e_done\":%d}\n", len(pend))
	return 0
}
