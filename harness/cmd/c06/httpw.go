package main

// The HTTP body framing between the socket and the line parser, in process: the repository's real httpd.Handler
// (NewHandler -> mux -> route wrappers -> serveWriteV1 -> serveWrite: Content-Length test, truncateReader for
// max-body-size, gzip decoding, block reader, unmarshal workers) behind a real net/http server on a loopback socket,
// with a points writer that records what it is asked to store. Requests are written byte by byte on a raw TCP
// connection: exact Content-Length, chunked transfer encoding with chosen chunk sizes, understated Content-Length,
// gzip bodies, bodies of exactly max-body-size - 2 .. + 3 bytes.
//
// DIRECT ORACLE: an acknowledged (2xx) request stored every line of its body exactly (each point once, with the
// values its text denotes); any other answer left nothing but complete, exactly stored lines behind.

import (
	"bufio"
	"bytes"
	"compress/gzip"
	"fmt"
	"io"
	"net"
	"net/http"
	"net/http/httptest"
	"sort"
	"strings"
	"sync"
	"time"

	"github.com/influxdata/influxdb/toml"
	"github.com/openGemini/openGemini/lib/metaclient"
	"github.com/openGemini/openGemini/lib/util/lifted/influx/httpd"
	"github.com/openGemini/openGemini/lib/util/lifted/influx/httpd/config"
	"github.com/openGemini/openGemini/lib/util/lifted/influx/meta"
	"github.com/openGemini/openGemini/lib/util/lifted/vm/protoparser/influx"
	"verifharness/internal/gen"
)

type HttpInfo struct {
	Kind     string `json:"kind"`     // cl | chunked | gzip-cl | gzip-chunked | short-cl | gzip-broken | chunked-abort
	Limit    int    `json:"limit"`    // max-body-size of the handler (0 = none)
	Block    int    `json:"block"`    // read-block-size
	Declared int    `json:"declared"` // Content-Length header, -1 = none (chunked)
	Sent     int    `json:"sent"`     // bytes of body put on the wire
	Stream   bool   `json:"stream"`   // max-body-size applies to the stream (not a gzip body)
	Status   int    `json:"status"`
	Groups   int    `json:"groups"` // calls of the points writer
	Answer   string `json:"answer,omitempty"`
}

type fakeMeta struct{ *metaclient.Client }

func (fakeMeta) Database(name string) (*meta.DatabaseInfo, error) { return meta.NewDatabase(name), nil }
func (fakeMeta) TagArrayEnabled(db string) bool                  { return false }

// capWriter stands for the storage behind the write endpoint: it keeps what it is asked to store, as the columns
// would hold it.
type capWriter struct {
	mu     sync.Mutex
	t0     int64
	groups [][]RowObs
}

func (w *capWriter) RetryWritePointRows(db, rp string, rows []influx.Row) error {
	t1 := time.Now().UnixNano()
	g := make([]RowObs, 0, len(rows))
	for i := range rows {
		g = append(g, obsRow(&rows[i], w.t0, t1))
	}
	w.mu.Lock()
	w.groups = append(w.groups, g)
	w.mu.Unlock()
	return nil
}

func (w *capWriter) take() [][]RowObs {
	w.mu.Lock()
	defer w.mu.Unlock()
	g := w.groups
	w.groups = nil
	w.t0 = time.Now().UnixNano()
	return g
}

type httpEnv struct {
	srv   *httptest.Server
	w     *capWriter
	limit int
	block int
}

func newHTTPEnv(limit, block int) *httpEnv {
	c := config.NewConfig()
	c.MaxBodySize = limit
	c.ReadBlockSize = toml.Size(block)
	c.LogEnabled = false
	c.AuthEnabled = false
	h := httpd.NewHandler(c)
	w := &capWriter{t0: time.Now().UnixNano()}
	h.MetaClient = fakeMeta{}
	h.PointsWriter = w
	return &httpEnv{srv: httptest.NewServer(h), w: w, limit: limit, block: block}
}

var httpEnvs []*httpEnv
var httpWorkers sync.Once

func httpSetup() {
	httpWorkers.Do(func() {
		influx.StartUnmarshalWorkers()
		for _, lb := range [][2]int{{700, 256}, {1500, 512}, {2500, 1024}, {0, 300}} {
			httpEnvs = append(httpEnvs, newHTTPEnv(lb[0], lb[1]))
		}
	})
}

func httpTeardown() {
	for _, e := range httpEnvs {
		e.srv.Close()
	}
	if len(httpEnvs) > 0 {
		influx.StopUnmarshalWorkers()
	}
}

// doRaw writes one request on a fresh connection and returns the status (-1 = no answer).
var lastAnswer string

func doRaw(addr, query string, hdr []string, wire [][]byte, abort bool) int {
	return doRawPath(addr, "/write", query, hdr, wire, abort)
}

func doRawPath(addr, path, query string, hdr []string, wire [][]byte, abort bool) int {
	lastAnswer = ""
	conn, err := net.DialTimeout("tcp", addr, 10*time.Second)
	if err != nil {
		return -1
	}
	defer conn.Close()
	_ = conn.SetDeadline(time.Now().Add(30 * time.Second))
	var sb strings.Builder
	sb.WriteString("POST " + path + "?" + query + " HTTP/1.1\r\nHost: c06\r\nConnection: close\r\n")
	for _, h := range hdr {
		sb.WriteString(h + "\r\n")
	}
	sb.WriteString("\r\n")
	if _, err := conn.Write([]byte(sb.String())); err != nil {
		return -1
	}
	for _, p := range wire {
		if _, err := conn.Write(p); err != nil {
			break // the server may answer (413, 400) before it has read everything
		}
	}
	if abort {
		// the client gives up in the middle of the upload: no terminating chunk, the sending side is closed
		if tc, ok := conn.(*net.TCPConn); ok {
			_ = tc.CloseWrite()
		}
	}
	resp, err := http.ReadResponse(bufio.NewReader(conn), nil)
	if err != nil {
		return -1
	}
	if b, err := io.ReadAll(io.LimitReader(resp.Body, 300)); err == nil {
		lastAnswer = string(b)
	}
	resp.Body.Close()
	return resp.StatusCode
}

func chunkedWire(r *gen.Rand, b []byte) [][]byte {
	var out [][]byte
	for len(b) > 0 {
		n := r.Range(1, 400)
		if r.Chance(1, 4) {
			n = r.Range(1, 8)
		}
		if n > len(b) {
			n = len(b)
		}
		out = append(out, []byte(fmt.Sprintf("%x\r\n", n)), b[:n], []byte("\r\n"))
		b = b[n:]
	}
	return append(out, []byte("0\r\n\r\n"))
}

func gz(b []byte) []byte {
	var buf bytes.Buffer
	zw := gzip.NewWriter(&buf)
	_, _ = zw.Write(b)
	_ = zw.Close()
	return buf.Bytes()
}

type httpLine struct {
	text  string
	p     Point
	valid bool
}

// httpBody: lines with timestamps 1000, 1001, ... (so that a stored row names its line), the last one padded so that
// the body has exactly the wanted length when that is possible.
func httpBody(r *gen.Rand, want int, withBad bool) (string, []httpLine) {
	var lines []httpLine
	var sb strings.Builder
	mk := func(i int, pad string) httpLine {
		p := Point{Name: "zz", Tags: [][2]string{{"h", pad}}, Fields: []PField{{K: "v", V: PVal{Kind: 'i', Int: int64(i), Text: fmt.Sprintf("%di", i)}}}, HasTs: true, Ts: int64(1000 + i)}
		return httpLine{text: fmt.Sprintf("zz,h=%s v=%di %d", pad, i, 1000+i), p: p, valid: true}
	}
	final := r.Bool()
	tail := 0
	if final {
		tail = 1
	}
	bad := -1
	if withBad {
		bad = r.Intn(6)
	}
	for i := 0; ; i++ {
		last := mk(i, "p")
		room := want - sb.Len() - tail
		if room < len(last.text)+40 || i > 400 {
			pad := room - len(last.text) + 1
			if pad < 1 {
				pad = 1
			}
			l := mk(i, strings.Repeat("p", pad))
			lines = append(lines, l)
			sb.WriteString(l.text)
			if final {
				sb.WriteByte('\n')
			}
			break
		}
		var l httpLine
		if i == bad {
			b := genBad(r)
			for b.sig != "none" || strings.ContainsAny(b.text, "\n") {
				b = genBad(r)
			}
			l = httpLine{text: b.text}
		} else {
			p := genPoint(r)
			for !pointStorable(p) {
				p = genPoint(r)
			}
			p.HasTs, p.Ts = true, int64(1000+i)
			t := strings.ReplaceAll(render(r, p), "\n", "")
			if len(t)+1+len(last.text)+40 > room && r.Bool() {
				t = mk(i, "q").text
				p = mk(i, "q").p
			}
			l = httpLine{text: t, p: p, valid: true}
		}
		lines = append(lines, l)
		sb.WriteString(l.text)
		sb.WriteByte('\n')
	}
	return sb.String(), lines
}

var httpPrecs = []struct {
	name string
	mult int64
}{{"", 1}, {"ns", 1}, {"u", 1000}, {"ms", 1000000}, {"s", 1000000000}}

func caseHTTP(r *gen.Rand, idx int) {
	httpSetup()
	env := httpEnvs[r.Intn(len(httpEnvs))]
	L := env.limit
	ref := L
	if ref == 0 {
		ref = env.block * r.Range(1, 4)
	}
	var want int
	switch x := r.Intn(20); {
	case x < 8:
		want = ref + r.Intn(6) - 2
	case x < 14:
		want = r.Range(30, ref)
	default:
		want = r.Range(ref+4, ref+ref/2+100)
	}
	body, lines := httpBody(r, want, r.Chance(1, 7))
	pr := httpPrecs[r.Intn(len(httpPrecs))]
	query := "db=db0"
	if pr.name != "" {
		query += "&precision=" + pr.name
	}
	info := &HttpInfo{Limit: L, Block: env.block, Declared: -1, Stream: true}
	raw := []byte(body)
	effective := body
	var hdr []string
	var wire [][]byte
	abort := false
	switch x := r.Intn(13); {
	case x == 10 || x == 11:
		// the upload breaks off after a prefix of the chunked body (at any byte, inside a line or not)
		k := r.Range(1, len(raw))
		info.Kind, abort = "chunked-abort", true
		hdr = []string{"Transfer-Encoding: chunked"}
		wire = chunkedWire(r, raw[:k])
		wire = wire[:len(wire)-1]
		raw = raw[:k]
	case x == 12:
		// a gzip stream that ends before its end: the decoder fails after having delivered a prefix of the text
		z := gz(raw)
		k := r.Range(12, len(z)-1)
		z = z[:k]
		info.Kind, info.Stream = "gzip-broken", false
		if r.Bool() {
			info.Declared = len(z)
			hdr = []string{"Content-Encoding: gzip", fmt.Sprintf("Content-Length: %d", len(z))}
			wire = [][]byte{z}
		} else {
			hdr = []string{"Content-Encoding: gzip", "Transfer-Encoding: chunked"}
			wire = chunkedWire(r, z)
		}
		raw = z
	case x < 3:
		info.Kind, info.Declared = "cl", len(raw)
		hdr = []string{fmt.Sprintf("Content-Length: %d", len(raw))}
		wire = [][]byte{raw}
	case x < 7:
		info.Kind = "chunked"
		hdr = []string{"Transfer-Encoding: chunked"}
		wire = chunkedWire(r, raw)
	case x < 8:
		z := gz(raw)
		info.Kind, info.Declared, info.Stream = "gzip-cl", len(z), false
		hdr = []string{"Content-Encoding: gzip", fmt.Sprintf("Content-Length: %d", len(z))}
		wire = [][]byte{z}
		raw = z
	case x < 9:
		z := gz(raw)
		info.Kind, info.Stream = "gzip-chunked", false
		hdr = []string{"Content-Encoding: gzip", "Transfer-Encoding: chunked"}
		wire = chunkedWire(r, z)
		raw = z
	default:
		// the header declares fewer bytes than are sent: the body IS the declared prefix
		k := r.Range(1, len(raw))
		info.Kind, info.Declared = "short-cl", k
		hdr = []string{fmt.Sprintf("Content-Length: %d", k)}
		wire = [][]byte{raw}
		effective = body[:k]
	}
	info.Sent = len(raw)
	env.w.take()
	status := doRaw(env.srv.Listener.Addr().String(), query, hdr, wire, abort)
	groups := env.w.take()
	info.Status, info.Groups, info.Answer = status, len(groups), lastAnswer
	var rows []RowObs
	for _, g := range groups {
		rows = append(rows, g...)
	}
	c := &Case{I: idx, Class: "httpw", Sub: info.Kind, Mult: pr.mult, In: hx(effective), Text: effective, Err: status < 200 || status >= 300,
		Rows: rows, Judged: true, Nontrivial: true, HTTP: info}
	none := func(f string, a ...any) { c.Oracle = append(c.Oracle, OracleFail{"none", fmt.Sprintf(f, a...)}) }
	// the lines of the effective body; for an understated Content-Length the line the cut falls in is whatever its
	// prefix spells (left to the model comparison), the lines before it are complete
	complete := lines
	cutLine := false
	if info.Kind == "short-cl" {
		n := strings.Count(effective, "\n")
		if n < len(lines) {
			complete = lines[:n]
			cutLine = len(effective) > 0 && !strings.HasSuffix(effective, "\n")
			if cutLine && n < len(lines) && effective[strings.LastIndexByte(effective, '\n')+1:] == lines[n].text {
				complete, cutLine = lines[:n+1], false
			}
		}
	}
	byTs := map[int64]int{}
	allValid := true
	for i, l := range complete {
		if l.valid {
			byTs[l.p.Ts*pr.mult] = i
		} else {
			allValid = false
		}
	}
	// canonical order: the rows of complete lines in line order (the blocks are parsed concurrently), then whatever
	// else is stored (only the line an understated Content-Length cuts can be there)
	lineOf := func(ro RowObs) int {
		if ro.Ts != nil {
			if i, ok := byTs[*ro.Ts]; ok {
				return i
			}
		}
		return len(lines) + 1
	}
	sort.SliceStable(rows, func(a, b int) bool { return lineOf(rows[a]) < lineOf(rows[b]) })
	c.Rows = rows
	seen := map[int]bool{}
	for _, ro := range rows {
		if ro.Ts == nil {
			if !cutLine {
				none("a row without timestamp is stored; every line of the body carries one")
			}
			continue
		}
		i, ok := byTs[*ro.Ts]
		if !ok {
			if !cutLine {
				none("a row with timestamp %d is stored; no complete line of the body says that", *ro.Ts)
			}
			continue
		}
		if seen[i] {
			none("line %d of the body is stored twice", i)
			continue
		}
		seen[i] = true
		for _, of := range comparePoint(complete[i].p, ro, pr.mult) {
			of.What = fmt.Sprintf("line %d: %s", i, of.What)
			c.Oracle = append(c.Oracle, of)
		}
	}
	switch {
	case status == -1 && abort:
		// no answer to an upload that broke off: nothing acknowledged
	case status == -1:
		c.Sub += "/no-answer" // transport trouble is not the server's answer; run.py guards against a run made of these
		c.Judged = false
	case status >= 200 && status < 300:
		for i, l := range complete {
			if l.valid && !seen[i] {
				none("answered %d but line %d of %d (%q) is not stored [%s, body %d bytes, max-body-size %d]", status, i, len(complete), l.text, info.Kind, len(effective), L)
				break
			}
		}
		if !allValid {
			none("answered %d although the body holds an invalid line", status)
		}
	default:
		// refused: what is left behind was checked above. A refusal of a valid body is not a matter of the property
		// (nothing is stored that the text did not say); run.py only guards against a run without acknowledged requests.
		within := L == 0 || !info.Stream || len(effective) <= L
		if info.Declared >= 0 && L > 0 && info.Declared > L {
			within = false
		}
		if within && allValid && !cutLine && info.Kind != "chunked-abort" && info.Kind != "gzip-broken" {
			c.Sub += "/valid-refused"
		}
	}
	if cutLine {
		c.Judged = false
	}
	emit(c)
}
