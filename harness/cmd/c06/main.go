// Command c06: correspondence harness and direct oracle for property C06
// ("what is written through the line protocol is exactly what queries return").
//
// It generates request blocks (valid lines in every escape form and numeric spelling, a malformed stream, batches
// mixing valid and invalid lines, byte-mutated lines) from ONE PRNG seeded by VERIF_SEED, pushes every block through
// the repository's real parse stage (influx.unmarshalWork.Unmarshal -> PointRows.Unmarshal -> unmarshalRows ->
// Row.unmarshal, CheckValid, timestamp scaling) and the real float64 -> column conversion
// (record.AppendFieldToCol), applies the DIRECT ORACLE (what is stored is what the text denotes; invalid text is
// rejected with an error) and prints one JSON object per case.
//
// usage: c06 gen <n> [corpusdir]   |   c06 replay <file.json>
package main

import (
	"encoding/hex"
	"encoding/json"
	"fmt"
	"math"
	"math/big"
	"os"
	"path/filepath"
	"sort"
	"strconv"
	"strings"
	"time"

	"github.com/openGemini/openGemini/lib/record"
	"github.com/openGemini/openGemini/lib/util/lifted/vm/protoparser/influx"
	"verifharness/internal/gen"
)

// ---------------------------------------------------------------------------------------------
// observation of the implementation

type FieldObs struct {
	K      string `json:"k"`      // hex
	T      int32  `json:"t"`      // influx.Field_Type_*
	Bits   uint64 `json:"bits"`   // IEEE bits of Field.NumValue
	Stored int64  `json:"stored"` // value in the int64 column (integer fields)
	S      string `json:"s"`      // hex of StrValue
}
type RowObs struct {
	Name   string      `json:"name"`
	Tags   [][2]string `json:"tags"`
	Fields []FieldObs  `json:"fields"`
	Ts     *int64      `json:"ts"` // nil = the server's clock was used
}
type OracleFail struct {
	ID   string `json:"id"` // finding id whose signature the failing input satisfies, or "none"
	What string `json:"what"`
}
type Case struct {
	I          int          `json:"i"`
	Class      string       `json:"class"`
	Sub        string       `json:"sub,omitempty"`
	Mult       int64        `json:"mult"`
	In         string       `json:"in"` // hex
	Text       string       `json:"text"`
	Err        bool         `json:"err"`
	Rows       []RowObs     `json:"rows"`
	Oracle     []OracleFail `json:"oracle"`
	Judged     bool         `json:"judged"` // the direct oracle had an expectation for this case
	Nontrivial bool         `json:"nontrivial"`
	HTTP       *HttpInfo    `json:"http,omitempty"`
	Stream     *StreamInfo  `json:"stream,omitempty"`
	Writer     []WriterRow  `json:"writer,omitempty"`
	Triggers   []string     `json:"triggers,omitempty"`
}

func hx(s string) string { return hex.EncodeToString([]byte(s)) }

// runImpl drives the real parse stage and the real column conversion.
func runImpl(input []byte, mult int64) (rows []RowObs, isErr bool) {
	uw := influx.GetUnmarshalWork()
	uw.Db = "db"
	uw.TsMultiplier = mult
	uw.ReqBuf = append(uw.ReqBuf[:0], input...)
	t0 := time.Now().UnixNano()
	uw.Callback = func(db string, rs []influx.Row, err error) {
		if err != nil {
			isErr = true
			return
		}
		t1 := time.Now().UnixNano()
		for i := range rs {
			rows = append(rows, obsRow(&rs[i], t0, t1))
		}
	}
	uw.Unmarshal()
	return
}

// obsRow: what one parsed row finally puts into the columns (the real float64 -> column conversion), with every
// string copied out of the request buffer. A timestamp within [t0-1s, t1+1s] counts as the server's clock.
func obsRow(r *influx.Row, t0, t1 int64) RowObs {
	ro := RowObs{Name: hx(r.Name), Tags: [][2]string{}, Fields: []FieldObs{}}
	for _, t := range r.Tags {
		ro.Tags = append(ro.Tags, [2]string{hx(t.Key), hx(t.Value)})
	}
	for j := range r.Fields {
		f := &r.Fields[j]
		fo := FieldObs{K: hx(f.Key), T: f.Type, Bits: math.Float64bits(f.NumValue), S: hx(f.StrValue)}
		var col record.ColVal
		var size int64
		// what the column finally holds replaces the in-flight value in the observation
		if err := record.AppendFieldToCol(&col, f, &size); err != nil {
			fo.T = -1
		} else {
			switch f.Type {
			case influx.Field_Type_Int:
				if v := col.IntegerValues(); len(v) == 1 {
					fo.Stored = v[0]
				} else {
					fo.T = -1
				}
			case influx.Field_Type_Float:
				if v := col.FloatValues(); len(v) == 1 {
					fo.Bits = math.Float64bits(v[0])
				} else {
					fo.T = -1
				}
			case influx.Field_Type_Boolean:
				if v := col.BooleanValues(); len(v) == 1 {
					fo.Bits = 0
					if v[0] {
						fo.Bits = math.Float64bits(1)
					}
				} else {
					fo.T = -1
				}
			case influx.Field_Type_String:
				if v, isNil := col.StringValueSafe(0); !isNil {
					fo.S = hx(v)
				} else {
					fo.T = -1
				}
			}
		}
		ro.Fields = append(ro.Fields, fo)
	}
	ts := r.Timestamp
	if !(ts >= t0-int64(time.Second) && ts <= t1+int64(time.Second)) {
		ro.Ts = &ts
	}
	return ro
}

// ---------------------------------------------------------------------------------------------
// reference points

type PVal struct {
	Kind  byte // 'i' 'f' 'b' 's'
	Int   int64
	Lit   string // float literal as written
	FBits uint64 // bits of the correctly rounded value of Lit (strconv.ParseFloat)
	Bool  bool
	Str   string
	Text  string // rendered value text
}
type PField struct {
	K string
	V PVal
}
type Point struct {
	Name   string
	Tags   [][2]string // as written (unsorted)
	Fields []PField
	Ts     int64
	HasTs  bool
}

var plain = "abcdefghijklmnopqrstuvwxyzABCDEFGHIJKLMNOPQRSTUVWXYZ0123456789_-"
var specials = []string{",", " ", "=", "\"", "\\", "\\", ",", " ", "=", "#", "!", "[", "]", "'", ":", ".", "/", "+", "é", "温", "度", "😀", "ß", "\x7f", "\xff", "\xc3", "\r", "\t", "f", "i", "e"}

func genBytes(r *gen.Rand, minLen, maxLen int, special int) string {
	n := r.Range(minLen, maxLen)
	var sb strings.Builder
	for i := 0; i < n; i++ {
		if r.Intn(100) < special {
			sb.WriteString(gen.Pick(r, specials))
		} else {
			sb.WriteByte(plain[r.Intn(len(plain))])
		}
	}
	return sb.String()
}

func isEscTag(c byte) bool { return c == ',' || c == ' ' || c == '=' || c == '\\' }

// escTag: the documented escaper (backslash before comma, space, '=' and backslash). With lax=true a backslash that
// is followed by an ordinary character is sometimes left alone - also a valid spelling of the same value.
func escTag(r *gen.Rand, s string, lax bool) string {
	var sb strings.Builder
	for i := 0; i < len(s); i++ {
		c := s[i]
		if c == '\\' && lax && i+1 < len(s) && !isEscTag(s[i+1]) && r.Bool() {
			sb.WriteByte(c)
			continue
		}
		if isEscTag(c) {
			sb.WriteByte('\\')
		}
		sb.WriteByte(c)
	}
	return sb.String()
}

func escStr(r *gen.Rand, s string, lax bool) string {
	var sb strings.Builder
	for i := 0; i < len(s); i++ {
		c := s[i]
		if c == '\\' && lax && i+1 < len(s) && s[i+1] != '"' && s[i+1] != '\\' && r.Bool() {
			sb.WriteByte(c)
			continue
		}
		if c == '"' || c == '\\' {
			sb.WriteByte('\\')
		}
		sb.WriteByte(c)
	}
	return sb.String()
}

func digits(r *gen.Rand, n int) string {
	var sb strings.Builder
	for i := 0; i < n; i++ {
		sb.WriteByte(byte('0' + r.Intn(10)))
	}
	return sb.String()
}

func genFloatLit(r *gen.Rand) string {
	var s string
	switch r.Intn(12) {
	case 0:
		s = digits(r, r.Range(1, 18))
	case 1:
		s = digits(r, r.Range(1, 8)) + "." + digits(r, r.Range(1, 8))
	case 2:
		s = "." + digits(r, r.Range(1, 10))
	case 3:
		s = digits(r, r.Range(1, 6)) + "."
	case 4, 5:
		m := digits(r, r.Range(1, 4))
		if r.Bool() {
			m += "." + digits(r, r.Range(0, 6))
		}
		e := gen.Pick(r, []string{"e", "E"})
		sg := gen.Pick(r, []string{"", "+", "-", "-"})
		s = m + e + sg + strconv.Itoa(r.Intn(40))
	case 6:
		m := digits(r, r.Range(1, 17))
		if r.Bool() {
			m = m[:1] + "." + m[1:]
		}
		sg := gen.Pick(r, []string{"", "+", "-"})
		s = m + "e" + sg + strconv.Itoa(r.Range(280, 345))
	case 7:
		s = digits(r, r.Range(19, 25))
		if r.Bool() {
			s += "." + digits(r, r.Range(1, 5))
		}
	case 8:
		s = digits(r, r.Range(1, 10)) + "." + digits(r, r.Range(8, 20))
	case 9, 10:
		f := math.Float64frombits(r.Uint64())
		for math.IsNaN(f) || math.IsInf(f, 0) {
			f = math.Float64frombits(r.Uint64())
		}
		s = strconv.FormatFloat(math.Abs(f), gen.Pick(r, []byte{'g', 'e', 'g'}), -1, 64)
	default:
		s = gen.Pick(r, []string{"0", "0.0", "1", "4.9e-324", "2.4703282292062327e-324", "2.4703282292062328e-324", "1.7976931348623157e308",
			"2.2250738585072014e-308", "2.2250738585072011e-308", "9007199254740993", "9007199254740992.5", "0.1", "0.3", "1e23", "8.41e21", "0.1e-1", "123456789012345678"})
	}
	switch r.Intn(10) {
	case 0, 1, 2:
		s = "-" + s
	case 3:
		s = "+" + s
	}
	return s
}

func genIntVal(r *gen.Rand) int64 {
	switch r.Intn(6) {
	case 0:
		k := int64(1) << 53
		v := k + int64(r.Intn(9)) - 4
		if r.Bool() {
			v = -v
		}
		return v
	case 1:
		v := int64(r.Uint64() >> uint(r.Intn(11)))
		if r.Bool() {
			v = -v
		}
		return v
	default:
		return r.Int64Boundary()
	}
}

func genVal(r *gen.Rand) PVal {
	switch r.Intn(10) {
	case 0, 1, 2:
		n := genIntVal(r)
		return PVal{Kind: 'i', Int: n, Text: strconv.FormatInt(n, 10) + "i"}
	case 3, 4, 5:
		lit := genFloatLit(r)
		if r.Chance(1, 6) {
			lit = genHardFloat(r)
		}
		return floatVal(r, lit)
	case 6:
		b := r.Bool()
		var t string
		if b {
			t = gen.Pick(r, []string{"t", "T", "true", "True", "TRUE"})
		} else {
			t = gen.Pick(r, []string{"f", "F", "false", "False", "FALSE"})
		}
		return PVal{Kind: 'b', Bool: b, Text: t}
	default:
		var s string
		if r.Bool() {
			s = genBsqString(r)
		} else {
			s = genBytes(r, 0, 12, gen.Pick(r, []int{0, 20, 50}))
			s = strings.NewReplacer("\n", "").Replace(s)
		}
		return PVal{Kind: 's', Str: s, Text: "\"" + escStr(r, s, r.Chance(1, 3)) + "\""}
	}
}

// floatVal: a float field written as the literal, one time in eight with the documented 'f' suffix.
func floatVal(r *gen.Rand, lit string) PVal {
	f, _ := strconv.ParseFloat(lit, 64)
	text := lit
	if r.Chance(1, 8) {
		text += "f"
	}
	return PVal{Kind: 'f', Lit: lit, FBits: math.Float64bits(f), Text: text}
}

// genHardFloat: the hard cases of decimal -> binary64 conversion: the exact decimal expansion of the midpoint between
// two neighbouring doubles (a tie: must go to the even one), and the decimals just above and just below it.
func genHardFloat(r *gen.Rand) string {
	var x float64
	for {
		bits := r.Uint64()&(1<<52-1) | uint64(1023+r.Range(-40, 60))<<52
		if r.Chance(1, 6) {
			bits = r.Uint64()&(1<<52-1) | uint64(1023+r.Range(-1022, -1000))<<52 // near the subnormal boundary: long expansions
			if r.Bool() {
				bits = uint64(r.Range(1, 1<<20)) // subnormals
			}
		}
		x = math.Float64frombits(bits)
		if !math.IsInf(x, 0) && !math.IsNaN(x) {
			break
		}
	}
	y := math.Nextafter(x, math.Inf(1))
	if math.IsInf(y, 0) {
		y, x = x, math.Nextafter(x, 0)
	}
	mid := new(big.Float).SetPrec(2200).SetFloat64(x)
	mid.Add(mid, new(big.Float).SetPrec(2200).SetFloat64(y))
	mid.Quo(mid, big.NewFloat(2))
	s := mid.Text('f', 1200)
	if strings.Contains(s, ".") {
		s = strings.TrimRight(s, "0")
		s = strings.TrimSuffix(s, ".")
	}
	switch r.Intn(4) {
	case 0: // the tie itself
	case 1: // just above
		if strings.Contains(s, ".") {
			s += "0000001"
		} else {
			s += ".0000001"
		}
	case 2: // just below: the expansion of a midpoint ends in 5 (or is an integer)
		if strings.HasSuffix(s, "5") && strings.Contains(s, ".") {
			s = s[:len(s)-1] + "4999999"
		}
	default: // a neighbour written with 17 significant digits
		s = strconv.FormatFloat(x, 'e', 16, 64)
	}
	if r.Chance(1, 4) {
		s = "-" + s
	}
	return s
}

// genBsqString: string values (or raw quoted-string bodies) over an alphabet biased to runs of 1..6 backslashes next to
// double quotes and at the end of the string.
func genBsqString(r *gen.Rand) string {
	var sb strings.Builder
	for i, n := 0, r.Range(1, 6); i < n; i++ {
		switch x := r.Intn(20); {
		case x < 8:
			sb.WriteString(strings.Repeat("\\", r.Range(1, 6)))
		case x < 13:
			sb.WriteByte('"')
		case x < 15:
			sb.WriteString(gen.Pick(r, []string{" ", ",", "="}))
		default:
			sb.WriteByte(plain[r.Intn(len(plain))])
		}
	}
	return sb.String()
}

func genName(r *gen.Rand, first bool) string {
	for {
		s := genBytes(r, 1, 8, gen.Pick(r, []int{0, 0, 15, 40}))
		s = strings.NewReplacer("\n", "", "\"", "q").Replace(s) // a quote in a key is legal but changes the quote scan; kept out of the valid stream
		if s == "" || s == "time" {
			continue
		}
		if first && (s[0] == '#' || s[0] == '\t' || s[0] == 0) {
			continue
		}
		if strings.HasSuffix(s, "\r") {
			continue
		}
		return s
	}
}

func genTs(r *gen.Rand) int64 {
	switch r.Intn(5) {
	case 0:
		return int64(r.Intn(1000))
	case 1:
		return 1600000000000000000 + int64(r.Intn(1000000000))
	case 2:
		v := r.Int64Boundary()
		if v < 0 {
			v = -(v + 1)
		}
		return v
	default:
		return int64(r.Uint64() >> uint(1+r.Intn(40)))
	}
}

func genPoint(r *gen.Rand) Point {
	p := Point{Name: genName(r, true)}
	seen := map[string]bool{}
	for i, n := 0, r.Intn(4); i < n; i++ {
		k := genName(r, false)
		if seen[k] {
			continue
		}
		seen[k] = true
		v := genName(r, false)
		p.Tags = append(p.Tags, [2]string{k, v})
	}
	seen = map[string]bool{}
	for i, n := 0, r.Range(1, 4); i < n; i++ {
		k := genName(r, false)
		if seen[k] {
			continue
		}
		seen[k] = true
		p.Fields = append(p.Fields, PField{K: k, V: genVal(r)})
	}
	if !r.Chance(1, 8) {
		p.HasTs = true
		p.Ts = genTs(r)
	}
	return p
}

func render(r *gen.Rand, p Point) string {
	lax := r.Chance(1, 3)
	var sb strings.Builder
	sb.WriteString(escTag(r, p.Name, lax))
	for _, t := range p.Tags {
		sb.WriteString("," + escTag(r, t[0], lax) + "=" + escTag(r, t[1], lax))
	}
	sb.WriteByte(' ')
	for i, f := range p.Fields {
		if i > 0 {
			sb.WriteByte(',')
		}
		sb.WriteString(escTag(r, f.K, lax) + "=" + f.V.Text)
	}
	if p.HasTs {
		sb.WriteString(" " + strconv.FormatInt(p.Ts, 10))
	}
	return sb.String()
}

// pointAcceptable: does the text of p denote storable values (a float literal beyond the binary64 range does not)?
func pointStorable(p Point) bool {
	for _, f := range p.Fields {
		if f.V.Kind == 'f' && math.IsInf(math.Float64frombits(f.V.FBits), 0) {
			return false
		}
	}
	return true
}

func hasExp(lit string) bool { return strings.ContainsAny(lit, "eE") }

// comparePoint applies the direct oracle to one accepted row: the stored row must be the point the text denotes.
func comparePoint(p Point, ro RowObs, mult int64) []OracleFail {
	var fails []OracleFail
	none := func(f string, a ...any) { fails = append(fails, OracleFail{"none", fmt.Sprintf(f, a...)}) }
	if ro.Name != hx(p.Name) {
		none("measurement %q stored as %s", p.Name, ro.Name)
	}
	want := append([][2]string{}, p.Tags...)
	sort.Slice(want, func(i, j int) bool { return want[i][0] < want[j][0] })
	if len(want) != len(ro.Tags) {
		none("tag count %d stored %d", len(want), len(ro.Tags))
	} else {
		for i := range want {
			if hx(want[i][0]) != ro.Tags[i][0] || hx(want[i][1]) != ro.Tags[i][1] {
				none("tag %q=%q stored as %s=%s", want[i][0], want[i][1], ro.Tags[i][0], ro.Tags[i][1])
			}
		}
	}
	if p.HasTs {
		if ro.Ts == nil || *ro.Ts != p.Ts*mult {
			none("timestamp %d stored differently", p.Ts)
		}
	} else if ro.Ts != nil {
		none("no timestamp given but %d stored", *ro.Ts)
	}
	if len(p.Fields) != len(ro.Fields) {
		none("field count %d stored %d", len(p.Fields), len(ro.Fields))
		return fails
	}
	for i, f := range p.Fields {
		fo := ro.Fields[i]
		if fo.K != hx(f.K) {
			none("field key %q stored as %s", f.K, fo.K)
			continue
		}
		switch f.V.Kind {
		case 'i':
			if fo.T != influx.Field_Type_Int {
				none("integer field %q has type %d", f.K, fo.T)
			} else if fo.Stored != f.V.Int {
				n := f.V.Int
				if int64(float64(n)) != n && fo.Stored == int64(float64(n)) {
					fails = append(fails, OracleFail{"C06-int53", fmt.Sprintf("%di stored as %d", n, fo.Stored)})
				} else {
					none("%di stored as %d", n, fo.Stored)
				}
			}
		case 'f':
			if fo.T != influx.Field_Type_Float {
				none("float field %q has type %d", f.K, fo.T)
			} else if fo.Bits != f.V.FBits {
				got := math.Float64frombits(fo.Bits)
				d := int64(fo.Bits) - int64(f.V.FBits)
				if d < 0 {
					d = -d
				}
				switch {
				case strings.HasPrefix(f.V.Lit, "+") && fo.Bits == 0:
					fails = append(fails, OracleFail{"C06-plus-zero", fmt.Sprintf("%s stored as 0", f.V.Lit)})
				case strings.HasPrefix(f.V.Lit, "-") && strings.HasSuffix(f.V.Lit, ".") && fo.Bits == f.V.FBits^(1<<63):
					fails = append(fails, OracleFail{"C06-neg-dot", fmt.Sprintf("%s stored as %v", f.V.Lit, got)})
				case hasExp(f.V.Lit) && (fo.Bits>>63) == (f.V.FBits>>63) && d <= 2:
					fails = append(fails, OracleFail{"C06-float-exp", fmt.Sprintf("%s stored as %v (%d ulp off)", f.V.Lit, got, d)})
				default:
					none("float %s stored as %v", f.V.Lit, got)
				}
			}
		case 'b':
			wantBits := uint64(0)
			if f.V.Bool {
				wantBits = math.Float64bits(1)
			}
			if fo.T != influx.Field_Type_Boolean || fo.Bits != wantBits {
				none("boolean %s stored as type %d bits %x", f.V.Text, fo.T, fo.Bits)
			}
		case 's':
			if fo.T != influx.Field_Type_String || fo.S != hx(f.V.Str) {
				none("string %q stored as type %d %s", f.V.Str, fo.T, fo.S)
			}
		}
	}
	return fails
}

// ---------------------------------------------------------------------------------------------
// malformed stream: every class is invalid line protocol by construction

type badLine struct {
	text string
	sub  string
	sig  string // finding id the class belongs to if the line is accepted
}

func genBad(r *gen.Rand) badLine {
	m := genBytes(r, 1, 5, 0)
	k := genBytes(r, 1, 4, 0)
	ts := ""
	if r.Bool() {
		ts = " " + strconv.Itoa(r.Intn(100000))
	}
	pre := m
	if r.Bool() {
		pre += "," + genBytes(r, 1, 3, 0) + "=" + genBytes(r, 1, 3, 0)
	}
	switch r.Intn(11) {
	case 0:
		return badLine{gen.Pick(r, []string{m, m + ",a=b", m + " ", pre}), "no-field", "none"}
	case 1:
		return badLine{pre + " " + gen.Pick(r, []string{k + "=", k, "=1", k + "=1,", k + "=1,,y=2", "," + k + "=1"}) + ts, "missing-value", "none"}
	case 2:
		v := gen.Pick(r, []string{"1.2.3", "abc", "1e", "--1", "1i2", "12u", "0x10", "1_000", "NaN", "Infinity", "-", "+", ".", "e5", "1e+", "1.5e1.5", "tru", "yes"})
		return badLine{pre + " " + k + "=" + v + ts, "bad-number", "none"}
	case 3:
		v := gen.Pick(r, []string{"zzf", "inf", "-inf", "1.2.3f", "inff", "nanf", "1e999f", "-f", "abcf", "1e+f", "..f", "+inff", "0x1f", "truef"})
		return badLine{pre + " " + k + "=" + v + ts, "f-suffix-junk", "C06-fsuffix"}
	case 4:
		v := gen.Pick(r, []string{"9223372036854775808i", "-9223372036854775809i", "1.5i", "i", "-i", "+5i", "1e3i", "99999999999999999999999i", "12ai", "0x5i"})
		return badLine{pre + " " + k + "=" + v + ts, "bad-integer", "none"}
	case 5:
		return badLine{pre + " " + k + "=\"" + genBytes(r, 0, 6, 0) + gen.Pick(r, []string{"", " 123", ",y=1"}), "unterminated-quote", "none"}
	case 6:
		return badLine{pre + " " + k + "=1 " + gen.Pick(r, []string{"12a", "1.5", "99999999999999999999", "9223372036854775808", "12 13", "0x10", "1e9", "now"}), "bad-timestamp", "none"}
	case 7:
		v := gen.Pick(r, []string{"12\"3\"", "abc\"def\"", "1\"", "t\"\"", "1.5\"x\""})
		return badLine{pre + " " + k + "=" + v + ts, "quote-not-leading", "C06-strquote"}
	case 8:
		return badLine{m + gen.Pick(r, []string{",a", ",", ",a=b,c", ",=,"}) + " " + k + "=1" + ts, "missing-tag-value", "none"}
	case 9:
		return badLine{gen.Pick(r, []string{",a=b " + k + "=1", " " + k + "=1", "\t" + k + "=1"}) + ts, "no-measurement", "none"}
	default:
		return badLine{pre + " " + k + "=1i" + k + "z" + ts, "bad-number", "none"}
	}
}

// ---------------------------------------------------------------------------------------------

func containsAny(s string, chars string) bool { return strings.ContainsAny(s, chars) }

func pointNontrivial(p Point, text string) bool {
	if containsAny(text, "\\\"") {
		return true
	}
	for _, f := range p.Fields {
		if f.V.Kind == 'i' && (f.V.Int > 1<<53 || f.V.Int < -(1<<53)) {
			return true
		}
		if f.V.Kind == 'f' && hasExp(f.V.Lit) {
			return true
		}
	}
	return false
}

func emit(c *Case) {
	if c.Rows == nil {
		c.Rows = []RowObs{}
	}
	if c.Oracle == nil {
		c.Oracle = []OracleFail{}
	}
	gen.Emit(c)
}

// precision factors of the write endpoint: ns, u, ms, s, m, h
var precFactors = []int64{1, 1000, 1000000, 1000000000, 60000000000, 3600000000000}

func scaleOverflows(ts, mult int64) bool { return ts > math.MaxInt64/mult }

func caseValid(r *gen.Rand, idx int) {
	p := genPoint(r)
	mult := int64(1)
	if r.Chance(1, 3) {
		mult = precFactors[r.Intn(len(precFactors))]
		if p.HasTs {
			// timestamps around the largest one that still fits after scaling, small ones, and arbitrary ones
			lim := math.MaxInt64 / mult
			switch r.Intn(4) {
			case 0:
				p.Ts = lim + int64(r.Intn(5)) - 2
			case 1:
				p.Ts = int64(r.Intn(100000))
			case 2:
				p.Ts = lim/2 + int64(r.Uint64()%uint64(lim/2+1)) + int64(r.Intn(3))*(lim/2)
			}
			if p.Ts < 0 {
				p.Ts = 0
			}
		}
	}
	text := render(r, p)
	switch r.Intn(8) {
	case 0:
		text += "\r\n"
	case 1:
		text += "\n"
	}
	rows, isErr := runImpl([]byte(text), mult)
	c := &Case{I: idx, Class: "valid", Mult: mult, In: hx(text), Text: text, Err: isErr, Rows: rows, Judged: true, Nontrivial: pointNontrivial(p, text) || mult != 1}
	if p.HasTs && scaleOverflows(p.Ts, mult) {
		// the text is valid, but the instant it denotes under this precision is beyond int64 nanoseconds
		c.Sub = "timestamp-out-of-range"
		if !isErr {
			got := "the server clock"
			if len(rows) == 1 && rows[0].Ts != nil {
				got = strconv.FormatInt(*rows[0].Ts, 10)
			}
			c.Oracle = append(c.Oracle, OracleFail{"C06-ts-overflow", fmt.Sprintf("timestamp %d with precision factor %d is beyond int64 ns; accepted and stored as %s", p.Ts, mult, got)})
		}
	} else if !pointStorable(p) {
		c.Sub = "float-out-of-range"
		if !isErr {
			id := "none"
			for _, f := range p.Fields {
				if f.V.Kind == 'f' && math.IsInf(math.Float64frombits(f.V.FBits), 0) && strings.HasPrefix(f.V.Lit, "+") {
					id = "C06-plus-zero"
				}
			}
			c.Oracle = append(c.Oracle, OracleFail{id, "a float literal beyond the binary64 range was accepted"})
		}
	} else if isErr || len(rows) != 1 {
		// a valid line that is refused stores nothing; the property speaks about accepted points only
		c.Sub = "valid-refused"
		c.Judged = false
	} else {
		c.Oracle = comparePoint(p, rows[0], mult)
	}
	emit(c)
}

// caseFloats: a line of six float fields - the decimal -> binary64 conversion the parser calls, checked against
// strconv.ParseFloat here and against the exact rational arithmetic of Model.dec2f_exact in the model evaluation.
func caseFloats(r *gen.Rand, idx int) {
	p := Point{Name: "fl", HasTs: true, Ts: int64(r.Intn(100000))}
	for i := 0; i < 6; i++ {
		var v PVal
		for {
			if i < 3 {
				v = floatVal(r, genHardFloat(r))
			} else {
				v = floatVal(r, genFloatLit(r))
			}
			if !math.IsInf(math.Float64frombits(v.FBits), 0) {
				break
			}
		}
		p.Fields = append(p.Fields, PField{K: fmt.Sprintf("f%d", i), V: v})
	}
	text := render(r, p)
	rows, isErr := runImpl([]byte(text), 1)
	c := &Case{I: idx, Class: "floats", Mult: 1, In: hx(text), Text: text, Err: isErr, Rows: rows, Judged: true, Nontrivial: true}
	if isErr || len(rows) != 1 {
		c.Sub, c.Judged = "valid-refused", false
	} else {
		c.Oracle = comparePoint(p, rows[0], 1)
	}
	emit(c)
}

func caseBad(r *gen.Rand, idx int) {
	b := genBad(r)
	rows, isErr := runImpl([]byte(b.text), 1)
	c := &Case{I: idx, Class: "malformed", Sub: b.sub, Mult: 1, In: hx(b.text), Text: b.text, Err: isErr, Rows: rows, Judged: true, Nontrivial: true}
	if !isErr {
		c.Oracle = append(c.Oracle, OracleFail{b.sig, fmt.Sprintf("invalid line (%s) accepted without an error, %d row(s) stored", b.sub, len(rows))})
	}
	emit(c)
}

func caseBatch(r *gen.Rand, idx int) {
	n := r.Range(2, 5)
	type ln struct {
		text  string
		valid bool
		skip  bool
		p     Point
		sig   string
	}
	var lines []ln
	for i := 0; i < n; i++ {
		switch x := r.Intn(10); {
		case x < 5:
			p := genPoint(r)
			for !pointStorable(p) {
				p = genPoint(r)
			}
			t := render(r, p)
			if strings.HasSuffix(t, "\r") {
				t += "0"
			}
			lines = append(lines, ln{text: t, valid: true, p: p})
		case x < 8:
			b := genBad(r)
			for b.sig != "none" && !r.Chance(1, 4) {
				b = genBad(r)
			}
			lines = append(lines, ln{text: b.text, sig: b.sig})
		case x == 8:
			lines = append(lines, ln{text: "", skip: true})
		default:
			lines = append(lines, ln{text: "# " + genBytes(r, 0, 8, 10), skip: true})
		}
	}
	for i := range lines {
		lines[i].text = strings.ReplaceAll(lines[i].text, "\n", "")
	}
	sep := "\n"
	if r.Chance(1, 3) {
		sep = "\r\n"
	}
	var sb strings.Builder
	for i, l := range lines {
		sb.WriteString(l.text)
		if i < len(lines)-1 || r.Bool() {
			sb.WriteString(sep)
		}
	}
	text := sb.String()
	rows, isErr := runImpl([]byte(text), 1)
	c := &Case{I: idx, Class: "batch", Mult: 1, In: hx(text), Text: text, Err: isErr, Rows: rows, Judged: true, Nontrivial: true}
	var invalid []int
	var valids []Point
	for i, l := range lines {
		if !l.valid && !l.skip {
			invalid = append(invalid, i)
		}
		if l.valid {
			valids = append(valids, l.p)
		}
	}
	if len(invalid) > 0 {
		if !isErr {
			// attribute the missing error line by line: an invalid line that is accepted on its own belongs to its
			// accepted-junk class; one that is refused on its own lost its error to a later line of the batch
			for _, i := range invalid {
				_, e1 := runImpl([]byte(lines[i].text), 1)
				if !e1 {
					c.Oracle = append(c.Oracle, OracleFail{lines[i].sig, fmt.Sprintf("invalid line %d of the batch is accepted without an error", i)})
				} else if i < len(lines)-1 {
					c.Oracle = append(c.Oracle, OracleFail{"C06-midbatch-error-lost", fmt.Sprintf("line %d of %d is refused on its own but the batch is answered without an error", i, len(lines))})
				} else {
					c.Oracle = append(c.Oracle, OracleFail{"none", "the last line is refused on its own but the batch is answered without an error"})
				}
			}
		}
	} else if isErr {
		c.Sub = "valid-refused"
		c.Judged = false
	} else if len(rows) != len(valids) {
		c.Oracle = append(c.Oracle, OracleFail{"none", fmt.Sprintf("%d valid lines, %d rows stored", len(valids), len(rows))})
	} else {
		for i := range valids {
			c.Oracle = append(c.Oracle, comparePoint(valids[i], rows[i], 1)...)
		}
	}
	emit(c)
}

var mutBytes = []byte("\\\",= \t\r\nfiue+-.#0159\x00\"\\")

func caseMutated(r *gen.Rand, idx int) {
	var text string
	if r.Chance(1, 4) {
		text = genBad(r).text
	} else {
		text = render(r, genPoint(r))
	}
	b := []byte(text)
	for k, n := 0, r.Range(1, 3); k < n; k++ {
		pos := r.Intn(len(b) + 1)
		switch r.Intn(3) {
		case 0:
			b = append(b[:pos], append([]byte{mutBytes[r.Intn(len(mutBytes))]}, b[pos:]...)...)
		case 1:
			if pos < len(b) {
				b = append(b[:pos], b[pos+1:]...)
			}
		default:
			if pos < len(b) {
				b[pos] = mutBytes[r.Intn(len(mutBytes))]
			}
		}
	}
	rows, isErr := runImpl(b, 1)
	emit(&Case{I: idx, Class: "mutated", Mult: 1, In: hx(string(b)), Text: string(b), Err: isErr, Rows: rows, Nontrivial: true})
}

// caseRawString: a quoted string field whose body is raw text over the backslash/quote alphabet (any run lengths before
// quotes and before the closing quote). Validity is not decided here: model and implementation must agree.
func caseRawString(r *gen.Rand, idx int) {
	text := "m " + genBytes(r, 1, 3, 0) + "=\"" + genBsqString(r) + "\""
	if r.Bool() {
		text += "," + genBytes(r, 1, 3, 0) + "=" + gen.Pick(r, []string{"1i", "2.5", "t", "\"z\""})
	}
	if r.Bool() {
		text += " " + strconv.Itoa(r.Intn(100000))
	}
	rows, isErr := runImpl([]byte(text), 1)
	emit(&Case{I: idx, Class: "rawstring", Mult: 1, In: hx(text), Text: text, Err: isErr, Rows: rows, Nontrivial: true})
}

// caseTsWhitespace: white space of every kind around the timestamp (strings.TrimSpace in nextTimestamp removes the
// Unicode White_Space characters, not only the ASCII ones), byte sequences that only look like it, digits interrupted
// by it. Validity is not decided here: model and implementation must agree.
var wsPieces = []string{" ", "\t", "\v", "\f", "\u0085", "\u00a0", "\u1680", "\u2000", "\u2003", "\u200a", "\u2028", "\u2029", "\u202f", "\u205f", "\u3000",
	"\u200b", "\u180e", "\ufeff", "\xe2\x80", "\xc2", "\xa0", "\x85", "\xe3\x80\x81", "\xe2\x80\x8b", "\x00", "x"}

func caseTsWhitespace(r *gen.Rand, idx int) {
	ws := func() string {
		var sb strings.Builder
		for i, n := 0, r.Intn(3); i < n; i++ {
			if r.Chance(3, 4) {
				sb.WriteString(wsPieces[r.Intn(15)])
			} else {
				sb.WriteString(gen.Pick(r, wsPieces))
			}
		}
		return sb.String()
	}
	digits := strconv.FormatInt(genTs(r), 10)
	if r.Chance(1, 8) {
		k := r.Intn(len(digits) + 1)
		digits = digits[:k] + ws() + digits[k:]
	}
	text := "m," + "k=v x=" + gen.Pick(r, []string{"1i", "2.5", "t", "\"s\""}) + " " + ws() + digits + ws()
	rows, isErr := runImpl([]byte(text), 1)
	emit(&Case{I: idx, Class: "tsws", Mult: 1, In: hx(text), Text: text, Err: isErr, Rows: rows, Nontrivial: true})
}

// corpus entry: {"name":..., "text":..., "mult":1, "invalid":true|false, "sig":"C06-...", "ints":{"x":"9007199254740993"}}
type corpusEntry struct {
	Name    string            `json:"name"`
	Text    string            `json:"text"`
	Mult    int64             `json:"mult"`
	Invalid bool              `json:"invalid"`
	Sig     string            `json:"sig"`
	Ints    map[string]string `json:"ints"`
	Floats  map[string]string `json:"floats"`
}

func caseCorpus(e corpusEntry, idx int) {
	if e.Mult == 0 {
		e.Mult = 1
	}
	if e.Sig == "" {
		e.Sig = "none"
	}
	rows, isErr := runImpl([]byte(e.Text), e.Mult)
	c := &Case{I: idx, Class: "corpus", Sub: e.Name, Mult: e.Mult, In: hx(e.Text), Text: e.Text, Err: isErr, Rows: rows, Judged: true, Nontrivial: true}
	if e.Invalid {
		if !isErr {
			c.Oracle = append(c.Oracle, OracleFail{e.Sig, "invalid input accepted without an error"})
		}
	} else if isErr {
		c.Oracle = append(c.Oracle, OracleFail{"none", "valid corpus input refused"})
	} else {
		for _, ro := range rows {
			for _, f := range ro.Fields {
				kb, _ := hex.DecodeString(f.K)
				if w, ok := e.Ints[string(kb)]; ok {
					n, _ := strconv.ParseInt(w, 10, 64)
					if f.Stored != n {
						id := "none"
						if int64(float64(n)) != n && f.Stored == int64(float64(n)) {
							id = "C06-int53"
						}
						c.Oracle = append(c.Oracle, OracleFail{id, fmt.Sprintf("%di stored as %d", n, f.Stored)})
					}
				}
				if lit, ok := e.Floats[string(kb)]; ok {
					w, _ := strconv.ParseFloat(lit, 64)
					p := Point{Fields: []PField{{K: string(kb), V: PVal{Kind: 'f', Lit: lit, FBits: math.Float64bits(w)}}}}
					for _, of := range comparePoint(p, RowObs{Fields: []FieldObs{f}, Tags: [][2]string{}}, 1) {
						if strings.HasPrefix(of.What, "float ") || of.ID != "none" {
							c.Oracle = append(c.Oracle, of)
						}
					}
				}
			}
		}
	}
	emit(c)
}

func main() {
	if len(os.Args) >= 6 && os.Args[1] == "e2e" {
		n, _ := strconv.Atoi(os.Args[5])
		os.Exit(e2eMain(os.Args[2], os.Args[3], os.Args[4], n))
	}
	if len(os.Args) >= 3 && os.Args[1] == "replay" {
		raw, err := os.ReadFile(os.Args[2])
		if err != nil {
			fmt.Println("ERROR", err)
			os.Exit(2)
		}
		var rp struct {
			In   string `json:"in"`
			Mult int64  `json:"mult"`
		}
		if err := json.Unmarshal(raw, &rp); err != nil {
			fmt.Println("ERROR", err)
			os.Exit(2)
		}
		b, _ := hex.DecodeString(rp.In)
		if rp.Mult == 0 {
			rp.Mult = 1
		}
		rows, isErr := runImpl(b, rp.Mult)
		emit(&Case{I: 0, Class: "replay", Mult: rp.Mult, In: rp.In, Text: string(b), Err: isErr, Rows: rows})
		return
	}
	n := 400
	if len(os.Args) >= 3 {
		n, _ = strconv.Atoi(os.Args[2])
	}
	idx := 0
	if len(os.Args) >= 4 {
		files, _ := filepath.Glob(filepath.Join(os.Args[3], "*.case"))
		sort.Strings(files)
		for _, f := range files {
			raw, err := os.ReadFile(f)
			if err != nil {
				continue
			}
			var e corpusEntry
			if err := json.Unmarshal(raw, &e); err != nil {
				fmt.Println("ERROR bad corpus file", f, err)
				os.Exit(2)
			}
			if e.Name == "" {
				e.Name = filepath.Base(f)
			}
			caseCorpus(e, idx)
			idx++
		}
	}
	r := gen.FromEnv(6)
	for k := 0; k < n; k++ {
		switch x := r.Intn(30); {
		case x == 29:
			casePromWrite(r, idx)
		case x >= 27:
			caseWriter(r, idx)
		case x == 26:
			caseTsWhitespace(r, idx)
		case x == 25:
			caseFloats(r, idx)
		case x < 9:
			caseValid(r, idx)
		case x < 13:
			caseBad(r, idx)
		case x < 16:
			caseBatch(r, idx)
		case x < 18:
			caseMutated(r, idx)
		case x < 20:
			caseRawString(r, idx)
		case x < 22:
			caseStream(r, idx)
		default:
			caseHTTP(r, idx)
		}
		idx++
	}
	httpTeardown()
	idx = streamSweep(idx)
	fmt.Printf("{\"done\":%d}\n", idx)
}
