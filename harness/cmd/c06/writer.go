package main

// The points writer's per-row glue (coordinator: stable sort of the fields, fixFields, schema check / update, the
// partial-error and dropped-row decision), driven row by row through the verif hook coordinator.VerifC06Writer on rows
// the real parser produced, a request of several lines for one measurement against the evolving schema.
//
// DIRECT ORACLE: a line with distinct keys, none of them `time`, whose field types agree with what earlier lines
// established, is handed on without an error and with exactly its fields; a line with a `time` field or tag must not be
// handed on (a field or tag of that name cannot come back from a query). Everything else (duplicate keys, type
// conflicts) is left to the model comparison.

import (
	"fmt"
	"sort"
	"strings"
	"time"

	"github.com/openGemini/openGemini/coordinator"
	"github.com/openGemini/openGemini/lib/util/lifted/vm/protoparser/influx"
	"verifharness/internal/gen"
)

type WriterRow struct {
	Dropped bool    `json:"dropped"`
	Err     bool    `json:"err"`
	Fatal   bool    `json:"fatal"`
	Row     *RowObs `json:"row"` // what is handed on (nil when dropped)
}

type wline struct {
	text   string
	p      Point
	clean  bool // distinct keys, no `time`
	timeF  bool
	timeT  bool
	others bool // a `time` field next to other fields
}

var wKinds = []byte{'i', 'f', 'b', 's'}

func wVal(r *gen.Rand, kind byte) PVal {
	switch kind {
	case 'i':
		n := int64(r.Intn(2000) - 1000)
		return PVal{Kind: 'i', Int: n, Text: fmt.Sprintf("%di", n)}
	case 'f':
		return floatVal(r, fmt.Sprintf("%d.%d", r.Intn(1000), r.Intn(100)))
	case 'b':
		b := r.Bool()
		return PVal{Kind: 'b', Bool: b, Text: map[bool]string{true: "t", false: "false"}[b]}
	default:
		s := genBytes(r, 0, 5, 0)
		return PVal{Kind: 's', Str: s, Text: "\"" + s + "\""}
	}
}

func genWriterLine(r *gen.Rand, i int, known map[string]byte, tainted map[string]bool) wline {
	fkeys := []string{"f0", "f1", "f2", "f3", "g"}
	tkeys := []string{"a", "b", "c"}
	l := wline{clean: true}
	p := Point{Name: "w", HasTs: true, Ts: int64(1000 + i)}
	seenT := map[string]bool{}
	for k, n := 0, r.Intn(3); k < n; k++ {
		key := tkeys[r.Intn(3)]
		if r.Chance(1, 8) {
			key = "time"
		}
		if seenT[key] {
			if !r.Chance(1, 4) {
				continue
			}
			l.clean = false
		}
		seenT[key] = true
		if key == "time" {
			l.timeT, l.clean = true, false
		}
		p.Tags = append(p.Tags, [2]string{key, genBytes(r, 1, 3, 0)})
	}
	seenF := map[string]bool{}
	for k, n := 0, r.Range(1, 4); k < n; k++ {
		key := fkeys[r.Intn(5)]
		if r.Chance(1, 8) {
			key = "time"
		}
		if seenF[key] {
			if !r.Chance(1, 3) {
				continue
			}
			l.clean = false
		}
		seenF[key] = true
		kind := wKinds[r.Intn(4)]
		if e, ok := known[key]; ok && !r.Chance(1, 5) {
			kind = e
		}
		switch {
		case key == "time":
			l.timeF, l.clean = true, false
		case tainted[key]:
			l.clean = false // the oracle does not know this key's type in the schema
		default:
			if e, ok := known[key]; ok && e != kind {
				l.clean = false // conflicts with the schema
			}
		}
		p.Fields = append(p.Fields, PField{K: key, V: wVal(r, kind)})
	}
	if r.Chance(1, 4) {
		// one key twice, the second time with any type (the later one wins when the types agree, otherwise the point is refused)
		f := p.Fields[r.Intn(len(p.Fields))]
		p.Fields = append(p.Fields, PField{K: f.K, V: wVal(r, wKinds[r.Intn(4)])})
		l.clean = false
	}
	for _, f := range p.Fields {
		if f.K != "time" {
			l.others = true
		}
	}
	var sb strings.Builder
	sb.WriteString("w")
	for _, t := range p.Tags {
		sb.WriteString("," + t[0] + "=" + t[1])
	}
	sb.WriteByte(' ')
	for k, f := range p.Fields {
		if k > 0 {
			sb.WriteByte(',')
		}
		sb.WriteString(f.K + "=" + f.V.Text)
	}
	sb.WriteString(fmt.Sprintf(" %d", p.Ts))
	l.text, l.p = sb.String(), p
	return l
}

func caseWriter(r *gen.Rand, idx int) {
	// known: keys whose type in the schema the oracle knows; tainted: keys a line that is not clean may or may not have
	// put into the schema
	known, tainted := map[string]byte{}, map[string]bool{}
	var lines []wline
	for i, n := 0, r.Range(2, 6); i < n; i++ {
		l := genWriterLine(r, i, known, tainted)
		lines = append(lines, l)
		for _, f := range l.p.Fields {
			if _, ok := known[f.K]; ok || f.K == "time" {
				continue
			}
			if l.clean {
				known[f.K] = f.V.Kind
			} else {
				tainted[f.K] = true
			}
		}
	}
	var texts []string
	for _, l := range lines {
		texts = append(texts, l.text)
	}
	body := strings.Join(texts, "\n")
	w := coordinator.VerifC06NewWriter("w_0000")
	var outs []WriterRow
	uw := influx.GetUnmarshalWork()
	uw.Db, uw.TsMultiplier = "db", 1
	uw.ReqBuf = append(uw.ReqBuf[:0], body...)
	parseErr := false
	t0 := time.Now().UnixNano()
	uw.Callback = func(db string, rs []influx.Row, err error) {
		if err != nil {
			parseErr = true
			return
		}
		for i := range rs {
			dropped, fatal, e := w.Row(&rs[i])
			o := WriterRow{Dropped: dropped, Err: e != nil, Fatal: fatal}
			if !dropped && len(rs[i].Fields) == 0 {
				// a row without fields is refused further down the write path ("point without fields is unsupported")
				o.Dropped, o.Err = true, true
			}
			if !o.Dropped {
				ro := obsRow(&rs[i], t0, time.Now().UnixNano())
				o.Row = &ro
			}
			outs = append(outs, o)
		}
	}
	uw.Unmarshal()
	c := &Case{I: idx, Class: "writer", Mult: 1, In: hx(body), Text: body, Err: parseErr, Judged: true, Nontrivial: true, Writer: outs}
	for _, l := range lines {
		// which reserved-key triggers the request holds: a variant of the model that differs only through them (e.g. a
		// refused row whose other keys still reach the schema) is attributed to the finding without an oracle failure
		if l.timeF {
			c.Triggers = append(c.Triggers, "C06-time-field-dropped")
		}
		if l.timeT {
			c.Triggers = append(c.Triggers, "C06-time-tag-dropped")
		}
	}
	if parseErr || len(outs) != len(lines) {
		c.Sub, c.Judged = "valid-refused", false
		emit(c)
		return
	}
	for i, l := range lines {
		o := outs[i]
		switch {
		case l.timeF && l.others && !o.Dropped && !o.Fatal:
			c.Oracle = append(c.Oracle, OracleFail{"C06-time-field-dropped", fmt.Sprintf("line %d (%s): handed on, the field named time is gone (error reported for something else: %v)", i, l.text, o.Err)})
		case l.timeT && !o.Dropped && !o.Fatal:
			c.Oracle = append(c.Oracle, OracleFail{"C06-time-tag-dropped", fmt.Sprintf("line %d (%s): the row is handed on without its tag named time (error reported: %v)", i, l.text, o.Err)})
		case l.clean:
			if o.Dropped || o.Err || o.Row == nil {
				c.Oracle = append(c.Oracle, OracleFail{"none", fmt.Sprintf("line %d (%s): a line with distinct keys and agreeing types is refused (dropped=%v error=%v)", i, l.text, o.Dropped, o.Err)})
				continue
			}
			p := l.p
			p.Fields = append([]PField{}, p.Fields...)
			sort.SliceStable(p.Fields, func(a, b int) bool { return p.Fields[a].K < p.Fields[b].K })
			for _, of := range comparePoint(p, *o.Row, 1) {
				of.What = fmt.Sprintf("line %d: %s", i, of.What)
				c.Oracle = append(c.Oracle, of)
			}
		}
	}
	emit(c)
}
