package main

// The block reader between the HTTP body and unmarshalRows: influx.GetStreamContext / Read / ReqBuf / Error, driven the
// way httpd.Handler.serveWrite drives it, with a small read-block size. Oracle: every line of the body is delivered
// exactly once, in order, and the rows handed on are the points the text denotes.

import (
	"encoding/hex"
	"errors"
	"fmt"
	"io"
	"strings"

	"github.com/VictoriaMetrics/VictoriaMetrics/lib/bytesutil"
	"github.com/openGemini/openGemini/lib/util/lifted/vm/protoparser/influx"
	"verifharness/internal/gen"
)

// StreamInfo: one run of the block reader as the model needs it (coq/C06/ModelStream.v read_blocks): how the stream
// ends, max-line-size, per call of ReadLinesBlockExt the capacities its buffer goes through, and what was observed -
// every delivered block with the final capacity of its buffer, and whether the reader ended without an error.
type BlockObs struct {
	B   string `json:"b"` // hex
	Cap int    `json:"cap"`
}
type StreamInfo struct {
	End     int        `json:"end"` // 0 = io.EOF, 1 = read error
	MaxLine int        `json:"maxline"`
	Body    string     `json:"body"` // hex of the stream under the reader
	Sched   [][]int    `json:"sched"`
	Blocks  []BlockObs `json:"blocks"`
	Ok      bool       `json:"ok"`
}

var errBroken = errors.New("stream broken")

const pooledMaxLine = 1024 * 1024 // httpd config.DefaultMaxLineSize

// capChain replays, on a scratch buffer, what ReadLinesBlockExt does to the capacity of dstBuf: Resize to the block
// size, append of the carried tail, and the doublings when a full buffer holds no newline.
func capChain(capBefore, bs, tailLen int) []int {
	b := make([]byte, 0, capBefore)
	if cap(b) < bs {
		b = bytesutil.Resize(b, bs)
	}
	b = append(b[:0], make([]byte, tailLen)...)
	chain := []int{cap(b)}
	for k := 0; k < 10; k++ {
		n := cap(b)
		b = b[:n]
		if cap(b) < 2*len(b) {
			b = bytesutil.Resize(b, 2*cap(b))
			b = b[:n]
		}
		chain = append(chain, cap(b))
	}
	return chain
}

// runStreamSched is serveWrite's read loop with the buffer handed to every call chosen here (serveWrite swaps the
// context's buffer with the buffer of a pooled unmarshal work after every block, so any capacity can show up).
func runStreamSched(r *gen.Rand, body []byte, blockSize, maxLine int, broken bool, chunks []int) (rows []RowObs, parseErr bool, info *StreamInfo) {
	rd := &chunkReader{b: append([]byte{}, body...), chunks: chunks}
	if broken {
		rd.end = errBroken
	}
	ctx := influx.GetStreamContext(rd, maxLine)
	// a context taken from the pool channel keeps the max-line-size of its last user (GetStreamContext sets it only on
	// the sync.Pool path): set it here, and put the server's default back before the context returns to the pool, or
	// the write endpoint of the httpw class would inherit a tiny limit
	defer func() { ctx.MaxLineSize = pooledMaxLine; influx.PutStreamContext(ctx) }()
	ctx.MaxLineSize = maxLine
	info = &StreamInfo{MaxLine: maxLine, Body: hx(string(body)), Sched: [][]int{}, Blocks: []BlockObs{}}
	if broken {
		info.End = 1
	}
	start, tailLen, prevCap := 0, 0, 0
	for calls := 0; calls < 100000; calls++ {
		capBefore := 0
		switch r.Intn(5) {
		case 0:
			capBefore = 0
		case 1:
			capBefore = blockSize
		case 2:
			capBefore = blockSize + r.Intn(2*blockSize+1)
		case 3:
			capBefore = prevCap
		default:
			capBefore = r.Intn(blockSize + 1)
		}
		if capBefore <= tailLen {
			capBefore = tailLen + 1 + r.Intn(blockSize)
		}
		chain := capChain(capBefore, blockSize, tailLen)
		for k := range chain { // a buffer larger than the whole stream is never doubled again
			if chain[k] > len(body)+1 {
				chain = chain[:k+1]
				break
			}
		}
		info.Sched = append(info.Sched, chain)
		ctx.ReqBuf = make([]byte, 0, capBefore)
		if !ctx.Read(blockSize) {
			break
		}
		blk := append([]byte{}, ctx.ReqBuf...)
		fc := cap(ctx.ReqBuf)
		info.Blocks = append(info.Blocks, BlockObs{B: hx(string(blk)), Cap: fc})
		rs, e := runImpl(blk, 1)
		if e {
			parseErr = true
		}
		rows = append(rows, rs...)
		if start+fc <= len(body) {
			tailLen = fc - len(blk) - 1
			// the buffer started with the previous tail: it held body[start : start+fc]
			start += len(blk) + 1
		} else {
			tailLen = 0
			start = len(body)
		}
		prevCap = fc
	}
	info.Ok = ctx.Error() == nil
	return
}

// chunkReader hands the body out in pieces of the given sizes (then all the rest), like a network body does.
type chunkReader struct {
	b      []byte
	chunks []int
	end    error // what the reader answers after the last byte (nil = io.EOF)
}

func (c *chunkReader) Read(p []byte) (int, error) {
	if len(c.b) == 0 {
		if c.end != nil {
			return 0, c.end
		}
		return 0, io.EOF
	}
	n := len(p)
	if len(c.chunks) > 0 {
		if c.chunks[0] < n {
			n = c.chunks[0]
		}
		c.chunks = c.chunks[1:]
	}
	if n > len(c.b) {
		n = len(c.b)
	}
	if n == 0 {
		n = 1
	}
	copy(p, c.b[:n])
	c.b = c.b[n:]
	return n, nil
}

// runStream is serveWrite's read loop: one unmarshal work per block, rows concatenated in block order.
func runStream(body []byte, blockSize int, chunks []int) (rows []RowObs, isErr bool, blocks int) {
	ctx := influx.GetStreamContext(&chunkReader{b: append([]byte{}, body...), chunks: chunks}, 256*1024)
	defer func() { ctx.MaxLineSize = pooledMaxLine; influx.PutStreamContext(ctx) }()
	ctx.MaxLineSize = 256 * 1024
	// a pooled context keeps the (possibly grown) buffer of its last use, and ReadLinesBlockExt only ever enlarges it:
	// hand every call a buffer of exactly the block size, otherwise the whole body arrives in one block
	ctx.ReqBuf = make([]byte, 0, blockSize)
	for ctx.Read(blockSize) {
		blocks++
		rs, e := runImpl(ctx.ReqBuf, 1)
		if e {
			isErr = true
		}
		rows = append(rows, rs...)
		ctx.ReqBuf = make([]byte, 0, blockSize)
		if blocks > 100000 {
			isErr = true
			break
		}
	}
	if ctx.Error() != nil {
		isErr = true
	}
	return
}

// caseStream: random valid points (every escape form), LF or CRLF, with or without a final newline, blank and comment
// lines in between, random block size 64..512 and random read chunking. Also evaluated by the model (the rows of the
// whole body do not depend on where it is cut into blocks).
func caseStream(r *gen.Rand, idx int) {
	var pts []Point
	var lines []string
	for i, n := 0, r.Range(2, 12); i < n; i++ {
		switch r.Intn(8) {
		case 0:
			lines = append(lines, "")
		case 1:
			lines = append(lines, "# "+genBytes(r, 0, 20, 10))
		default:
			p := genPoint(r)
			for !pointStorable(p) {
				p = genPoint(r)
			}
			p.HasTs, p.Ts = true, genTs(r)
			t := strings.ReplaceAll(render(r, p), "\n", "")
			pts = append(pts, p)
			lines = append(lines, t)
		}
	}
	for i := range lines {
		lines[i] = strings.ReplaceAll(lines[i], "\n", "")
	}
	sep := "\n"
	if r.Chance(1, 3) {
		sep = "\r\n"
	}
	body := strings.Join(lines, sep)
	if r.Bool() {
		body += sep
	}
	bs := r.Range(64, 512)
	if r.Chance(1, 3) { // land the end of the body on a block multiple
		k := (len(body) + bs - 1) / bs
		if k > 0 && len(body)/k >= 16 {
			bs = (len(body) + k - 1) / k
		}
	}
	var chunks []int
	for i, n := 0, r.Intn(6); i < n; i++ {
		chunks = append(chunks, r.Range(1, 300))
	}
	// max-line-size: mostly far away, sometimes so small that a line does not fit (the reader must refuse, and what
	// it delivered before must be whole lines); one stream in six ends in a read error instead of io.EOF
	maxLine := 256 * 1024
	if r.Chance(1, 5) {
		maxLine = r.Range(20, 160)
	}
	broken := r.Chance(1, 6)
	rows, parseErr, info := runStreamSched(r, []byte(body), bs, maxLine, broken, chunks)
	c := &Case{I: idx, Class: "stream", Sub: fmt.Sprintf("block=%d blocks=%d maxline=%d end=%d", bs, len(info.Blocks), maxLine, info.End), Mult: 1, In: hx(body), Text: body,
		Err: parseErr || !info.Ok, Rows: rows, Judged: true, Nontrivial: true, Stream: info}
	switch {
	case parseErr:
		// a refused block stores nothing: not a matter of the property (the cutting discipline is checked by the model
		// comparison, mass refusal by run.py's vacuity guard)
		c.Sub += " valid-refused"
		c.Judged = false
	case !info.Ok:
		// the reader gave up (read error, line longer than max-line-size): the delivered blocks must be whole lines of
		// the body, in order, from its beginning. The model comparison below is on the delivered text.
		var parts []string
		for _, b := range info.Blocks {
			raw, _ := hexDecode(b.B)
			parts = append(parts, string(raw))
		}
		delivered := strings.Join(parts, "\n")
		c.In, c.Text, c.Err = hx(delivered), delivered, false
		c.Class = "stream-fail"
		if !broken && maxLine >= 256*1024 {
			c.Sub += " valid-refused" // not a matter of the property; run.py guards against a run without clean reads
		}
		if len(rows) > len(pts) {
			c.Oracle = append(c.Oracle, OracleFail{"none", fmt.Sprintf("%d points in the body, %d rows delivered", len(pts), len(rows))})
		} else {
			for i := range rows {
				c.Oracle = append(c.Oracle, comparePoint(pts[i], rows[i], 1)...)
			}
		}
	case len(rows) != len(pts):
		c.Oracle = append(c.Oracle, OracleFail{"none", fmt.Sprintf("%d points in the body, %d rows delivered (block size %d)", len(pts), len(rows), bs)})
	default:
		for i := range pts {
			c.Oracle = append(c.Oracle, comparePoint(pts[i], rows[i], 1)...)
		}
	}
	emit(c)
}

// streamSweep: bounded-exhaustive boundary sweep. For block sizes 64, 128, 256 and every body length from B-2 to 3B+2,
// with and without a final newline (and with CRLF for a third of them), a body of exactly that length made of short
// valid lines (plus one line longer than the block for B = 64) must be delivered completely and in order. Only
// failures and a thin sample are emitted as cases; the count goes into a summary line.
func streamSweep(idx int) int {
	total, failed, multi, refused := 0, 0, 0, 0
	for _, bs := range []int{64, 128, 256} {
		for L := bs - 2; L <= 3*bs+2; L++ {
			for variant := 0; variant < 3; variant++ {
				sep := "\n"
				if variant == 2 {
					sep = "\r\n"
				}
				final := variant == 1
				body, want := sweepBody("s", L, sep, final, bs == 64 && L > 200)
				if body == "" {
					continue
				}
				rows, isErr, blocks := runStream([]byte(body), bs, nil)
				total++
				if blocks > 1 {
					multi++
				}
				var fails []OracleFail
				if isErr {
					refused++ // not a matter of the property; run.py guards against a sweep that is mostly refused
				} else if len(rows) != len(want) {
					last := ""
					if len(rows) > 0 {
						last = rows[len(rows)-1].Tags[0][1]
					}
					fails = append(fails, OracleFail{"none", fmt.Sprintf("body of %d bytes, block size %d: %d lines written, %d delivered (last delivered tag %s)", len(body), bs, len(want), len(rows), last)})
				} else {
					for i, w := range want {
						if len(rows[i].Tags) != 1 || rows[i].Tags[0][1] != hx(w) || rows[i].Ts == nil || *rows[i].Ts != int64(1000+i) {
							fails = append(fails, OracleFail{"none", fmt.Sprintf("line %d delivered out of order or changed", i)})
							break
						}
					}
				}
				if len(fails) > 0 {
					failed++
				}
				if (len(fails) > 0 && failed <= 5) || total%97 == 0 {
					emit(&Case{I: idx, Class: "stream-sweep", Sub: fmt.Sprintf("block=%d len=%d blocks=%d", bs, len(body), blocks), Mult: 1,
						In: hx(body), Text: body, Err: isErr, Rows: rows, Oracle: fails, Judged: true, Nontrivial: true})
					idx++
				}
			}
		}
	}
	fmt.Printf("{\"stream_sweep\":%d,\"failed\":%d,\"multi\":%d,\"refused\":%d}\n", total, failed, multi, refused)
	return idx
}

// sweepBody builds a body of exactly L bytes: lines "<mst>,h=<tag> v=<i>i <1000+i>"; the last line's tag is padded.
func sweepBody(mst string, L int, sep string, final bool, long bool) (string, []string) {
	var sb strings.Builder
	var tags []string
	i := 0
	add := func(tag string) string { return fmt.Sprintf("%s,h=%s v=%di %d", mst, tag, i, 1000+i) }
	tail := 0
	if final {
		tail = len(sep)
	}
	for {
		tag := fmt.Sprintf("h%02d", i)
		if long && i == 1 {
			tag = "L" + strings.Repeat("x", 90)
		}
		line := add(tag)
		rest := L - sb.Len() - tail
		if rest < len(line) {
			return "", nil
		}
		// is this the last line? (not enough room for this one plus a separator plus a minimal further line)
		if rest < len(line)+len(sep)+len(add("h00"))+2 {
			pad := rest - len(line)
			tag += strings.Repeat("p", pad)
			sb.WriteString(add(tag))
			tags = append(tags, tag)
			if final {
				sb.WriteString(sep)
			}
			break
		}
		sb.WriteString(line)
		sb.WriteString(sep)
		tags = append(tags, tag)
		i++
	}
	if sb.Len() != L {
		return "", nil
	}
	return sb.String(), tags
}

var _ = gen.Tier

func hexDecode(s string) ([]byte, error) { return hex.DecodeString(s) }
