package main

// The block reader between the HTTP body and unmarshalRows: influx.GetStreamContext / Read / ReqBuf / Error, driven the
// way httpd.Handler.serveWrite drives it, with a small read-block size. Oracle: every line of the body is delivered
// exactly once, in order, and the rows handed on are the points the text denotes.

import (
	"fmt"
	"io"
	"strings"

	"github.com/openGemini/openGemini/lib/util/lifted/vm/protoparser/influx"
	"verifharness/internal/gen"
)

// chunkReader hands the body out in pieces of the given sizes (then all the rest), like a network body does.
type chunkReader struct {
	b      []byte
	chunks []int
}

func (c *chunkReader) Read(p []byte) (int, error) {
	if len(c.b) == 0 {
		return 0, io.EOF
	}
	n := len(p)
	if len(c.chunks) > 0 {
		if c.chunks[0] < n {
			n = c.chunks[0]
		}
		c.chunks = c.chunks[1:]
	}
	if n > len(c.b) {
		n = len(c.b)
	}
	if n == 0 {
		n = 1
	}
	copy(p, c.b[:n])
	c.b = c.b[n:]
	return n, nil
}

// runStream is serveWrite's read loop: one unmarshal work per block, rows concatenated in block order.
func runStream(body []byte, blockSize int, chunks []int) (rows []RowObs, isErr bool, blocks int) {
	ctx := influx.GetStreamContext(&chunkReader{b: append([]byte{}, body...), chunks: chunks}, 256*1024)
	defer influx.PutStreamContext(ctx)
	for ctx.Read(blockSize) {
		blocks++
		rs, e := runImpl(ctx.ReqBuf, 1)
		if e {
			isErr = true
		}
		rows = append(rows, rs...)
		if blocks > 100000 {
			isErr = true
			break
		}
	}
	if ctx.Error() != nil {
		isErr = true
	}
	return
}

// caseStream: random valid points (every escape form), LF or CRLF, with or without a final newline, blank and comment
// lines in between, random block size 64..512 and random read chunking. Also evaluated by the model (the rows of the
// whole body do not depend on where it is cut into blocks).
func caseStream(r *gen.Rand, idx int) {
	var pts []Point
	var lines []string
	for i, n := 0, r.Range(2, 12); i < n; i++ {
		switch r.Intn(8) {
		case 0:
			lines = append(lines, "")
		case 1:
			lines = append(lines, "# "+genBytes(r, 0, 20, 10))
		default:
			p := genPoint(r)
			for !pointStorable(p) {
				p = genPoint(r)
			}
			p.HasTs, p.Ts = true, genTs(r)
			t := strings.ReplaceAll(render(r, p), "\n", "")
			pts = append(pts, p)
			lines = append(lines, t)
		}
	}
	for i := range lines {
		lines[i] = strings.ReplaceAll(lines[i], "\n", "")
	}
	sep := "\n"
	if r.Chance(1, 3) {
		sep = "\r\n"
	}
	body := strings.Join(lines, sep)
	if r.Bool() {
		body += sep
	}
	bs := r.Range(64, 512)
	if r.Chance(1, 3) { // land the end of the body on a block multiple
		k := (len(body) + bs - 1) / bs
		if k > 0 && len(body)/k >= 16 {
			bs = (len(body) + k - 1) / k
		}
	}
	var chunks []int
	for i, n := 0, r.Intn(6); i < n; i++ {
		chunks = append(chunks, r.Range(1, 300))
	}
	rows, isErr, blocks := runStream([]byte(body), bs, chunks)
	c := &Case{I: idx, Class: "stream", Sub: fmt.Sprintf("block=%d blocks=%d", bs, blocks), Mult: 1, In: hx(body), Text: body,
		Err: isErr, Rows: rows, Judged: true, Nontrivial: true}
	if isErr {
		c.Oracle = append(c.Oracle, OracleFail{"none", "a body of valid lines was answered with an error by the block reader / parser"})
	} else if len(rows) != len(pts) {
		c.Oracle = append(c.Oracle, OracleFail{"none", fmt.Sprintf("%d points in the body, %d rows delivered (block size %d)", len(pts), len(rows), bs)})
	} else {
		for i := range pts {
			c.Oracle = append(c.Oracle, comparePoint(pts[i], rows[i], 1)...)
		}
	}
	emit(c)
}

// streamSweep: bounded-exhaustive boundary sweep. For block sizes 64, 128, 256 and every body length from B-2 to 3B+2,
// with and without a final newline (and with CRLF for a third of them), a body of exactly that length made of short
// valid lines (plus one line longer than the block for B = 64) must be delivered completely and in order. Only
// failures and a thin sample are emitted as cases; the count goes into a summary line.
func streamSweep(idx int) int {
	total, failed := 0, 0
	for _, bs := range []int{64, 128, 256} {
		for L := bs - 2; L <= 3*bs+2; L++ {
			for variant := 0; variant < 3; variant++ {
				sep := "\n"
				if variant == 2 {
					sep = "\r\n"
				}
				final := variant == 1
				body, want := sweepBody("s", L, sep, final, bs == 64 && L > 200)
				if body == "" {
					continue
				}
				rows, isErr, blocks := runStream([]byte(body), bs, nil)
				total++
				var fails []OracleFail
				if isErr {
					fails = append(fails, OracleFail{"none", "valid body answered with an error"})
				} else if len(rows) != len(want) {
					last := ""
					if len(rows) > 0 {
						last = rows[len(rows)-1].Tags[0][1]
					}
					fails = append(fails, OracleFail{"none", fmt.Sprintf("body of %d bytes, block size %d: %d lines written, %d delivered (last delivered tag %s)", len(body), bs, len(want), len(rows), last)})
				} else {
					for i, w := range want {
						if len(rows[i].Tags) != 1 || rows[i].Tags[0][1] != hx(w) || rows[i].Ts == nil || *rows[i].Ts != int64(1000+i) {
							fails = append(fails, OracleFail{"none", fmt.Sprintf("line %d delivered out of order or changed", i)})
							break
						}
					}
				}
				if len(fails) > 0 {
					failed++
				}
				if (len(fails) > 0 && failed <= 5) || total%97 == 0 {
					emit(&Case{I: idx, Class: "stream-sweep", Sub: fmt.Sprintf("block=%d len=%d blocks=%d", bs, len(body), blocks), Mult: 1,
						In: hx(body), Text: body, Err: isErr, Rows: rows, Oracle: fails, Judged: true, Nontrivial: true})
					idx++
				}
			}
		}
	}
	fmt.Printf("{\"stream_sweep\":%d,\"failed\":%d}\n", total, failed)
	return idx
}

// sweepBody builds a body of exactly L bytes: lines "<mst>,h=<tag> v=<i>i <1000+i>"; the last line's tag is padded.
func sweepBody(mst string, L int, sep string, final bool, long bool) (string, []string) {
	var sb strings.Builder
	var tags []string
	i := 0
	add := func(tag string) string { return fmt.Sprintf("%s,h=%s v=%di %d", mst, tag, i, 1000+i) }
	tail := 0
	if final {
		tail = len(sep)
	}
	for {
		tag := fmt.Sprintf("h%02d", i)
		if long && i == 1 {
			tag = "L" + strings.Repeat("x", 90)
		}
		line := add(tag)
		rest := L - sb.Len() - tail
		if rest < len(line) {
			return "", nil
		}
		// is this the last line? (not enough room for this one plus a separator plus a minimal further line)
		if rest < len(line)+len(sep)+len(add("h00"))+2 {
			pad := rest - len(line)
			tag += strings.Repeat("p", pad)
			sb.WriteString(add(tag))
			tags = append(tags, tag)
			if final {
				sb.WriteString(sep)
			}
			break
		}
		sb.WriteString(line)
		sb.WriteString(sep)
		tags = append(tags, tag)
		i++
	}
	if sb.Len() != L {
		return "", nil
	}
	return sb.String(), tags
}

var _ = gen.Tier
