// Reference evaluator (Go twin of coq/C08/Model.v eval_query). It is the search oracle of the harness;
// its answers are shipped to the driver, which has the Coq L1 model recompute them (cases.v), so that
// every accepted answer is also the answer of the model the theorems speak about.
package main

import "sort"

const (
	minT = -(int64(1) << 62)
	maxT = int64(1) << 62
)

func evalPred(p *Pred, s *Series, r *Row) bool {
	if p == nil {
		return true
	}
	switch p.Op {
	case "true":
		return true
	case "and":
		return evalPred(p.A, s, r) && evalPred(p.B, s, r)
	case "or":
		return evalPred(p.A, s, r) || evalPred(p.B, s, r)
	case "tageq":
		return int64(s.Tags[p.K]) == p.V
	case "tagne":
		return int64(s.Tags[p.K]) != p.V
	case "field":
		v := r.V[p.K]
		if v == nil {
			return false
		}
		switch p.C {
		case "lt":
			return *v < p.V
		case "le":
			return *v <= p.V
		case "gt":
			return *v > p.V
		case "ge":
			return *v >= p.V
		case "eq":
			return *v == p.V
		case "ne":
			return *v != p.V
		}
	}
	panic("bad pred")
}

func (q *Query) bounds() (int64, int64) {
	lo, hi := minT, maxT
	if q.HasTmin {
		lo = q.Tmin
	}
	if q.HasTmax {
		hi = q.Tmax
	}
	return lo, hi
}

func keyOf(s *Series, group []int) []int {
	k := make([]int, len(group))
	for i, g := range group {
		k[i] = s.Tags[g]
	}
	return k
}

func cmpKey(a, b []int) int {
	for i := range a {
		if a[i] != b[i] {
			if a[i] < b[i] {
				return -1
			}
			return 1
		}
	}
	return 0
}

func cmpCell(a, b Cell) int {
	if a.Null != b.Null {
		if a.Null {
			return -1
		}
		return 1
	}
	if a.Null {
		return 0
	}
	if a.N < b.N {
		return -1
	}
	if a.N > b.N {
		return 1
	}
	return 0
}

func cmpRow(a, b ARow) int {
	if a.T != b.T {
		if a.T < b.T {
			return -1
		}
		return 1
	}
	for i := range a.C {
		if c := cmpCell(a.C[i], b.C[i]); c != 0 {
			return c
		}
	}
	return 0
}

func floorDiv(a, b int64) int64 {
	q := a / b
	if a%b != 0 && (a < 0) != (b < 0) {
		q--
	}
	return q
}

type point struct{ t, v int64 }

func aggCell(fn string, pts []point) (Cell, int64) {
	if len(pts) == 0 {
		return Cell{Null: true}, 0
	}
	switch fn {
	case "count":
		return Cell{N: int64(len(pts))}, 0
	case "sum", "mean":
		var s int64
		for _, p := range pts {
			s += p.v
		}
		if fn == "sum" {
			return Cell{N: s}, 0
		}
		return Cell{Rat: true, N: s, D: int64(len(pts))}, 0
	}
	best := pts[0]
	for _, p := range pts[1:] {
		switch fn {
		case "min":
			if p.v < best.v || (p.v == best.v && p.t < best.t) {
				best = p
			}
		case "max":
			if p.v > best.v || (p.v == best.v && p.t < best.t) {
				best = p
			}
		case "first":
			if p.t < best.t || (p.t == best.t && p.v > best.v) {
				best = p
			}
		case "last":
			if p.t > best.t || (p.t == best.t && p.v > best.v) {
				best = p
			}
		}
	}
	return Cell{N: best.v}, best.t
}

func isSelector(fn string) bool { return fn == "min" || fn == "max" || fn == "first" || fn == "last" }

// fillNumCell renders fill(N) in the units of column a.
func fillNumCell(a Agg, n int64) Cell {
	sc := int64(1)
	if fieldKinds[a.F] == KFloat && a.Fn != "count" {
		sc = FloatScale
	}
	if a.Fn == "mean" {
		return Cell{Rat: true, N: n * sc, D: 1}
	}
	return Cell{N: n * sc}
}

// Eval evaluates q over ds. variant "repaired": descending = ascending reversed for every fill mode;
// variant "current": fill(previous) in a descending query runs in iteration order (today's code).
func Eval(ds *Dataset, q *Query, variant string) Answer {
	lo, hi := q.bounds()
	// groups
	var keys [][]int
	for i := range ds.Series {
		k := keyOf(&ds.Series[i], q.Group)
		found := false
		for _, e := range keys {
			if cmpKey(e, k) == 0 {
				found = true
			}
		}
		if !found {
			keys = append(keys, k)
		}
	}
	sort.Slice(keys, func(i, j int) bool { return cmpKey(keys[i], keys[j]) < 0 })
	var ans Answer
	for _, k := range keys {
		var members []*Series
		for i := range ds.Series {
			if cmpKey(keyOf(&ds.Series[i], q.Group), k) == 0 {
				members = append(members, &ds.Series[i])
			}
		}
		var rows []ARow
		if q.Kind == "plain" {
			for _, s := range members {
				for ri := range s.Rows {
					r := &s.Rows[ri]
					if r.T < lo || r.T > hi || !evalPred(q.Pred, s, r) {
						continue
					}
					cells := make([]Cell, len(q.Cols))
					any := false
					for ci, f := range q.Cols {
						if r.V[f] == nil {
							cells[ci] = Cell{Null: true}
						} else {
							cells[ci] = Cell{N: *r.V[f]}
							any = true
						}
					}
					if any {
						rows = append(rows, ARow{T: r.T, C: cells})
					}
				}
			}
			sort.SliceStable(rows, func(i, j int) bool { return cmpRow(rows[i], rows[j]) < 0 })
			if q.Desc {
				reverseRows(rows)
			}
		} else {
			rows = evalAggGroup(members, q, lo, hi, variant)
		}
		if len(rows) > 0 {
			ans = append(ans, ASeries{Key: k, Rows: rows})
		}
	}
	if q.Desc {
		for i, j := 0, len(ans)-1; i < j; i, j = i+1, j-1 {
			ans[i], ans[j] = ans[j], ans[i]
		}
	}
	if q.Kind == "plain" && len(q.Group) == 0 && (q.Limit > 0 || q.Offset > 0) && len(ans) == 1 {
		rows := ans[0].Rows
		if q.Offset >= int64(len(rows)) {
			return nil
		}
		rows = rows[q.Offset:]
		if q.Limit > 0 && int64(len(rows)) > q.Limit {
			rows = rows[:q.Limit]
		}
		ans[0].Rows = rows
	}
	return ans
}

func reverseRows(rows []ARow) {
	for i, j := 0, len(rows)-1; i < j; i, j = i+1, j-1 {
		rows[i], rows[j] = rows[j], rows[i]
	}
}

func evalAggGroup(members []*Series, q *Query, lo, hi int64, variant string) []ARow {
	// points per column
	cols := make([][]point, len(q.Aggs))
	for _, s := range members {
		for ri := range s.Rows {
			r := &s.Rows[ri]
			if r.T < lo || r.T > hi || !evalPred(q.Pred, s, r) {
				continue
			}
			for ci, a := range q.Aggs {
				if r.V[a.F] != nil {
					cols[ci] = append(cols[ci], point{r.T, *r.V[a.F]})
				}
			}
		}
	}
	if q.Interval == 0 {
		cells := make([]Cell, len(q.Aggs))
		any := false
		var selT int64
		for ci, a := range q.Aggs {
			cells[ci], selT = aggCell(a.Fn, cols[ci])
			if !cells[ci].Null {
				any = true
			}
		}
		if !any {
			return nil
		}
		t := int64(0)
		if q.HasTmin {
			t = q.Tmin
		}
		if len(q.Aggs) == 1 && isSelector(q.Aggs[0].Fn) {
			t = selT
		}
		return []ARow{{T: t, C: cells}}
	}
	// buckets
	bset := map[int64]bool{}
	for ci := range cols {
		for _, p := range cols[ci] {
			bset[floorDiv(p.t, q.Interval)*q.Interval] = true
		}
	}
	if len(bset) == 0 {
		return nil
	}
	var bs []int64
	for b := range bset {
		bs = append(bs, b)
	}
	sort.Slice(bs, func(i, j int) bool { return bs[i] < bs[j] })
	pre := map[int64][]Cell{}
	for _, b := range bs {
		cells := make([]Cell, len(q.Aggs))
		for ci, a := range q.Aggs {
			var pts []point
			for _, p := range cols[ci] {
				if floorDiv(p.t, q.Interval)*q.Interval == b {
					pts = append(pts, p)
				}
			}
			cells[ci], _ = aggCell(a.Fn, pts)
		}
		pre[b] = cells
	}
	var rows []ARow
	if q.Fill == "none" {
		for _, b := range bs {
			rows = append(rows, ARow{T: b, C: pre[b]})
		}
		if q.Desc {
			reverseRows(rows)
		}
		return rows
	}
	first := floorDiv(lo, q.Interval) * q.Interval
	last := floorDiv(hi, q.Interval) * q.Interval
	for b := first; b <= last; b += q.Interval {
		cells, ok := pre[b]
		if !ok {
			cells = make([]Cell, len(q.Aggs))
			for i := range cells {
				cells[i] = Cell{Null: true}
			}
		} else {
			cells = append([]Cell(nil), cells...)
		}
		rows = append(rows, ARow{T: b, C: cells})
	}
	iterDesc := q.Desc && q.Fill == "prev" && variant == "current"
	if iterDesc {
		reverseRows(rows)
	}
	prev := make([]Cell, len(q.Aggs))
	for i := range prev {
		prev[i] = Cell{Null: true}
	}
	for ri := range rows {
		for ci, a := range q.Aggs {
			c := &rows[ri].C[ci]
			if !c.Null {
				prev[ci] = *c
				continue
			}
			switch q.Fill {
			case "null":
				if a.Fn == "count" {
					*c = Cell{N: 0}
				}
			case "num":
				*c = fillNumCell(a, q.FillN)
			case "prev":
				*c = prev[ci]
			}
		}
	}
	if q.Desc && !iterDesc {
		reverseRows(rows)
	}
	return rows
}
