// C08 black-box harness: types shared by generator, reference evaluator and server driver.
package main

// Field kinds. All values travel as int64 in "model units": float fields are dyadic k/8 and carry k
// (scale 8), integer fields carry the integer, booleans 0/1, strings the index into strTable (index
// order = string order). The Coq model sees plain Z.
const (
	KFloat = "float"
	KInt   = "int"
	KBool  = "bool"
	KStr   = "string"
)

const FloatScale = 8

var fieldNames = []string{"a_f", "b_f", "c_i", "d_b", "e_s"}
var fieldKinds = []string{KFloat, KFloat, KInt, KBool, KStr}
var tagNames = []string{"ta", "tb"}
var tagVals = [][]string{{"", "a", "b", "c", "d"}, {"", "x", "y"}} // id 0 = tag absent
var strTable = []string{"s0", "s1", "s2", "s3", "s4", "s5"}

type Row struct {
	T int64    `json:"t"`
	V []*int64 `json:"v"` // per field, nil = null
}

type Series struct {
	Tags []int `json:"tags"` // value id per tag key, 0 = absent
	Rows []Row `json:"rows"` // strictly increasing time
}

type Dataset struct {
	Name    string   `json:"name"`
	InOrder bool     `json:"inorder"`        // written in time order (no out-of-order files)
	Wide    bool     `json:"wide,omitempty"` // many short series with interleaving timestamps
	Series  []Series `json:"series"`
}

// Predicate AST.
type Pred struct {
	Op string `json:"op"` // true and or tageq tagne field
	A  *Pred  `json:"a,omitempty"`
	B  *Pred  `json:"b,omitempty"`
	K  int    `json:"k,omitempty"`   // tag key index / field index
	V  int64  `json:"v,omitempty"`   // tag value id / constant in model units
	C  string `json:"cmp,omitempty"` // lt le gt ge eq ne
}

type Agg struct {
	Fn string `json:"fn"` // count sum mean min max first last
	F  int    `json:"f"`
}

type Query struct {
	Kind     string `json:"kind"`           // plain | agg
	Star     bool   `json:"star,omitempty"` // SELECT * (all fields; tag columns are ignored by the canonicaliser)
	Cols     []int  `json:"cols,omitempty"`
	Aggs     []Agg  `json:"aggs,omitempty"`
	HasTmin  bool   `json:"has_tmin"`
	Tmin     int64  `json:"tmin"`
	HasTmax  bool   `json:"has_tmax"`
	Tmax     int64  `json:"tmax"` // inclusive
	Pred     *Pred  `json:"pred"`
	Group    []int  `json:"group"`
	Interval int64  `json:"interval"`
	Fill     string `json:"fill"` // none null num prev   (agg with interval only)
	FillN    int64  `json:"filln"`
	Limit    int64  `json:"limit"`
	Offset   int64  `json:"offset"`
	Desc     bool   `json:"desc"`
}

// Cell of an answer: null, integer in model units, or rational num/den in model units (mean).
type Cell struct {
	Null bool  `json:"null,omitempty"`
	Rat  bool  `json:"rat,omitempty"`
	N    int64 `json:"n"`
	D    int64 `json:"d,omitempty"`
}

type ARow struct {
	T int64  `json:"t"`
	C []Cell `json:"c"`
}

type ASeries struct {
	Key  []int  `json:"key"`
	Rows []ARow `json:"rows"`
}

type Answer []ASeries
