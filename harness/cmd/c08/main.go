// C08 black-box harness. Starts the repository's ts-server (single node) on ports 20800-20899 with all
// state under VERIF_WORK, loads generated data sets, runs every generated query of the supported core
// under a matrix of execution configurations (inner_chunk_size, response chunking, chunk_reader_parallel,
// before/after flush, ascending/descending) and applies the DIRECT ORACLE of C08:
//
//	(a) every configuration returns the same answer,
//	(b) the descending answer is the ascending answer reversed (queries without limit/offset),
//	(c) the answer equals the reference evaluator (ref.go; re-computed by the Coq model L1 in the driver).
//
// Output: one JSON object per line: {"dataset":..} and {"case":..}; anything else is log.
//
// usage: c08 <ts-server-binary> <config-template> <nDatasets> <nQueries> [corpus-or-replay files...]
package main

import (
	"bytes"
	"encoding/json"
	"fmt"
	"io"
	"math"
	"net"
	"net/http"
	"net/url"
	"os"
	"os/exec"
	"path/filepath"
	"sort"
	"strconv"
	"strings"
	"syscall"
	"time"

	"verifharness/internal/gen"
)

// ports: one block of the C08 range 20800-20899 (meta B..B+2, http B+10/11, store B+20/21, B+30); the first block
// whose ports are all free is taken, so that two C08 checks (e.g. another agent's run on a scratch tree) can run at once
var (
	portMeta0 = 20800
	portHTTP  = 20810
	base      = fmt.Sprintf("http://127.0.0.1:%d", portHTTP)
)

func pickPorts() {
	for _, b := range []int{20800, 20833, 20866} {
		free := true
		for _, off := range []int{0, 1, 2, 10, 11, 20, 21, 30} {
			l, err := net.Listen("tcp", fmt.Sprintf("127.0.0.1:%d", b+off))
			if err != nil {
				free = false
				break
			}
			l.Close()
		}
		if free {
			portMeta0, portHTTP = b, b+10
			base = fmt.Sprintf("http://127.0.0.1:%d", portHTTP)
			return
		}
	}
}

var httpc = &http.Client{Timeout: 60 * time.Second}

func logf(f string, a ...any) { fmt.Fprintf(os.Stderr, "c08: "+f+"\n", a...) }

func startServer(bin, tmpl, work string, ptnum int) (*exec.Cmd, error) {
	pickPorts()
	if err := os.MkdirAll(work, 0o755); err != nil {
		return nil, err
	}
	b, err := os.ReadFile(tmpl)
	if err != nil {
		return nil, err
	}
	root := filepath.Join(work, "og")
	s := string(b)
	s = strings.ReplaceAll(s, "/tmp/openGemini", root)
	rep := map[string]int{"8092": portMeta0 + 2, "8088": portMeta0, "8091": portMeta0 + 1, "8086": portHTTP, "8087": portHTTP + 1,
		"8400": portHTTP + 10, "8401": portHTTP + 11, "8305": portHTTP + 20}
	for k, v := range rep {
		s = strings.ReplaceAll(s, "127.0.0.1:"+k, fmt.Sprintf("127.0.0.1:%d", v))
	}
	if ptnum > 1 {
		s = strings.Replace(s, "[meta]\n", fmt.Sprintf("[meta]\n  ptnum-pernode = %d\n", ptnum), 1)
	}
	s = strings.ReplaceAll(s, "flight-enabled = true", "flight-enabled = false")
	s = strings.ReplaceAll(s, "store-enabled = true", "store-enabled = false")
	conf := filepath.Join(work, "c08.conf")
	if err := os.WriteFile(conf, []byte(s), 0o644); err != nil {
		return nil, err
	}
	lf, err := os.Create(filepath.Join(work, "ts-server.out"))
	if err != nil {
		return nil, err
	}
	cmd := exec.Command(bin, "-config", conf)
	cmd.Dir = work
	cmd.Env = append(os.Environ(), "HOME="+work)
	cmd.Stdout, cmd.Stderr = lf, lf
	cmd.SysProcAttr = &syscall.SysProcAttr{Setpgid: true, Pdeathsig: syscall.SIGKILL}
	if err := cmd.Start(); err != nil {
		return nil, err
	}
	for i := 0; i < 300; i++ {
		resp, err := httpc.Get(base + "/ping")
		if err == nil {
			resp.Body.Close()
			if resp.StatusCode == 204 {
				return cmd, nil
			}
		}
		time.Sleep(100 * time.Millisecond)
	}
	_ = cmd.Process.Kill()
	return nil, fmt.Errorf("server did not come up")
}

func post(path string, vals url.Values, body []byte) (int, []byte, error) {
	resp, err := httpc.Post(base+path+"?"+vals.Encode(), "text/plain", bytes.NewReader(body))
	if err != nil {
		return 0, nil, err
	}
	defer resp.Body.Close()
	b, err := io.ReadAll(resp.Body)
	return resp.StatusCode, b, err
}

func ctrl(params string) error {
	resp, err := httpc.Post(base+"/debug/ctrl?"+params, "text/plain", nil)
	if err != nil {
		return err
	}
	defer resp.Body.Close()
	b, _ := io.ReadAll(resp.Body)
	if resp.StatusCode/100 != 2 {
		return fmt.Errorf("ctrl %s: %d %s", params, resp.StatusCode, b)
	}
	return nil
}

// Config is one execution configuration of a query.
type Config struct {
	Inner    int    `json:"inner"`   // inner_chunk_size (0 = default 1024)
	Chunked  int    `json:"chunked"` // chunk_size with chunked=true (0 = not chunked)
	Parallel int    `json:"parallel"`
	Phase    string `json:"phase"`        // mem | flushed | compacted
	Pt       int    `json:"pt,omitempty"` // ptnum-pernode of the server (0 = default 1)
	Desc     bool   `json:"desc"`
}

// observed answer: cells as float64/int/string exactly as returned, canonicalised later against column kinds
type obsSeries struct {
	tags map[string]string
	cols []string
	rows [][]any
}

func runQuery(db, sql string, c Config) ([]obsSeries, string) {
	v := url.Values{"db": {db}, "q": {sql}, "epoch": {"ns"}}
	if c.Inner > 0 {
		v.Set("inner_chunk_size", strconv.Itoa(c.Inner))
	}
	if c.Chunked > 0 {
		v.Set("chunked", "true")
		v.Set("chunk_size", strconv.Itoa(c.Chunked))
	}
	code, body, err := post("/query", v, nil)
	if err != nil {
		return nil, "transport: " + err.Error()
	}
	if code != 200 {
		return nil, fmt.Sprintf("http %d: %s", code, body)
	}
	dec := json.NewDecoder(bytes.NewReader(body))
	dec.UseNumber()
	var out []obsSeries
	for {
		var r struct {
			Results []struct {
				Series []struct {
					Tags    map[string]string `json:"tags"`
					Columns []string          `json:"columns"`
					Values  [][]any           `json:"values"`
				} `json:"series"`
				Error string `json:"error"`
			} `json:"results"`
			Error string `json:"error"`
		}
		if err := dec.Decode(&r); err == io.EOF {
			break
		} else if err != nil {
			return nil, "json: " + err.Error()
		}
		if r.Error != "" {
			return nil, "error: " + r.Error
		}
		for _, res := range r.Results {
			if res.Error != "" {
				return nil, "error: " + res.Error
			}
			for _, s := range res.Series {
				if n := len(out); n > 0 && sameTags(out[n-1].tags, s.Tags) {
					out[n-1].rows = append(out[n-1].rows, s.Values...)
				} else {
					out = append(out, obsSeries{tags: s.Tags, cols: s.Columns, rows: s.Values})
				}
			}
		}
	}
	return out, ""
}

func sameTags(a, b map[string]string) bool {
	if len(a) != len(b) {
		return false
	}
	for k, v := range a {
		if b[k] != v {
			return false
		}
	}
	return true
}

// column descriptor: scale and whether the cell is a mean (float compare)
type colKind struct {
	scale int64
	mean  bool
	str   bool
	boo   bool
	float bool
}

func colKinds(q *Query) []colKind {
	var ks []colKind
	mk := func(f int, fn string) colKind {
		k := colKind{scale: 1}
		if fn == "count" {
			return k
		}
		switch fieldKinds[f] {
		case KFloat:
			k.scale, k.float = FloatScale, true
		case KBool:
			k.boo = true
		case KStr:
			k.str = true
		}
		if fn == "mean" {
			k.mean = true
		}
		return k
	}
	if q.Kind == "plain" {
		for _, f := range q.Cols {
			ks = append(ks, mk(f, ""))
		}
	} else {
		for _, a := range q.Aggs {
			ks = append(ks, mk(a.F, a.Fn))
		}
	}
	return ks
}

// canonical text of an answer; both the observed and the reference answer are rendered to it.
func canonRef(a Answer, ks []colKind) string {
	var sb strings.Builder
	for _, s := range a {
		fmt.Fprintf(&sb, "S%v\n", s.Key)
		for _, r := range s.Rows {
			fmt.Fprintf(&sb, "%d", r.T)
			for i, c := range r.C {
				sb.WriteByte(' ')
				switch {
				case c.Null:
					sb.WriteString("null")
				case c.Rat:
					f := float64(c.N) / float64(ks[i].scale) / float64(c.D)
					sb.WriteString("f" + strconv.FormatUint(math.Float64bits(f), 16))
				default:
					sb.WriteString(strconv.FormatInt(c.N, 10))
				}
			}
			sb.WriteByte('\n')
		}
	}
	return sb.String()
}

func tagID(k int, v string) int {
	for i, s := range tagVals[k] {
		if s == v {
			return i
		}
	}
	return -1
}

func canonObs(o []obsSeries, q *Query, ks []colKind) (string, string) {
	var sb strings.Builder
	for _, s := range o {
		key := make([]int, len(q.Group))
		for i, g := range q.Group {
			key[i] = tagID(g, s.tags[tagNames[g]])
		}
		fmt.Fprintf(&sb, "S%v\n", key)
		for _, r := range s.rows {
			if q.Star {
				// SELECT *: pick the field columns by name (fields the data set never carries are absent), drop tag columns
				rr := make([]any, len(fieldNames)+1)
				for ci, cn := range s.cols {
					if ci >= len(r) {
						break
					}
					if cn == "time" {
						rr[0] = r[ci]
					}
					for fi, fnm := range fieldNames {
						if cn == fnm {
							rr[fi+1] = r[ci]
						}
					}
				}
				r = rr
			}
			if len(r) != len(ks)+1 {
				return "", fmt.Sprintf("row width %d", len(r))
			}
			tn, ok := r[0].(json.Number)
			if !ok {
				return "", "time not a number"
			}
			sb.WriteString(tn.String())
			for i, k := range ks {
				sb.WriteByte(' ')
				switch v := r[i+1].(type) {
				case nil:
					sb.WriteString("null")
				case bool:
					if v {
						sb.WriteString("1")
					} else {
						sb.WriteString("0")
					}
				case string:
					id := -1
					for j, t := range strTable {
						if t == v {
							id = j
						}
					}
					sb.WriteString(strconv.Itoa(id))
				case json.Number:
					f, err := v.Float64()
					if err != nil {
						return "", "bad number " + v.String()
					}
					if k.mean {
						sb.WriteString("f" + strconv.FormatUint(math.Float64bits(f), 16))
					} else if iv, err := v.Int64(); err == nil && !k.float {
						sb.WriteString(strconv.FormatInt(iv, 10))
					} else {
						sc := f * float64(k.scale)
						if sc != math.Trunc(sc) || math.Abs(sc) > 1e15 {
							return "", "non-dyadic value " + v.String()
						}
						sb.WriteString(strconv.FormatInt(int64(sc), 10))
					}
				default:
					return "", "unexpected cell type"
				}
			}
			sb.WriteByte('\n')
		}
	}
	return sb.String(), ""
}

// sortTies sorts, inside every series block, the rows that carry the same timestamp (the order of rows with
// equal time across series is not fixed by the language; it must only be the same in every configuration).
func sortTies(c string) string {
	lines := strings.Split(strings.TrimSuffix(c, "\n"), "\n")
	tm := func(l string) string { return strings.SplitN(l, " ", 2)[0] }
	i := 0
	for i < len(lines) {
		if strings.HasPrefix(lines[i], "S") || lines[i] == "" {
			i++
			continue
		}
		j := i
		for j < len(lines) && !strings.HasPrefix(lines[j], "S") && tm(lines[j]) == tm(lines[i]) {
			j++
		}
		sort.Strings(lines[i:j])
		i = j
	}
	return strings.Join(lines, "\n") + "\n"
}

// dropTies removes every row whose timestamp occurs more than once in ref (a canonical text of the full answer).
func dropTies(c, ref string) string {
	cnt := map[string]int{}
	for _, l := range strings.Split(ref, "\n") {
		if l != "" && !strings.HasPrefix(l, "S") {
			cnt[strings.SplitN(l, " ", 2)[0]]++
		}
	}
	var out []string
	for _, l := range strings.Split(c, "\n") {
		if l == "" || strings.HasPrefix(l, "S") || cnt[strings.SplitN(l, " ", 2)[0]] < 2 {
			out = append(out, l)
		}
	}
	return strings.Join(out, "\n")
}

// sliceRows applies offset/limit to the rows of a single-series canonical text.
func sliceRows(c string, off, lim int64) string {
	lines := strings.Split(strings.TrimSuffix(c, "\n"), "\n")
	if len(lines) == 0 || !strings.HasPrefix(lines[0], "S") {
		return ""
	}
	rows := lines[1:]
	if off >= int64(len(rows)) {
		return ""
	}
	rows = rows[off:]
	if lim > 0 && int64(len(rows)) > lim {
		rows = rows[:lim]
	}
	return lines[0] + "\n" + strings.Join(rows, "\n") + "\n"
}

// reverse of a canonical text: series order reversed, rows within series reversed
func canonReverse(c string) string {
	var blocks [][]string
	for _, l := range strings.Split(strings.TrimSuffix(c, "\n"), "\n") {
		if l == "" {
			continue
		}
		if strings.HasPrefix(l, "S") {
			blocks = append(blocks, []string{l})
		} else if len(blocks) > 0 {
			blocks[len(blocks)-1] = append(blocks[len(blocks)-1], l)
		}
	}
	var sb strings.Builder
	for i := len(blocks) - 1; i >= 0; i-- {
		b := blocks[i]
		sb.WriteString(b[0] + "\n")
		for j := len(b) - 1; j >= 1; j-- {
			sb.WriteString(b[j] + "\n")
		}
	}
	return sb.String()
}

type Failure struct {
	Kind   string `json:"kind"` // ref | consistency | desc | error
	Config Config `json:"config"`
	Got    string `json:"got,omitempty"`
	Want   string `json:"want,omitempty"`
	// TieOnly: got and want differ only in the order (or, for limit, the choice) of rows that share a timestamp
	// with a row of another series of the same group
	TieOnly bool `json:"tie_only,omitempty"`
}

type Case struct {
	DS        string    `json:"ds"`
	Query     *Query    `json:"query"`
	SQL       string    `json:"sql"`
	RefAsc    Answer    `json:"ref_asc"`
	RefDesc   Answer    `json:"ref_desc"`
	NConfigs  int       `json:"nconfigs"`
	Failures  []Failure `json:"failures"`
	Variant   string    `json:"variant"` // which model variant all configurations matched: repaired | current | none
	Nontriv   bool      `json:"nontrivial"`
	Features  Features  `json:"features"`
	Source    string    `json:"source"` // gen | corpus file
	ElapsedMs int64     `json:"ms"`
}

// Features feed the known-finding signatures evaluated by the driver.
type Features struct {
	FilledRows   int  `json:"filled_rows"`  // rows of the answer (all groups)
	PrefillRows  int  `json:"prefill_rows"` // rows of the same query with fill(none)
	Groups       int  `json:"groups"`
	EmptyBucket  bool `json:"empty_bucket"`  // some (group, bucket) of the filled range has no data at all
	PartialRow   bool `json:"partial_row"`   // some pre-fill row has both null and non-null columns
	LeadingEmpty bool `json:"leading_empty"` // some group's first bucket of the range is empty
	// SingleRowGroup: some group other than the first has exactly one pre-fill row and buckets after it
	SingleRowGroup bool `json:"single_row_group"`
	// SelectorTie: single min()/max() without time(): in some group the extreme value occurs at two timestamps
	SelectorTie bool `json:"selector_tie"`
	// MultiSeriesGroup: some group of the query is fed by two or more series
	MultiSeriesGroup bool `json:"multi_series_group"`
	// CountNullInRow: some pre-fill row has a null cell in a count() column (and a value in another column)
	CountNullInRow bool `json:"count_null_in_row"`
	// NSeries: series passing the tag tests of the query
	NSeries int `json:"nseries"`
	// NullAggField: aggregate query: some stored row inside the time range, of a series passing the tag tests, has no
	// value for one of the aggregated fields (the store reads such rows and drops them piece by piece)
	NullAggField bool `json:"null_agg_field"`
	// UnknownBoolEqFalse: the predicate tests `f = false` for a boolean field f that no row of the data set has a value
	// for (the field does not exist in the measurement)
	UnknownBoolEqFalse bool `json:"unknown_bool_eq_false"`
	// PointBeforeTmin / PointAfterTmax: some series passing the tag tests holds a stored point before the lower / after the
	// upper time bound of the statement (then the bound of its first chunk is not the time of its first returned row)
	PointBeforeTmin bool   `json:"point_before_tmin"`
	PointAfterTmax  bool   `json:"point_after_tmax"`
	HasTie          bool   `json:"has_tie"` // plain selection: two rows of one group share a timestamp
	Layout          string `json:"layout"`  // inorder | ooo (how the data set was written)
}

func tagOnly(p *Pred) bool {
	if p == nil {
		return true
	}
	switch p.Op {
	case "and", "or":
		return tagOnly(p.A) && tagOnly(p.B)
	case "field":
		return false
	}
	return true
}

// evalTagPart: can the series pass the predicate for some row? (field tests are taken as satisfiable)
func evalTagPart(p *Pred, s *Series) bool {
	if p == nil {
		return true
	}
	switch p.Op {
	case "and":
		return evalTagPart(p.A, s) && evalTagPart(p.B, s)
	case "or":
		return evalTagPart(p.A, s) || evalTagPart(p.B, s)
	case "field":
		return true
	}
	return evalPred(p, s, &Row{V: make([]*int64, len(fieldNames))})
}

func fieldExists(ds *Dataset, f int) bool {
	for i := range ds.Series {
		for j := range ds.Series[i].Rows {
			if ds.Series[i].Rows[j].V[f] != nil {
				return true
			}
		}
	}
	return false
}

func unknownBoolEqFalse(p *Pred, ds *Dataset) bool {
	if p == nil {
		return false
	}
	switch p.Op {
	case "and", "or":
		return unknownBoolEqFalse(p.A, ds) || unknownBoolEqFalse(p.B, ds)
	case "field":
		return fieldKinds[p.K] == KBool && p.C == "eq" && p.V == 0 && !fieldExists(ds, p.K)
	}
	return false
}

func features(ds *Dataset, q *Query) Features {
	var f Features
	qa := *q
	qa.Desc = false
	a := Eval(ds, &qa, "repaired")
	for _, s := range a {
		f.FilledRows += len(s.Rows)
	}
	f.Groups = len(a)
	for i := range ds.Series {
		if tagOnly(q.Pred) && evalPred(q.Pred, &ds.Series[i], &Row{V: make([]*int64, len(fieldNames))}) {
			f.NSeries++
		}
	}
	for i := range ds.Series {
		for j := i + 1; j < len(ds.Series); j++ {
			if cmpKey(keyOf(&ds.Series[i], q.Group), keyOf(&ds.Series[j], q.Group)) == 0 {
				f.MultiSeriesGroup = true
			}
		}
	}
	f.Layout = "ooo"
	if ds.InOrder {
		f.Layout = "inorder"
	}
	f.UnknownBoolEqFalse = unknownBoolEqFalse(q.Pred, ds)
	for i := range ds.Series {
		sr := &ds.Series[i]
		if !evalTagPart(q.Pred, sr) {
			continue
		}
		for ri := range sr.Rows {
			if q.HasTmin && sr.Rows[ri].T < q.Tmin {
				f.PointBeforeTmin = true
			}
			if q.HasTmax && sr.Rows[ri].T > q.Tmax {
				f.PointAfterTmax = true
			}
		}
	}
	if q.Kind == "agg" {
		lo, hi := q.bounds()
		for i := range ds.Series {
			sr := &ds.Series[i]
			if !evalTagPart(q.Pred, sr) {
				continue
			}
			for ri := range sr.Rows {
				r := &sr.Rows[ri]
				if r.T < lo || r.T > hi {
					continue
				}
				for _, a := range q.Aggs {
					if r.V[a.F] == nil {
						f.NullAggField = true
					}
				}
			}
		}
	}
	if q.Kind == "plain" {
		for _, s := range a {
			for i := 1; i < len(s.Rows); i++ {
				if s.Rows[i].T == s.Rows[i-1].T {
					f.HasTie = true
				}
			}
		}
	}
	if q.Kind == "agg" && q.Interval == 0 && len(q.Aggs) == 1 && (q.Aggs[0].Fn == "min" || q.Aggs[0].Fn == "max") {
		// the answer's time is the earliest point carrying the extreme value; is there a later one too?
		lo, hi := q.bounds()
		for _, g := range a {
			ext := g.Rows[0].C[0].N
			for si := range ds.Series {
				sr := &ds.Series[si]
				if cmpKey(keyOf(sr, q.Group), g.Key) != 0 {
					continue
				}
				for ri := range sr.Rows {
					r := &sr.Rows[ri]
					v := r.V[q.Aggs[0].F]
					if v != nil && *v == ext && r.T != g.Rows[0].T && r.T >= lo && r.T <= hi && evalPred(q.Pred, sr, r) {
						f.SelectorTie = true
					}
				}
			}
		}
	}
	if q.Kind == "agg" && q.Interval > 0 {
		qn := qa
		qn.Fill = "none"
		pre := Eval(ds, &qn, "repaired")
		for _, s := range pre {
			f.PrefillRows += len(s.Rows)
			for _, r := range s.Rows {
				nn := 0
				for _, c := range r.C {
					if c.Null {
						nn++
					}
				}
				if nn > 0 && nn < len(r.C) {
					f.PartialRow = true
					for ci, c := range r.C {
						if c.Null && q.Aggs[ci].Fn == "count" {
							f.CountNullInRow = true
						}
					}
				}
			}
		}
		if q.Fill != "none" {
			f.EmptyBucket = f.FilledRows > f.PrefillRows
			first := floorDiv(q.Tmin, q.Interval) * q.Interval
			last := floorDiv(q.Tmax, q.Interval) * q.Interval
			for gi, s := range pre {
				if len(s.Rows) > 0 && s.Rows[0].T != first {
					f.LeadingEmpty = true
				}
				if gi > 0 && len(s.Rows) == 1 && s.Rows[0].T != last {
					f.SingleRowGroup = true
				}
			}
		}
	}
	return f
}

func runCase(ds *Dataset, q *Query, configs []Config, source string) *Case {
	t0 := time.Now()
	// the reference answer is computed for the query without limit/offset; limit/offset is checked as
	// "slice of the server's own full answer" (exact) and the full answer against the reference modulo ties
	full := *q
	full.Limit, full.Offset = 0, 0
	hasLimit := q.Limit > 0 || q.Offset > 0
	qa, qd := full, full
	qa.Desc, qd.Desc = false, true
	la, ld := *q, *q
	la.Desc, ld.Desc = false, true
	c := &Case{DS: ds.Name, Query: q, SQL: renderSQL(&la), Source: source}
	c.RefAsc = Eval(ds, &la, "repaired")
	c.RefDesc = Eval(ds, &ld, "repaired")
	ks := colKinds(q)
	wantAsc, wantDesc := sortTies(canonRef(Eval(ds, &qa, "repaired"), ks)), sortTies(canonRef(Eval(ds, &qd, "repaired"), ks))
	curDesc := sortTies(canonRef(Eval(ds, &qd, "current"), ks))
	c.Features = features(ds, &full)
	c.Nontriv = c.Features.FilledRows >= 2
	var firstAsc, firstDesc *string
	allCur, allRep := true, true
	addErr := func(cf Config, e string) {
		c.Failures = append(c.Failures, Failure{Kind: "error", Config: cf, Got: e})
		allCur, allRep = false, false
	}
	for _, cf := range configs {
		qq, ql := qa, la
		if cf.Desc {
			qq, ql = qd, ld
		}
		obs, e := runQuery(ds.Name, renderSQL(&qq), cf)
		c.NConfigs++
		if e != "" {
			addErr(cf, e)
			continue
		}
		got, e := canonObs(obs, q, ks)
		if e != "" {
			addErr(cf, e)
			continue
		}
		want := wantAsc
		first := &firstAsc
		if cf.Desc {
			want, first = wantDesc, &firstDesc
		}
		gs := sortTies(got)
		if gs != want {
			c.Failures = append(c.Failures, Failure{Kind: "ref", Config: cf, Got: got, Want: want})
			allRep = false
		}
		if (!cf.Desc && gs != want) || (cf.Desc && gs != curDesc) {
			allCur = false
		}
		if hasLimit {
			obsL, e := runQuery(ds.Name, renderSQL(&ql), cf)
			c.NConfigs++
			if e != "" {
				addErr(cf, e)
				continue
			}
			gotL, e := canonObs(obsL, q, ks)
			if e != "" {
				addErr(cf, e)
				continue
			}
			if w := sliceRows(got, q.Offset, q.Limit); gotL != w {
				c.Failures = append(c.Failures, Failure{Kind: "limit", Config: cf, Got: gotL, Want: w,
					TieOnly: dropTies(gotL, got) == dropTies(w, got)})
			}
		}
		if *first == nil {
			g := got
			*first = &g
		} else if **first != got {
			c.Failures = append(c.Failures, Failure{Kind: "consistency", Config: cf, Got: got, Want: **first,
				TieOnly: sortTies(got) == sortTies(**first)})
		}
	}
	if firstAsc != nil && firstDesc != nil {
		if canonReverse(*firstAsc) != *firstDesc {
			c.Failures = append(c.Failures, Failure{Kind: "desc", Config: Config{Desc: true}, Got: *firstDesc, Want: canonReverse(*firstAsc),
				TieOnly: sortTies(*firstDesc) == sortTies(canonReverse(*firstAsc))})
		}
	}
	switch {
	case allRep:
		c.Variant = "repaired"
	case allCur:
		c.Variant = "current"
	default:
		c.Variant = "none"
	}
	c.ElapsedMs = time.Since(t0).Milliseconds()
	return c
}

// createAndLoad writes all data sets in three rounds: batch 1 of every data set, flush; batch 2 of every data
// set, flush (out of order w.r.t. batch 1 for shuffled data sets); batch 3 of every data set, which stays in
// the memtable (the flush command is node-wide, so the rounds must not be interleaved per data set).
func createAndLoad(works []*work) error {
	batches := make([][]string, len(works))
	for i, w := range works {
		code, body, err := post("/query", url.Values{"q": {"CREATE DATABASE " + w.ds.Name}}, nil)
		if err != nil || code != 200 {
			return fmt.Errorf("create database: %d %s %v", code, body, err)
		}
		batches[i] = linesOf(w.r, w.ds)
	}
	for b := 0; b < 3; b++ {
		for i, w := range works {
			lines := batches[i]
			n := len(lines)
			cuts := []int{0, n / 3, 2 * n / 3, n}
			part := lines[cuts[b]:cuts[b+1]]
			if len(part) == 0 {
				continue
			}
			var lastErr error
			for try := 0; try < 50; try++ {
				code, body, err := post("/write", url.Values{"db": {w.ds.Name}}, []byte(strings.Join(part, "\n")))
				if err == nil && code == 204 {
					lastErr = nil
					break
				}
				lastErr = fmt.Errorf("write: %d %s %v", code, body, err)
				time.Sleep(100 * time.Millisecond)
			}
			if lastErr != nil {
				return lastErr
			}
		}
		if b < 2 {
			if err := ctrl("mod=flush"); err != nil {
				return err
			}
		}
	}
	return nil
}

// waitVisible polls until a full scan returns exactly the rows of the data set.
func waitVisible(ds *Dataset) error {
	q := &Query{Kind: "plain", Cols: []int{0, 1, 2, 3, 4}, Group: []int{0, 1}, Pred: &Pred{Op: "true"}}
	ks := colKinds(q)
	want := canonRef(Eval(ds, q, "repaired"), ks)
	var got string
	for i := 0; i < 150; i++ {
		obs, e := runQuery(ds.Name, renderSQL(q), Config{})
		if e == "" {
			got, e = canonObs(obs, q, ks)
			if e == "" && got == want {
				return nil
			}
		}
		time.Sleep(100 * time.Millisecond)
	}
	return fmt.Errorf("data set %s never became fully visible; got\n%s\nwant\n%s", ds.Name, got, want)
}

type inputFile struct {
	Dataset *Dataset `json:"dataset"`
	Queries []*Query `json:"queries"`
	Inner   []int    `json:"inner,omitempty"` // extra inner_chunk_size values to try
}

func configsFor(phase string, parallel int, tier string, extraInner []int, reduced bool) []Config {
	var cs []Config
	if reduced {
		for _, d := range []bool{false, true} {
			for _, in := range []int{0, 1} {
				cs = append(cs, Config{Inner: in, Parallel: parallel, Phase: phase, Desc: d})
			}
		}
		return cs
	}
	inners := []int{0, 1, 2, 3, 7}
	if tier != "quick" {
		inners = []int{0, 1, 2, 3, 4, 5, 7, 16, 64}
	}
	inners = append(inners, extraInner...)
	if phase != "mem" {
		inners = []int{0, 1, 3}
		inners = append(inners, extraInner...)
	}
	for _, d := range []bool{false, true} {
		for _, in := range inners {
			cs = append(cs, Config{Inner: in, Parallel: parallel, Phase: phase, Desc: d})
		}
		if phase == "mem" || tier != "quick" {
			cs = append(cs, Config{Chunked: 1, Parallel: parallel, Phase: phase, Desc: d})
			cs = append(cs, Config{Chunked: 3, Inner: 2, Parallel: parallel, Phase: phase, Desc: d})
		}
	}
	return cs
}

type work struct {
	ds      *Dataset
	queries []*Query
	source  string
	inner   []int
	r       *gen.Rand
}

func main() {
	if len(os.Args) < 5 {
		logf("usage: c08 <ts-server> <conf-template> <nDatasets> <nQueries> [files...]")
		os.Exit(2)
	}
	bin, tmpl := os.Args[1], os.Args[2]
	nds, _ := strconv.Atoi(os.Args[3])
	nq, _ := strconv.Atoi(os.Args[4])
	workDir := os.Getenv("VERIF_WORK")
	if workDir == "" {
		logf("VERIF_WORK not set")
		os.Exit(2)
	}
	tier := gen.Tier()
	r := gen.FromEnv(8)

	var works []*work
	for _, f := range os.Args[5:] {
		b, err := os.ReadFile(f)
		if err != nil {
			logf("read %s: %v", f, err)
			os.Exit(2)
		}
		var in inputFile
		if err := json.Unmarshal(b, &in); err != nil || in.Dataset == nil {
			logf("parse %s: %v", f, err)
			os.Exit(2)
		}
		in.Dataset.Name = fmt.Sprintf("c%d", len(works))
		for _, q := range in.Queries {
			if q.Group == nil {
				q.Group = []int{}
			}
		}
		works = append(works, &work{ds: in.Dataset, queries: in.Queries, source: filepath.Base(f), inner: in.Inner, r: r.Fork()})
	}
	for i := 0; i < nds; i++ {
		rr := r.Fork()
		ds := genDataset(rr, fmt.Sprintf("g%d", i), i%2 == 1)
		// most data sets are written in time order; every third one out of order (see NOTES: known findings)
		ds.InOrder = i%3 != 2
		if os.Getenv("C08_LAYOUT") == "inorder" {
			ds.InOrder = true
		} else if os.Getenv("C08_LAYOUT") == "ooo" {
			ds.InOrder = false
		}
		w := &work{ds: ds, source: "gen", r: rr}
		for j := 0; j < nq; j++ {
			w.queries = append(w.queries, genQuery(rr, ds))
		}
		works = append(works, w)
	}

	cmd, err := startServer(bin, tmpl, workDir, 1)
	if err != nil {
		logf("start server: %v", err)
		os.Exit(3)
	}
	defer func() {
		_ = syscall.Kill(-cmd.Process.Pid, syscall.SIGKILL)
		_, _ = cmd.Process.Wait()
	}()
	fail := func(f string, a ...any) {
		logf(f, a...)
		_ = syscall.Kill(-cmd.Process.Pid, syscall.SIGKILL)
		os.Exit(3)
	}
	t0 := time.Now()
	// keep the file layout stable while the matrix runs: background compaction and out-of-order merge are
	// switched off now and switched on again for the "compacted" phase
	for _, m := range []string{"compen", "merge"} {
		if err := ctrl("mod=" + m + "&allshards=false"); err != nil {
			fail("ctrl %s: %v", m, err)
		}
	}
	if err := createAndLoad(works); err != nil {
		fail("load: %v", err)
	}
	for _, w := range works {
		if err := waitVisible(w.ds); err != nil {
			fail("%v", err)
		}
		gen.Emit(map[string]any{"dataset": w.ds, "source": w.source})
	}
	logf("server up and %d data sets loaded in %v", len(works), time.Since(t0))

	if os.Getenv("C08_HOLD") == "before" {
		logf("holding; remove %s to continue", filepath.Join(workDir, "hold"))
		_ = os.WriteFile(filepath.Join(workDir, "hold"), nil, 0o644)
		for {
			if _, err := os.Stat(filepath.Join(workDir, "hold")); err != nil {
				break
			}
			time.Sleep(200 * time.Millisecond)
		}
	}
	// phase "mem": two flushed batches (out of order) + one batch in the memtable
	results := map[string][]*Case{}
	pt := 0
	runPhase := func(phase string, parallels []int) {
		for pi, p := range parallels {
			if err := ctrl(fmt.Sprintf("mod=chunk_reader_parallel&limit=%d", p)); err != nil {
				fail("ctrl: %v", err)
			}
			for _, w := range works {
				cfgs := configsFor(phase, p, tier, w.inner, (pi > 0 && tier == "quick") || pt > 0)
				for i := range cfgs {
					cfgs[i].Pt = pt
				}
				for qi, q := range w.queries {
					c := runCase(w.ds, q, cfgs, w.source)
					key := fmt.Sprintf("%s/%d", w.ds.Name, qi)
					results[key] = append(results[key], c)
				}
			}
		}
	}
	runPhase("mem", []int{1, 2, 4, 0})
	if err := ctrl("mod=flush"); err != nil {
		fail("flush: %v", err)
	}
	for _, w := range works {
		if err := waitVisible(w.ds); err != nil {
			fail("after flush: %v", err)
		}
	}
	runPhase("flushed", []int{2, 1, 0})
	if tier != "quick" {
		// give level compaction / out-of-order merge a chance, then query again
		for _, m := range []string{"compen", "merge"} {
			if err := ctrl("mod=" + m + "&allshards=true"); err != nil {
				fail("ctrl %s: %v", m, err)
			}
		}
		time.Sleep(20 * time.Second)
		for _, w := range works {
			if err := waitVisible(w.ds); err != nil {
				fail("after compaction wait: %v", err)
			}
		}
		runPhase("compacted", []int{0, 8})
	}
	// column-store stage (condition trees over a column-store measurement), on the first server
	if os.Getenv("C08_NOCS") == "" && len(os.Args) > 3 && nds > 0 {
		n := 60
		if os.Getenv("VERIF_TIER") == "thorough" {
			n = 400
		}
		runColumnStore(gen.FromEnv(8008), n)
	}
	// second server profile: the same node with three partitions (ptnum-pernode = 3): every database is spread over
	// three partitions, queries fan out over them; reduced configuration matrix
	if os.Getenv("C08_NOPT") == "" {
		_ = syscall.Kill(-cmd.Process.Pid, syscall.SIGKILL)
		_, _ = cmd.Process.Wait()
		time.Sleep(300 * time.Millisecond)
		cmd, err = startServer(bin, tmpl, filepath.Join(workDir, "pt3"), 3)
		if err != nil {
			logf("start server (ptnum-pernode=3): %v", err)
			os.Exit(3)
		}
		pt = 3
		for _, m := range []string{"compen", "merge"} {
			if err := ctrl("mod=" + m + "&allshards=false"); err != nil {
				fail("ctrl %s: %v", m, err)
			}
		}
		if err := createAndLoad(works); err != nil {
			fail("load (pt3): %v", err)
		}
		for _, w := range works {
			if err := waitVisible(w.ds); err != nil {
				fail("pt3: %v", err)
			}
		}
		runPhase("mem", []int{1})
		if err := ctrl("mod=flush"); err != nil {
			fail("flush: %v", err)
		}
		for _, w := range works {
			if err := waitVisible(w.ds); err != nil {
				fail("pt3 after flush: %v", err)
			}
		}
		runPhase("flushed", []int{0})
	}
	if os.Getenv("C08_HOLD") == "after" {
		_ = os.WriteFile(filepath.Join(workDir, "hold"), nil, 0o644)
		for {
			if _, err := os.Stat(filepath.Join(workDir, "hold")); err != nil {
				break
			}
			time.Sleep(200 * time.Millisecond)
		}
	}
	// merge per query: one case line, failures of all phases, cross-phase consistency
	for _, w := range works {
		for qi := range w.queries {
			cs := results[fmt.Sprintf("%s/%d", w.ds.Name, qi)]
			m := cs[0]
			for _, c := range cs[1:] {
				m.NConfigs += c.NConfigs
				m.Failures = append(m.Failures, c.Failures...)
				m.ElapsedMs += c.ElapsedMs
				if c.Variant != m.Variant {
					m.Variant = "none"
				}
			}
			for i := range m.Failures {
				if i >= 3 {
					m.Failures[i].Got, m.Failures[i].Want = "", ""
				}
			}
			gen.Emit(map[string]any{"case": m})
		}
	}
	logf("done in %v", time.Since(t0))
}

func sleepMs(ms int) { time.Sleep(time.Duration(ms) * time.Millisecond) }
