// Generators for data sets and queries, and rendering to line protocol / InfluxQL.
package main

import (
	"fmt"
	"os"
	"sort"
	"strconv"
	"strings"

	"verifharness/internal/gen"
)

const sec = int64(1000000000)

func lineTime(l string) int64 {
	i := strings.LastIndexByte(l, ' ')
	t, _ := strconv.ParseInt(l[i+1:], 10, 64)
	return t
}

// splitRows: write some points as two partial writes (different fields) that may land in different files.
// Off by default: filters over a field evaluated on such points are a storage-layer matter (C02).
var splitRows = os.Getenv("C08_SPLIT") != ""

const week = 7 * 24 * 3600 * sec

// base instant: a Thursday 00:00 UTC far from shard-group edges? No: deliberately 2 minutes before a
// 7-day shard-group boundary (groups are epoch aligned), so that clusters straddle two shards.
const baseT = 2900*week - 120*sec

func genDataset(r *gen.Rand, name string, wide bool) *Dataset {
	ds := &Dataset{Name: name, Wide: wide}
	nser := r.Range(3, 7)
	if wide {
		nser = r.Range(6, 12)
	}
	seen := map[string]bool{}
	span := int64(r.Range(20, 90)) // grid of seconds
	twoClusters := r.Chance(1, 3)
	// one data set in four starts at the epoch: the line protocol refuses negative timestamps (nextTimestamp: digits only), so
	// stored points cannot lie before 1970, but the time ranges of the statements over such a data set do (fill ranges start up
	// to 4 s before the first point): windows before the epoch and straddling 0 are computed for the filled rows
	base := int64(baseT)
	if r.Chance(1, 4) || name == "g2" { // stratified: every run has at least one data set at the epoch
		base = int64(r.Range(0, 3)) * sec
	}
	for len(ds.Series) < nser {
		tg := []int{r.Intn(len(tagVals[0])), r.Intn(len(tagVals[1]))}
		if tg[0] == 0 && tg[1] == 0 {
			continue
		}
		k := fmt.Sprint(tg)
		if seen[k] {
			continue
		}
		seen[k] = true
		s := Series{Tags: tg}
		// which fields this series ever carries
		has := make([]bool, len(fieldNames))
		for i := range has {
			has[i] = r.Chance(2, 3)
		}
		has[r.Intn(3)] = true
		nrows := r.Range(4, 26)
		if wide {
			nrows = r.Range(2, 6) // few rows per series: the first rows of the merged stream come from many series
		}
		ts := map[int64]bool{}
		for i := 0; i < nrows; i++ {
			t := base + int64(r.Intn(int(span)))*sec
			if twoClusters && r.Chance(1, 3) {
				t += 2 * week
			}
			if r.Chance(1, 12) {
				t += int64(r.Intn(1000)) * 1000000 // off-grid milliseconds
			}
			ts[t] = true
		}
		var tl []int64
		for t := range ts {
			tl = append(tl, t)
		}
		sort.Slice(tl, func(i, j int) bool { return tl[i] < tl[j] })
		for _, t := range tl {
			row := Row{T: t, V: make([]*int64, len(fieldNames))}
			any := false
			for f := range fieldNames {
				if !has[f] || r.Chance(1, 4) {
					continue
				}
				var v int64
				switch fieldKinds[f] {
				case KFloat:
					v = int64(r.Range(-24, 80)) // k/8
					if r.Chance(1, 3) {
						v = int64(r.Range(0, 6)) * 8 // frequent ties
					}
				case KInt:
					v = int64(r.Range(-5, 20))
					if r.Chance(1, 10) {
						v = int64(r.Range(-1000000, 1000000))
					}
				case KBool:
					v = int64(r.Intn(2))
				case KStr:
					v = int64(r.Intn(len(strTable)))
				}
				vv := v
				row.V[f] = &vv
				any = true
			}
			if any {
				s.Rows = append(s.Rows, row)
			}
		}
		if len(s.Rows) > 0 {
			ds.Series = append(ds.Series, s)
		}
	}
	return ds
}

func renderValue(f int, v int64) string {
	switch fieldKinds[f] {
	case KFloat:
		return strconv.FormatFloat(float64(v)/FloatScale, 'f', -1, 64)
	case KInt:
		return strconv.FormatInt(v, 10) + "i"
	case KBool:
		if v != 0 {
			return "true"
		}
		return "false"
	default:
		return `"` + strTable[v] + `"`
	}
}

func seriesKey(s *Series) string {
	k := "m"
	for i, v := range s.Tags {
		if v != 0 {
			k += "," + tagNames[i] + "=" + tagVals[i][v]
		}
	}
	return k
}

// linesOf renders the data set as line-protocol lines; some rows are split into two partial writes
// (different fields of the same point), all lines shuffled.
func linesOf(r *gen.Rand, ds *Dataset) []string {
	var out []string
	for si := range ds.Series {
		s := &ds.Series[si]
		key := seriesKey(s)
		for _, row := range s.Rows {
			var fs []string
			for f, v := range row.V {
				if v != nil {
					fs = append(fs, fieldNames[f]+"="+renderValue(f, *v))
				}
			}
			if splitRows && len(fs) >= 2 && r.Chance(1, 4) {
				cut := r.Range(1, len(fs)-1)
				out = append(out, fmt.Sprintf("%s %s %d", key, strings.Join(fs[:cut], ","), row.T))
				out = append(out, fmt.Sprintf("%s %s %d", key, strings.Join(fs[cut:], ","), row.T))
			} else {
				out = append(out, fmt.Sprintf("%s %s %d", key, strings.Join(fs, ","), row.T))
			}
		}
	}
	if ds.InOrder {
		// time order: the three write batches cover disjoint, increasing time ranges
		sort.SliceStable(out, func(i, j int) bool { return lineTime(out[i]) < lineTime(out[j]) })
		return out
	}
	for i := len(out) - 1; i > 0; i-- {
		j := r.Intn(i + 1)
		out[i], out[j] = out[j], out[i]
	}
	return out
}

func dsRange(ds *Dataset) (int64, int64) {
	lo, hi := maxT, minT
	for _, s := range ds.Series {
		for _, r := range s.Rows {
			if r.T < lo {
				lo = r.T
			}
			if r.T > hi {
				hi = r.T
			}
		}
	}
	return lo, hi
}

func numericField(f int) bool { return fieldKinds[f] == KFloat || fieldKinds[f] == KInt }

func genTagAtom(r *gen.Rand) *Pred {
	k := r.Intn(len(tagNames))
	op := "tageq"
	if r.Chance(1, 3) {
		op = "tagne"
	}
	return &Pred{Op: op, K: k, V: int64(r.Intn(len(tagVals[k])))}
}

func genFieldAtom(r *gen.Rand, f int) *Pred {
	p := &Pred{Op: "field", K: f}
	switch fieldKinds[f] {
	case KFloat:
		p.V = int64(r.Range(-8, 48))
		p.C = gen.Pick(r, []string{"lt", "le", "gt", "ge", "eq", "ne"})
	case KInt:
		p.V = int64(r.Range(-3, 15))
		p.C = gen.Pick(r, []string{"lt", "le", "gt", "ge", "eq", "ne"})
	case KBool:
		p.V = int64(r.Intn(2))
		p.C = "eq"
	default:
		p.V = int64(r.Intn(len(strTable)))
		p.C = "eq"
	}
	return p
}

// genPred: (tag part) AND (field part). Tag atoms are combined with AND/OR among themselves, field atoms
// likewise; the two parts are only ever conjoined (a disjunction of a tag test and a field test makes the
// existence of a row depend on which columns the engine materialises - outside the documented core).
func genPred(r *gen.Rand, fields []int) *Pred {
	join := func(atoms []*Pred) *Pred {
		if len(atoms) == 0 {
			return nil
		}
		p := atoms[0]
		for _, a := range atoms[1:] {
			op := "and"
			if r.Chance(1, 2) {
				op = "or"
			}
			p = &Pred{Op: op, A: p, B: a}
		}
		return p
	}
	var tags, flds []*Pred
	if r.Chance(1, 2) {
		tags = append(tags, genTagAtom(r))
		if r.Chance(1, 3) {
			tags = append(tags, genTagAtom(r))
		}
	}
	if len(fields) > 0 && r.Chance(1, 2) {
		flds = append(flds, genFieldAtom(r, gen.Pick(r, fields)))
		if r.Chance(1, 4) {
			flds = append(flds, genFieldAtom(r, gen.Pick(r, fields)))
		}
	}
	tp, fp := join(tags), join(flds)
	switch {
	case tp == nil && fp == nil:
		return &Pred{Op: "true"}
	case tp == nil:
		return fp
	case fp == nil:
		return tp
	}
	return &Pred{Op: "and", A: tp, B: fp}
}

func genGroup(r *gen.Rand) []int {
	switch r.Intn(6) {
	case 0, 1, 2:
		return []int{}
	case 3:
		return []int{0}
	case 4:
		return []int{1}
	default:
		return []int{0, 1}
	}
}

// genStarLimit: SELECT * [WHERE time/tag tests] LIMIT n OFFSET m over all series (the store prunes series for such
// queries, see engine/iterators.go itrsInitWithLimit).
func genStarLimit(r *gen.Rand, ds *Dataset) *Query {
	lo, hi := dsRange(ds)
	q := &Query{Kind: "plain", Star: true, Cols: []int{0, 1, 2, 3, 4}, Group: []int{}, Fill: "none", Pred: &Pred{Op: "true"}}
	if r.Chance(1, 3) {
		q.HasTmin, q.Tmin = true, lo+int64(r.Intn(int((hi-lo)/sec)+1))*sec
	}
	if r.Chance(1, 4) {
		q.Pred = genTagAtom(r)
	}
	q.Limit = int64(r.Range(1, 3))
	q.Offset = int64(r.Range(0, 5))
	return q
}

// tagKeyExists: does any series of the data set carry tag key k?
func tagKeyExists(ds *Dataset, k int) bool {
	for i := range ds.Series {
		if k < len(ds.Series[i].Tags) && ds.Series[i].Tags[k] != 0 {
			return true
		}
	}
	return false
}

// existingTagKeys: a tag test names a tag key of the measurement. An identifier that no series carries as a tag is not a
// tag of the measurement at all: the engine (like InfluxDB) then reads it as a field reference without a value and every
// comparison is false, whereas the reference semantics would read "absent tag = empty string". The documentation fixes
// neither; such atoms are moved to an existing key, or dropped when the data set has no tag at all.
func existingTagKeys(p *Pred, ds *Dataset) *Pred {
	if p == nil {
		return p
	}
	switch p.Op {
	case "and", "or":
		p.A, p.B = existingTagKeys(p.A, ds), existingTagKeys(p.B, ds)
		at, bt := p.A.Op == "true", p.B.Op == "true"
		switch {
		case p.Op == "and" && at:
			return p.B
		case p.Op == "and" && bt:
			return p.A
		case p.Op == "or" && (at || bt):
			return &Pred{Op: "true"}
		}
	case "tageq", "tagne":
		if !tagKeyExists(ds, p.K) {
			for k := range tagNames {
				if tagKeyExists(ds, k) {
					v := p.V
					if int(v) >= len(tagVals[k]) {
						v = 0
					}
					return &Pred{Op: p.Op, K: k, V: v}
				}
			}
			return &Pred{Op: "true"}
		}
	}
	return p
}

// genQuery draws a query of the supported core. Desc is left false: every query is run in both orders.
func genQuery(r *gen.Rand, ds *Dataset) *Query {
	q := genQuery0(r, ds)
	q.Pred = existingTagKeys(q.Pred, ds)
	return q
}

func genQuery0(r *gen.Rand, ds *Dataset) *Query {
	lo, hi := dsRange(ds)
	if (ds.Wide && r.Chance(1, 2)) || r.Chance(1, 12) {
		return genStarLimit(r, ds)
	}
	q := &Query{Group: []int{}, Fill: "none"}
	pickBound := func() int64 {
		t := lo + int64(r.Intn(int((hi-lo)/sec)+1))*sec
		if r.Chance(1, 8) {
			t += int64(r.Intn(3)-1) * 500 * 1000000
		}
		return t
	}
	if r.Chance(3, 5) {
		q.HasTmin, q.Tmin = true, pickBound()
	}
	if r.Chance(3, 5) {
		q.HasTmax, q.Tmax = true, pickBound()
		if q.HasTmin && q.Tmax < q.Tmin {
			q.Tmin, q.Tmax = q.Tmax, q.Tmin
		}
	}
	if r.Chance(2, 5) {
		q.Kind = "plain"
		n := r.Range(1, 3)
		set := map[int]bool{}
		for len(set) < n {
			set[r.Intn(len(fieldNames))] = true
		}
		for f := range fieldNames {
			if set[f] {
				q.Cols = append(q.Cols, f)
			}
		}
		q.Pred = genPred(r, q.Cols) // field atoms only over selected columns (see NOTES: projection of filter-only fields)
		q.Group = genGroup(r)
		if len(q.Group) == 0 && r.Chance(1, 2) {
			q.Limit = int64(r.Range(1, 15))
			if r.Chance(1, 2) {
				q.Offset = int64(r.Range(0, 12))
			}
		}
		return q
	}
	q.Kind = "agg"
	n := 1
	if r.Chance(2, 5) {
		n = r.Range(2, 3)
	}
	seen := map[string]bool{}
	for len(q.Aggs) < n {
		fn := gen.Pick(r, []string{"count", "sum", "mean", "min", "max", "first", "last"})
		f := r.Intn(len(fieldNames))
		if fn != "count" && !numericField(f) {
			continue
		}
		k := fn + fmt.Sprint(f)
		if seen[k] {
			continue
		}
		seen[k] = true
		q.Aggs = append(q.Aggs, Agg{Fn: fn, F: f})
	}
	// field tests only on the aggregated field, and only when every column aggregates that same field
	var pf []int
	same := true
	for _, a := range q.Aggs {
		if a.F != q.Aggs[0].F {
			same = false
		}
	}
	if same {
		pf = []int{q.Aggs[0].F}
	}
	q.Pred = genPred(r, pf)
	q.Group = genGroup(r)
	if r.Chance(3, 5) {
		q.Interval = gen.Pick(r, []int64{1, 2, 3, 5, 10, 30, 60, 7 * 24 * 3600}) * sec
		switch r.Intn(10) {
		case 0, 1, 2:
			q.Fill = "none"
		case 3, 4, 5, 6:
			q.Fill = "null"
		case 7, 8:
			q.Fill, q.FillN = "num", int64(r.Range(-3, 100))
		default:
			q.Fill = "prev"
		}
		if q.Fill != "none" {
			// bounded range, at most ~70 buckets
			q.HasTmin, q.HasTmax = true, true
			maxSpan := 70 * q.Interval
			start := lo + int64(r.Intn(int((hi-lo)/sec)+1))*sec - int64(r.Intn(5))*sec
			if r.Chance(1, 2) {
				start = lo - int64(r.Intn(4))*sec
			}
			if lo < 10*sec && r.Chance(2, 3) {
				start = -int64(r.Range(1, 200)) * sec / 2 // data set at the epoch: the range begins before 1970
			}
			end := start + int64(r.Range(1, 100))*sec
			if r.Chance(1, 3) {
				end = hi + int64(r.Intn(4))*sec
			}
			if end < start {
				end = start
			}
			if end-start > maxSpan {
				end = start + maxSpan
			}
			q.Tmin, q.Tmax = start, end
		}
	}
	return q
}

// ---- InfluxQL rendering ----

func renderConst(f int, v int64) string {
	switch fieldKinds[f] {
	case KFloat:
		return strconv.FormatFloat(float64(v)/FloatScale, 'f', -1, 64)
	case KInt:
		return strconv.FormatInt(v, 10)
	case KBool:
		if v != 0 {
			return "true"
		}
		return "false"
	default:
		return "'" + strTable[v] + "'"
	}
}

var cmpSym = map[string]string{"lt": "<", "le": "<=", "gt": ">", "ge": ">=", "eq": "=", "ne": "!="}

func renderPred(p *Pred) string {
	switch p.Op {
	case "and":
		return "(" + renderPred(p.A) + " AND " + renderPred(p.B) + ")"
	case "or":
		return "(" + renderPred(p.A) + " OR " + renderPred(p.B) + ")"
	case "tageq":
		return fmt.Sprintf("%s = '%s'", tagNames[p.K], tagVals[p.K][p.V])
	case "tagne":
		return fmt.Sprintf("%s != '%s'", tagNames[p.K], tagVals[p.K][p.V])
	case "field":
		return fmt.Sprintf("%s %s %s", fieldNames[p.K], cmpSym[p.C], renderConst(p.K, p.V))
	}
	return ""
}

func renderSQL(q *Query) string {
	var sel []string
	if q.Star {
		sel = []string{"*"}
	} else if q.Kind == "plain" {
		for _, f := range q.Cols {
			sel = append(sel, fieldNames[f])
		}
	} else {
		for _, a := range q.Aggs {
			sel = append(sel, fmt.Sprintf("%s(%s)", a.Fn, fieldNames[a.F]))
		}
	}
	s := "SELECT " + strings.Join(sel, ", ") + " FROM m"
	var conds []string
	if q.HasTmin {
		conds = append(conds, fmt.Sprintf("time >= %d", q.Tmin))
	}
	if q.HasTmax {
		conds = append(conds, fmt.Sprintf("time <= %d", q.Tmax))
	}
	if q.Pred != nil && q.Pred.Op != "true" {
		conds = append(conds, renderPred(q.Pred))
	}
	if len(conds) > 0 {
		s += " WHERE " + strings.Join(conds, " AND ")
	}
	var gb []string
	if q.Interval > 0 {
		gb = append(gb, fmt.Sprintf("time(%dns)", q.Interval))
		if q.Interval%sec == 0 {
			gb[0] = fmt.Sprintf("time(%ds)", q.Interval/sec)
		}
	}
	for _, g := range q.Group {
		gb = append(gb, tagNames[g])
	}
	if len(gb) > 0 {
		s += " GROUP BY " + strings.Join(gb, ", ")
	}
	if q.Interval > 0 {
		switch q.Fill {
		case "none":
			s += " fill(none)"
		case "null":
			s += " fill(null)"
		case "num":
			s += fmt.Sprintf(" fill(%d)", q.FillN)
		case "prev":
			s += " fill(previous)"
		}
	}
	if q.Desc {
		s += " ORDER BY time DESC"
	}
	if q.Limit > 0 {
		s += fmt.Sprintf(" LIMIT %d", q.Limit)
	}
	if q.Offset > 0 {
		s += fmt.Sprintf(" OFFSET %d", q.Offset)
	}
	return s
}
