// C08 black box, column-store stage: condition trees over a column-store measurement.
// The row filter of the column store (lib/binaryfilterfunc ConditionImpl) evaluates the condition in reverse Polish
// notation; the answer must be the one the language defines for the condition TREE, whatever the nesting. A measurement
// t1 (k0, a int64; b bool; id int64, PRIMARYKEY k0) is filled with generated rows and flushed; every generated condition
// - binary AND/OR trees of 3..6 comparisons in every shape, in particular with compound RIGHT operands nested to depth >= 2 -
// is run as `select id from t1 where <condition>` and the set of ids must equal the reference evaluation of the tree.
package main

import (
	"encoding/json"
	"fmt"
	"net/url"
	"sort"
	"strings"

	"verifharness/internal/gen"
)

type csRow struct {
	K0, A int64
	B     bool
	ID    int64
}

// CTree: condition tree; leaf = comparison of column Col (k0 | a | b) with constant V
type CTree struct {
	Op   string `json:"op"` // and | or | cmp
	L    *CTree `json:"l,omitempty"`
	R    *CTree `json:"r,omitempty"`
	Col  string `json:"col,omitempty"`
	Cmp  string `json:"cmp,omitempty"` // eq ne lt le gt ge
	V    int64  `json:"v,omitempty"`
	Leaf int    `json:"leaf,omitempty"` // number of the leaf (left to right), for the symbolic evaluation
}

func (t *CTree) sql() string {
	if t.Op == "cmp" {
		if t.Col == "b" {
			return fmt.Sprintf("b %s %v", cmpSym[t.Cmp], t.V != 0)
		}
		return fmt.Sprintf("%s %s %d", t.Col, cmpSym[t.Cmp], t.V)
	}
	return "(" + t.L.sql() + " " + strings.ToUpper(t.Op) + " " + t.R.sql() + ")"
}

func (t *CTree) eval(r *csRow) bool {
	switch t.Op {
	case "and":
		return t.L.eval(r) && t.R.eval(r)
	case "or":
		return t.L.eval(r) || t.R.eval(r)
	}
	var x int64
	switch t.Col {
	case "k0":
		x = r.K0
	case "a":
		x = r.A
	default:
		if r.B {
			x = 1
		}
	}
	switch t.Cmp {
	case "eq":
		return x == t.V
	case "ne":
		return x != t.V
	case "lt":
		return x < t.V
	case "le":
		return x <= t.V
	case "gt":
		return x > t.V
	}
	return x >= t.V
}

// shape: the tree with leaf numbers only
func (t *CTree) shape() string {
	if t.Op == "cmp" {
		return fmt.Sprintf("%d", t.Leaf)
	}
	return "(" + t.L.shape() + " " + t.Op + " " + t.R.shape() + ")"
}

// rpn: the tree in reverse Polish notation (leaves and operators)
func (t *CTree) rpn(out []*CTree) []*CTree {
	if t.Op == "cmp" {
		return append(out, t)
	}
	out = t.L.rpn(out)
	out = t.R.rpn(out)
	return append(out, t)
}

// twoStackShape: the tree the two-stack evaluation discipline computes: comparisons wait on one stack, results of evaluated
// sub-expressions live on another; an operator takes the two most recent PENDING comparisons whenever there are two,
// one pending comparison and the top result when there is one, and the two top results otherwise. It is the shape of the
// condition iff the operands of every operator are its two most recent items - not when a result was made after the
// pending comparisons were pushed. "" = the discipline gets stuck (stack underflow).
func twoStackTree(t *CTree) *CTree {
	var pending, results []*CTree
	for _, e := range t.rpn(nil) {
		if e.Op == "cmp" {
			pending = append(pending, e)
			continue
		}
		switch {
		case len(pending) >= 2:
			a, b := pending[len(pending)-2], pending[len(pending)-1]
			pending = pending[:len(pending)-2]
			results = append(results, &CTree{Op: e.Op, L: a, R: b})
		case len(pending) == 1:
			if len(results) < 1 {
				return nil
			}
			b := pending[0]
			pending = pending[:0]
			results[len(results)-1] = &CTree{Op: e.Op, L: results[len(results)-1], R: b}
		default:
			if len(results) < 2 {
				return nil
			}
			a, b := results[len(results)-2], results[len(results)-1]
			results = results[:len(results)-2]
			results = append(results, &CTree{Op: e.Op, L: a, R: b})
		}
	}
	if len(results) != 1 || len(pending) != 0 {
		return nil
	}
	return results[0]
}

// commutative-insensitive normal form of a shape is not attempted: the signature is the plain structural difference

func genLeaf(r *gen.Rand, n *int) *CTree {
	t := &CTree{Op: "cmp", Leaf: *n}
	*n++
	switch r.Intn(5) {
	case 0:
		t.Col, t.Cmp, t.V = "k0", gen.Pick(r, []string{"eq", "lt", "ge", "ne"}), int64(r.Range(0, 5))
	case 1:
		t.Col, t.Cmp, t.V = "b", "eq", int64(r.Intn(2))
	default:
		t.Col, t.Cmp, t.V = "a", gen.Pick(r, []string{"eq", "eq", "ne", "lt", "le", "gt", "ge"}), gen.Pick(r, []int64{-3, -1, 0, 1, 2, 5})
	}
	return t
}

// genTree: a random binary tree with `leaves` comparisons; rightBias > 0 forces compound RIGHT operands
func genTree(r *gen.Rand, leaves int, rightBias bool, n *int) *CTree {
	if leaves == 1 {
		return genLeaf(r, n)
	}
	nl := r.Range(1, leaves-1)
	if rightBias {
		nl = 1
	}
	t := &CTree{Op: gen.Pick(r, []string{"and", "or"})}
	t.L = genTree(r, nl, false, n)
	t.R = genTree(r, leaves-nl, rightBias, n)
	return t
}

type CSCase struct {
	SQL      string `json:"sql"`
	Tree     *CTree `json:"tree"`
	Shape    string `json:"shape"`
	TwoStack string `json:"two_stack_shape"`
	Differs  bool   `json:"two_stack_differs"` // the two-stack discipline computes another tree (or gets stuck)
	Got      int    `json:"got"`
	Want     int    `json:"want"`
	Err      string `json:"err,omitempty"`
	Fail     bool   `json:"fail"`
	// IsTwoStack: the failing answer is exactly the evaluation of the two-stack shape over the rows
	IsTwoStack bool    `json:"is_two_stack_answer"`
	Missing    []int64 `json:"missing,omitempty"`
	Extra      []int64 `json:"extra,omitempty"`
}

func csQuery(db, sql string) ([]int64, string) {
	code, body, err := post("/query", url.Values{"db": {db}, "q": {sql}, "epoch": {"ns"}}, nil)
	if err != nil {
		return nil, "transport: " + err.Error()
	}
	var resp struct {
		Results []struct {
			Series []struct {
				Columns []string        `json:"columns"`
				Values  [][]interface{} `json:"values"`
			} `json:"series"`
			Error string `json:"error"`
		} `json:"results"`
		Error string `json:"error"`
	}
	dec := json.NewDecoder(strings.NewReader(string(body)))
	dec.UseNumber()
	if e := dec.Decode(&resp); e != nil {
		return nil, fmt.Sprintf("http %d: unparsable body", code)
	}
	if resp.Error != "" {
		return nil, resp.Error
	}
	var ids []int64
	for _, rs := range resp.Results {
		if rs.Error != "" {
			return nil, rs.Error
		}
		for _, s := range rs.Series {
			ci := -1
			for i, c := range s.Columns {
				if c == "id" {
					ci = i
				}
			}
			if ci < 0 {
				return nil, "no id column"
			}
			for _, v := range s.Values {
				n, ok := v[ci].(json.Number)
				if !ok {
					return nil, "id is not a number"
				}
				x, e := n.Int64()
				if e != nil {
					return nil, "id is not an integer"
				}
				ids = append(ids, x)
			}
		}
	}
	sort.Slice(ids, func(i, j int) bool { return ids[i] < ids[j] })
	return ids, ""
}

// runColumnStore creates, fills and flushes the measurement and emits one "cscase" line per condition. An error before
// the first case is reported as a "cserror" line (the driver treats a missing stage as broken).
func runColumnStore(r *gen.Rand, ncond int) {
	const db = "c08cs"
	emitErr := func(f string, a ...any) { gen.Emit(map[string]any{"cserror": fmt.Sprintf(f, a...)}) }
	if code, body, err := post("/query", url.Values{"q": {"CREATE DATABASE " + db}}, nil); err != nil || code != 200 {
		emitErr("create database: %d %s %v", code, body, err)
		return
	}
	ddl := "CREATE MEASUREMENT t1 (k0 int64 field, a int64 field, b bool field, id int64 field) WITH ENGINETYPE = columnstore PRIMARYKEY k0 SORTKEY k0"
	if code, body, err := post("/query", url.Values{"db": {db}, "q": {ddl}}, nil); err != nil || code != 200 || strings.Contains(string(body), `"error"`) {
		emitErr("create measurement: %d %s %v", code, body, err)
		return
	}
	nrows := 600
	rows := make([]csRow, nrows)
	var sb strings.Builder
	for i := range rows {
		rows[i] = csRow{K0: int64(r.Range(0, 5)), A: gen.Pick(r, []int64{-3, -1, 0, 1, 2, 5}), B: r.Chance(1, 2), ID: int64(i)}
		fmt.Fprintf(&sb, "t1 k0=%di,a=%di,b=%v,id=%di %d\n", rows[i].K0, rows[i].A, rows[i].B, rows[i].ID, 1_000_000+i)
	}
	if code, body, err := post("/write", url.Values{"db": {db}}, []byte(sb.String())); err != nil || code != 204 {
		emitErr("write: %d %s %v", code, body, err)
		return
	}
	if err := ctrl("mod=flush"); err != nil {
		emitErr("flush: %v", err)
		return
	}
	// visible?
	ok := false
	for i := 0; i < 100 && !ok; i++ {
		ids, e := csQuery(db, "select id from t1")
		ok = e == "" && len(ids) == nrows
		if !ok {
			sleepMs(100)
		}
	}
	if !ok {
		emitErr("the %d rows of t1 never became visible", nrows)
		return
	}
	for i := 0; i < ncond; i++ {
		n := 0
		t := genTree(r, r.Range(3, 6), i%2 == 0, &n)
		c := &CSCase{SQL: "select id from t1 where " + t.sql(), Tree: t, Shape: t.shape()}
		ts := twoStackTree(t)
		if ts != nil {
			c.TwoStack = ts.shape()
		}
		c.Differs = c.TwoStack != c.Shape
		want := map[int64]bool{}
		for k := range rows {
			if t.eval(&rows[k]) {
				want[rows[k].ID] = true
			}
		}
		c.Want = len(want)
		ids, e := csQuery(db, c.SQL)
		if e != "" {
			c.Err, c.Fail = e, true
		} else {
			c.Got = len(ids)
			got := map[int64]bool{}
			for _, id := range ids {
				got[id] = true
				if !want[id] && len(c.Extra) < 5 {
					c.Extra = append(c.Extra, id)
				}
			}
			for id := range want {
				if !got[id] && len(c.Missing) < 5 {
					c.Missing = append(c.Missing, id)
				}
			}
			c.Fail = len(ids) != len(got) || len(c.Extra) > 0 || len(c.Missing) > 0 || len(got) != len(want)
			if c.Fail && ts != nil {
				// is the observed answer exactly what the two-stack discipline computes?
				same := true
				n := 0
				for k := range rows {
					if ts.eval(&rows[k]) {
						n++
						same = same && got[rows[k].ID]
					}
				}
				c.IsTwoStack = same && n == len(got)
			}
		}
		gen.Emit(map[string]any{"cscase": c})
	}
}
