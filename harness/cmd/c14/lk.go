// C14, LogKeeper flavour ("lk" mode): the REAL two-phase decision code - metaclient.Client.GetExpiredShards /
// GetExpiredIndexes over a catalogue held by the real meta.Data, and retention.Service.HandleSharedStorage - under the
// controlled clock. Removal of the object-store paths (fileops.DeleteObsPath) is patched out and recorded.
package main

import (
	"fmt"
	"sort"
	"time"

	"github.com/agiledragon/gomonkey/v2"
	"github.com/openGemini/openGemini/lib/config"
	"github.com/openGemini/openGemini/lib/fileops"
	"github.com/openGemini/openGemini/lib/metaclient"
	"github.com/openGemini/openGemini/lib/obs"
	"github.com/openGemini/openGemini/lib/util/lifted/influx/meta"
	"github.com/openGemini/openGemini/services/retention"
	"go.uber.org/zap"
	"verifharness/internal/gen"
)

type LEvent struct {
	Kind   string  `json:"kind"` // add alter tick recall
	TS     int64   `json:"ts,omitempty"`
	GID    int64   `json:"gid,omitempty"`
	End    int64   `json:"end,omitempty"`
	Shards []int64 `json:"shards,omitempty"`
	D      int64   `json:"d"`
	Now    int64   `json:"now,omitempty"`
}
type LGroup struct {
	ID     int64      `json:"id"`
	End    int64      `json:"end"`
	Mark   int64      `json:"mark"` // DeletedAt, -1 = not marked
	Shards [][2]int64 `json:"shards"`
}
type LObs struct {
	Groups []LGroup `json:"groups"`
	Del    []int64  `json:"del"` // shards the pass removed and pruned
}
type LTrace struct {
	Mode    string   `json:"mode"`
	D0      int64    `json:"d0"`
	Events  []LEvent `json:"events"`
	Obs     []LObs   `json:"obs"`
	Oracle  []string `json:"oracle"`
	Nontriv bool     `json:"nontrivial"`
	Paths   int      `json:"paths"` // object-store paths the service asked to remove
}

type lkmeta struct {
	data   *meta.Data
	client *metaclient.Client
	pruned []uint64
}

func (m *lkmeta) PruneGroupsCommand(sg bool, id uint64) error {
	if sg {
		m.pruned = append(m.pruned, id)
	}
	return m.data.PruneGroups(sg, id)
}
func (m *lkmeta) GetShardDurationInfo(index uint64) (*meta.ShardDurationResponse, error) {
	return &meta.ShardDurationResponse{}, nil
}
func (m *lkmeta) GetIndexDurationInfo(index uint64) (*meta.IndexDurationResponse, error) {
	return &meta.IndexDurationResponse{}, nil
}
func (m *lkmeta) DeleteShardGroup(database, policy string, id uint64, deleteType int32) error {
	return m.data.DeleteShardGroup(database, policy, id, 0, deleteType)
}
func (m *lkmeta) DeleteIndexGroup(database, policy string, id uint64) error {
	return m.data.DeleteIndexGroup(database, policy, id)
}
func (m *lkmeta) DelayDeleteShardGroup(database, policy string, id uint64, deletedAt time.Time, deleteType int32) error {
	return m.data.DeleteShardGroup(database, policy, id, deletedAt.UnixNano(), deleteType)
}
func (m *lkmeta) GetExpiredShards() ([]meta.ExpiredShardInfos, []meta.ExpiredShardInfos) {
	return m.client.GetExpiredShards()
}
func (m *lkmeta) GetExpiredIndexes() []meta.ExpiredIndexInfos { return m.client.GetExpiredIndexes() }

var lkPaths int

func genLTrace(r *gen.Rand) LTrace {
	hour := int64(time.Hour)
	day := 24 * hour
	base := int64(1700000000)*1e9 - (int64(1700000000)*1e9)%day
	durs := []int64{0, hour, 2 * hour, day, 7 * day}
	tr := LTrace{Mode: "lk", D0: gen.Pick(r, durs), Oracle: []string{}}
	ptn := r.Range(1, 2)
	data := &meta.Data{Databases: map[string]*meta.DatabaseInfo{}, ClusterPtNum: uint32(ptn), PtNumPerNode: uint32(ptn), PtView: map[string]meta.DBPtInfos{}}
	dbi := &meta.DatabaseInfo{Name: db, RetentionPolicies: map[string]*meta.RetentionPolicyInfo{}, Options: &obs.ObsOptions{}}
	rpi := &meta.RetentionPolicyInfo{Name: "rp1", ReplicaN: 1, Duration: time.Duration(tr.D0), ShardGroupDuration: time.Hour, IndexGroupDuration: time.Hour,
		Measurements: map[string]*meta.MeasurementInfo{}, MstVersions: map[string]meta.MeasurementVer{}}
	mi := meta.NewMeasurementInfo("m_0000", "m", config.TSSTORE, 1)
	mi.ShardKeys = []meta.ShardKeyInfo{{Type: "hash"}}
	rpi.Measurements["m_0000"] = mi
	dbi.RetentionPolicies["rp1"] = rpi
	data.Databases[db] = dbi
	for i := 0; i < ptn; i++ {
		data.PtView[db] = append(data.PtView[db], meta.PtInfo{PtId: uint32(i), Status: meta.Online})
	}
	mc := &lkmeta{data: data, client: metaclient.NewClient("", false, 0)}
	mc.client.SetCacheData(data)
	svc := retention.NewService(time.Hour)
	svc.MetaClient = mc
	want := tr.D0
	type minfo struct{ t, d int64 }
	marks := map[uint64]minfo{}
	ends := map[uint64]int64{}
	shardGroup := map[uint64]uint64{}
	obs := func() LObs {
		o := LObs{Groups: []LGroup{}, Del: []int64{}}
		for _, sg := range rpi.ShardGroups {
			g := LGroup{ID: int64(sg.ID), End: sg.EndTime.UnixNano(), Mark: -1, Shards: [][2]int64{}}
			if sg.Deleted() {
				g.Mark = sg.DeletedAt.UnixNano()
			}
			for _, sh := range sg.Shards {
				g.Shards = append(g.Shards, [2]int64{int64(sh.ID), b2i(sh.MarkDelete)})
			}
			o.Groups = append(o.Groups, g)
		}
		sort.Slice(o.Groups, func(i, j int) bool { return o.Groups[i].ID < o.Groups[j].ID })
		for _, id := range mc.pruned {
			o.Del = append(o.Del, int64(id))
		}
		sort.Slice(o.Del, func(i, j int) bool { return o.Del[i] < o.Del[j] })
		return o
	}
	used := map[int]bool{}
	n := r.Range(5, 16)
	for i := 0; i < n; i++ {
		var ev LEvent
		mc.pruned = nil
		k := r.Intn(10)
		switch {
		case k < 3 || len(rpi.ShardGroups) == 0 && len(used) == 0:
			slot := r.Range(-30, 30)
			if used[slot] { // groups never overlap in these traces (a recall over a span that got a new live group is refused: not modelled)
				continue
			}
			used[slot] = true
			ts := base + int64(slot)*hour + int64(r.Intn(3000))*1e9
			before := map[uint64]bool{}
			for _, sg := range rpi.ShardGroups {
				before[sg.ID] = true
			}
			_ = data.CreateShardGroup(db, "rp1", time.Unix(0, ts).UTC(), 0, config.TSSTORE, 0)
			ev = LEvent{Kind: "add", TS: ts}
			for _, sg := range rpi.ShardGroups {
				if !before[sg.ID] {
					ev.GID, ev.End = int64(sg.ID), sg.EndTime.UnixNano()
					ends[sg.ID] = ev.End
					for _, sh := range sg.Shards {
						ev.Shards = append(ev.Shards, int64(sh.ID))
						shardGroup[sh.ID] = sg.ID
					}
				}
			}
			if ev.GID == 0 {
				continue
			}
		case k < 5:
			d := gen.Pick(r, durs)
			dd := time.Duration(d)
			if err := data.UpdateRetentionPolicy(db, "rp1", &meta.RetentionPolicyUpdate{Duration: &dd}, false); err != nil {
				continue
			}
			want = d
			ev = LEvent{Kind: "alter", D: d}
		case k < 6:
			// RevertRetentionPolicyDelete: cancel the mark of every marked group
			for i := range rpi.ShardGroups {
				if rpi.ShardGroups[i].Deleted() {
					_ = data.DeleteShardGroup(db, "rp1", rpi.ShardGroups[i].ID, 0, meta.CancelDelete)
				}
			}
			marks = map[uint64]minfo{}
			ev = LEvent{Kind: "recall"}
		default:
			if len(rpi.ShardGroups) == 0 {
				continue
			}
			sg := rpi.ShardGroups[r.Intn(len(rpi.ShardGroups))]
			var now int64
			if sg.Deleted() && r.Chance(2, 3) {
				now = sg.DeletedAt.UnixNano() + day + []int64{-hour, -1, 0, 1, hour}[r.Intn(5)]
			} else {
				d := want
				if d == 0 || r.Chance(1, 6) {
					d = gen.Pick(r, durs)
				}
				now = sg.EndTime.UnixNano() + d + []int64{-hour, -1, 0, 1, 2, hour, 30 * day}[r.Intn(7)]
			}
			ev = LEvent{Kind: "tick", Now: now}
			fakeNow = time.Unix(0, now).UTC()
			markedBefore := map[uint64]bool{}
			for _, g := range rpi.ShardGroups {
				markedBefore[g.ID] = g.Deleted()
			}
			svc.HandleSharedStorage(zap.NewNop())
			// direct oracle
			for _, g := range rpi.ShardGroups {
				if g.Deleted() && !markedBefore[g.ID] {
					marks[g.ID] = minfo{now, want}
					if !(want != 0 && g.EndTime.UnixNano()+want < now) {
						tr.Oracle = append(tr.Oracle, fmt.Sprintf("group %d (end %d) marked deleted at %d although not expired under d=%d", g.ID, g.EndTime.UnixNano(), now, want))
					}
				}
			}
			for _, sid := range mc.pruned {
				gid := shardGroup[sid]
				mi, ok := marks[gid]
				if !ok || mi.t+day > now || !(mi.d != 0 && ends[gid]+mi.d < mi.t) {
					tr.Oracle = append(tr.Oracle, fmt.Sprintf("shard %d of group %d removed at %d without a mark that is 24h old and was justified when set (mark %+v)", sid, gid, now, mi))
				}
				tr.Nontriv = true
			}
		}
		ev.D = want
		tr.Events = append(tr.Events, ev)
		tr.Obs = append(tr.Obs, obs())
	}
	return tr
}

func runLK(n int) {
	p := gomonkey.ApplyFunc(fileops.DeleteObsPath, func(path string, o *obs.ObsOptions) error {
		lkPaths++
		return nil
	})
	defer p.Reset()
	r := gen.FromEnv(14141)
	for i := 0; i < n; i++ {
		lkPaths = 0
		t := genLTrace(r.Fork())
		t.Paths = lkPaths
		gen.Emit(t)
	}
}
