package main

func runWA(n int) {}
