// C14, write admission ("wa" mode): the REAL coordinator admission step (injestionCtx.checkDBRP + PointsWriter.
// routeAndMapOriginRows through coordinator.VerifC14Admit) over a catalogue held by the real meta.Data, under the
// coordinator's own coarse clock (fasttime, seconds). The clock cannot be injected: it is read before and after each
// batch and only batches during which it did not move are compared with the model (the others are re-run).
package main

import (
	"fmt"
	"time"

	"github.com/VictoriaMetrics/VictoriaMetrics/lib/fasttime"
	"github.com/openGemini/openGemini/coordinator"
	"github.com/openGemini/openGemini/lib/config"
	"github.com/openGemini/openGemini/lib/util/lifted/influx/influxql"
	"github.com/openGemini/openGemini/lib/util/lifted/influx/meta"
	proto2 "github.com/openGemini/openGemini/lib/util/lifted/influx/meta/proto"
	"github.com/openGemini/openGemini/lib/util/lifted/vm/protoparser/influx"
	"verifharness/internal/gen"
)

type WARow struct {
	T      int64 `json:"t"`
	Off    int64 `json:"off"` // t - (nowsec*1e9 - d_lookup)   (information)
	Mapped bool  `json:"mapped"`
	SgEnd  int64 `json:"sg_end"` // end of the group the row was mapped to
}

type WACase struct {
	Mode    string   `json:"mode"`
	D       int64    `json:"d"`        // policy duration when the batch looked the policy up
	DAfter  int64    `json:"d_after"`  // policy duration after the alteration that hit during the batch (= d if none)
	AlterAt int      `json:"alter_at"` // the alteration happened at the k-th meta call of the batch, -1 = none
	NowSec  int64    `json:"nowsec"`   // the coordinator clock during the batch (stable)
	MinTime int64    `json:"min_time"`
	Rows    []WARow  `json:"rows"`
	Oracle  []string `json:"oracle"`
}

type wameta struct {
	data    *meta.Data
	calls   int
	alterAt int
	alterTo time.Duration
}

func (m *wameta) tick() {
	if m.calls == m.alterAt {
		d := m.alterTo
		_ = m.data.UpdateRetentionPolicy(db, "rp1", &meta.RetentionPolicyUpdate{Duration: &d}, false)
	}
	m.calls++
}
func (m *wameta) Database(name string) (*meta.DatabaseInfo, error) {
	return m.data.Databases[name], nil
}
func (m *wameta) RetentionPolicy(database, policy string) (*meta.RetentionPolicyInfo, error) {
	return m.data.RetentionPolicy(database, policy)
}
func (m *wameta) CreateShardGroup(database, policy string, ts time.Time, version uint32, et config.EngineType) (*meta.ShardGroupInfo, error) {
	m.tick()
	sg, tier, err := m.data.GetTierOfShardGroup(database, policy, ts, 0, et)
	if err != nil {
		return nil, err
	}
	if sg == nil {
		if err := m.data.CreateShardGroup(database, policy, ts, tier, et, version); err != nil {
			return nil, err
		}
		rpi, _ := m.data.RetentionPolicy(database, policy)
		sg = rpi.ShardGroupByTimestampAndEngineType(ts, et)
		if sg == nil {
			return nil, nil
		}
	}
	c := *sg
	return &c, nil
}
func (m *wameta) DBPtView(database string) (meta.DBPtInfos, error) { return nil, nil }
func (m *wameta) Measurement(database, rp, mst string) (*meta.MeasurementInfo, error) {
	m.tick()
	return m.data.Measurement(database, rp, mst)
}
func (m *wameta) UpdateSchema(database, rp, mst string, f []*proto2.FieldSchema) error { return nil }
func (m *wameta) CreateMeasurement(database, rp, mst string, sk *meta.ShardKeyInfo, n int32, ir *influxql.IndexRelation, et config.EngineType,
	c *meta.ColStoreInfo, s []*proto2.FieldSchema, o *meta.Options) (*meta.MeasurementInfo, error) {
	return nil, fmt.Errorf("not used")
}
func (m *wameta) GetAliveShards(database string, sgi *meta.ShardGroupInfo, isRead bool) []int {
	res := make([]int, 0, len(sgi.Shards))
	for i := range sgi.Shards {
		res = append(res, i)
	}
	return res
}
func (m *wameta) GetStreamInfos() map[string]*meta.StreamInfo                 { return nil }
func (m *wameta) GetDstStreamInfos(db, rp string, d *[]*meta.StreamInfo) bool { return false }
func (m *wameta) DBRepGroups(database string) []meta.ReplicaGroup             { return nil }
func (m *wameta) GetReplicaN(database string) (int, error)                    { return 1, nil }
func (m *wameta) UpdateSchemaByCmd(cmd *proto2.UpdateSchemaCommand) error     { return nil }
func (m *wameta) GetSgEndTime(d, r string, t time.Time, e config.EngineType) (int64, error) {
	return 0, nil
}

func newWAData(d int64) *meta.Data {
	data := &meta.Data{Databases: map[string]*meta.DatabaseInfo{}, ClusterPtNum: 1, PtNumPerNode: 1}
	dbi := &meta.DatabaseInfo{Name: db, DefaultRetentionPolicy: "rp1", RetentionPolicies: map[string]*meta.RetentionPolicyInfo{}}
	rpi := &meta.RetentionPolicyInfo{Name: "rp1", ReplicaN: 1, Duration: time.Duration(d), ShardGroupDuration: time.Hour, IndexGroupDuration: time.Hour,
		Measurements: map[string]*meta.MeasurementInfo{}, MstVersions: map[string]meta.MeasurementVer{}}
	nameVer := influx.GetNameWithVersion("m", 0)
	mi := meta.NewMeasurementInfo(nameVer, "m", config.TSSTORE, 1)
	mi.Schema.SetTyp("host", influx.Field_Type_Tag)
	mi.Schema.SetTyp("usage", influx.Field_Type_Float)
	mi.ShardKeys = []meta.ShardKeyInfo{{Type: "hash"}}
	mi.ShardIdexes = map[uint64][]int{}
	rpi.Measurements[nameVer] = mi
	rpi.MstVersions["m"] = meta.MeasurementVer{NameWithVersion: nameVer, Version: 0}
	dbi.RetentionPolicies["rp1"] = rpi
	data.Databases[db] = dbi
	return data
}

func genWA(r *gen.Rand) WACase {
	hour := int64(time.Hour)
	durs := []int64{0, hour, 2 * hour, 24 * hour, 7 * 24 * hour}
	for attempt := 0; ; attempt++ {
		cp := *r // same choices on a re-run after the clock moved
		rr := &cp
		c := WACase{Mode: "wa", D: gen.Pick(rr, durs), AlterAt: -1, Oracle: []string{}}
		c.DAfter = c.D
		mc := &wameta{data: newWAData(c.D), alterAt: -1}
		if rr.Chance(1, 3) {
			mc.alterAt = rr.Range(0, 3)
			c.AlterAt = mc.alterAt
			c.DAfter = gen.Pick(rr, durs)
			mc.alterTo = time.Duration(c.DAfter)
		}
		n := rr.Range(2, 8)
		t0 := int64(fasttime.UnixTimestamp())
		var rows []influx.Row
		for i := 0; i < n; i++ {
			off := []int64{-hour, -1e9, -2, -1, 0, 1, 2, 1e9, hour / 2, 3 * hour}[rr.Intn(10)]
			t := t0*1e9 - c.D + off
			if c.D == 0 || rr.Chance(1, 10) {
				t = []int64{-1, 0, 1, -hour, t0 * 1e9, t0*1e9 - 100*hour}[rr.Intn(6)]
			}
			if c.AlterAt >= 0 && rr.Chance(1, 2) { // aimed at the window of the duration in force after the alteration
				t = t0*1e9 - c.DAfter + off
			}
			rows = append(rows, influx.Row{Name: "m", Timestamp: t,
				Tags:   influx.PointTags{{Key: "host", Value: fmt.Sprint("h", i%3)}},
				Fields: influx.Fields{{Key: "usage", NumValue: 1, Type: influx.Field_Type_Float}}})
		}
		minTime, shardOf, _, _, err := coordinator.VerifC14Admit(mc, db, "rp1", rows)
		t1 := int64(fasttime.UnixTimestamp())
		if t0 != t1 && attempt < 20 {
			continue // the coarse clock moved during the batch: run the batch again
		}
		c.NowSec, c.MinTime = t0, minTime
		if err != nil {
			c.Oracle = append(c.Oracle, "batch failed: "+err.Error())
		}
		if mc.alterAt >= mc.calls { // the alteration never happened
			c.AlterAt, c.DAfter = -1, c.D
		}
		rpi := mc.data.Databases[db].RetentionPolicies["rp1"]
		for i := range rows {
			w := WARow{T: rows[i].Timestamp, Off: rows[i].Timestamp - (t0*1e9 - c.D)}
			if shardOf != nil && shardOf[i] != 0 {
				w.Mapped = true
				for _, sg := range rpi.ShardGroups {
					for _, sh := range sg.Shards {
						if sh.ID == shardOf[i] {
							w.SgEnd = sg.EndTime.UnixNano()
						}
					}
				}
				// direct oracle: an admitted point lies in a group that is not expired at the admission clock reading
				if c.D != 0 && w.SgEnd+c.D < t0*1e9 {
					c.Oracle = append(c.Oracle, fmt.Sprintf("point t=%d admitted at %d s into a group ending %d that is already expired under d=%d", w.T, t0, w.SgEnd, c.D))
				}
				if !(w.T < w.SgEnd) {
					c.Oracle = append(c.Oracle, fmt.Sprintf("point t=%d mapped to a group ending %d", w.T, w.SgEnd))
				}
			} else if c.D > 0 && w.T >= t0*1e9-c.D && w.T >= 0 {
				// direct oracle: a point inside the retention window is not turned away as 'out of the retention policy'
				c.Oracle = append(c.Oracle, fmt.Sprintf("point t=%d inside the window [%d,..) of d=%d at %d s was rejected", w.T, t0*1e9-c.D, c.D, t0))
			}
			c.Rows = append(c.Rows, w)
		}
		return c
	}
}

func runWA(n int) {
	r := gen.FromEnv(141414)
	for i := 0; i < n; i++ {
		gen.Emit(genWA(r.Fork()))
	}
}
