// C14, the two other deleters ("ttl" mode): the REAL measurement-TTL decision (engine.ExpiredShardsForMst /
// ExpiredIndexesForMst under the controlled clock) and the REAL schema-clean decision (meta.MeasurementInfo.SchemaClean
// with meta.TimeReserveHigh32), on generated inputs aimed at their boundaries.
package main

import (
	"fmt"
	"sort"
	"time"

	"github.com/openGemini/openGemini/engine"
	"github.com/openGemini/openGemini/lib/config"
	"github.com/openGemini/openGemini/lib/util/lifted/influx/meta"
	"github.com/openGemini/openGemini/lib/util/lifted/vm/protoparser/influx"
	"verifharness/internal/gen"
)

type TTLCase struct {
	Mode   string     `json:"mode"`
	Kind   string     `json:"kind"` // shards indexes schema
	RP     int64      `json:"rp"`
	TTL    int64      `json:"ttl"`
	Now    int64      `json:"now"`
	Items  [][3]int64 `json:"items"` // shards/indexes: (id, rp, end); schema: (field id, end of its latest group, 0)
	Pruned int64      `json:"pruned"`
	Got    []int64    `json:"got"`
	Oracle []string   `json:"oracle"`
}

func runTTL(n int) {
	r := gen.FromEnv(141415)
	hour := int64(time.Hour)
	base := int64(1700000000) * 1e9
	for i := 0; i < n; i++ {
		rr := r.Fork()
		c := TTLCase{Mode: "ttl", Oracle: []string{}, Got: []int64{}}
		switch i % 3 {
		case 0, 1:
			c.Kind = []string{"shards", "indexes"}[i%3]
			c.RP = int64(rr.Range(1, 2))
			c.TTL = gen.Pick(rr, []int64{0, hour, 24 * hour, 7 * 24 * hour})
			eng := engine.VerifNewRetentionEngine(db, 0)
			ni := rr.Range(1, 6)
			var ends []int64
			for k := 1; k <= ni; k++ {
				end := base + int64(rr.Range(-50, 50))*hour
				ends = append(ends, end)
				rp := int64(rr.Range(1, 2))
				c.Items = append(c.Items, [3]int64{int64(k), rp, end})
				if c.Kind == "shards" {
					eng.VerifAddShard(db, 0, engine.VerifShardSpec{ID: uint64(k), GroupID: uint64(k), Policy: rpName(rp), End: time.Unix(0, end).UTC(), Duration: time.Duration(1000 * hour)})
				} else {
					eng.VerifAddIndex(db, 0, engine.VerifIndexSpec{ID: uint64(k), GroupID: uint64(k), Policy: rpName(rp), End: time.Unix(0, end).UTC(), Duration: time.Duration(1000 * hour)})
				}
			}
			ttl := c.TTL
			if ttl == 0 {
				ttl = hour
			}
			c.Now = gen.Pick(rr, ends) + ttl + []int64{-hour, -1, 0, 1, 2, hour}[rr.Intn(6)]
			fakeNow = time.Unix(0, c.Now).UTC()
			info := &meta.MeasurementTTLTnfo{Name: "m_0000", OriginName: "m", TTL: c.TTL}
			if c.Kind == "shards" {
				for _, id := range eng.ExpiredShardsForMst(db, rpName(c.RP), info) {
					c.Got = append(c.Got, int64(id.ShardID))
				}
			} else {
				for _, id := range eng.ExpiredIndexesForMst(db, rpName(c.RP), info) {
					c.Got = append(c.Got, int64(id.Index.IndexID))
				}
			}
			// direct oracle: only items of that policy whose span ended more than TTL ago; none for TTL 0
			for _, g := range c.Got {
				it := c.Items[g-1]
				if it[1] != c.RP || c.TTL == 0 || !(it[2]+c.TTL < c.Now) {
					c.Oracle = append(c.Oracle, fmt.Sprintf("%s %d (policy %d, end %d) reported expired for a measurement TTL %d of policy %d at %d", c.Kind, g, it[1], it[2], c.TTL, c.RP, c.Now))
				}
			}
		default:
			c.Kind = "schema"
			mi := meta.NewMeasurementInfo("m_0000", "m", config.TSSTORE, 1)
			pruned := base + int64(rr.Range(-20, 20))*hour
			c.Pruned = pruned
			nf := rr.Range(1, 6)
			for k := 1; k <= nf; k++ {
				end := pruned + []int64{-24 * hour, -hour, -1 << 32, -1, 0, 1, 1 << 32, (1 << 32) + 1, hour, 24 * hour}[rr.Intn(10)]
				if rr.Chance(1, 4) {
					end = pruned - pruned%(1<<32) + []int64{-1, 0, (1 << 32) - 1, 1 << 32}[rr.Intn(4)]
				}
				c.Items = append(c.Items, [3]int64{int64(k), end, 0})
				(*mi.Schema)[fmt.Sprintf("f%d", k)] = meta.SchemaVal{Typ: influx.Field_Type_Float, EndTime: meta.TimeReserveHigh32(end)}
			}
			left := mi.SchemaClean(pruned)
			for k := 1; k <= nf; k++ {
				if _, ok := (*mi.Schema)[fmt.Sprintf("f%d", k)]; ok {
					c.Got = append(c.Got, int64(k))
				}
			}
			if left != len(c.Got) {
				c.Oracle = append(c.Oracle, fmt.Sprintf("SchemaClean returned %d but %d fields are left", left, len(c.Got)))
			}
			// direct oracle: a field whose latest group ends 2^32 ns or more after the pruned group is never dropped
			for _, it := range c.Items {
				kept := false
				for _, g := range c.Got {
					if g == it[0] {
						kept = true
					}
				}
				if !kept && it[1] >= pruned+(1<<32) {
					c.Oracle = append(c.Oracle, fmt.Sprintf("field %d (latest group ends %d) dropped when a group ending %d was pruned", it[0], it[1], pruned))
				}
			}
		}
		sort.Slice(c.Got, func(a, b int) bool { return c.Got[a] < c.Got[b] })
		gen.Emit(c)
	}
}
