// C14, extended traces ("ix" mode): the catalogue is built by the REAL meta.Data functions (CreateShardGroup with its
// index-group choice, UpdateRetentionPolicy/CheckSpecValid, ExpandGroups, DeleteShardGroup, DeleteIndexGroup,
// PruneGroups, DurationInfos, IndexDurationInfos, RetentionPolicyInfo.TimeRangeInfo), one store node per partition runs
// the REAL retention pass (retention.Service.handle -> engine.UpdateShardDurationInfo / UpdateIndexDurationInfo /
// ExpiredShards / ExpiredIndexes / DeleteIndex) under the controlled clock. Physical shard deletion is stubbed, index
// deletion is the engine's own DeleteIndex on a scratch directory.
package main

import (
	"encoding/json"
	"fmt"
	"os"
	"path/filepath"
	"sort"
	"time"

	"github.com/openGemini/openGemini/engine"
	"github.com/openGemini/openGemini/lib/config"
	"github.com/openGemini/openGemini/lib/errno"
	"github.com/openGemini/openGemini/lib/metaclient"
	"github.com/openGemini/openGemini/lib/util/lifted/influx/meta"
	"github.com/openGemini/openGemini/services/retention"
	"verifharness/internal/gen"
)

type XEvent struct {
	Kind   string `json:"kind"` // create mat alter expand tick tickfail restart
	RP     int64  `json:"rp,omitempty"`
	TS     int64  `json:"ts,omitempty"`
	GID    int64  `json:"gid,omitempty"`
	Loaded bool   `json:"loaded,omitempty"`
	D      *int64 `json:"d"`
	SGD    *int64 `json:"sgd"`
	IGD    *int64 `json:"igd"`
	PT     int64  `json:"pt,omitempty"`
	Now    int64  `json:"now,omitempty"`
	Now2   int64  `json:"now2,omitempty"` // clock reading of the pass\'s index decisions (0 = same as now)
	Fail   int    `json:"fail,omitempty"`
}

type XSG struct {
	ID, RP, Start, End int64
	Del                bool
	Shards             [][4]int64 // id pt ix md
}
type XIG struct {
	ID, RP, Start, End int64
	Del                bool
	Ixs                [][3]int64 // id pt md
}
type XObs struct {
	OK   bool       `json:"ok"`
	Pols [][4]int64 `json:"pols"`
	SGs  []XSG      `json:"sgs"`
	IGs  []XIG      `json:"igs"`
	NSh  [][2]int64 `json:"nsh"` // (shard id, end time the node holds for it: the running engine's for a loaded shard)
	NIx  [][2]int64 `json:"nix"` // (index id, end time the running engine holds for it)
	DSh  []int64    `json:"dsh"`
	DIx  []int64    `json:"dix"`
}

// a failure of the DIRECT ORACLE (the property statement on the implementation's behaviour), with the facts the
// finding signatures are decided on
type XFail struct {
	Kind  string           `json:"kind"`
	Event int              `json:"event"`
	Msg   string           `json:"msg"`
	Facts map[string]int64 `json:"facts"`
	IDs   []int64          `json:"ids,omitempty"`     // ids of the group in which the mark happened
	Vict  []int64          `json:"victims,omitempty"` // ids pruned in this pass
}

type XTrace struct {
	Mode     string     `json:"mode"`
	Policies [][4]int64 `json:"policies"` // id d sgd igd
	PtNum    int        `json:"ptnum"`
	Events   []XEvent   `json:"events"`
	Obs      []XObs     `json:"obs"`
	Oracle   []XFail    `json:"oracle"`
	Nontriv  bool       `json:"nontrivial"`
	IxDel    int        `json:"ixdel"`   // indexes physically deleted in the trace
	Store    bool       `json:"store"`   // indexes went through the store's own creation / reopening code
	Shared   bool       `json:"shared"`  // some index served two shard groups
	Skipped  int        `json:"skipped"` // index deletions the oracle could not judge (index not listed)
}

type xnode struct {
	real   bool   // eng is a full engine with real shards (store traces, until the first restart)
	ptdir  string // directory of the partition
	eng    *engine.EngineImpl
	svc    *retention.Service
	ondisk map[uint64]bool
	dir    string
}

type xbook struct {
	end, rp int64
	ix      uint64
	pt      uint32
}

type xworld struct {
	data       *meta.Data
	nodes      []*xnode
	book       map[uint64]xbook // every shard ever materialised
	store      bool             // indexes are created / reopened through the store's own code (real index on disk); else installed by hook
	lastNow    int64            // clock reading of the last pass
	now1, now2 int64            // clock readings of the running pass
	ixspec     map[uint32]map[uint64]engine.VerifIndexSpec
	client     *metaclient.Client // what the store uses to look its database up when it creates / reopens an index
	want       map[int64]int64
	dir        string
	failSh     bool
	failIx     bool
	delSh      []uint64 // DeleteShard calls of the running pass (all), and the ones that removed something
	goneSh     []uint64
	delIx      []uint64
	goneIx     []uint64
	wrongMarks map[uint64]bool // shards marked deleted in the catalogue by a pass that did not delete them
}

type xmeta struct {
	w  *xworld
	pt uint32
}

func (m xmeta) PruneGroupsCommand(sg bool, id uint64) error { return m.w.data.PruneGroups(sg, id) }
func (m xmeta) GetShardDurationInfo(index uint64) (*meta.ShardDurationResponse, error) {
	if m.w.failSh {
		return nil, errno.NewError(errno.DataIsOlder)
	}
	return m.w.data.DurationInfos(map[string][]uint32{db: {m.pt}}), nil
}
func (m xmeta) GetIndexDurationInfo(index uint64) (*meta.IndexDurationResponse, error) {
	if m.w.failIx {
		return nil, errno.NewError(errno.DataIsOlder)
	}
	return m.w.data.IndexDurationInfos(map[string][]uint32{db: {m.pt}}), nil
}
func (m xmeta) DeleteShardGroup(database, policy string, id uint64, deleteType int32) error {
	return m.w.data.DeleteShardGroup(database, policy, id, 0, deleteType)
}
func (m xmeta) DeleteIndexGroup(database, policy string, id uint64) error {
	return m.w.data.DeleteIndexGroup(database, policy, id)
}
func (m xmeta) DelayDeleteShardGroup(database, policy string, id uint64, deletedAt time.Time, deleteType int32) error {
	return nil
}
func (m xmeta) GetExpiredShards() ([]meta.ExpiredShardInfos, []meta.ExpiredShardInfos) {
	return nil, nil
}
func (m xmeta) GetExpiredIndexes() []meta.ExpiredIndexInfos { return nil }

type xeng struct {
	w  *xworld
	pt uint32
}

func (e xeng) n() *xnode { return e.w.nodes[e.pt] }
func (e xeng) DeleteIndex(dbn string, ptId uint32, indexID uint64) error {
	e.w.delIx = append(e.w.delIx, indexID)
	err := e.n().eng.DeleteIndex(dbn, ptId, indexID) // the engine's own: map removal + directory removal
	if err == nil {
		e.w.goneIx = append(e.w.goneIx, indexID)
	}
	return err
}
func (e xeng) UpdateShardDurationInfo(info *meta.ShardDurationInfo, nilShardMap *map[uint64]*meta.ShardDurationInfo) error {
	return e.n().eng.UpdateShardDurationInfo(info, nilShardMap)
}
func (e xeng) UpdateIndexDurationInfo(info *meta.IndexDurationInfo, nilIndexMap *map[uint64]*meta.IndexDurationInfo) error {
	return e.n().eng.UpdateIndexDurationInfo(info, nilIndexMap)
}
func (e xeng) ExpiredShards(nilShardMap *map[uint64]*meta.ShardDurationInfo) []*meta.ShardIdentifier {
	fakeNow = time.Unix(0, e.w.now1).UTC() // the clock while the pass takes its shard decisions
	return e.n().eng.ExpiredShards(nilShardMap)
}
func (e xeng) ExpiredIndexes(nilIndexMap *map[uint64]*meta.IndexDurationInfo) []*meta.IndexIdentifier {
	fakeNow = time.Unix(0, e.w.now2).UTC() // ... and later, while it takes its index decisions
	return e.n().eng.ExpiredIndexes(nilIndexMap)
}
func (e xeng) ExpiredCacheIndexes() []*meta.IndexIdentifier { return nil }
func (e xeng) DeleteShard(dbn string, ptId uint32, shardID uint64) error {
	e.w.delSh = append(e.w.delSh, shardID)
	if e.n().real {
		err := e.n().eng.DeleteShard(dbn, ptId, shardID) // the engine's own: close the shard, remove its data and wal directories
		if err == nil {
			e.w.goneSh = append(e.w.goneSh, shardID)
			return nil
		}
		if !errno.Equal(err, errno.ShardNotFound) {
			return err
		}
	} else if e.n().eng.VerifRemoveShard(dbn, ptId, shardID) {
		e.w.goneSh = append(e.w.goneSh, shardID)
		return nil
	}
	if e.n().ondisk[shardID] {
		delete(e.n().ondisk, shardID)
		e.w.goneSh = append(e.w.goneSh, shardID)
		return nil
	}
	return errno.NewError(errno.ShardNotFound, shardID)
}
func (e xeng) ClearIndexCache(db string, ptId uint32, indexID uint64) error { return nil }

func (w *xworld) addNode() {
	pt := uint32(len(w.nodes))
	n := &xnode{ondisk: map[uint64]bool{}, dir: filepath.Join(w.dir, fmt.Sprintf("pt%d", pt))}
	n.ptdir = n.dir
	if w.store {
		// a real engine: shards and indexes are created, kept and deleted on disk by the engine's own code
		n.ptdir = filepath.Join(n.dir, config.DataDirectory, db, fmt.Sprint(pt))
		n.eng = engine.VerifNewStoreEngine(n.dir, w.client)
		n.eng.CreateDBPT(db, pt, false)
		n.real = true
	} else {
		n.eng = engine.VerifNewRetentionEngineDir(db, pt, n.dir)
	}
	n.svc = retention.NewService(time.Hour)
	n.svc.MetaClient = xmeta{w, pt}
	n.svc.Engine = xeng{w, pt}
	w.nodes = append(w.nodes, n)
	w.ixspec[pt] = map[uint64]engine.VerifIndexSpec{}
}

func newXWorld(pols [][4]int64, ptnum int, dir string, store bool) *xworld {
	w := &xworld{book: map[uint64]xbook{}, ixspec: map[uint32]map[uint64]engine.VerifIndexSpec{}, want: map[int64]int64{},
		dir: dir, wrongMarks: map[uint64]bool{}}
	w.data = &meta.Data{Databases: map[string]*meta.DatabaseInfo{}, ClusterPtNum: uint32(ptnum), PtNumPerNode: 1}
	dbi := &meta.DatabaseInfo{Name: db, RetentionPolicies: map[string]*meta.RetentionPolicyInfo{}}
	for _, p := range pols {
		w.want[p[0]] = p[1]
		rpi := &meta.RetentionPolicyInfo{Name: rpName(p[0]), ReplicaN: 1, Duration: time.Duration(p[1]),
			ShardGroupDuration: time.Duration(p[2]), IndexGroupDuration: time.Duration(p[3]),
			Measurements: map[string]*meta.MeasurementInfo{}, MstVersions: map[string]meta.MeasurementVer{}}
		mi := meta.NewMeasurementInfo("m_0000", "m", config.TSSTORE, 1)
		mi.ShardKeys = []meta.ShardKeyInfo{{Type: "hash"}}
		rpi.Measurements["m_0000"] = mi
		rpi.MstVersions["m"] = meta.MeasurementVer{NameWithVersion: "m_0000", Version: 0}
		dbi.RetentionPolicies[rpi.Name] = rpi
	}
	w.data.Databases[db] = dbi
	w.store = store
	w.client = metaclient.NewClient("", false, 0)
	w.client.SetCacheData(w.data)
	for i := 0; i < ptnum; i++ {
		w.addNode()
	}
	return w
}

func rpID(name string) int64 {
	var id int64
	fmt.Sscanf(name, "rp%d", &id)
	return id
}

func (w *xworld) rps() []*meta.RetentionPolicyInfo {
	var r []*meta.RetentionPolicyInfo
	for _, rp := range w.data.Databases[db].RetentionPolicies {
		r = append(r, rp)
	}
	sort.Slice(r, func(i, j int) bool { return rpID(r[i].Name) < rpID(r[j].Name) })
	return r
}

func b2i(b bool) int64 {
	if b {
		return 1
	}
	return 0
}

func (w *xworld) catObs(o *XObs) {
	o.Pols, o.SGs, o.IGs = [][4]int64{}, []XSG{}, []XIG{}
	for _, rp := range w.rps() {
		id := rpID(rp.Name)
		o.Pols = append(o.Pols, [4]int64{id, int64(rp.Duration), int64(rp.ShardGroupDuration), int64(rp.IndexGroupDuration)})
		for _, sg := range rp.ShardGroups {
			g := XSG{ID: int64(sg.ID), RP: id, Start: sg.StartTime.UnixNano(), End: sg.EndTime.UnixNano(), Del: sg.Deleted(), Shards: [][4]int64{}}
			for _, sh := range sg.Shards {
				g.Shards = append(g.Shards, [4]int64{int64(sh.ID), int64(sh.Owners[0]), int64(sh.IndexID), b2i(sh.MarkDelete)})
			}
			o.SGs = append(o.SGs, g)
		}
		for _, ig := range rp.IndexGroups {
			g := XIG{ID: int64(ig.ID), RP: id, Start: ig.StartTime.UnixNano(), End: ig.EndTime.UnixNano(), Del: ig.Deleted(), Ixs: [][3]int64{}}
			for _, ii := range ig.Indexes {
				g.Ixs = append(g.Ixs, [3]int64{int64(ii.ID), int64(ii.Owners[0]), b2i(ii.MarkDelete)})
			}
			o.IGs = append(o.IGs, g)
		}
	}
	sort.Slice(o.SGs, func(i, j int) bool { return o.SGs[i].ID < o.SGs[j].ID })
	sort.Slice(o.IGs, func(i, j int) bool { return o.IGs[i].ID < o.IGs[j].ID })
}

func sorted64(x []uint64) []int64 {
	r := make([]int64, 0, len(x))
	for _, v := range x {
		r = append(r, int64(v))
	}
	sort.Slice(r, func(i, j int) bool { return r[i] < r[j] })
	return r
}

func (w *xworld) obs(ok bool) XObs {
	o := XObs{OK: ok}
	w.catObs(&o)
	o.NSh, o.NIx = [][2]int64{}, [][2]int64{}
	for pt, n := range w.nodes {
		for _, id := range n.eng.VerifShardIDs(db, uint32(pt)) {
			end, _ := n.eng.VerifShardEnd(db, uint32(pt), id)
			o.NSh = append(o.NSh, [2]int64{int64(id), end.UnixNano()})
		}
		for id := range n.ondisk {
			o.NSh = append(o.NSh, [2]int64{int64(id), w.book[id].end})
		}
		for _, id := range n.eng.VerifIndexIDs(db, uint32(pt)) {
			end, _ := n.eng.VerifIndexEnd(db, uint32(pt), id)
			o.NIx = append(o.NIx, [2]int64{int64(id), end.UnixNano()})
		}
	}
	sort.Slice(o.NSh, func(i, j int) bool { return o.NSh[i][0] < o.NSh[j][0] })
	sort.Slice(o.NIx, func(i, j int) bool { return o.NIx[i][0] < o.NIx[j][0] })
	// the log of the pass: every id the service asked to delete (the model's victims), shards and indexes
	o.DSh, o.DIx = sorted64(w.delSh), sorted64(w.delIx)
	return o
}

func (w *xworld) present(pt uint32, sid uint64) bool {
	n := w.nodes[pt]
	if n.ondisk[sid] {
		return true
	}
	for _, id := range n.eng.VerifShardIDs(db, pt) {
		if id == sid {
			return true
		}
	}
	return false
}

func (w *xworld) findGroup(gid uint64) (*meta.RetentionPolicyInfo, *meta.ShardGroupInfo) {
	for _, rp := range w.data.Databases[db].RetentionPolicies {
		for i := range rp.ShardGroups {
			if rp.ShardGroups[i].ID == gid {
				return rp, &rp.ShardGroups[i]
			}
		}
	}
	return nil, nil
}

// can the stores create this group's shards (the catalogue still knows the span of every index they need)?
func (w *xworld) canMat(gid uint64) bool {
	rp, sg := w.findGroup(gid)
	if sg == nil {
		return false
	}
	for _, sh := range sg.Shards {
		tri := rp.TimeRangeInfo(sh.ID)
		if tri == nil || tri.OwnerIndex.IndexGroupID == 0 {
			return false
		}
	}
	return true
}

func (w *xworld) mat(gid uint64, loaded bool) {
	rp, sg := w.findGroup(gid)
	if sg == nil {
		return
	}
	for _, sh := range sg.Shards {
		pt := sh.Owners[0]
		if w.present(pt, sh.ID) {
			continue
		}
		tri := rp.TimeRangeInfo(sh.ID) // what the store asks meta for when it creates the shard
		n := w.nodes[pt]
		if n.real && loaded {
			// the store's own path, all of it: EngineImpl.CreateShard -> DBPTInfo.NewShard -> NewMergeSetIndex, shard opened on disk
			if err := n.eng.CreateShard(db, rp.Name, pt, sh.ID, tri, &meta.MeasurementInfo{EngineType: config.TSSTORE}); err != nil {
				fmt.Fprintln(os.Stderr, "store could not create the shard:", err)
				os.Exit(3)
			}
			w.book[sh.ID] = xbook{end: tri.TimeRange.EndTime.UnixNano(), rp: rpID(rp.Name), ix: tri.OwnerIndex.IndexID, pt: pt}
			continue
		}
		if w.store {
			// the store's own path: DBPTInfo.NewMergeSetIndex creates (and opens, on disk) the index unless the partition has it
			if _, err := n.eng.VerifStoreNewIndex(db, pt, rp.Name, tri, w.client); err != nil {
				fmt.Fprintln(os.Stderr, "store could not create the index:", err)
				os.Exit(3)
			}
		} else if !w.hasIx(pt, tri.OwnerIndex.IndexID) {
			p := filepath.Join(n.dir, rp.Name, "index", fmt.Sprintf("%d_light", tri.OwnerIndex.IndexID))
			_ = os.MkdirAll(p, 0o755)
			sp := engine.VerifIndexSpec{ID: tri.OwnerIndex.IndexID, GroupID: tri.OwnerIndex.IndexGroupID, Policy: rp.Name,
				Start: tri.OwnerIndex.TimeRange.StartTime, End: tri.OwnerIndex.TimeRange.EndTime,
				Duration: tri.ShardDuration.DurationInfo.Duration, Path: p}
			n.eng.VerifAddIndex(db, pt, sp)
			w.ixspec[pt][sp.ID] = sp
		}
		w.book[sh.ID] = xbook{end: tri.TimeRange.EndTime.UnixNano(), rp: rpID(rp.Name), ix: tri.OwnerIndex.IndexID, pt: pt}
		if loaded {
			n.eng.VerifAddShardWithIndex(db, pt, engine.VerifShardSpec{ID: sh.ID, GroupID: sg.ID, Policy: rp.Name,
				End: tri.TimeRange.EndTime, Duration: tri.ShardDuration.DurationInfo.Duration}, tri.OwnerIndex.IndexID)
		} else {
			n.ondisk[sh.ID] = true
		}
	}
}

func (w *xworld) hasIx(pt uint32, id uint64) bool {
	for _, x := range w.nodes[pt].eng.VerifIndexIDs(db, pt) {
		if x == id {
			return true
		}
	}
	return false
}

func (w *xworld) restart(pt uint32) {
	n := w.nodes[pt]
	for _, id := range n.eng.VerifShardIDs(db, pt) {
		n.ondisk[id] = true
	}
	// process stop, then what a starting store does: every index directory of every policy is reopened, its span parsed
	// from the directory name; durations are unknown until the next refresh
	if !w.store {
		ixs := n.eng.VerifIndexIDs(db, pt)
		n.eng = engine.VerifNewRetentionEngineDir(db, pt, n.dir)
		for _, id := range ixs {
			sp := w.ixspec[pt][id]
			sp.Duration, sp.GroupID = 0, 0
			n.eng.VerifAddIndex(db, pt, sp)
		}
		return
	}
	if n.real {
		_ = n.eng.Close()
		n.real = false
	} else {
		n.eng.VerifCloseIndexes(db, pt)
	}
	n.eng = engine.VerifNewRetentionEngineDir(db, pt, n.ptdir)
	for _, rp := range w.rps() {
		if err := n.eng.VerifOpenIndexes(db, pt, rp.Name, w.client); err != nil {
			fmt.Fprintln(os.Stderr, "store could not reopen its indexes:", err)
			os.Exit(3)
		}
	}
}

func (w *xworld) closeAll() {
	if !w.store {
		return
	}
	for pt, n := range w.nodes {
		if n.real {
			_ = n.eng.Close()
		} else {
			n.eng.VerifCloseIndexes(db, uint32(pt))
		}
	}
}

type markState struct {
	sh map[uint64]bool
	ix map[uint64]bool
}

// catalogue facts used by the oracle
type catSnap struct {
	shMark   map[uint64]bool
	ixMark   map[uint64]bool
	shGroup  map[uint64]uint64
	sgShards map[uint64][]uint64
	sgEnd    map[uint64]int64
	ixGroup  map[uint64]uint64 // index id -> its index group (exact membership)
	igIxs    map[uint64][]uint64
	igEnd    map[uint64]int64
}

func (w *xworld) snap() catSnap {
	s := catSnap{map[uint64]bool{}, map[uint64]bool{}, map[uint64]uint64{}, map[uint64][]uint64{}, map[uint64]int64{},
		map[uint64]uint64{}, map[uint64][]uint64{}, map[uint64]int64{}}
	for _, rp := range w.data.Databases[db].RetentionPolicies {
		for _, sg := range rp.ShardGroups {
			s.sgEnd[sg.ID] = sg.EndTime.UnixNano()
			for _, sh := range sg.Shards {
				s.shMark[sh.ID] = sh.MarkDelete
				s.shGroup[sh.ID] = sg.ID
				s.sgShards[sg.ID] = append(s.sgShards[sg.ID], sh.ID)
			}
		}
		for _, ig := range rp.IndexGroups {
			s.igEnd[ig.ID] = ig.EndTime.UnixNano()
			for _, ii := range ig.Indexes {
				s.ixMark[ii.ID] = ii.MarkDelete
				s.ixGroup[ii.ID] = ig.ID
				s.igIxs[ig.ID] = append(s.igIxs[ig.ID], ii.ID)
			}
		}
	}
	return s
}

func in64(xs []uint64, v uint64) bool {
	for _, x := range xs {
		if x == v {
			return true
		}
	}
	return false
}

func i64s(xs []uint64) []int64 {
	r := make([]int64, len(xs))
	for i, x := range xs {
		r[i] = int64(x)
	}
	return r
}

func (w *xworld) tick(ev *XEvent, evIdx int, tr *XTrace) {
	pt := uint32(ev.PT)
	n := w.nodes[pt]
	w.failSh = ev.Kind == "tickfail" && ev.Fail == 1
	w.failIx = ev.Kind == "tickfail" && ev.Fail == 2
	defer func() { w.failSh, w.failIx = false, false }()
	if ev.Now2 == 0 {
		ev.Now2 = ev.Now
	}
	fakeNow = time.Unix(0, ev.Now).UTC()
	w.now1, w.now2, w.lastNow = ev.Now, ev.Now2, ev.Now2
	before := w.snap()
	type pre struct {
		b      xbook
		d      int64
		listed bool
	}
	shBefore := map[uint64]pre{}
	ids := append([]uint64{}, n.eng.VerifShardIDs(db, pt)...)
	for id := range n.ondisk {
		ids = append(ids, id)
	}
	for _, id := range ids {
		b := w.book[id]
		_, listed := before.shGroup[id]
		shBefore[id] = pre{b, w.want[b.rp], listed}
	}
	ixBefore := append([]uint64{}, n.eng.VerifIndexIDs(db, pt)...)
	w.delSh, w.goneSh, w.delIx, w.goneIx = nil, nil, nil, nil
	n.svc.VerifHandle()
	fail := func(kind, msg string, facts map[string]int64, gids, vict []uint64) {
		tr.Oracle = append(tr.Oracle, XFail{Kind: kind, Event: evIdx, Msg: msg, Facts: facts, IDs: i64s(gids), Vict: i64s(vict)})
	}
	// O1: a shard is deleted only if expired under the acknowledged policy duration; an expired listed one is removed
	for id, p := range shBefore {
		exp := p.d != 0 && p.b.end+p.d < ev.Now
		gone := in64(w.goneSh, id)
		if gone && p.listed && !exp {
			fail("shard-not-expired", fmt.Sprintf("shard %d deleted at now=%d although end=%d d=%d", id, ev.Now, p.b.end, p.d),
				map[string]int64{"shard": int64(id), "end": p.b.end, "d": p.d, "now": ev.Now}, nil, nil)
		}
		if ev.Kind == "tick" && !gone && p.listed && exp {
			fail("kept-expired", fmt.Sprintf("shard %d kept at now=%d although end=%d d=%d is expired", id, ev.Now, p.b.end, p.d),
				map[string]int64{"shard": int64(id), "end": p.b.end, "d": p.d, "now": ev.Now}, nil, nil)
		}
	}
	// O2: an index is deleted only if every shard of the node that refers to it is expired at that moment
	for _, x := range w.goneIx {
		tr.IxDel++
		if !in64(ixBefore, x) {
			continue
		}
		igid, listed := before.ixGroup[x]
		if !listed {
			tr.Skipped++
			continue
		}
		if m, _ := filepath.Glob(filepath.Join(n.ptdir, "*", "index", fmt.Sprintf("%d_*", x))); len(m) > 0 {
			fail("index-dir-left", fmt.Sprintf("index %d reported deleted but its directory still exists", x), map[string]int64{"index": int64(x)}, nil, nil)
		}
		for id, p := range shBefore {
			if p.b.ix != x {
				continue
			}
			if !(p.d != 0 && p.b.end+p.d < ev.Now2) {
				fail("index-before-shard",
					fmt.Sprintf("index %d (group %d, end %d) deleted at now=%d while shard %d (end %d, d=%d) that uses it has not expired",
						x, igid, before.igEnd[igid], ev.Now2, id, p.b.end, p.d),
					map[string]int64{"index": int64(x), "ig": int64(igid), "ig_end": before.igEnd[igid], "shard": int64(id),
						"sg_end": p.b.end, "d": p.d, "now": ev.Now2}, nil, nil)
			}
		}
	}
	// O3: the catalogue marks as deleted exactly what this pass deleted; no group is dropped while it has a shard
	// that was neither marked before nor deleted now
	after := w.snap()
	for id, was := range before.shMark {
		now, still := after.shMark[id]
		if still && now && !was && !in64(w.delSh, id) {
			w.wrongMarks[id] = true
			fail("prune-wrong-mark", fmt.Sprintf("shard %d was marked deleted in the catalogue by a pass that deleted %v", id, w.delSh),
				map[string]int64{"marked": int64(id), "shard_kind": 1}, before.sgShards[before.shGroup[id]], w.delSh)
		}
		if !still && !was && !in64(w.delSh, id) {
			fail("group-dropped-with-live-shard", fmt.Sprintf("shard group %d left the catalogue although its shard %d was neither marked nor deleted", before.shGroup[id], id),
				map[string]int64{"marked": int64(id), "shard_kind": 1}, before.sgShards[before.shGroup[id]], w.delSh)
		}
		if !still && was && w.wrongMarks[id] && w.present(w.book[id].pt, id) && w.book[id].end != 0 {
			fail("group-dropped-with-live-shard", fmt.Sprintf("shard group %d left the catalogue although its shard %d (wrongly marked earlier) is still on its node", before.shGroup[id], id),
				map[string]int64{"marked": int64(id), "shard_kind": 1, "earlier_wrong_mark": 1}, before.sgShards[before.shGroup[id]], w.delSh)
		}
	}
	for id, was := range before.ixMark {
		now, still := after.ixMark[id]
		if still && now && !was && !in64(w.delIx, id) {
			fail("prune-wrong-mark", fmt.Sprintf("index %d was marked deleted in the catalogue by a pass that deleted %v", id, w.delIx),
				map[string]int64{"marked": int64(id), "shard_kind": 0}, before.igIxs[before.ixGroup[id]], w.delIx)
		}
		if !still && !was && !in64(w.delIx, id) {
			fail("group-dropped-with-live-shard", fmt.Sprintf("index group %d left the catalogue although its index %d was neither marked nor deleted", before.ixGroup[id], id),
				map[string]int64{"marked": int64(id), "shard_kind": 0}, before.igIxs[before.ixGroup[id]], w.delIx)
		}
	}
	// O4: a group all of whose unmarked shards were on this node, listed and expired is gone from the catalogue
	if ev.Kind == "tick" {
		for gid, members := range before.sgShards {
			all, any := true, false
			for _, id := range members {
				if before.shMark[id] {
					continue
				}
				any = true
				p, ok := shBefore[id]
				if !ok || !(p.d != 0 && p.b.end+p.d < ev.Now) {
					all = false
				}
			}
			if _, still := after.sgEnd[gid]; any && all && still {
				fail("group-kept", fmt.Sprintf("group %d still in the catalogue after the pass deleted all its remaining shards", gid),
					map[string]int64{"group": int64(gid)}, nil, nil)
			}
		}
	}
	if len(w.goneSh) > 0 || len(w.goneIx) > 0 {
		tr.Nontriv = true
	}
}

func genXTrace(r *gen.Rand, dir string, store bool) XTrace {
	hour := int64(time.Hour)
	base := int64(1700000000)*1e9 - (int64(1700000000)*1e9)%(24*hour)
	durs := []int64{0, hour, 2 * hour, 6 * hour, 24 * hour, 7 * 24 * hour}
	sgds := []int64{hour, 2 * hour, 3 * hour, 4 * hour, 24 * hour}
	npol := r.Range(1, 2)
	tr := XTrace{Mode: "ix", PtNum: r.Range(1, 2), Oracle: []XFail{}, Store: store}
	opening := r.Intn(7)
	if opening == 4 {
		tr.PtNum = 2
	}
	for i := 1; i <= npol; i++ {
		sgd := gen.Pick(r, sgds[:4])
		igd := sgd * int64(gen.Pick(r, []int{1, 1, 2, 2, 4}))
		d := gen.Pick(r, durs)
		if d != 0 && d < sgd {
			d = sgd
		}
		if i == 1 && opening == 4 && d == 0 {
			d = gen.Pick(r, []int64{sgd, 2 * sgd})
		}
		if i == 1 && opening == 3 { // one index group serves several shard groups of a limited policy
			igd = sgd * int64(gen.Pick(r, []int{2, 3, 4}))
			d = gen.Pick(r, []int64{sgd, 2 * sgd, 6 * hour, 24 * hour})
			if d < sgd {
				d = sgd
			}
		}
		tr.Policies = append(tr.Policies, [4]int64{int64(i), d, sgd, igd})
	}
	w := newXWorld(tr.Policies, tr.PtNum, dir, store)
	defer os.RemoveAll(dir)
	defer w.closeAll()
	n := r.Range(6, 18)
	var stamps []int64 // timestamps used so far (new groups are often aimed next to old ones)
	matd := map[uint64]bool{}
	// scripted openings (then random events follow): 1 = a policy whose shard duration is raised after its first group,
	// so that a later, longer group may be served by the older, shorter index group; 2 = partitions are added between
	// the creation of groups, so that id ranges interleave
	var script []XEvent
	switch opening {
	case 1:
		p := tr.Policies[0]
		t0 := base + int64(r.Range(-20, 20))*p[3]
		mult := int64(gen.Pick(r, []int{2, 3, 4}))
		nsgd := p[3] * mult
		nd := gen.Pick(r, []int64{nsgd, 2 * nsgd, 7 * 24 * hour})
		script = append(script, XEvent{Kind: "create", RP: 1, TS: t0 + int64(r.Intn(3000))*1e9},
			XEvent{Kind: "alter", RP: 1, SGD: &nsgd, D: &nd},
			XEvent{Kind: "create", RP: 1, TS: t0 + p[2] + int64(r.Intn(int(p[3]-p[2])/1e9+1))*1e9},
			XEvent{Kind: "mat", GID: 1, Loaded: r.Chance(3, 4)}, XEvent{Kind: "mat", GID: 2, Loaded: r.Chance(3, 4)})
		if r.Bool() {
			script[1], script[0] = script[0], script[1]
			script = script[1:]
		}
	case 3:
		// groups at the start and towards the end of one index group, both on the nodes; then a pass right after the first
		// group expired (the later group and the index must stay)
		p := tr.Policies[0]
		g := base + int64(r.Range(-20, 20))*p[3]
		k := p[3]/p[2] - 1
		script = append(script, XEvent{Kind: "create", RP: 1, TS: g + int64(r.Intn(3000))*1e9},
			XEvent{Kind: "create", RP: 1, TS: g + k*p[2] + int64(r.Intn(3000))*1e9},
			XEvent{Kind: "mat", GID: 1, Loaded: true}, XEvent{Kind: "mat", GID: 2, Loaded: r.Chance(3, 4)},
			XEvent{Kind: "tick", PT: 0, Now: g + p[2] + p[1] + gen.Pick(r, []int64{1, 2, hour / 2})})
		if r.Chance(1, 3) {
			script = append(script[:4], XEvent{Kind: "restart", PT: 0}, script[4])
		}
	case 4:
		// one node's pass marks an expired group deleted while the other node has not run yet (the group stays listed);
		// the duration is raised; late data for the same span arrives
		p := tr.Policies[0]
		g := base + int64(r.Range(-20, 20))*p[2]
		nd := gen.Pick(r, []int64{0, 7 * 24 * hour, 1000 * hour})
		script = append(script, XEvent{Kind: "create", RP: 1, TS: g + int64(r.Intn(1800))*1e9}, XEvent{Kind: "mat", GID: 1, Loaded: true},
			XEvent{Kind: "tick", PT: int64(r.Intn(2)), Now: g + p[2] + p[1] + gen.Pick(r, []int64{1, hour / 2})},
			XEvent{Kind: "alter", RP: 1, D: &nd}, XEvent{Kind: "create", RP: 1, TS: g + int64(1800+r.Intn(1700))*1e9})
	case 2:
		script = append(script, XEvent{Kind: "create", RP: 1, TS: base + int64(r.Range(-40, 40))*hour},
			XEvent{Kind: "create", RP: int64(r.Range(1, npol)), TS: base + int64(r.Range(-40, 40))*hour}, XEvent{Kind: "expand"},
			XEvent{Kind: "mat", GID: 1, Loaded: true}, XEvent{Kind: "mat", GID: 2, Loaded: r.Chance(3, 4)})
	}
	n += len(script)
	for i := 0; i < n; i++ {
		var ev XEvent
		k := r.Intn(20)
		if len(script) > 0 {
			k = -1
		}
		nsg := 0
		for _, rp := range w.data.Databases[db].RetentionPolicies {
			nsg += len(rp.ShardGroups)
		}
		switch {
		case k < 0:
			ev, script = script[0], script[1:]
			if ev.Kind == "mat" {
				if matd[uint64(ev.GID)] || !w.canMat(uint64(ev.GID)) {
					continue
				}
				matd[uint64(ev.GID)] = true
			}
			if ev.Kind == "create" {
				stamps = append(stamps, ev.TS)
			}
		case k < 5 || nsg == 0:
			ts := base + int64(r.Range(-40, 40))*hour + int64(r.Intn(3600))*1e9
			if len(stamps) > 0 && r.Chance(1, 2) {
				ts = gen.Pick(r, stamps) + int64(r.Range(-5, 5))*hour
			}
			stamps = append(stamps, ts)
			ev = XEvent{Kind: "create", RP: int64(r.Range(1, npol)), TS: ts}
		case k < 8:
			var cands []uint64
			for _, rp := range w.data.Databases[db].RetentionPolicies {
				for _, sg := range rp.ShardGroups {
					if !matd[sg.ID] && w.canMat(sg.ID) {
						cands = append(cands, sg.ID)
					}
				}
			}
			if len(cands) == 0 {
				continue
			}
			sort.Slice(cands, func(i, j int) bool { return cands[i] < cands[j] })
			g := gen.Pick(r, cands)
			matd[g] = true
			ev = XEvent{Kind: "mat", GID: int64(g), Loaded: r.Chance(3, 4)}
		case k < 11:
			ev = XEvent{Kind: "alter", RP: int64(r.Range(1, npol))}
			what := r.Intn(6)
			if what == 0 || what == 3 || what == 5 {
				d := gen.Pick(r, durs)
				if r.Chance(1, 8) {
					d = gen.Pick(r, []int64{hour / 2, hour - 1, 90 * int64(time.Minute)})
				}
				ev.D = &d
			}
			if what == 1 || what == 3 || what == 4 {
				s := gen.Pick(r, sgds)
				if r.Chance(1, 8) {
					s = gen.Pick(r, []int64{0, hour / 2, 90 * int64(time.Minute)})
				}
				ev.SGD = &s
			}
			if what == 2 || what == 4 || what == 5 {
				g := gen.Pick(r, []int64{hour, 2 * hour, 3 * hour, 5 * hour, 8 * hour, 24 * hour, 0})
				ev.IGD = &g
			}
		case k < 12:
			if len(w.nodes) >= 4 {
				continue
			}
			ev = XEvent{Kind: "expand"}
		case k < 13:
			ev = XEvent{Kind: "restart", PT: int64(r.Intn(len(w.nodes)))}
		default:
			// clock aimed at the expiry instant of some shard group or index group under its policy's current duration
			type tgt struct{ end, d int64 }
			var ts []tgt
			for _, rp := range w.data.Databases[db].RetentionPolicies {
				for _, sg := range rp.ShardGroups {
					ts = append(ts, tgt{sg.EndTime.UnixNano(), int64(rp.Duration)})
				}
				for _, ig := range rp.IndexGroups {
					ts = append(ts, tgt{ig.EndTime.UnixNano(), int64(rp.Duration)})
				}
			}
			sort.Slice(ts, func(i, j int) bool { return ts[i].end < ts[j].end || (ts[i].end == ts[j].end && ts[i].d < ts[j].d) })
			t := gen.Pick(r, ts)
			if t.d == 0 || r.Chance(1, 6) {
				t.d = gen.Pick(r, durs)
			}
			off := []int64{-hour, -1, 0, 1, 2, hour / 2, hour, 1000 * hour}[r.Intn(8)]
			ev = XEvent{Kind: "tick", PT: int64(r.Intn(len(w.nodes))), Now: t.end + t.d + off}
			if r.Chance(2, 5) { // the index decisions are taken a little later than the shard decisions
				ev.Now2 = ev.Now + gen.Pick(r, []int64{1, 1, 2, 1000, int64(time.Second), hour / 2})
			}
			if r.Chance(1, 8) {
				ev.Kind, ev.Fail = "tickfail", r.Range(1, 2)
			}
		}
		w.apply(ev, &tr)
	}
	w.finish(&tr)
	return tr
}

// apply runs one event on the real code and records it
func (w *xworld) apply(ev XEvent, tr *XTrace) {
	ok := true
	w.delSh, w.goneSh, w.delIx, w.goneIx = nil, nil, nil, nil
	switch ev.Kind {
	case "create":
		ts := time.Unix(0, ev.TS).UTC()
		_ = w.data.CreateShardGroup(db, rpName(ev.RP), ts, 0, config.TSSTORE, 0)
		// the writer then routes the point into the group this lookup returns (metaclient.Client.CreateShardGroup) and
		// acknowledges it. Direct oracle: a point inside the retention window (at the last clock reading) that is routed
		// somewhere must lie in a group the read path consults for its timestamp.
		rpi := w.data.Databases[db].RetentionPolicies[rpName(ev.RP)]
		if g := rpi.ShardGroupByTimestampAndEngineType(ts, config.TSSTORE); g != nil {
			read, _ := w.data.ShardGroupsByTimeRange(db, rpName(ev.RP), ts, ts)
			seen := false
			for i := range read {
				if read[i].ID == g.ID {
					seen = true
				}
			}
			d := w.want[ev.RP]
			if !seen && (d == 0 || w.lastNow == 0 || ev.TS >= w.lastNow-d) {
				tr.Oracle = append(tr.Oracle, XFail{Kind: "acknowledged-point-unreadable", Event: len(tr.Events),
					Msg: fmt.Sprintf("a point at %d (inside the window of d=%d at clock %d) is routed into shard group %d (marked deleted: %v), which no read of that timestamp consults",
						ev.TS, d, w.lastNow, g.ID, g.Deleted()),
					Facts: map[string]int64{"ts": ev.TS, "group": int64(g.ID), "d": d, "now": w.lastNow, "deleted": b2i(g.Deleted())}})
			}
		}
	case "mat":
		w.mat(uint64(ev.GID), ev.Loaded)
	case "alter":
		u := &meta.RetentionPolicyUpdate{}
		if ev.D != nil {
			d := time.Duration(*ev.D)
			u.Duration = &d
		}
		if ev.SGD != nil {
			d := time.Duration(*ev.SGD)
			u.ShardGroupDuration = &d
		}
		if ev.IGD != nil {
			d := time.Duration(*ev.IGD)
			u.IndexGroupDuration = &d
		}
		err := w.data.UpdateRetentionPolicy(db, rpName(ev.RP), u, false)
		ok = err == nil
		if ok {
			rp := w.data.Databases[db].RetentionPolicies[rpName(ev.RP)]
			if ev.D != nil {
				w.want[ev.RP] = *ev.D
				if int64(rp.Duration) != *ev.D {
					tr.Oracle = append(tr.Oracle, XFail{Kind: "alter-ignored", Event: len(tr.Events),
						Msg:   fmt.Sprintf("ALTER of policy %d to duration %d accepted but the catalogue holds %d", ev.RP, *ev.D, int64(rp.Duration)),
						Facts: map[string]int64{"rp": ev.RP, "d": *ev.D, "got": int64(rp.Duration)}})
				}
			}
		}
	case "expand":
		w.data.ClusterPtNum++
		w.data.ExpandGroups()
		w.addNode()
	case "restart":
		w.restart(uint32(ev.PT))
	case "tick", "tickfail":
		w.tick(&ev, len(tr.Events), tr)
	}
	tr.Events = append(tr.Events, ev)
	tr.Obs = append(tr.Obs, w.obs(ok))
}

func (w *xworld) finish(tr *XTrace) {
	// did an index serve more than one shard group?
	use := map[uint64]map[uint64]bool{}
	for _, rp := range w.data.Databases[db].RetentionPolicies {
		for _, sg := range rp.ShardGroups {
			for _, sh := range sg.Shards {
				if use[sh.IndexID] == nil {
					use[sh.IndexID] = map[uint64]bool{}
				}
				use[sh.IndexID][sg.ID] = true
			}
		}
	}
	for _, m := range use {
		if len(m) > 1 {
			tr.Shared = true
		}
	}
}

func runIx(n int) {
	root := os.Getenv("VERIF_WORK")
	if root == "" {
		root, _ = os.MkdirTemp("", "c14ix")
	}
	root = filepath.Join(root, fmt.Sprintf("c14ix-%d", os.Getpid()))
	defer os.RemoveAll(root)
	r := gen.FromEnv(1414)
	for i := 0; i < n; i++ {
		// every third trace (every sixth in the thorough tier) creates and reopens its indexes through the store's own code
		every := 3
		if gen.Tier() == "thorough" {
			every = 6
		}
		gen.Emit(genXTrace(r.Fork(), filepath.Join(root, fmt.Sprint(i)), i%every == 0))
	}
}

// runIxReplay executes the given traces (objects with policies / ptnum / events, one per line or a JSON array in a
// file) on the real code and emits them with observations and oracle verdicts, like generated ones.
func runIxReplay(path string) {
	raw, err := os.ReadFile(path)
	if err != nil {
		fmt.Fprintln(os.Stderr, err)
		os.Exit(2)
	}
	var ins []XTrace
	if err := json.Unmarshal(raw, &ins); err != nil {
		var one XTrace
		if err2 := json.Unmarshal(raw, &one); err2 != nil {
			fmt.Fprintln(os.Stderr, err, err2)
			os.Exit(2)
		}
		ins = []XTrace{one}
	}
	root := os.Getenv("VERIF_WORK")
	if root == "" {
		root, _ = os.MkdirTemp("", "c14ix")
	}
	root = filepath.Join(root, fmt.Sprintf("c14ixr-%d", os.Getpid()))
	defer os.RemoveAll(root)
	for i, in := range ins {
		tr := XTrace{Mode: "ix", Policies: in.Policies, PtNum: in.PtNum, Oracle: []XFail{}, Store: true}
		w := newXWorld(tr.Policies, tr.PtNum, filepath.Join(root, fmt.Sprint(i)), true)
		for _, ev := range in.Events {
			if ev.Kind == "mat" && !w.canMat(uint64(ev.GID)) {
				continue
			}
			if (ev.Kind == "tick" || ev.Kind == "tickfail" || ev.Kind == "restart") && int(ev.PT) >= len(w.nodes) {
				continue
			}
			w.apply(ev, &tr)
		}
		w.finish(&tr)
		w.closeAll()
		gen.Emit(tr)
	}
}
