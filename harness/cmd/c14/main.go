// C14 correspondence harness: drives the real retention code (engine.ExpiredShards / IsExpired /
// nilShardIsExpired, retention.Service.handle, meta.Data.DurationInfos / DeleteShardGroup / PruneGroups /
// UpdateRetentionPolicy) over generated event traces under a controlled clock and prints, per trace, the events
// and the observables after every event. The Coq model is evaluated on the same traces by the driver.
package main

import (
	"flag"
	"fmt"
	"os"
	"sort"
	"strconv"
	"time"

	"github.com/agiledragon/gomonkey/v2"
	"github.com/openGemini/openGemini/engine"
	"github.com/openGemini/openGemini/lib/errno"
	"github.com/openGemini/openGemini/lib/util/lifted/influx/meta"
	"github.com/openGemini/openGemini/services/retention"
	"verifharness/internal/gen"
)

const db = "db0"

var fakeNow time.Time

type Event struct {
	Kind   string  `json:"kind"`           // tick tickfail alter addgroup restart
	Fail   int     `json:"fail,omitempty"` // tickfail: 1 = shard-duration refresh fails, 2 = index-duration refresh fails
	Now    int64   `json:"now,omitempty"`
	RP     int64   `json:"rp,omitempty"`
	D      int64   `json:"d,omitempty"`
	GID    int64   `json:"gid,omitempty"`
	Start  int64   `json:"start,omitempty"`
	End    int64   `json:"end,omitempty"`
	Shards []int64 `json:"shards,omitempty"`
	Loaded bool    `json:"loaded,omitempty"`
}

type GObs struct {
	ID      int64      `json:"id"`
	Deleted bool       `json:"deleted"`
	Shards  [][2]int64 `json:"shards"` // (id, markdel 0/1)
}
type Obs struct {
	Node   []int64 `json:"node"`
	Groups []GObs  `json:"groups"`
}

type Trace struct {
	Policies [][2]int64 `json:"policies"` // (rp id, duration ns)
	Events   []Event    `json:"events"`
	Obs      []Obs      `json:"obs"`
	Oracle   []string   `json:"oracle"` // direct-oracle failures (property statement on the implementation)
	Nontriv  bool       `json:"nontrivial"`
}

// ---- world on the real code ----
type world struct {
	data                         *meta.Data
	eng                          *engine.EngineImpl
	unloaded                     map[uint64]bool // shards of the node that are on disk but not opened
	svc                          *retention.Service
	ends                         map[uint64]int64
	rpOf                         map[uint64]int64
	deleted                      []uint64        // shards deleted by the last tick
	failShardInfo, failIndexInfo bool            // fault injection for one pass
	want                         map[int64]int64 // policy durations as acknowledged to the client (successful ALTERs)
}

type metaStub struct{ w *world }

func (m metaStub) PruneGroupsCommand(sg bool, id uint64) error { return m.w.data.PruneGroups(sg, id) }
func (m metaStub) GetShardDurationInfo(index uint64) (*meta.ShardDurationResponse, error) {
	if m.w.failShardInfo {
		return nil, errno.NewError(errno.DataIsOlder)
	}
	return m.w.data.DurationInfos(map[string][]uint32{db: {0}}), nil
}
func (m metaStub) GetIndexDurationInfo(index uint64) (*meta.IndexDurationResponse, error) {
	if m.w.failIndexInfo {
		return nil, errno.NewError(errno.DataIsOlder)
	}
	return &meta.IndexDurationResponse{}, nil
}
func (m metaStub) DeleteShardGroup(database, policy string, id uint64, deleteType int32) error {
	return m.w.data.DeleteShardGroup(database, policy, id, 0, deleteType)
}
func (m metaStub) DeleteIndexGroup(database, policy string, id uint64) error { return nil }
func (m metaStub) DelayDeleteShardGroup(database, policy string, id uint64, deletedAt time.Time, deleteType int32) error {
	return nil
}
func (m metaStub) GetExpiredShards() ([]meta.ExpiredShardInfos, []meta.ExpiredShardInfos) {
	return nil, nil
}
func (m metaStub) GetExpiredIndexes() []meta.ExpiredIndexInfos { return nil }

type engStub struct{ w *world }

func (e engStub) DeleteIndex(db string, ptId uint32, indexID uint64) error { return nil }
func (e engStub) UpdateShardDurationInfo(info *meta.ShardDurationInfo, nilShardMap *map[uint64]*meta.ShardDurationInfo) error {
	return e.w.eng.UpdateShardDurationInfo(info, nilShardMap)
}
func (e engStub) UpdateIndexDurationInfo(info *meta.IndexDurationInfo, nilIndexMap *map[uint64]*meta.IndexDurationInfo) error {
	return nil
}
func (e engStub) ExpiredShards(nilShardMap *map[uint64]*meta.ShardDurationInfo) []*meta.ShardIdentifier {
	return e.w.eng.ExpiredShards(nilShardMap)
}
func (e engStub) ExpiredIndexes(nilIndexMap *map[uint64]*meta.IndexDurationInfo) []*meta.IndexIdentifier {
	return nil
}
func (e engStub) ExpiredCacheIndexes() []*meta.IndexIdentifier { return nil }
func (e engStub) DeleteShard(dbn string, ptId uint32, shardID uint64) error {
	if e.w.eng.VerifRemoveShard(dbn, ptId, shardID) {
		e.w.deleted = append(e.w.deleted, shardID)
		return nil
	}
	if e.w.unloaded[shardID] {
		delete(e.w.unloaded, shardID)
		e.w.deleted = append(e.w.deleted, shardID)
		return nil
	}
	return errno.NewError(errno.ShardNotFound, shardID)
}
func (e engStub) ClearIndexCache(db string, ptId uint32, indexID uint64) error { return nil }

func rpName(id int64) string { return "rp" + strconv.FormatInt(id, 10) }

func newWorld(pols [][2]int64) *world {
	w := &world{unloaded: map[uint64]bool{}, ends: map[uint64]int64{}, rpOf: map[uint64]int64{}, want: map[int64]int64{}}
	for _, p := range pols {
		w.want[p[0]] = p[1]
	}
	w.data = &meta.Data{Databases: map[string]*meta.DatabaseInfo{}}
	dbi := &meta.DatabaseInfo{Name: db, RetentionPolicies: map[string]*meta.RetentionPolicyInfo{}}
	for _, p := range pols {
		dbi.RetentionPolicies[rpName(p[0])] = &meta.RetentionPolicyInfo{Name: rpName(p[0]), Duration: time.Duration(p[1]),
			ShardGroupDuration: time.Hour, IndexGroupDuration: time.Hour, ReplicaN: 1}
	}
	w.data.Databases[db] = dbi
	w.eng = engine.VerifNewRetentionEngine(db, 0)
	w.svc = retention.NewService(time.Hour)
	w.svc.MetaClient = metaStub{w}
	w.svc.Engine = engStub{w}
	return w
}

func (w *world) polDur(rp int64) (int64, bool) {
	p, ok := w.data.Databases[db].RetentionPolicies[rpName(rp)]
	if !ok {
		return 0, false
	}
	return int64(p.Duration), true
}

func (w *world) obs() Obs {
	o := Obs{Node: []int64{}, Groups: []GObs{}}
	for _, id := range w.eng.VerifShardIDs(db, 0) {
		o.Node = append(o.Node, int64(id))
	}
	for id := range w.unloaded {
		o.Node = append(o.Node, int64(id))
	}
	sort.Slice(o.Node, func(i, j int) bool { return o.Node[i] < o.Node[j] })
	for _, rp := range w.data.Databases[db].RetentionPolicies {
		for _, sg := range rp.ShardGroups {
			g := GObs{ID: int64(sg.ID), Deleted: !sg.DeletedAt.IsZero(), Shards: [][2]int64{}}
			for _, sh := range sg.Shards {
				m := int64(0)
				if sh.MarkDelete {
					m = 1
				}
				g.Shards = append(g.Shards, [2]int64{int64(sh.ID), m})
			}
			o.Groups = append(o.Groups, g)
		}
	}
	sort.Slice(o.Groups, func(i, j int) bool { return o.Groups[i].ID < o.Groups[j].ID })
	return o
}

func (w *world) groupExists(gid uint64) bool {
	for _, rp := range w.data.Databases[db].RetentionPolicies {
		for _, sg := range rp.ShardGroups {
			if sg.ID == gid {
				return true
			}
		}
	}
	return false
}

func (w *world) listed(sid uint64) bool {
	for _, rp := range w.data.Databases[db].RetentionPolicies {
		for _, sg := range rp.ShardGroups {
			for _, sh := range sg.Shards {
				if sh.ID == sid {
					return true
				}
			}
		}
	}
	return false
}

// apply one event on the real code; returns direct-oracle failures
func (w *world) apply(ev *Event) (fails []string, ok bool) {
	switch ev.Kind {
	case "addgroup":
		rp := w.data.Databases[db].RetentionPolicies[rpName(ev.RP)]
		sg := meta.ShardGroupInfo{ID: uint64(ev.GID), StartTime: time.Unix(0, ev.Start).UTC(), EndTime: time.Unix(0, ev.End).UTC()}
		for _, s := range ev.Shards {
			sg.Shards = append(sg.Shards, meta.ShardInfo{ID: uint64(s), Owners: []uint32{0}})
			w.ends[uint64(s)] = ev.End
			w.rpOf[uint64(s)] = ev.RP
			if ev.Loaded {
				w.eng.VerifAddShard(db, 0, engine.VerifShardSpec{ID: uint64(s), GroupID: uint64(ev.GID), Policy: rpName(ev.RP),
					End: time.Unix(0, ev.End).UTC(), Duration: rp.Duration})
			} else {
				w.unloaded[uint64(s)] = true
			}
		}
		rp.ShardGroups = append(rp.ShardGroups, sg)
		return nil, true
	case "alter":
		d := time.Duration(ev.D)
		err := w.data.UpdateRetentionPolicy(db, rpName(ev.RP), &meta.RetentionPolicyUpdate{Duration: &d}, false)
		if err == nil {
			w.want[ev.RP] = ev.D
			if got, _ := w.polDur(ev.RP); got != ev.D {
				fails = append(fails, fmt.Sprintf("ALTER of policy %d to duration %d was accepted but the catalogue holds %d", ev.RP, ev.D, got))
			}
		}
		return fails, err == nil
	case "restart":
		for _, id := range w.eng.VerifShardIDs(db, 0) {
			w.unloaded[id] = true
		}
		w.eng = engine.VerifNewRetentionEngine(db, 0)
		return nil, true
	case "tick", "tickfail":
		w.failShardInfo = ev.Kind == "tickfail" && ev.Fail == 1
		w.failIndexInfo = ev.Kind == "tickfail" && ev.Fail == 2
		defer func() { w.failShardInfo, w.failIndexInfo = false, false }()
		fakeNow = time.Unix(0, ev.Now).UTC()
		// snapshot what the statement speaks about, before the step
		type pre struct {
			end, d int64
			hasPol bool
			listed bool
		}
		before := map[uint64]pre{}
		all := append([]uint64{}, w.eng.VerifShardIDs(db, 0)...)
		for id := range w.unloaded {
			all = append(all, id)
		}
		for _, id := range all {
			d, okp := w.want[w.rpOf[id]]
			before[id] = pre{w.ends[id], d, okp, w.listed(id)}
		}
		groupsBefore := map[uint64][]uint64{}
		for _, rp := range w.data.Databases[db].RetentionPolicies {
			for _, sg := range rp.ShardGroups {
				for _, sh := range sg.Shards {
					if !sh.MarkDelete {
						groupsBefore[sg.ID] = append(groupsBefore[sg.ID], sh.ID)
					}
				}
			}
		}
		w.deleted = nil
		w.svc.VerifHandle()
		gone := map[uint64]bool{}
		for _, id := range w.deleted {
			gone[id] = true
		}
		for id, p := range before {
			exp := p.d != 0 && p.end+p.d < ev.Now
			if gone[id] && p.listed && p.hasPol && !exp {
				fails = append(fails, fmt.Sprintf("shard %d deleted at now=%d although end=%d d=%d (not expired under the policy in force)", id, ev.Now, p.end, p.d))
			}
			if ev.Kind == "tick" && !gone[id] && p.listed && p.hasPol && exp {
				fails = append(fails, fmt.Sprintf("shard %d kept at now=%d although end=%d d=%d is expired (no eventual removal)", id, ev.Now, p.end, p.d))
			}
		}
		// catalogue side: a group of a limited policy, all of whose shards were on this node, listed and expired
		// before the step, must be gone from the catalogue after it
		for gid, members := range groupsBefore {
			allExp := len(members) > 0 && ev.Kind == "tick"
			for _, id := range members {
				p, okb := before[id]
				if !okb || !(p.listed && p.hasPol && p.d != 0 && p.end+p.d < ev.Now) {
					allExp = false
				}
			}
			if allExp && w.groupExists(gid) {
				fails = append(fails, fmt.Sprintf("group %d still in the catalogue after tick now=%d although all its shards were expired and deleted", gid, ev.Now))
			}
		}
		return fails, true
	}
	panic("bad event")
}

func genTrace(r *gen.Rand) Trace {
	hour := int64(time.Hour)
	base := int64(1700000000) * 1e9
	durs := []int64{0, hour, 2 * hour, 24 * hour, 7 * 24 * hour}
	npol := r.Range(1, 3)
	tr := Trace{}
	for i := 1; i <= npol; i++ {
		tr.Policies = append(tr.Policies, [2]int64{int64(i), gen.Pick(r, durs)})
	}
	w := newWorld(tr.Policies)
	nextSid, nextGid := int64(1), int64(1)
	type ginfo struct{ end, rp int64 }
	var gs []ginfo
	n := r.Range(4, 14)
	for i := 0; i < n; i++ {
		var ev Event
		k := r.Intn(10)
		switch {
		case k < 3 || len(gs) == 0:
			rp := int64(r.Range(1, npol))
			start := base + int64(r.Range(-200, 200))*hour
			ns := r.Range(1, 3)
			ev = Event{Kind: "addgroup", RP: rp, GID: nextGid, Start: start, End: start + hour, Loaded: r.Chance(2, 3)}
			for j := 0; j < ns; j++ {
				ev.Shards = append(ev.Shards, nextSid)
				nextSid++
			}
			// occasionally leave a gap in the id space, as real catalogues have
			if r.Chance(1, 4) {
				nextSid += int64(r.Range(1, 3))
			}
			nextGid++
			gs = append(gs, ginfo{ev.End, rp})
		case k < 5:
			ev = Event{Kind: "alter", RP: int64(r.Range(1, npol)), D: gen.Pick(r, durs)}
		case k < 6:
			ev = Event{Kind: "restart"}
		default:
			// clock reading aimed at a boundary of some group under its policy's current duration
			g := gen.Pick(r, gs)
			d, _ := w.polDur(g.rp)
			if d == 0 || r.Chance(1, 5) {
				d = gen.Pick(r, durs)
			}
			off := []int64{-hour, -1, 0, 1, 2, hour, 1000 * hour}[r.Intn(7)]
			ev = Event{Kind: "tick", Now: g.end + d + off}
			if r.Chance(1, 6) {
				ev.Kind, ev.Fail = "tickfail", r.Range(1, 2)
			}
		}
		fails, ok := w.apply(&ev)
		if !ok { // rejected alteration: identity on both sides, not part of the model trace
			continue
		}
		if (ev.Kind == "tick" || ev.Kind == "tickfail") && len(w.deleted) > 0 {
			tr.Nontriv = true
		}
		tr.Events = append(tr.Events, ev)
		tr.Obs = append(tr.Obs, w.obs())
		tr.Oracle = append(tr.Oracle, fails...)
	}
	return tr
}

func main() {
	n := 300
	if gen.Tier() == "thorough" {
		n = 6000
	}
	mode := "node"
	if len(os.Args) > 1 {
		if v, err := strconv.Atoi(os.Args[1]); err == nil {
			n = v
		} else {
			mode = os.Args[1]
			if len(os.Args) > 2 {
				n, _ = strconv.Atoi(os.Args[2])
			}
		}
	}
	if mode == "wa" { // runs under the real (coarse) coordinator clock: no patch
		runWA(n)
		return
	}
	p := gomonkey.ApplyFunc(time.Now, func() time.Time { return fakeNow })
	defer p.Reset()
	fakeNow = time.Unix(12345, 0)
	if !time.Now().Equal(fakeNow) {
		fmt.Fprintln(os.Stderr, "clock patch not effective")
		os.Exit(3)
	}
	// self-test of the patch through the real code path
	e := engine.VerifNewRetentionEngine(db, 0)
	if !e.VerifNilShardIsExpired(time.Second, time.Unix(12343, 0)) || e.VerifNilShardIsExpired(time.Second, time.Unix(12344, 0)) {
		fmt.Fprintln(os.Stderr, "clock patch not seen by engine code")
		os.Exit(3)
	}
	flag.CommandLine.Parse(nil) // the mergeset index asks lib/memory, which insists on parsed flags
	switch mode {
	case "ix":
		runIx(n)
		return
	case "ttl":
		runTTL(n)
		return
	case "lk":
		runLK(n)
		return
	case "ixreplay":
		runIxReplay(os.Args[2])
		return
	}
	r := gen.FromEnv(14)
	for i := 0; i < n; i++ {
		gen.Emit(genTrace(r.Fork()))
	}
}
