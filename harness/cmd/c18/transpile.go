package main

// White-box tie for the by/without model: a comparison filter or an arithmetic operation between an aggregation and
// a scalar must leave the grouping of the aggregation untouched (the Coq model says the result label sets of
// `agg by/without (G) (v) <op> scalar` are those of `agg by/without (G) (v)`). The repository's own transpiler is run
// on the operand and on the whole expression and the grouping (Without flag + dimensions) of the two statements is
// compared. A difference that the black-box oracle does not see is reported as a broken correspondence.

import (
	"fmt"
	"sort"
	"strings"
	"time"

	"github.com/openGemini/openGemini/lib/util/lifted/influx/influxql"
	"github.com/openGemini/openGemini/lib/util/lifted/promql2influxql"
	"github.com/prometheus/prometheus/promql/parser"
)

func groupingOf(expr string, tms int64) (string, error) {
	e, err := parser.ParseExpr(expr)
	if err != nil {
		return "", err
	}
	ts := time.UnixMilli(tms)
	tr := &promql2influxql.Transpiler{PromCommand: promql2influxql.PromCommand{
		Cmd: expr, Database: "prom", Evaluation: &ts, LookBackDelta: time.Duration(lookbackMs) * time.Millisecond}}
	n, err := tr.Transpile(e)
	if err != nil {
		return "", err
	}
	st, ok := n.(*influxql.SelectStatement)
	if !ok {
		return "", fmt.Errorf("not a select statement: %T", n)
	}
	var dims []string
	for _, d := range st.Dimensions {
		if _, isCall := d.Expr.(*influxql.Call); isCall {
			continue // time bucketing, not a label
		}
		dims = append(dims, d.String())
	}
	sort.Strings(dims)
	return fmt.Sprintf("without=%v dims=[%s]", st.Without, strings.Join(dims, ",")), nil
}

func isScalarLit(s string) bool {
	e, err := parser.ParseExpr(s)
	if err != nil {
		return false
	}
	_, ok := e.(*parser.NumberLiteral)
	if u, isU := e.(*parser.UnaryExpr); isU {
		_, ok = u.Expr.(*parser.NumberLiteral)
	}
	return ok
}

// groupingTie returns "" if the tie holds or does not apply, otherwise a description.
func groupingTie(e *exprCase, tms int64) string {
	if e.Form != "binop" || strings.Contains(e.BinOp, " on ") || strings.Contains(e.BinOp, "ignoring") {
		return ""
	}
	var vec string
	switch {
	case isScalarLit(e.Inner2) && !isScalarLit(e.Inner):
		vec = e.Inner
	case isScalarLit(e.Inner) && !isScalarLit(e.Inner2):
		vec = e.Inner2
	default:
		return ""
	}
	a, err1 := groupingOf(vec, tms)
	b, err2 := groupingOf(e.Expr, tms)
	if err1 != nil || err2 != nil {
		return "" // the black-box oracle judges expressions the transpiler rejects
	}
	if strings.HasSuffix(a, "dims=[]") {
		// `without ()` / `by ()`: the operand's statement carries no label dimension; the transpiler copies the Without
		// flag together with the dimensions (only when there are any), and the filter statement, which has no aggregate
		// call, passes the chunk tags through: nothing to tie (black-box oracle only)
		return ""
	}
	if a != b {
		return fmt.Sprintf("operand %q transpiles with grouping {%s} but %q with {%s}", vec, a, e.Expr, b)
	}
	return ""
}
