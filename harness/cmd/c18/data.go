package main

// Sample-set generator: counters with resets, gauges (also negative / fractional), gaps longer than the look-back
// window, series that start late or end early, irregular scrape times (jittered and exact), optional stale markers.

import (
	"encoding/json"
	"fmt"
	"math"
	"sort"
	"strconv"

	"verifharness/internal/gen"
)

const (
	baseMs     = int64(1700000000000) // 2023-11-14T22:13:20Z, a multiple of 1000
	lookbackMs = int64(300000)
)

type sample struct {
	T int64   `json:"t"`
	V float64 `json:"v"`
}

// JSON: finite values are numbers; NaN, +Inf, -Inf and the staleness marker are the strings "NaN" "+Inf" "-Inf" "stale"
func (p sample) MarshalJSON() ([]byte, error) {
	var v string
	switch {
	case isStale(p.V):
		v = `"stale"`
	case math.IsNaN(p.V):
		v = `"NaN"`
	case math.IsInf(p.V, 1):
		v = `"+Inf"`
	case math.IsInf(p.V, -1):
		v = `"-Inf"`
	default:
		v = strconv.FormatFloat(p.V, 'g', -1, 64)
	}
	return []byte(fmt.Sprintf(`{"t":%d,"v":%s}`, p.T, v)), nil
}

func (p *sample) UnmarshalJSON(b []byte) error {
	var raw struct {
		T int64           `json:"t"`
		V json.RawMessage `json:"v"`
	}
	if err := json.Unmarshal(b, &raw); err != nil {
		return err
	}
	p.T = raw.T
	switch string(raw.V) {
	case `"stale"`:
		p.V = staleNaN
	case `"NaN"`:
		p.V = math.NaN()
	case `"+Inf"`:
		p.V = math.Inf(1)
	case `"-Inf"`:
		p.V = math.Inf(-1)
	default:
		return json.Unmarshal(raw.V, &p.V)
	}
	return nil
}

type series struct {
	Labels  map[string]string `json:"labels"`
	Samples []sample          `json:"samples"`
	Kind    string            `json:"kind"` // counter | gauge
}

// staleNaN is the bit pattern Prometheus uses as staleness marker (model/value.StaleNaN)
var staleNaN = math.Float64frombits(0x7ff0000000000002)

func isStale(v float64) bool { return math.Float64bits(v) == 0x7ff0000000000002 }

type dataset struct {
	DB      string   `json:"db"`
	Series  []series `json:"series"`
	SpanMs  int64    `json:"span_ms"`
	Dense   bool     `json:"dense"`
	Special bool     `json:"special,omitempty"`
	Flushes int      `json:"flushes"`
	// ingestion layout: the samples are written in Slices time slices with a flush after each but the last,
	// and after the last one iff FinalFlush
	Slices     int  `json:"slices"`
	FinalFlush bool `json:"final_flush"`
}

var (
	jobs      = []string{"api", "web", "db"}
	instances = []string{"i0", "i1", "i2"}
	envs      = []string{"prod", "dev"}
	zones     = []string{"", "eu-1", "us-2"} // "" = label absent
)

type metricDef struct {
	name string
	kind string
}

var metrics = []metricDef{
	{"http_requests_total", "counter"},
	{"mem_usage", "gauge"},
	{"mem_limit", "gauge"},
	{"temp_delta", "gauge"},
}

// quarter returns k/4 as an exactly representable float.
func quarter(k int) float64 { return float64(k) / 4 }

// special: gauges carry NaN / +Inf / -Inf sample values and series carry staleness markers (a marker in the middle
// of a series, or as its last sample)
func genDataset(r *gen.Rand, db string, dense bool, special bool) dataset {
	ds := dataset{DB: db, Dense: dense, Special: special}
	span := int64(r.Range(20, 60)) * 60000
	interval := int64(gen.Pick(r, []int{5000, 10000, 15000, 15000, 30000}))
	if dense {
		// many samples per series so that the storage layer hands the cursors several records per series
		span = int64(r.Range(50, 70)) * 60000
		interval = 1000
	}
	ds.SpanMs = span
	for _, m := range metrics {
		if dense && m.name != "http_requests_total" && m.name != "mem_usage" {
			continue
		}
		for _, job := range jobs {
			for _, inst := range instances {
				if r.Chance(1, 3) {
					continue
				}
				if dense && !(r.Chance(1, 3)) {
					continue
				}
				lb := map[string]string{"__name__": m.name, "job": job, "instance": inst, "env": gen.Pick(r, envs)}
				if z := gen.Pick(r, zones); z != "" {
					lb["zone"] = z
				}
				s := series{Labels: lb, Kind: m.kind}
				// life span of the series
				start, end := int64(0), span
				if r.Chance(1, 4) {
					start = int64(r.Intn(int(span / 2)))
				}
				if r.Chance(1, 4) {
					end = span - int64(r.Intn(int(span/2)))
				}
				// gaps longer than the look-back window
				type gap struct{ lo, hi int64 }
				var gaps []gap
				for g := 0; g < r.Intn(3); g++ {
					lo := int64(r.Intn(int(span)))
					gaps = append(gaps, gap{lo, lo + lookbackMs + int64(r.Intn(400000))})
				}
				jitter := r.Chance(2, 3)
				weird := special && r.Chance(1, 2)
				val := float64(r.Intn(50))
				if m.kind == "gauge" {
					val = quarter(r.Range(-40, 400))
				}
				last := int64(-1)
				for t := start; t <= end; t += interval {
					ts := t
					if jitter && !r.Chance(1, 5) {
						ts += int64(r.Intn(int(interval/2))) - interval/4
					}
					if ts <= last || ts < 0 {
						continue
					}
					inGap := false
					for _, g := range gaps {
						if ts >= g.lo && ts <= g.hi {
							inGap = true
						}
					}
					// advance the value even inside gaps so that counters jump over gaps
					if m.kind == "counter" {
						if r.Chance(1, 25) {
							val = float64(r.Intn(5)) // reset
						} else if !r.Chance(1, 6) {
							val += float64(r.Intn(20))
						}
					} else {
						switch r.Intn(5) {
						case 0:
						case 1:
							val = quarter(r.Range(-40, 400))
						default:
							val += quarter(r.Range(-12, 12))
						}
					}
					if inGap {
						continue
					}
					v := val
					if special && weird {
						switch {
						case m.kind == "gauge" && r.Chance(1, 25):
							v = []float64{math.NaN(), math.Inf(1), math.Inf(-1)}[r.Intn(3)]
						case r.Chance(1, 40):
							v = staleNaN
						}
					}
					s.Samples = append(s.Samples, sample{T: baseMs + ts, V: v})
					last = ts
				}
				if special && weird && len(s.Samples) > 2 && r.Chance(1, 2) {
					s.Samples[len(s.Samples)-1].V = staleNaN // the series ends with a staleness marker
				}
				if len(s.Samples) > 0 {
					ds.Series = append(ds.Series, s)
				}
			}
		}
	}
	sort.SliceStable(ds.Series, func(i, j int) bool { return labelKey(ds.Series[i].Labels) < labelKey(ds.Series[j].Labels) })
	return ds
}
