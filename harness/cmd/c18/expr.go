package main

// Expression generator for the supported PromQL subset of the property statement: selectors with all matcher
// kinds, offset, range functions, aggregations with by/without, arithmetic and comparison between vectors and scalars.

import (
	"fmt"
	"os"
	"strings"

	"verifharness/internal/gen"
)

type matcher struct {
	Name string `json:"name"`
	Op   string `json:"op"`
	Val  string `json:"val"`
}

type selSpec struct {
	Metric   string    `json:"metric"`
	Matchers []matcher `json:"matchers"`
	OffsetMs int64     `json:"offset_ms"`
}

type exprCase struct {
	Expr string `json:"expr"`
	Form string `json:"form"` // selector | rangefn | agg | binop | scalar
	// structure (only the fields meaningful for Form are set)
	Sel      *selSpec `json:"sel,omitempty"`
	Fn       string   `json:"fn,omitempty"`
	RangeMs  int64    `json:"range_ms,omitempty"`
	AggOp    string   `json:"agg_op,omitempty"`
	Without  bool     `json:"without,omitempty"`
	Grouping []string `json:"grouping,omitempty"`
	Inner    string   `json:"inner,omitempty"`  // text of the aggregated / left operand expression
	Inner2   string   `json:"inner2,omitempty"` // right operand
	BinOp    string   `json:"binop,omitempty"`
	Modelled bool     `json:"modelled"`
	// Param: the scalar argument of quantile_over_time (the quantile) / predict_linear (seconds ahead), as written
	Param string `json:"param,omitempty"`
	// Hint: a selector of the expression (metric, offset) used only to aim evaluation times at its samples
	Hint *selSpec `json:"-"`
}

var modelledFns = []string{"rate", "increase", "delta", "irate", "idelta", "sum_over_time", "count_over_time", "avg_over_time",
	"min_over_time", "max_over_time", "last_over_time", "changes", "resets",
	"stddev_over_time", "stdvar_over_time", "present_over_time", "absent_over_time", "quantile_over_time", "deriv", "predict_linear"}

// range functions outside the modelled list: three-way differential does not apply, upstream-vs-server only
var otherFns = []string{"holt_winters"}

// scalar arguments as written in the expression (exactly representable or not: the model gets the float's rational)
var quantiles = []string{"0", "0.25", "0.5", "0.5", "0.9", "0.99", "1", "-0.5", "1.5", "0.333"}
var horizons = []string{"0", "60", "600", "-30", "1.5", "3600"}
var hwFactors = []string{"0.5", "0.1", "0.9", "0.3"}

func isModelledFn(f string) bool {
	for _, m := range modelledFns {
		if m == f {
			return true
		}
	}
	return false
}

func fmtDur(ms int64) string {
	if ms%1000 != 0 {
		return fmt.Sprintf("%dms", ms)
	}
	s := ms / 1000
	if s%60 == 0 && s > 0 {
		return fmt.Sprintf("%dm", s/60)
	}
	return fmt.Sprintf("%ds", s)
}

func (s *selSpec) text(rangeMs int64) string {
	var sb strings.Builder
	sb.WriteString(s.Metric)
	if len(s.Matchers) > 0 {
		sb.WriteByte('{')
		for i, m := range s.Matchers {
			if i > 0 {
				sb.WriteByte(',')
			}
			fmt.Fprintf(&sb, "%s%s%q", m.Name, m.Op, m.Val)
		}
		sb.WriteByte('}')
	}
	if rangeMs > 0 {
		fmt.Fprintf(&sb, "[%s]", fmtDur(rangeMs))
	}
	if s.OffsetMs != 0 {
		fmt.Fprintf(&sb, " offset %s", fmtDur(s.OffsetMs))
	}
	return sb.String()
}

func genMatcher(r *gen.Rand) matcher {
	name := gen.Pick(r, []string{"job", "instance", "env", "zone", "zone", "nolabel"})
	vals := map[string][]string{"job": jobs, "instance": instances, "env": envs, "zone": {"eu-1", "us-2"}, "nolabel": {"x"}}[name]
	switch r.Intn(8) {
	case 0, 1, 2:
		v := gen.Pick(r, vals)
		if r.Chance(1, 8) {
			v = "nosuch"
		}
		if r.Chance(1, 10) {
			v = ""
		}
		return matcher{name, "=", v}
	case 3:
		v := gen.Pick(r, vals)
		if r.Chance(1, 6) {
			v = ""
		}
		return matcher{name, "!=", v}
	case 4, 5:
		res := []string{gen.Pick(r, vals) + "|" + gen.Pick(r, vals), ".+", ".*", gen.Pick(r, vals)[:1] + ".*", "[a-z]+", ".*[0-2]", "i[01]", "(api|db)", "", "e.*|"}
		return matcher{name, "=~", gen.Pick(r, res)}
	default:
		res := []string{gen.Pick(r, vals), gen.Pick(r, vals) + "|" + gen.Pick(r, vals), ".+", "i[12]", "p.*", "", ".*-1"}
		return matcher{name, "!~", gen.Pick(r, res)}
	}
}

func genSel(r *gen.Rand, metric string) *selSpec {
	if metric == "" {
		metric = gen.Pick(r, metrics).name
	}
	s := &selSpec{Metric: metric}
	for i := 0; i < []int{0, 0, 1, 1, 1, 2, 3}[r.Intn(7)]; i++ {
		s.Matchers = append(s.Matchers, genMatcher(r))
	}
	if r.Chance(1, 3) {
		s.OffsetMs = int64(gen.Pick(r, []int{15000, 30000, 60000, 300000, 420000, 7500, 1000}))
	}
	return s
}

func genRangeMs(r *gen.Rand, subsecond bool) int64 {
	if subsecond {
		return int64(gen.Pick(r, []int{1500, 2500, 30500, 90250, 61001}))
	}
	return int64(gen.Pick(r, []int{30000, 45000, 60000, 60000, 90000, 120000, 300000, 300000, 600000, 17000}))
}

func genRangeFn(r *gen.Rand, top bool) exprCase {
	fn := gen.Pick(r, modelledFns)
	if r.Chance(1, 30) {
		fn = gen.Pick(r, otherFns)
	}
	subsec := top && r.Chance(1, 8) // sub-second ranges only as the outermost call (finding signature)
	if subsec && r.Chance(1, 2) {
		fn = "rate"
	}
	if only := os.Getenv("C18_ONLY"); strings.HasPrefix(only, "fn:") { // debugging aid: restrict the range functions
		fn = gen.Pick(r, strings.Split(only[3:], ","))
	}
	if !top && fn == "absent_over_time" {
		// absent_over_time below an aggregation / binary operator is NOT covered (see NOTES.md: today's code keeps the
		// matcher-derived labels through `by`, and returns nothing for operators above an absent metric)
		fn = "present_over_time"
	}
	metric := ""
	switch fn {
	case "rate", "increase", "irate", "resets":
		if !r.Chance(1, 6) {
			metric = "http_requests_total"
		}
	}
	sel := genSel(r, metric)
	rg := genRangeMs(r, subsec)
	e := exprCase{Form: "rangefn", Sel: sel, Fn: fn, RangeMs: rg, Modelled: isModelledFn(fn)}
	switch fn {
	case "quantile_over_time":
		e.Param = gen.Pick(r, quantiles)
		e.Expr = fmt.Sprintf("%s(%s, %s)", fn, e.Param, sel.text(rg))
	case "predict_linear":
		e.Param = gen.Pick(r, horizons)
		e.Expr = fmt.Sprintf("%s(%s, %s)", fn, sel.text(rg), e.Param)
	case "holt_winters":
		e.Expr = fmt.Sprintf("%s(%s, %s, %s)", fn, sel.text(rg), gen.Pick(r, hwFactors), gen.Pick(r, hwFactors))
	default:
		e.Expr = fmt.Sprintf("%s(%s)", fn, sel.text(rg))
	}
	return e
}

func genSelector(r *gen.Rand) exprCase {
	sel := genSel(r, "")
	return exprCase{Form: "selector", Sel: sel, Expr: sel.text(0), Modelled: true}
}

// functions over instant vectors (differential only)
func genInstFn(r *gen.Rand) exprCase {
	sel := genSel(r, "")
	fn := gen.Pick(r, []string{"abs", "ceil", "floor"})
	return exprCase{Form: "instfn", Fn: fn, Hint: sel, Expr: fmt.Sprintf("%s(%s)", fn, sel.text(0))}
}

// vector-valued operand: selector or range function
func genVecOperand(r *gen.Rand) exprCase {
	var e exprCase
	switch r.Intn(7) {
	case 0, 1, 2:
		e = genSelector(r)
	case 3:
		e = genInstFn(r)
	default:
		e = genRangeFn(r, false)
	}
	if e.Hint == nil {
		e.Hint = e.Sel
	}
	return e
}

func genAgg(r *gen.Rand) exprCase {
	in := genVecOperand(r)
	op := gen.Pick(r, []string{"sum", "avg", "min", "max", "count"})
	e := exprCase{Form: "agg", AggOp: op, Inner: in.Expr, Modelled: true, Hint: in.Hint}
	all := []string{"job", "instance", "env", "zone", "nolabel", "__name__"}
	n := []int{0, 1, 1, 2, 2, 3}[r.Intn(6)]
	seen := map[string]bool{}
	for len(e.Grouping) < n {
		l := gen.Pick(r, all[:5])
		if !seen[l] {
			seen[l] = true
			e.Grouping = append(e.Grouping, l)
		}
	}
	e.Without = r.Chance(1, 2)
	mod := ""
	if len(e.Grouping) > 0 || r.Chance(1, 2) {
		kw := "by"
		if e.Without {
			kw = "without"
		}
		mod = fmt.Sprintf(" %s (%s)", kw, strings.Join(e.Grouping, ","))
	} else {
		e.Without = false
	}
	if r.Chance(1, 2) {
		e.Expr = fmt.Sprintf("%s%s (%s)", op, mod, in.Expr)
	} else {
		e.Expr = fmt.Sprintf("%s(%s)%s", op, in.Expr, mod)
	}
	return e
}

var arithOps = []string{"+", "-", "*", "/", "%", "^"}
var cmpOps = []string{"==", "!=", ">", "<", ">=", "<="}

func genScalarLit(r *gen.Rand) string {
	return gen.Pick(r, []string{"0", "1", "2", "10", "0.5", "-3", "100", "2.25", "1e3"})
}

// aggregation with an explicit by / without clause over several labels (some absent on part of the series)
func genGroupedAgg(r *gen.Rand, in exprCase, without bool, g []string) string {
	op := gen.Pick(r, []string{"sum", "avg", "min", "max", "count"})
	kw := "by"
	if without {
		kw = "without"
	}
	if r.Bool() {
		return fmt.Sprintf("%s %s (%s) (%s)", op, kw, strings.Join(g, ","), in.Expr)
	}
	return fmt.Sprintf("%s(%s) %s (%s)", op, in.Expr, kw, strings.Join(g, ","))
}

func genGrouping(r *gen.Rand) []string {
	all := []string{"job", "instance", "env", "zone", "nolabel"}
	n := r.Range(1, 3)
	var g []string
	seen := map[string]bool{}
	for len(g) < n {
		l := gen.Pick(r, all)
		if !seen[l] {
			seen[l] = true
			g = append(g, l)
		}
	}
	return g
}

func genBinop(r *gen.Rand) exprCase {
	e := exprCase{Form: "binop"}
	isCmp := r.Chance(1, 2)
	op := gen.Pick(r, arithOps)
	if isCmp {
		op = gen.Pick(r, cmpOps)
		if r.Chance(1, 3) {
			op += " bool"
		}
	}
	e.BinOp = op
	switch r.Intn(10) {
	case 0, 1: // vector op scalar
		l := genVecOperand(r)
		e.Hint = l.Hint
		e.Inner, e.Inner2 = l.Expr, genScalarLit(r)
	case 2: // scalar op vector
		rr := genVecOperand(r)
		e.Hint = rr.Hint
		e.Inner, e.Inner2 = genScalarLit(r), rr.Expr
	case 3, 4: // aggregation by / without (...) op scalar, both orders
		var a string
		in := genVecOperand(r)
		e.Hint = in.Hint
		if r.Chance(1, 3) {
			ag := genAgg(r)
			a, e.Hint = ag.Expr, ag.Hint
		} else {
			a = genGroupedAgg(r, in, r.Chance(2, 3), genGrouping(r))
		}
		if r.Chance(1, 4) {
			e.Inner, e.Inner2 = genScalarLit(r), a
		} else {
			e.Inner, e.Inner2 = a, genScalarLit(r)
		}
	case 5: // aggregation without (G) op aggregation without (G): one-to-one on the remaining labels
		g := genGrouping(r)
		wo := r.Chance(2, 3)
		in1 := genVecOperand(r)
		in2 := in1
		if r.Bool() {
			in2 = genVecOperand(r)
		}
		e.Hint = in1.Hint
		e.Inner, e.Inner2 = genGroupedAgg(r, in1, wo, g), genGroupedAgg(r, in2, wo, g)
	case 6: // vector op vector, one-to-one on all labels: two metrics that share label sets
		a := &selSpec{Metric: "mem_usage"}
		b := &selSpec{Metric: "mem_limit"}
		if r.Chance(1, 2) {
			m := genMatcher(r)
			a.Matchers = append(a.Matchers, m)
		}
		if r.Chance(1, 3) {
			b.OffsetMs = 60000
		}
		if r.Chance(1, 2) {
			a, b = b, a
		}
		e.Hint = a
		e.Inner, e.Inner2 = a.text(0), b.text(0)
		if r.Chance(1, 2) {
			// explicit matching on the stored label sets: (job, instance) identifies a series of a metric, so these are
			// one-to-one; on(job) / ignoring(instance) are many-to-many (upstream rejects them: case skipped) unless the
			// matchers leave one series per group
			e.BinOp = op + " " + gen.Pick(r, []string{"on (job,instance)", "ignoring (env,zone)", "ignoring (zone)", "ignoring (env)",
				"on (job,instance,env)", "on (instance,job,zone)", "ignoring (nolabel)", "on (job)", "ignoring (instance,env,zone)", "on (job,instance,__name__)"})
		}
	case 7, 8: // vector op vector with on / ignoring after aggregation (one-to-one by construction)
		g := gen.Pick(r, [][]string{{"job"}, {"instance"}, {"job", "instance"}, {"env"}})
		in := genVecOperand(r)
		e.Hint = in.Hint
		a := fmt.Sprintf("sum by (%s) (%s)", strings.Join(g, ","), in.Expr)
		b := fmt.Sprintf("%s by (%s) (%s)", gen.Pick(r, []string{"sum", "max", "count", "avg"}), strings.Join(g, ","), genVecOperand(r).Expr)
		mod := ""
		if r.Chance(1, 2) {
			mod = fmt.Sprintf(" on (%s)", strings.Join(g, ","))
		} else if r.Chance(1, 2) {
			mod = " ignoring (nolabel)"
		}
		e.BinOp = op + mod
		e.Inner, e.Inner2 = a, b
	default: // same selector on both sides (one-to-one trivially), or scalar op scalar
		if r.Chance(1, 4) {
			if isCmp && !strings.Contains(op, "bool") {
				e.BinOp = op + " bool"
			}
			e.Inner, e.Inner2 = genScalarLit(r), genScalarLit(r)
		} else {
			a := genVecOperand(r)
			e.Hint = a.Hint
			e.Inner, e.Inner2 = a.Expr, a.Expr
		}
	}
	if strings.HasPrefix(e.BinOp, "%") && (strings.Contains(e.Inner, "(") || strings.Contains(e.Inner2, "(")) {
		// math.Mod is discontinuous in both arguments: with a COMPUTED operand (range function, aggregation) the last-bit
		// noise between two correct engines can move the answer by a whole divisor. % is generated on stored sample
		// values and literals only (exactly representable, so both engines must agree exactly).
		e.BinOp = "*" + e.BinOp[1:]
	}
	e.Expr = fmt.Sprintf("%s %s %s", paren(e.Inner), e.BinOp, paren(e.Inner2))
	return e
}

func paren(s string) string {
	if strings.ContainsAny(s, " ") {
		return "(" + s + ")"
	}
	return s
}

// genWithoutCmp: comparison (no bool) between a scalar and an aggregation that uses without(...)
func genWithoutCmp(r *gen.Rand) exprCase {
	e := exprCase{Form: "binop"}
	in := genVecOperand(r)
	e.Hint = in.Hint
	g := genGrouping(r)
	if r.Chance(1, 8) {
		g = nil
	}
	a := genGroupedAgg(r, in, true, g)
	e.BinOp = gen.Pick(r, cmpOps)
	if r.Chance(1, 3) {
		e.Inner, e.Inner2 = genScalarLit(r), a
	} else {
		e.Inner, e.Inner2 = a, genScalarLit(r)
	}
	e.Expr = fmt.Sprintf("%s %s %s", paren(e.Inner), e.BinOp, paren(e.Inner2))
	return e
}

func genExpr(r *gen.Rand) exprCase {
	if os.Getenv("C18_ONLY") == "without-cmp" {
		return genWithoutCmp(r)
	}
	if os.Getenv("C18_ONLY") == "binop" {
		return genBinop(r)
	}
	if strings.HasPrefix(os.Getenv("C18_ONLY"), "fn:") {
		if r.Chance(1, 4) {
			return genAgg(r)
		}
		return genRangeFn(r, true)
	}
	switch r.Intn(13) {
	case 0, 1, 2:
		return genSelector(r)
	case 3:
		return genInstFn(r)
	case 4, 5, 6, 7:
		return genRangeFn(r, true)
	case 8, 9:
		return genAgg(r)
	default:
		return genBinop(r)
	}
}
