// Command c18: three-way correspondence harness for property C18 (PromQL compatibility).
//
//	c18 run <ts-server> <conf-template> <workdir> <port> <ndatasets> <ncases-per-dataset>
//	c18 replay <ts-server> <conf-template> <workdir> <port> <replay.json>
//
// For every generated data set it (a) fills an upstream Prometheus TSDB + engine (the direct oracle), (b) ingests the
// same samples into the repository's ts-server through remote write and (c) emits, for the modelled expression forms,
// the inputs the Coq model needs. One JSON object per case on stdout.
package main

import (
	"encoding/json"
	"fmt"
	"math"
	"os"
	"sort"
	"strconv"
	"strings"
	"time"

	"github.com/prometheus/prometheus/prompb"
	"github.com/prometheus/prometheus/promql/parser"

	"verifharness/internal/gen"
)

type fval float64

func (f fval) MarshalJSON() ([]byte, error) {
	if isStale(float64(f)) {
		return []byte(`"stale"`), nil // staleness marker (a NaN with a special bit pattern)
	}
	return json.Marshal(strconv.FormatFloat(float64(f), 'g', -1, 64))
}

type jpoint struct {
	T int64 `json:"t"`
	V fval  `json:"v"`
}
type jseries struct {
	Labels map[string]string `json:"labels"`
	Pts    []jpoint          `json:"pts"`
}
type jresult struct {
	Kind   string    `json:"kind"`
	Err    string    `json:"err,omitempty"`
	Series []jseries `json:"series"`
}

func toJ(r result) *jresult {
	j := &jresult{Kind: r.Kind, Err: r.Err}
	for _, s := range r.Series {
		js := jseries{Labels: s.Labels}
		for i, p := range s.Pts {
			if i >= 200 {
				break // diagnostics only: keep the case lines small
			}
			js.Pts = append(js.Pts, jpoint{p.T, fval(p.V)})
		}
		j.Series = append(j.Series, js)
	}
	return j
}

// model payloads ------------------------------------------------------------------------------------------

type mSeries struct {
	Labels  map[string]string `json:"labels"`
	Samples []jpoint          `json:"samples"`      // raw samples around the window (a superset of the window)
	Up      *fval             `json:"up,omitempty"` // upstream's value for this series (nil = no output element)
	Sv      *fval             `json:"sv,omitempty"` // the server's value
	Cut     []int             `json:"cut"`          // a generated cut of the window into records (piece lengths)
}

type mPayload struct {
	Kind     string    `json:"kind"` // rangefn | selector | agg | absent | vs | vv
	// vs / vv: binary operator between a vector and a scalar / two vectors with one-to-one matching
	BinOp    string    `json:"binop,omitempty"`
	RetBool  bool      `json:"ret_bool,omitempty"`
	Swap     bool      `json:"swap,omitempty"`   // the scalar is the left operand
	Scalar   string    `json:"scalar,omitempty"` // the scalar operand
	On       bool      `json:"on,omitempty"`
	MLabels  []string  `json:"mlabels,omitempty"` // labels of on(...) / ignoring(...)
	In2      []jseries `json:"in2,omitempty"`     // right operand vector
	Fn       string    `json:"fn,omitempty"`
	Param    string    `json:"param,omitempty"` // scalar argument of quantile_over_time / predict_linear
	// absent: did the engines return the (single) element
	UpNonEmpty bool `json:"up_nonempty,omitempty"`
	SvNonEmpty bool `json:"sv_nonempty,omitempty"`
	T        int64     `json:"t"`
	RangeMs  int64     `json:"range_ms"`
	OffsetMs int64     `json:"offset_ms"`
	Series   []mSeries `json:"series"`
	// agg
	AggOp    string    `json:"agg_op,omitempty"`
	Without  bool      `json:"without,omitempty"`
	Grouping []string  `json:"grouping,omitempty"`
	In       []jseries `json:"in,omitempty"`     // inner instant vector (upstream's evaluation of the operand)
	OutUp    []jseries `json:"out_up,omitempty"` // upstream's aggregated vector
	OutSv    []jseries `json:"out_sv,omitempty"` // the server's aggregated vector
}

type caseOut struct {
	Case        int         `json:"case"`
	DB          string      `json:"db"`
	Dataset     int         `json:"dataset"`
	Expr        string      `json:"expr"`
	Form        string      `json:"form"`
	Fn          string      `json:"fn,omitempty"`
	RangeMs     int64       `json:"range_ms,omitempty"`
	OffsetMs    int64       `json:"offset_ms,omitempty"`
	Mode        string      `json:"mode"` // instant | range
	T           int64       `json:"t,omitempty"`
	Start       int64       `json:"start,omitempty"`
	End         int64       `json:"end,omitempty"`
	Step        int64       `json:"step,omitempty"`
	HitsSample  bool        `json:"hits_sample"`
	UpErr       string      `json:"up_err,omitempty"`
	Diff        string      `json:"diff,omitempty"`    // direct oracle: upstream vs server
	RiDiff      string      `json:"ri_diff,omitempty"` // server: range query vs its instant queries
	UpRiDiff    string      `json:"up_ri_diff,omitempty"`
	RiChecked   bool        `json:"ri_checked,omitempty"` // the server's range answer was compared with its instant answers
	NSeries     int         `json:"nseries"`
	NPoints     int         `json:"npoints"`
	Up          *jresult    `json:"up,omitempty"`
	Sv          *jresult    `json:"sv,omitempty"`
	Model       *mPayload   `json:"model,omitempty"`
	Spec        *exprCase   `json:"spec,omitempty"`
	Transient   string      `json:"transient,omitempty"`    // an unexplained disagreement that vanished when the query was repeated
	NonReplayable string    `json:"non_replayable,omitempty"` // ... that persisted but did not reproduce on the same samples in a fresh database
	GroupingTie string      `json:"grouping_tie,omitempty"` // transpiled grouping of `agg op scalar` differs from the operand's
	Known       []string    `json:"known,omitempty"`        // finding ids that explain Diff / RiDiff completely
	Unexplained bool        `json:"unexplained,omitempty"`  // a disagreement outside every recorded signature
	Explain     *explain    `json:"explain,omitempty"`
	Replay      *replayFile `json:"replay,omitempty"` // complete input of an unexplained case
	Corpus      string      `json:"corpus,omitempty"` // the case comes from this corpus file
}

// comparison ------------------------------------------------------------------------------------------------

const relTol = 1e-9
const absTol = 1e-12

func feq(a, b float64) bool {
	if math.IsNaN(a) || math.IsNaN(b) {
		return math.IsNaN(a) && math.IsNaN(b)
	}
	if math.IsInf(a, 0) || math.IsInf(b, 0) {
		return a == b
	}
	d := math.Abs(a - b)
	return d <= absTol || d <= relTol*math.Max(math.Abs(a), math.Abs(b))
}

func fs(v float64) string { return strconv.FormatFloat(v, 'g', -1, 64) }

// cmpResults: "" if the two answers agree (same kind, same label sets, same timestamps, values up to rounding).
func cmpResults(up, sv result) string {
	if sv.Err != "" {
		return "server-error: " + sv.Err
	}
	if up.Kind != sv.Kind {
		return fmt.Sprintf("result-type: upstream %s server %s", up.Kind, sv.Kind)
	}
	um := map[string]rseries{}
	for _, s := range up.Series {
		um[labelKey(s.Labels)] = s
	}
	sm := map[string]rseries{}
	for _, s := range sv.Series {
		k := labelKey(s.Labels)
		if _, dup := sm[k]; dup {
			return "duplicate-series: server returned label set twice " + k
		}
		sm[k] = s
	}
	var missing, extra []string
	for k := range um {
		if _, ok := sm[k]; !ok {
			missing = append(missing, k)
		}
	}
	for k := range sm {
		if _, ok := um[k]; !ok {
			extra = append(extra, k)
		}
	}
	sort.Strings(missing)
	sort.Strings(extra)
	if len(missing) > 0 || len(extra) > 0 {
		d := fmt.Sprintf("series-set: upstream %d series, server %d;", len(up.Series), len(sv.Series))
		if len(missing) > 0 {
			d += " missing-on-server " + missing[0]
		}
		if len(extra) > 0 {
			d += " extra-on-server " + extra[0]
		}
		return d
	}
	keys := make([]string, 0, len(um))
	for k := range um {
		keys = append(keys, k)
	}
	sort.Strings(keys)
	for _, k := range keys {
		a, b := um[k].Pts, sm[k].Pts
		i, j := 0, 0
		for i < len(a) || j < len(b) {
			switch {
			case j >= len(b) || (i < len(a) && a[i].T < b[j].T):
				return fmt.Sprintf("timestamps: %s upstream has point at %d (%s), server has none", k, a[i].T, fs(a[i].V))
			case i >= len(a) || b[j].T < a[i].T:
				return fmt.Sprintf("timestamps: %s server has point at %d (%s), upstream has none", k, b[j].T, fs(b[j].V))
			default:
				if !feq(a[i].V, b[j].V) {
					return fmt.Sprintf("value: %s at %d upstream %s server %s", k, a[i].T, fs(a[i].V), fs(b[j].V))
				}
				i++
				j++
			}
		}
	}
	return ""
}

// rangeFromInstants assembles what a range query must return from the instant answers at its steps.
func rangeFromInstants(steps []int64, inst []result) result {
	out := result{Kind: "matrix"}
	idx := map[string]int{}
	for i, r := range inst {
		if r.Err != "" {
			return result{Err: r.Err}
		}
		for _, s := range r.Series {
			k := labelKey(s.Labels)
			j, ok := idx[k]
			if !ok {
				j = len(out.Series)
				idx[k] = j
				out.Series = append(out.Series, rseries{Labels: s.Labels})
			}
			for _, p := range s.Pts {
				out.Series[j].Pts = append(out.Series[j].Pts, point{T: steps[i], V: p.V})
			}
		}
	}
	out.canon()
	return out
}

func countPts(r result) (int, int) {
	n := 0
	for _, s := range r.Series {
		n += len(s.Pts)
	}
	return len(r.Series), n
}

// ingestion -------------------------------------------------------------------------------------------------

func toProm(s *series, lo, hi int) prompb.TimeSeries {
	ts := prompb.TimeSeries{}
	ks := make([]string, 0, len(s.Labels))
	for k := range s.Labels {
		ks = append(ks, k)
	}
	sort.Strings(ks)
	for _, k := range ks {
		ts.Labels = append(ts.Labels, prompb.Label{Name: k, Value: s.Labels[k]})
	}
	for _, p := range s.Samples[lo:hi] {
		ts.Samples = append(ts.Samples, prompb.Sample{Timestamp: p.T, Value: p.V})
	}
	return ts
}

// ingest writes the data set in time slices (so that flushes between slices leave several files per series).
func ingest(sv *server, ds *dataset, r *gen.Rand) error {
	if err := sv.createDB(ds.DB); err != nil {
		return err
	}
	slices := 1 + r.Intn(3)
	finalFlush := r.Chance(1, 2)
	if ds.Slices > 0 { // replay files pin the ingestion layout
		slices, finalFlush = ds.Slices, ds.FinalFlush
	}
	ds.Slices, ds.FinalFlush = slices, finalFlush
	ds.Flushes = 0
	for sl := 0; sl < slices; sl++ {
		lo := baseMs + ds.SpanMs*int64(sl)/int64(slices)
		hi := baseMs + ds.SpanMs*int64(sl+1)/int64(slices)
		if sl == slices-1 {
			hi = math.MaxInt64
		}
		if sl == 0 {
			lo = math.MinInt64
		}
		var batch []prompb.TimeSeries
		n := 0
		for i := range ds.Series {
			s := &ds.Series[i]
			a := sort.Search(len(s.Samples), func(k int) bool { return s.Samples[k].T >= lo })
			b := sort.Search(len(s.Samples), func(k int) bool { return s.Samples[k].T >= hi })
			if b > a {
				batch = append(batch, toProm(s, a, b))
				n += b - a
			}
			if n > 20000 {
				if err := sv.remoteWrite(ds.DB, batch); err != nil {
					return err
				}
				batch, n = nil, 0
			}
		}
		if len(batch) > 0 {
			if err := sv.remoteWrite(ds.DB, batch); err != nil {
				return err
			}
		}
		if sl < slices-1 || finalFlush {
			if err := sv.flush(); err != nil {
				return err
			}
			ds.Flushes++
		}
	}
	return nil
}

// waitVisible polls until the server returns as many samples as were written (count_over_time over the whole span).
func waitVisible(sv *server, ds *dataset) error {
	// counted through InfluxQL (rows of every measurement), independent of the PromQL path under test: staleness
	// markers and NaN / Inf are stored values and are counted too
	total := 0
	for _, s := range ds.Series {
		total += len(s.Samples)
	}
	var last string
	for i := 0; i < 150; i++ {
		body, err := sv.influxQueryDB(ds.DB, "SELECT count(value) FROM /.*/")
		if err == nil {
			var resp struct {
				Results []struct {
					Series []struct {
						Values [][]any `json:"values"`
					} `json:"series"`
				} `json:"results"`
			}
			got := 0
			if json.Unmarshal([]byte(body), &resp) == nil {
				for _, r := range resp.Results {
					for _, s := range r.Series {
						for _, v := range s.Values {
							if len(v) == 2 {
								if f, ok := v[1].(float64); ok {
									got += int(f)
								}
							}
						}
					}
				}
			}
			if got == total {
				return nil
			}
		}
		last = trunc(body, 300)
		time.Sleep(200 * time.Millisecond)
	}
	return fmt.Errorf("written samples not visible: want %d, last answer %s", total, last)
}

// case generation -------------------------------------------------------------------------------------------

func sampleTimes(ds *dataset) []int64 {
	var ts []int64
	for _, s := range ds.Series {
		for _, p := range s.Samples {
			ts = append(ts, p.T)
		}
	}
	return ts
}

// gapEnds: per metric, the time stamps of samples that are the last before a gap longer than the look-back delta or
// the last of their series - the instants whose look-back window closes exactly look-back later.
func gapEnds(ds *dataset) map[string][]int64 {
	out := map[string][]int64{}
	for _, s := range ds.Series {
		m := s.Labels["__name__"]
		for i, p := range s.Samples {
			if i == len(s.Samples)-1 || s.Samples[i+1].T > p.T+lookbackMs {
				out[m] = append(out[m], p.T)
				out[""] = append(out[""], p.T)
			}
		}
	}
	return out
}

func hintOf(e *exprCase) *selSpec {
	if e.Sel != nil {
		return e.Sel
	}
	return e.Hint
}

func boundaryDelta(r *gen.Rand) int64 {
	return int64([]int{0, 0, 0, -1, 1}[r.Intn(5)])
}

// pickTime: evaluation times that hit and miss sample timestamps, before/after the data, inside gaps, and exactly
// look-back-delta (+-1 ms) after the last sample before a gap / series end.
func pickTime(r *gen.Rand, ds *dataset, all []int64, ge map[string][]int64, e *exprCase) (int64, bool) {
	off, rg := int64(0), int64(0)
	metric := ""
	if h := hintOf(e); h != nil {
		off, metric = h.OffsetMs, h.Metric
	}
	if e.Sel != nil {
		rg = e.RangeMs
	}
	ends := ge[metric]
	if len(ends) == 0 {
		ends = ge[""]
	}
	switch r.Intn(15) {
	case 13, 14: // the window straddles a boundary between two ingestion slices (= two files / file and memtable)
		if ds.Slices > 1 {
			b := baseMs + ds.SpanMs*int64(1+r.Intn(ds.Slices-1))/int64(ds.Slices)
			w := rg
			if w == 0 {
				w = lookbackMs
			}
			return b + off + w*int64(1+r.Intn(3))/4 + int64(r.Intn(2000)) - 1000, true
		}
		return baseMs + int64(r.Intn(int(ds.SpanMs))), false
	case 0, 1, 2: // exactly on a sample (after applying the selector's offset)
		return all[r.Intn(len(all))] + off, true
	case 3: // a sample sits exactly on the left boundary of the window
		return all[r.Intn(len(all))] + off + rg, true
	case 4: // one millisecond around boundaries
		return all[r.Intn(len(all))] + off + rg + int64(r.Intn(3)-1), true
	case 5: // look-back boundary of an arbitrary sample
		return all[r.Intn(len(all))] + off + lookbackMs + int64(r.Intn(3)-1), true
	case 6: // before / after all data
		if r.Bool() {
			return baseMs - int64(r.Intn(600000)), false
		}
		return baseMs + ds.SpanMs + int64(r.Intn(900000)), false
	case 7, 8, 9: // exactly look-back (+-1 ms) after the last sample before a gap / the end of a series
		if len(ends) > 0 {
			return ends[r.Intn(len(ends))] + off + lookbackMs + boundaryDelta(r), true
		}
		fallthrough
	default:
		return baseMs + int64(r.Intn(int(ds.SpanMs))), false
	}
}

func buildModel(ds *dataset, e *exprCase, t int64, up, sv result, r *gen.Rand) *mPayload {
	find := func(res result, lb map[string]string, dropName bool) *fval {
		want := map[string]string{}
		for k, v := range lb {
			if dropName && k == "__name__" {
				continue
			}
			want[k] = v
		}
		k := labelKey(want)
		for _, s := range res.Series {
			if labelKey(s.Labels) == k && len(s.Pts) == 1 {
				v := fval(s.Pts[0].V)
				return &v
			}
		}
		return nil
	}
	switch e.Form {
	case "rangefn", "selector":
		if !e.Modelled || up.Err != "" || sv.Err != "" {
			return nil
		}
		idx, err := selected(ds, e.Sel)
		if err != nil {
			return nil
		}
		mp := &mPayload{Kind: e.Form, Fn: e.Fn, T: t, RangeMs: e.RangeMs, OffsetMs: e.Sel.OffsetMs, Param: e.Param}
		if e.Fn == "absent_over_time" {
			mp.Kind = "absent"
			mp.UpNonEmpty, mp.SvNonEmpty = len(up.Series) > 0, len(sv.Series) > 0
		}
		width := e.RangeMs
		if e.Form == "selector" {
			width = lookbackMs
		}
		hi := t - e.Sel.OffsetMs
		lo := hi - width
		dropName := e.Form == "rangefn" && e.Fn != "last_over_time"
		total := 0
		for _, i := range idx {
			s := &ds.Series[i]
			ms := mSeries{Labels: s.Labels}
			a := sort.Search(len(s.Samples), func(k int) bool { return s.Samples[k].T >= lo-40000 })
			b := sort.Search(len(s.Samples), func(k int) bool { return s.Samples[k].T > hi+40000 })
			inwin := 0
			for _, p := range s.Samples[a:b] {
				ms.Samples = append(ms.Samples, jpoint{p.T, fval(p.V)})
				if p.T >= lo && p.T <= hi {
					inwin++
				}
			}
			total += b - a
			// a random cut of the window into records
			for rem := inwin; rem > 0; {
				k := 1 + r.Intn(rem)
				if r.Chance(1, 2) && rem > 1 {
					k = 1 + r.Intn((rem+1)/2)
				}
				ms.Cut = append(ms.Cut, k)
				rem -= k
			}
			ms.Up = find(up, s.Labels, dropName)
			ms.Sv = find(sv, s.Labels, dropName)
			mp.Series = append(mp.Series, ms)
		}
		if total > 400 || (len(mp.Series) == 0 && mp.Kind != "absent") {
			return nil
		}
		return mp
	}
	return nil
}

var modelledBinops = map[string]bool{"+": true, "-": true, "*": true, "/": true, "%": true,
	"==": true, "!=": true, ">": true, "<": true, ">=": true, "<=": true}

func stripParens(e parser.Expr) parser.Expr {
	for {
		p, ok := e.(*parser.ParenExpr)
		if !ok {
			return e
		}
		e = p.Expr
	}
}

// binopModel: the inputs the Coq model of binary operators needs - the operand vectors as the upstream engine
// evaluates them at t, the operator, its modifiers, and both engines' answers.
func binopModel(u *upstream, e *exprCase, t int64, up, sv result) *mPayload {
	ast, err := parser.ParseExpr(e.Expr)
	if err != nil {
		return nil
	}
	be, ok := stripParens(ast).(*parser.BinaryExpr)
	if !ok || !modelledBinops[be.Op.String()] || up.Kind != "vector" {
		return nil
	}
	l, r := stripParens(be.LHS), stripParens(be.RHS)
	ln, lnum := l.(*parser.NumberLiteral)
	rn, rnum := r.(*parser.NumberLiteral)
	mp := &mPayload{T: t, BinOp: be.Op.String(), RetBool: be.ReturnBool, OutUp: jvec(up), OutSv: jvec(sv)}
	evalVec := func(x parser.Expr) ([]jseries, bool) {
		if x.Type() != parser.ValueTypeVector {
			return nil, false
		}
		res := u.instant(x.String(), t)
		if res.Err != "" || res.Kind != "vector" || len(res.Series) > 40 {
			return nil, false
		}
		return jvec(res), true
	}
	switch {
	case lnum && rnum:
		return nil
	case lnum || rnum:
		mp.Kind = "vs"
		vecSide, num := l, rn
		if lnum {
			vecSide, num, mp.Swap = r, ln, true
		}
		in, ok := evalVec(vecSide)
		if !ok {
			return nil
		}
		mp.In, mp.Scalar = in, strconv.FormatFloat(num.Val, 'g', -1, 64)
		return mp
	default:
		if be.VectorMatching == nil || be.VectorMatching.Card != parser.CardOneToOne {
			return nil
		}
		a, ok1 := evalVec(l)
		b, ok2 := evalVec(r)
		if !ok1 || !ok2 {
			return nil
		}
		mp.Kind, mp.In, mp.In2 = "vv", a, b
		mp.On, mp.MLabels = be.VectorMatching.On, be.VectorMatching.MatchingLabels
		return mp
	}
}

func jvec(res result) []jseries {
	out := []jseries{}
	for _, s := range res.Series {
		js := jseries{Labels: s.Labels}
		for _, p := range s.Pts {
			js.Pts = append(js.Pts, jpoint{p.T, fval(p.V)})
		}
		out = append(out, js)
	}
	return out
}

// subsetFor keeps the series of the metrics the expression mentions (the whole set if none is recognised).
func subsetFor(ds *dataset, expr string) dataset {
	out := *ds
	out.Series = nil
	for _, s := range ds.Series {
		if strings.Contains(expr, s.Labels["__name__"]) {
			out.Series = append(out.Series, s)
		}
	}
	if len(out.Series) == 0 {
		out.Series = ds.Series
	}
	return out
}

func runCase(n int, di int, ds *dataset, u *upstream, sv *server, e exprCase, mode string, t, start, end, step int64, hit bool, r *gen.Rand) caseOut {
	co := runCase1(n, di, ds, u, sv, e, mode, t, start, end, step, hit, r)
	// A disagreement outside every signature must persist: queries racing the asynchronous flush of the ingestion can
	// transiently miss samples (that is C04's subject, not C18's); re-ask twice before reporting.
	for try := 0; try < 4 && co.Unexplained; try++ {
		// 0.8 s, 1.6 s, 3.2 s, 6.4 s: on the (shared, often overloaded) machine a flushed file was seen to stay
		// invisible to queries for more than 1.6 s; a genuine defect persists for ever
		time.Sleep(time.Duration(800<<uint(try)) * time.Millisecond)
		co2 := runCase1(n, di, ds, u, sv, e, mode, t, start, end, step, hit, r)
		if !co2.Unexplained {
			co2.Transient = (co.Diff + co.RiDiff)
		}
		co = co2
	}
	// A VIOLATION must be replayable: the same samples written again (same slices / flushes, fresh database) must give
	// the disagreement again. On the shared machine a disagreement was seen to persist for more than 12 s and to be
	// gone a minute later and in every replay (the range-vector path did not see the flushed part of ONE series while
	// InfluxQL counted every row) - that is about read-after-flush, not about PromQL semantics.
	if co.Unexplained && !strings.Contains(ds.DB, "x") {
		fresh := *ds
		fresh.DB = fmt.Sprintf("%sx%d", ds.DB, n)
		if err := ingest(sv, &fresh, r); err == nil && waitVisible(sv, &fresh) == nil {
			co2 := runCase1(n, di, &fresh, u, sv, e, mode, t, start, end, step, hit, r)
			if !co2.Unexplained {
				co2.NonReplayable = co.Diff + co.RiDiff
				co2.DB = ds.DB
				co = co2
			}
		}
	}
	tt := t
	if mode == "range" {
		tt = start
	}
	co.GroupingTie = groupingTie(&e, tt)
	if co.Unexplained {
		co.Replay = &replayFile{Dataset: *ds, Spec: e, Mode: mode, T: t, Start: start, End: end, Step: step}
	}
	return co
}

func runCase1(n int, di int, ds *dataset, u *upstream, sv *server, e exprCase, mode string, t, start, end, step int64, hit bool, r *gen.Rand) caseOut {
	co := caseOut{Case: n, DB: ds.DB, Dataset: di, Expr: e.Expr, Form: e.Form, Fn: e.Fn, RangeMs: e.RangeMs, Mode: mode, HitsSample: hit}
	if e.Sel != nil {
		co.OffsetMs = e.Sel.OffsetMs
	}
	ec := e
	co.Spec = &ec
	if mode == "instant" {
		co.T = t
		up := u.instant(e.Expr, t)
		if up.Err != "" {
			co.UpErr = up.Err
			return co
		}
		svr := sv.instant(ds.DB, e.Expr, t)
		co.NSeries, co.NPoints = countPts(up)
		co.Diff = cmpResults(up, svr)
		if co.Diff != "" {
			co.Up, co.Sv = toJ(up), toJ(svr)
			ok, ex := explainDiff(ds, &e, "instant", t, t, 0, svr, func(x string) result { return u.instant(x, t) })
			co.Explain = ex
			if !ok && hasMatrixSelector(e.Expr) {
				// staleness markers: today's instant path drops a series whose window ends in a marker
				rewritten, rules, _, _ := rewriteCurrent(e.Expr, ds, 0)
				if hit, which := staleExplainsInstant(ds, []string{e.Expr, rewritten}, t, svr); hit {
					ok = true
					ex = &explain{Rules: []string{fStaleEnd}}
					if which != e.Expr {
						ex.Rewritten = rewritten
						ex.Rules = append(rules, fStaleEnd)
					}
					co.Explain = ex
				}
			}
			if ok {
				co.Known = ex.Rules
			} else {
				co.Unexplained = true
			}
		}
		co.Model = buildModel(ds, &e, t, up, svr, r)
		if e.Form == "binop" && svr.Err == "" {
			co.Model = binopModel(u, &e, t, up, svr)
		}
		if e.Form == "agg" && svr.Err == "" {
			in := u.instant(e.Inner, t)
			if in.Err == "" && len(in.Series) <= 40 {
				co.Model = &mPayload{Kind: "agg", T: t, AggOp: e.AggOp, Without: e.Without, Grouping: e.Grouping,
					In: jvec(in), OutUp: jvec(up), OutSv: jvec(svr)}
			}
		}
		return co
	}
	co.Start, co.End, co.Step = start, end, step
	up := u.rangeq(e.Expr, start, end, step)
	svr := sv.rangeq(ds.DB, e.Expr, start, end, step)
	var steps []int64
	for x := start; x <= end; x += step {
		steps = append(steps, x)
	}
	// (1) "a range query equals the sequence of instant queries at its steps", checked on the SERVER ALONE for every
	// generated range query (the generator never produces more than 61 steps); it does not involve the upstream engine
	var fromSv result
	if len(steps) <= 64 && svr.Err == "" && svr.Kind == "matrix" {
		var si []result
		for _, x := range steps {
			si = append(si, sv.instant(ds.DB, e.Expr, x))
		}
		fromSv = rangeFromInstants(steps, si)
		co.RiChecked = true
		co.RiDiff = cmpResults(fromSv, svr)
		if fromSv.Err != "" {
			co.RiDiff = "server-error at a step: " + fromSv.Err
		}
		if co.RiDiff != "" {
			co.Sv = toJ(svr)
			co.Up = toJ(fromSv)
			switch {
			case absentOffset(e.Expr) > 0:
				co.Known = addRule(co.Known, fAbsentOff)
			case maxOffsetUnderAgg(e.Expr) > 0:
				co.Known = addRule(co.Known, fOffAgg)
			case rangeShorterThanStep(e.Expr, step) || (hasMatrixSelector(e.Expr) && fromSv.Err == "" && trailingLoss(fromSv, svr)):
				co.Known = addRule(co.Known, fStepGtRange)
			case hasVectorVectorBinop(e.Expr) && fromSv.Err == "" && extraPointsOnly(fromSv, svr):
				co.Known = addRule(co.Known, fBinopNext)
			case hasMatrixSelector(e.Expr) && fromSv.Err == "" && staleExplainsSteps(ds, u, &e, steps, si, svr):
				co.Known = addRule(co.Known, fStaleEnd)
			case hasMatrixSelector(e.Expr) && staleInSpan(ds, e.Expr, start, end):
				co.Known = addRule(co.Known, fStaleEnd)
			case !hasMatrixSelector(e.Expr) && fromSv.Err == "" && trailingLoss(fromSv, svr):
				co.Known = addRule(co.Known, fSelTrailing)
			case fromSv.Err == "" && lostAtSliceBoundary(ds, e.Expr, fromSv, svr):
				if hasMatrixSelector(e.Expr) {
					co.Known = addRule(co.Known, fStepGtRange)
				} else {
					co.Known = addRule(co.Known, fSelTrailing)
				}
			default:
				co.Unexplained = true
			}
		}
	}
	if up.Err != "" {
		co.UpErr = up.Err
		return co
	}
	// (2) the direct oracle: upstream vs server
	co.NSeries, co.NPoints = countPts(up)
	lastStep := start + (end-start)/step*step
	co.Diff = cmpResults(up, svr)
	if co.Diff != "" {
		co.Up, co.Sv = toJ(up), toJ(svr)
		ok, ex := explainDiff(ds, &e, "range", start, lastStep, step, svr, func(x string) result { return u.rangeq(x, start, end, step) })
		co.Explain = ex
		if ok {
			for _, k := range ex.Rules {
				co.Known = addRule(co.Known, k)
			}
		} else {
			co.Unexplained = true
		}
	}
	// (3) sanity of the oracle itself: upstream's range answer is its instant answers (short ranges only)
	if len(steps) <= 16 && up.Kind == "matrix" {
		var ui []result
		for _, x := range steps {
			ui = append(ui, u.instant(e.Expr, x))
		}
		co.UpRiDiff = cmpResults(up, rangeFromInstants(steps, ui))
	}
	return co
}

// staleExplainsSteps: the server's range answer is right where its instant answers are wrong - at every step the
// server's instant answer equals upstream's answer over the data set without the series whose window ends in a
// staleness marker (some step must drop a series), and the range answer equals the sequence of upstream's instant
// answers wherever the two server answers differ.
func staleExplainsSteps(ds *dataset, u *upstream, e *exprCase, steps []int64, si []result, svr result) bool {
	rewritten, _, _, _ := rewriteCurrent(e.Expr, ds, 0)
	cands := []string{e.Expr, rewritten}
	hitAny := false
	for i, x := range steps {
		if _, n := dropStaleEnded(ds, e.Expr, x); n == 0 {
			continue
		}
		hit, _ := staleExplainsInstant(ds, cands, x, si[i])
		if !hit {
			// the marker may be irrelevant for this step's answer: then the plain upstream answer must match
			ok := false
			for _, c := range cands {
				if up := u.instant(c, x); up.Err == "" && cmpResults(up, si[i]) == "" {
					ok = true
				}
			}
			if !ok {
				return false
			}
			continue
		}
		hitAny = true
	}
	if !hitAny {
		return false
	}
	// steps without a stale-ended series must agree between the two server answers
	var clean []int64
	var cleanRes []result
	for i, x := range steps {
		if _, n := dropStaleEnded(ds, e.Expr, x); n == 0 {
			clean = append(clean, x)
			cleanRes = append(cleanRes, si[i])
		}
	}
	keep := map[int64]bool{}
	for _, x := range clean {
		keep[x] = true
	}
	sub := result{Kind: svr.Kind}
	for _, s := range svr.Series {
		ns := rseries{Labels: s.Labels}
		for _, p := range s.Pts {
			if keep[p.T] {
				ns.Pts = append(ns.Pts, p)
			}
		}
		if len(ns.Pts) > 0 {
			sub.Series = append(sub.Series, ns)
		}
	}
	return cmpResults(rangeFromInstants(clean, cleanRes), sub) == ""
}

func genTiming(r *gen.Rand, ds *dataset, all []int64, ge map[string][]int64, e *exprCase) (mode string, t, start, end, step int64, hit bool) {
	if r.Chance(3, 5) {
		t, hit = pickTime(r, ds, all, ge, e)
		return "instant", t, 0, 0, 0, hit
	}
	start, hit = pickTime(r, ds, all, ge, e)
	step = int64(gen.Pick(r, []int{15000, 30000, 60000, 7000, 100000, 1000, 15000, 300000, 1500, 60000}))
	n := int64(r.Range(1, 14))
	if r.Chance(1, 8) {
		n = int64(r.Range(20, 60))
	}
	if r.Chance(1, 2) && n <= 14 {
		// the aimed instant (sample, window edge, look-back edge ...) becomes the j-th step instead of the first
		start -= step * int64(r.Intn(int(n)+1))
	}
	end = start + step*n
	if r.Chance(1, 3) {
		end += int64(r.Intn(int(step))) // end not on a step
	}
	return "range", 0, start, end, step, hit
}

func main() {
	if len(os.Args) < 7 {
		fmt.Fprintln(os.Stderr, "usage: c18 run|replay <ts-server> <conf-template> <workdir> <port> ...")
		os.Exit(2)
	}
	mode, bin, conf, work := os.Args[1], os.Args[2], os.Args[3], os.Args[4]
	port, _ := strconv.Atoi(os.Args[5])
	os.Setenv("TMPDIR", work)
	if err := os.MkdirAll(work, 0o755); err != nil {
		fmt.Fprintln(os.Stderr, err)
		os.Exit(2)
	}
	sv, err := startServer(bin, conf, work, port)
	if err != nil {
		fmt.Fprintln(os.Stderr, "FATAL start server:", err)
		os.Exit(3)
	}
	defer sv.stop()
	rc := 0
	switch mode {
	case "run":
		nds, _ := strconv.Atoi(os.Args[6])
		ncases, _ := strconv.Atoi(os.Args[7])
		rc = runAll(sv, nds, ncases, os.Args[8:])
	case "replay":
		rc = replay(sv, os.Args[6])
	}
	sv.stop()
	os.Exit(rc)
}

func runAll(sv *server, nds, ncases int, corpus []string) int {
	r := gen.FromEnv(18)
	n := 0
	// the corpus of minimised witnesses runs first, each in its own database; it has its own PRNG so that adding a
	// witness never changes the generated stream
	rc := gen.New(1818)
	for ci, path := range corpus {
		raw, err := os.ReadFile(path)
		if err != nil {
			fmt.Fprintln(os.Stderr, "FATAL corpus:", err)
			return 3
		}
		var rf replayFile
		if err := json.Unmarshal(raw, &rf); err != nil {
			fmt.Fprintln(os.Stderr, "FATAL corpus:", path, err)
			return 3
		}
		ds := rf.Dataset
		ds.DB = fmt.Sprintf("corpus%d", ci)
		u, err := newUpstream(&ds)
		if err != nil {
			fmt.Fprintln(os.Stderr, "FATAL upstream:", err)
			return 3
		}
		if err := ingest(sv, &ds, rc); err != nil {
			fmt.Fprintln(os.Stderr, "FATAL ingest:", err)
			return 3
		}
		if err := waitVisible(sv, &ds); err != nil {
			fmt.Fprintln(os.Stderr, "FATAL visible:", err)
			return 3
		}
		co := runCase(n, -1-ci, &ds, u, sv, rf.Spec, rf.Mode, rf.T, rf.Start, rf.End, rf.Step, false, rc)
		co.Corpus = path
		gen.Emit(co)
		n++
		u.close()
	}
	for di := 0; di < nds; di++ {
		dense := di%4 == 3
		// one data set in four carries NaN / +Inf / -Inf values and staleness markers
		special := di%4 == 1 || os.Getenv("C18_SPECIAL") != ""
		ds := genDataset(r.Fork(), fmt.Sprintf("prom%d", di), dense, special)
		if len(ds.Series) == 0 {
			continue
		}
		u, err := newUpstream(&ds)
		if err != nil {
			fmt.Fprintln(os.Stderr, "FATAL upstream:", err)
			return 3
		}
		if err := ingest(sv, &ds, r); err != nil {
			fmt.Fprintln(os.Stderr, "FATAL ingest:", err)
			return 3
		}
		if err := waitVisible(sv, &ds); err != nil {
			fmt.Fprintln(os.Stderr, "FATAL visible:", err)
			return 3
		}
		nsamp := 0
		for _, s := range ds.Series {
			nsamp += len(s.Samples)
		}
		gen.Emit(map[string]any{"dataset": di, "db": ds.DB, "series": len(ds.Series), "samples": nsamp, "dense": dense, "flushes": ds.Flushes, "span_ms": ds.SpanMs})
		all := sampleTimes(&ds)
		ge := gapEnds(&ds)
		for c := 0; c < ncases; c++ {
			e := genExpr(r)
			mode, t, start, end, step, hit := genTiming(r, &ds, all, ge, &e)
			// the case's own PRNG (model cuts, retries): re-asking or replaying a case must not shift the cases after it
			co := runCase(n, di, &ds, u, sv, e, mode, t, start, end, step, hit, r.Fork())
			gen.Emit(co)
			n++
		}
		u.close()
	}
	gen.Emit(map[string]any{"done": n})
	if d := os.Getenv("C18_KEEP_SECONDS"); d != "" { // debugging aid: keep the server up for manual queries
		k, _ := strconv.Atoi(d)
		time.Sleep(time.Duration(k) * time.Second)
	}
	return 0
}

type replayFile struct {
	Dataset dataset  `json:"dataset"`
	Spec    exprCase `json:"spec"`
	Mode    string   `json:"mode"`
	T       int64    `json:"t"`
	Start   int64    `json:"start"`
	End     int64    `json:"end"`
	Step    int64    `json:"step"`
}

func replay(sv *server, path string) int {
	raw, err := os.ReadFile(path)
	if err != nil {
		fmt.Fprintln(os.Stderr, err)
		return 2
	}
	var rf replayFile
	if err := json.Unmarshal(raw, &rf); err != nil {
		fmt.Fprintln(os.Stderr, err)
		return 2
	}
	ds := rf.Dataset
	if ds.DB == "" {
		ds.DB = "promreplay"
	}
	r := gen.FromEnv(18)
	u, err := newUpstream(&ds)
	if err != nil {
		fmt.Fprintln(os.Stderr, "FATAL upstream:", err)
		return 3
	}
	defer u.close()
	if err := ingest(sv, &ds, r); err != nil {
		fmt.Fprintln(os.Stderr, "FATAL ingest:", err)
		return 3
	}
	if err := waitVisible(sv, &ds); err != nil {
		fmt.Fprintln(os.Stderr, "FATAL visible:", err)
		return 3
	}
	co := runCase(0, 0, &ds, u, sv, rf.Spec, rf.Mode, rf.T, rf.Start, rf.End, rf.Step, false, r)
	co.Up, co.Sv = nil, nil
	if rf.Mode == "instant" {
		co.Up, co.Sv = toJ(u.instant(rf.Spec.Expr, rf.T)), toJ(sv.instant(ds.DB, rf.Spec.Expr, rf.T))
	} else {
		co.Up, co.Sv = toJ(u.rangeq(rf.Spec.Expr, rf.Start, rf.End, rf.Step)), toJ(sv.rangeq(ds.DB, rf.Spec.Expr, rf.Start, rf.End, rf.Step))
	}
	gen.Emit(co)
	if d := os.Getenv("C18_KEEP_SECONDS"); d != "" { // debugging aid: keep the server up for manual queries
		k, _ := strconv.Atoi(d)
		time.Sleep(time.Duration(k) * time.Second)
	}
	return 0
}
