package main

// Black-box side of the C18 harness: start the repository's ts-server on private ports under the work directory,
// ingest samples through the Prometheus remote-write endpoint and query /api/v1/query and /api/v1/query_range.

import (
	"bytes"
	"encoding/json"
	"fmt"
	"io"
	"math"
	"net"
	"net/http"
	"net/url"
	"os"
	"os/exec"
	"path/filepath"
	"sort"
	"strconv"
	"strings"
	"syscall"
	"time"

	"github.com/golang/snappy"
	"github.com/prometheus/prometheus/prompb"
)

type server struct {
	cmd  *exec.Cmd
	base string
	dir  string
	hc   *http.Client
}

// startServer rewrites the single-node config template (all /tmp/openGemini paths under dir, every port into
// [port, port+9]) and starts the binary. HOME is redirected so the default loggers stay inside dir.
func startServer(bin, confTemplate, dir string, port int) (*server, error) {
	// refuse to start if anything already listens inside the port block (another run, a foreign process)
	for p := port; p < port+10; p++ {
		l, err := net.Listen("tcp", fmt.Sprintf("127.0.0.1:%d", p))
		if err != nil {
			return nil, fmt.Errorf("port %d of the block %d-%d is in use: %v", p, port, port+9, err)
		}
		l.Close()
	}
	raw, err := os.ReadFile(confTemplate)
	if err != nil {
		return nil, err
	}
	txt := string(raw)
	txt = strings.ReplaceAll(txt, "/tmp/openGemini", filepath.Join(dir, "og"))
	ports := map[string]int{"8086": 0, "8091": 1, "8092": 2, "8088": 3, "8087": 4, "8400": 5, "8401": 6, "8305": 7, "8010": 8, "8011": 9}
	for from, off := range ports {
		txt = strings.ReplaceAll(txt, "127.0.0.1:"+from, fmt.Sprintf("127.0.0.1:%d", port+off))
	}
	txt = strings.Replace(txt, "store-enabled = true", "store-enabled = false", 1)
	conf := filepath.Join(dir, "ts-server.conf")
	if err := os.WriteFile(conf, []byte(txt), 0o644); err != nil {
		return nil, err
	}
	logf, err := os.Create(filepath.Join(dir, "ts-server.log"))
	if err != nil {
		return nil, err
	}
	cmd := exec.Command(bin, "-config", conf)
	cmd.Dir = dir
	cmd.Stdout, cmd.Stderr = logf, logf
	cmd.Env = append(os.Environ(), "HOME="+dir, "TMPDIR="+dir)
	cmd.SysProcAttr = &syscall.SysProcAttr{Setpgid: true, Pdeathsig: syscall.SIGKILL}
	if err := cmd.Start(); err != nil {
		return nil, err
	}
	s := &server{cmd: cmd, base: fmt.Sprintf("http://127.0.0.1:%d", port), dir: dir, hc: &http.Client{Timeout: 60 * time.Second}}
	deadline := time.Now().Add(60 * time.Second)
	for time.Now().Before(deadline) {
		resp, err := s.hc.Get(s.base + "/ping")
		if err == nil {
			resp.Body.Close()
			if resp.StatusCode < 300 {
				return s, nil
			}
		}
		time.Sleep(200 * time.Millisecond)
	}
	s.stop()
	return nil, fmt.Errorf("ts-server did not become ready on %s", s.base)
}

func (s *server) stop() {
	if s == nil || s.cmd == nil || s.cmd.Process == nil {
		return
	}
	_ = syscall.Kill(-s.cmd.Process.Pid, syscall.SIGKILL)
	_, _ = s.cmd.Process.Wait()
}

func (s *server) influxQuery(q string) (string, error) {
	resp, err := s.hc.PostForm(s.base+"/query", url.Values{"q": {q}})
	if err != nil {
		return "", err
	}
	defer resp.Body.Close()
	b, _ := io.ReadAll(resp.Body)
	if resp.StatusCode >= 300 || strings.Contains(string(b), `"error"`) {
		return string(b), fmt.Errorf("query %q: status %d: %s", q, resp.StatusCode, b)
	}
	return string(b), nil
}

func (s *server) influxQueryDB(db, q string) (string, error) {
	resp, err := s.hc.PostForm(s.base+"/query", url.Values{"db": {db}, "q": {q}})
	if err != nil {
		return "", err
	}
	defer resp.Body.Close()
	b, _ := io.ReadAll(resp.Body)
	if resp.StatusCode >= 300 || strings.Contains(string(b), `"error"`) {
		return string(b), fmt.Errorf("query %q: status %d: %s", q, resp.StatusCode, b)
	}
	return string(b), nil
}

func (s *server) createDB(db string) error {
	var err error
	for i := 0; i < 50; i++ {
		if _, err = s.influxQuery("CREATE DATABASE " + db); err == nil {
			return nil
		}
		time.Sleep(300 * time.Millisecond)
	}
	return err
}

func (s *server) flush() error {
	resp, err := s.hc.Post(s.base+"/debug/ctrl?mod=flush", "text/plain", nil)
	if err != nil {
		return err
	}
	defer resp.Body.Close()
	io.Copy(io.Discard, resp.Body)
	if resp.StatusCode >= 300 {
		return fmt.Errorf("flush status %d", resp.StatusCode)
	}
	return nil
}

// remoteWrite sends the series through /api/v1/write (snappy-compressed protobuf WriteRequest).
func (s *server) remoteWrite(db string, tss []prompb.TimeSeries) error {
	req := &prompb.WriteRequest{Timeseries: tss}
	raw, err := req.Marshal()
	if err != nil {
		return err
	}
	body := snappy.Encode(nil, raw)
	// a 5xx right after CREATE DATABASE ("shard group not found") is the meta service catching up, not PromQL: retry
	var last error
	for try := 0; try < 6; try++ {
		resp, err := s.hc.Post(s.base+"/api/v1/write?db="+db, "application/x-protobuf", bytes.NewReader(body))
		if err != nil {
			return err
		}
		b, _ := io.ReadAll(resp.Body)
		resp.Body.Close()
		if resp.StatusCode < 300 {
			return nil
		}
		last = fmt.Errorf("remote write status %d: %s", resp.StatusCode, b)
		if resp.StatusCode < 500 {
			return last
		}
		time.Sleep(400 * time.Millisecond)
	}
	return last
}

// ---- canonical results ------------------------------------------------------------------------------------

type point struct {
	T int64   `json:"t"` // milliseconds
	V float64 `json:"-"`
}

type rseries struct {
	Labels map[string]string `json:"labels"`
	Pts    []point           `json:"-"`
}

// result is the canonical form of a PromQL answer: kind (vector|matrix|scalar|string), series sorted by label text.
type result struct {
	Kind   string    `json:"kind"`
	Series []rseries `json:"-"`
	Err    string    `json:"err,omitempty"`
}

func labelKey(m map[string]string) string {
	ks := make([]string, 0, len(m))
	for k := range m {
		ks = append(ks, k)
	}
	sort.Strings(ks)
	var sb strings.Builder
	for _, k := range ks {
		sb.WriteString(strconv.Quote(k))
		sb.WriteByte('=')
		sb.WriteString(strconv.Quote(m[k]))
		sb.WriteByte(',')
	}
	return sb.String()
}

func (r *result) canon() {
	sort.SliceStable(r.Series, func(i, j int) bool { return labelKey(r.Series[i].Labels) < labelKey(r.Series[j].Labels) })
}

type promResp struct {
	Status    string `json:"status"`
	ErrorType string `json:"errorType"`
	Error     string `json:"error"`
	Data      struct {
		ResultType string          `json:"resultType"`
		Result     json.RawMessage `json:"result"`
	} `json:"data"`
}

func parseVal(x any) (float64, error) {
	s, ok := x.(string)
	if !ok {
		return 0, fmt.Errorf("value not a string: %v", x)
	}
	switch s {
	case "NaN":
		return math.NaN(), nil
	case "+Inf", "Inf":
		return math.Inf(1), nil
	case "-Inf":
		return math.Inf(-1), nil
	}
	return strconv.ParseFloat(s, 64)
}

func parseTs(x any) (int64, error) {
	switch v := x.(type) {
	case float64:
		return int64(math.Round(v * 1000)), nil
	case json.Number:
		f, err := v.Float64()
		return int64(math.Round(f * 1000)), err
	}
	return 0, fmt.Errorf("bad timestamp %v", x)
}

func parsePair(p []any) (point, error) {
	if len(p) != 2 {
		return point{}, fmt.Errorf("bad sample pair %v", p)
	}
	t, err := parseTs(p[0])
	if err != nil {
		return point{}, err
	}
	v, err := parseVal(p[1])
	return point{T: t, V: v}, err
}

func parsePromJSON(body []byte) result {
	var pr promResp
	if err := json.Unmarshal(body, &pr); err != nil {
		return result{Err: "unparsable response: " + trunc(string(body), 200)}
	}
	if pr.Status != "success" {
		return result{Err: "error: " + pr.ErrorType + ": " + trunc(pr.Error, 300)}
	}
	res := result{Kind: pr.Data.ResultType}
	switch pr.Data.ResultType {
	case "vector":
		var v []struct {
			Metric map[string]string `json:"metric"`
			Value  []any             `json:"value"`
		}
		if err := json.Unmarshal(pr.Data.Result, &v); err != nil {
			return result{Err: "bad vector: " + err.Error()}
		}
		for _, e := range v {
			p, err := parsePair(e.Value)
			if err != nil {
				return result{Err: "bad vector sample: " + err.Error()}
			}
			if e.Metric == nil {
				e.Metric = map[string]string{}
			}
			res.Series = append(res.Series, rseries{Labels: e.Metric, Pts: []point{p}})
		}
	case "matrix":
		var v []struct {
			Metric map[string]string `json:"metric"`
			Values [][]any           `json:"values"`
		}
		if err := json.Unmarshal(pr.Data.Result, &v); err != nil {
			return result{Err: "bad matrix: " + err.Error()}
		}
		for _, e := range v {
			if e.Metric == nil {
				e.Metric = map[string]string{}
			}
			rs := rseries{Labels: e.Metric}
			for _, pv := range e.Values {
				p, err := parsePair(pv)
				if err != nil {
					return result{Err: "bad matrix sample: " + err.Error()}
				}
				rs.Pts = append(rs.Pts, p)
			}
			res.Series = append(res.Series, rs)
		}
	case "scalar":
		var v []any
		if err := json.Unmarshal(pr.Data.Result, &v); err != nil {
			return result{Err: "bad scalar: " + err.Error()}
		}
		p, err := parsePair(v)
		if err != nil {
			return result{Err: "bad scalar: " + err.Error()}
		}
		res.Series = []rseries{{Labels: map[string]string{}, Pts: []point{p}}}
	default:
		return result{Err: "unsupported result type " + pr.Data.ResultType}
	}
	res.canon()
	return res
}

func trunc(s string, n int) string {
	if len(s) > n {
		return s[:n] + "..."
	}
	return s
}

func msToParam(ms int64) string {
	// exact decimal seconds with millisecond fraction
	neg := ""
	if ms < 0 {
		neg = "-"
		ms = -ms
	}
	return fmt.Sprintf("%s%d.%03d", neg, ms/1000, ms%1000)
}

func (s *server) get(path string, v url.Values) result {
	resp, err := s.hc.PostForm(s.base+path, v)
	if err != nil {
		return result{Err: "transport: " + err.Error()}
	}
	defer resp.Body.Close()
	// no generated query has more than 61 steps x a few dozen series: an answer beyond 4 MB is wrong whatever it says
	// (seen: millions of bogus windows emitted from time 0); do not read, parse and print hundreds of megabytes
	b, _ := io.ReadAll(io.LimitReader(resp.Body, maxAnswerBytes+1))
	if len(b) > maxAnswerBytes {
		return result{Err: oversizeErr}
	}
	return parsePromJSON(b)
}

const maxAnswerBytes = 4 << 20
const oversizeErr = "answer larger than 4 MB"

func (s *server) instant(db, expr string, tms int64) result {
	return s.get("/api/v1/query", url.Values{"db": {db}, "query": {expr}, "time": {msToParam(tms)}})
}

func (s *server) rangeq(db, expr string, start, end, step int64) result {
	return s.get("/api/v1/query_range", url.Values{"db": {db}, "query": {expr}, "start": {msToParam(start)}, "end": {msToParam(end)}, "step": {msToParam(step)}})
}
