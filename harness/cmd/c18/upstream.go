package main

// DIRECT ORACLE: the upstream Prometheus query engine (module cache, version pinned by the repository's go.mod)
// evaluating the same expression over the same samples held in a teststorage TSDB.

import (
	"context"
	"fmt"
	"os"
	"time"

	"github.com/prometheus/prometheus/model/labels"
	"github.com/prometheus/prometheus/promql"
	"github.com/prometheus/prometheus/promql/parser"
	"github.com/prometheus/prometheus/util/teststorage"
)

type fatalT struct{}

func (fatalT) Errorf(format string, args ...interface{}) {
	fmt.Fprintf(os.Stderr, "teststorage: "+format+"\n", args...)
}
func (fatalT) FailNow() { panic("teststorage failure") }

type upstream struct {
	st  *teststorage.TestStorage
	eng *promql.Engine
}

func newUpstream(ds *dataset) (*upstream, error) {
	st := teststorage.New(fatalT{})
	app := st.Appender(context.Background())
	for _, s := range ds.Series {
		lb := labels.FromMap(s.Labels)
		for _, p := range s.Samples {
			if _, err := app.Append(0, lb, p.T, p.V); err != nil {
				return nil, err
			}
		}
	}
	if err := app.Commit(); err != nil {
		return nil, err
	}
	eng := promql.NewEngine(promql.EngineOpts{
		MaxSamples:           50000000,
		Timeout:              60 * time.Second,
		LookbackDelta:        time.Duration(lookbackMs) * time.Millisecond,
		EnableAtModifier:     true,
		EnableNegativeOffset: true,
	})
	return &upstream{st: st, eng: eng}, nil
}

func (u *upstream) close() { _ = u.st.Close() }

func msTime(ms int64) time.Time { return time.UnixMilli(ms) }

func lmap(l labels.Labels) map[string]string {
	m := l.Map()
	if m == nil {
		m = map[string]string{}
	}
	return m
}

func convert(res *promql.Result, tms int64) result {
	if res.Err != nil {
		return result{Err: "error: " + res.Err.Error()}
	}
	out := result{}
	switch v := res.Value.(type) {
	case promql.Vector:
		out.Kind = "vector"
		for _, s := range v {
			if s.H != nil {
				return result{Err: "histogram sample"}
			}
			out.Series = append(out.Series, rseries{Labels: lmap(s.Metric), Pts: []point{{T: s.T, V: s.F}}})
		}
	case promql.Matrix:
		out.Kind = "matrix"
		for _, s := range v {
			rs := rseries{Labels: lmap(s.Metric)}
			for _, p := range s.Floats {
				rs.Pts = append(rs.Pts, point{T: p.T, V: p.F})
			}
			out.Series = append(out.Series, rs)
		}
	case promql.Scalar:
		out.Kind = "scalar"
		out.Series = []rseries{{Labels: map[string]string{}, Pts: []point{{T: v.T, V: v.V}}}}
	default:
		return result{Err: fmt.Sprintf("unsupported value type %T", res.Value)}
	}
	out.canon()
	return out
}

func (u *upstream) instant(expr string, tms int64) result {
	q, err := u.eng.NewInstantQuery(context.Background(), u.st, nil, expr, msTime(tms))
	if err != nil {
		return result{Err: "error: " + err.Error()}
	}
	defer q.Close()
	return convert(q.Exec(context.Background()), tms)
}

func (u *upstream) rangeq(expr string, start, end, step int64) result {
	q, err := u.eng.NewRangeQuery(context.Background(), u.st, nil, expr, msTime(start), msTime(end), time.Duration(step)*time.Millisecond)
	if err != nil {
		return result{Err: "error: " + err.Error()}
	}
	defer q.Close()
	return convert(q.Exec(context.Background()), start)
}

// selected returns the indices of the data set's series selected by the selector's metric name and matchers
// (upstream's own matcher implementation decides).
func selected(ds *dataset, sel *selSpec) ([]int, error) {
	ms, err := parser.ParseMetricSelector(sel.text(0)[:len(sel.text(0))-len(offsetSuffix(sel))])
	if err != nil {
		return nil, err
	}
	var out []int
	for i, s := range ds.Series {
		ok := true
		for _, m := range ms {
			if !m.Matches(s.Labels[m.Name]) {
				ok = false
				break
			}
		}
		if ok {
			out = append(out, i)
		}
	}
	return out, nil
}

func offsetSuffix(sel *selSpec) string {
	if sel.OffsetMs == 0 {
		return ""
	}
	return " offset " + fmtDur(sel.OffsetMs)
}
