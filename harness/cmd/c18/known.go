package main

// Signatures of the defects of the unchanged tree recorded in props/C18/findings.json, as code.
//
// Every signature is checked constructively: the failing case is explained by a finding only if the server's answer
// EQUALS what the upstream engine returns for the same case "as today's code understands it" (label matchers rewritten
// the way GetTagCondition translates them, rate values scaled by range/trunc(range), points later than end-offset
// disregarded). Anything that still differs after that is outside every signature.

import (
	"math"
	"strings"

	"github.com/prometheus/prometheus/model/labels"
	"github.com/prometheus/prometheus/promql/parser"
)

const (
	fEmpty       = "C18-empty-value-matcher-dropped"
	fAbsent      = "C18-absent-label-matcher-ignored"
	fRegex       = "C18-regex-matcher-unanchored"
	fSubsec      = "C18-rate-subsecond-range-integer-division"
	fOffAgg      = "C18-range-query-aggregation-over-offset"
	fStepGtRange = "C18-range-function-step-greater-than-range"
	fByName      = "C18-by-name-label-dropped"
	fResetsZero  = "C18-resets-empty-window-zero"
	fAbsentOff   = "C18-absent-over-time-offset-range-query"
	fAbsentNeg   = "C18-absent-negative-matcher-on-absent-label"
	fBinopNext   = "C18-range-binop-pairs-next-series-after-end"
	fStaleEnd    = "C18-instant-range-function-drops-series-ending-stale"
	fHoltInf     = "C18-holt-winters-infinite-sample-nan"
	fAbsentDup   = "C18-absent-label-kept-despite-second-matcher"
	fMinMaxInit  = "C18-min-max-aggregation-sentinel-start-value"
	fSelTrailing = "C18-range-selector-trailing-step-lost"
	fIgnKept     = "C18-ignoring-label-kept-in-result"
	fFilterOff   = "C18-vector-comparison-filter-with-offset-operand-loses-elements"
	fFilterNaN   = "C18-range-comparison-filter-keeps-nan"
)

// hasVectorScalarFilter: a comparison without bool between an instant vector and a scalar
func hasVectorScalarFilter(expr string) bool {
	e, err := parser.ParseExpr(expr)
	if err != nil {
		return false
	}
	found := false
	parser.Inspect(e, func(n parser.Node, _ []parser.Node) error {
		if b, ok := n.(*parser.BinaryExpr); ok && b.Op.IsComparisonOperator() && !b.ReturnBool &&
			(b.LHS.Type() == parser.ValueTypeScalar) != (b.RHS.Type() == parser.ValueTypeScalar) {
			found = true
		}
		return nil
	})
	return found
}

// nanExtraOnly: sv is up plus additional points whose value is NaN (at least one), nothing else differs
func nanExtraOnly(up, sv result) bool {
	if up.Kind != sv.Kind || sv.Err != "" {
		return false
	}
	st := result{Kind: sv.Kind}
	hit := false
	for _, s := range sv.Series {
		ns := rseries{Labels: s.Labels}
		for _, p := range s.Pts {
			if math.IsNaN(p.V) {
				hit = true
				continue
			}
			ns.Pts = append(ns.Pts, p)
		}
		if len(ns.Pts) > 0 {
			st.Series = append(st.Series, ns)
		}
	}
	if !hit {
		return false
	}
	// upstream's own NaN points (none survive a comparison filter, but be exact) are compared as they are
	ut := result{Kind: up.Kind}
	for _, s := range up.Series {
		ns := rseries{Labels: s.Labels}
		for _, p := range s.Pts {
			if !math.IsNaN(p.V) {
				ns.Pts = append(ns.Pts, p)
			}
		}
		if len(ns.Pts) > 0 {
			ut.Series = append(ut.Series, ns)
		}
	}
	st.canon()
	ut.canon()
	return cmpResults(ut, st) == ""
}

// filterWithOffsetOperand: the expression contains a comparison WITHOUT bool between two instant vectors one of whose
// operands contains a selector with a non-zero offset
func filterWithOffsetOperand(expr string) bool {
	e, err := parser.ParseExpr(expr)
	if err != nil {
		return false
	}
	found := false
	parser.Inspect(e, func(n parser.Node, _ []parser.Node) error {
		b, ok := n.(*parser.BinaryExpr)
		if !ok || !b.Op.IsComparisonOperator() || b.ReturnBool ||
			b.LHS.Type() != parser.ValueTypeVector || b.RHS.Type() != parser.ValueTypeVector {
			return nil
		}
		for _, side := range []parser.Expr{b.LHS, b.RHS} {
			parser.Inspect(side, func(m parser.Node, _ []parser.Node) error {
				if vs, ok := m.(*parser.VectorSelector); ok && vs.OriginalOffset != 0 {
					found = true
				}
				return nil
			})
		}
		return nil
	})
	return found
}

// subsetOf: every series / point of sv is in up with an equal value, and something of up is missing in sv
func subsetOf(up, sv result) bool {
	if up.Kind != sv.Kind || sv.Err != "" {
		return false
	}
	um := map[string]map[int64]float64{}
	nup := 0
	for _, s := range up.Series {
		m := map[int64]float64{}
		for _, p := range s.Pts {
			m[p.T] = p.V
			nup++
		}
		um[labelKey(s.Labels)] = m
	}
	nsv := 0
	seen := map[string]bool{}
	for _, s := range sv.Series {
		k := labelKey(s.Labels)
		m, ok := um[k]
		if !ok || seen[k] {
			return false
		}
		seen[k] = true
		for _, p := range s.Pts {
			v, ok := m[p.T]
			if !ok || !feq(v, p.V) {
				return false
			}
			nsv++
		}
	}
	return nsv < nup
}

// ignoringLabels: the labels listed by ignoring(...) of the vector-vector operators of the expression
func ignoringLabels(expr string) []string {
	e, err := parser.ParseExpr(expr)
	if err != nil {
		return nil
	}
	var out []string
	parser.Inspect(e, func(n parser.Node, _ []parser.Node) error {
		if b, ok := n.(*parser.BinaryExpr); ok && b.VectorMatching != nil && !b.VectorMatching.On {
			out = append(out, b.VectorMatching.MatchingLabels...)
		}
		return nil
	})
	return out
}

// extraIgnoredLabels: the answers are equal after deleting the ignoring(...) labels from the server's label sets and
// the metric name from upstream's (today's code treats __name__ as an ignored label and keeps the last listed one);
// at least one label set must have differed
func extraIgnoredLabels(up, sv result, ign []string) bool {
	if len(ign) == 0 || sv.Err != "" || up.Kind != sv.Kind {
		return false
	}
	strip := func(r result, names []string) result {
		st := result{Kind: r.Kind}
		for _, s := range r.Series {
			lb := map[string]string{}
			for k, v := range s.Labels {
				drop := false
				for _, g := range names {
					if g == k {
						drop = true
					}
				}
				if !drop {
					lb[k] = v
				}
			}
			st.Series = append(st.Series, rseries{Labels: lb, Pts: s.Pts})
		}
		st.canon()
		return st
	}
	names := append([]string{"__name__"}, ign...)
	return cmpResults(up, sv) != "" && cmpResults(strip(up, names), strip(sv, names)) == ""
}

// emptyAnswer: no series at all
func emptyAnswer(r result) bool { return r.Err == "" && len(r.Series) == 0 }

// hasMinMaxAgg: the expression contains a min / max aggregation operator
func hasMinMaxAgg(expr string) bool {
	e, err := parser.ParseExpr(expr)
	if err != nil {
		return false
	}
	found := false
	parser.Inspect(e, func(n parser.Node, _ []parser.Node) error {
		if a, ok := n.(*parser.AggregateExpr); ok && (a.Op == parser.MAX || a.Op == parser.MIN) {
			found = true
		}
		return nil
	})
	return found
}

// sentinelInsteadOf: point by point the two answers agree, except that where the server answers +-MaxFloat64 upstream
// has NaN, an infinity, or (a comparison filter dropped the NaN) no point at all - at least once
func sentinelInsteadOf(up, sv result) bool {
	if up.Kind != sv.Kind || sv.Err != "" {
		return false
	}
	type key struct {
		ls string
		t  int64
	}
	um := map[key]float64{}
	for _, s := range up.Series {
		for _, p := range s.Pts {
			um[key{labelKey(s.Labels), p.T}] = p.V
		}
	}
	hit := false
	seen := map[key]bool{}
	for _, s := range sv.Series {
		for _, p := range s.Pts {
			k := key{labelKey(s.Labels), p.T}
			if seen[k] {
				return false
			}
			seen[k] = true
			u, ok := um[k]
			switch {
			case ok && feq(p.V, u):
			case math.Abs(p.V) == math.MaxFloat64 && (!ok || math.IsNaN(u) || math.IsInf(u, 0)):
				hit = true
			default:
				return false
			}
		}
	}
	for k := range um {
		if !seen[k] {
			return false
		}
	}
	return hit
}

// absentDupRewrite: for selectors below absent_over_time / absent that carry, for some label, exactly one equality
// matcher plus further non-equality matchers: today's code derives the answer's labels from the equality matchers
// alone. Returns the expression with the non-equality matchers on those labels deleted and the metric replaced by one
// without samples (upstream then answers with exactly the labels today's code derives).
func absentDupRewrite(expr string) (string, bool) {
	e, err := parser.ParseExpr(expr)
	if err != nil {
		return "", false
	}
	hit := false
	parser.Inspect(e, func(n parser.Node, path []parser.Node) error {
		vs, ok := n.(*parser.VectorSelector)
		if !ok {
			return nil
		}
		under := false
		for _, p := range path {
			if c, isCall := p.(*parser.Call); isCall && (c.Func.Name == "absent_over_time" || c.Func.Name == "absent") {
				under = true
			}
		}
		if !under {
			return nil
		}
		eq, other := map[string]int{}, map[string]int{}
		for _, m := range vs.LabelMatchers {
			if m.Name == "__name__" {
				continue
			}
			if m.Type == labels.MatchEqual {
				eq[m.Name]++
			} else {
				other[m.Name]++
			}
		}
		var kept []*labels.Matcher
		for _, m := range vs.LabelMatchers {
			if m.Name != "__name__" && m.Type != labels.MatchEqual && eq[m.Name] == 1 && other[m.Name] > 0 {
				hit = true
				continue
			}
			if m.Name == "__name__" {
				kept = append(kept, labels.MustNewMatcher(labels.MatchEqual, "__name__", nosuchMetric))
				continue
			}
			kept = append(kept, m)
		}
		vs.LabelMatchers = kept
		vs.Name = nosuchMetric
		return nil
	})
	return e.String(), hit
}

// missingPoints: sv is up with some points (or whole series) missing and nothing else different; returns the
// timestamps of the missing points (nil if the shape is different or nothing is missing)
func missingPoints(up, sv result) []int64 {
	if up.Kind != "matrix" || sv.Kind != "matrix" || sv.Err != "" {
		return nil
	}
	um := map[string]map[int64]float64{}
	for _, s := range up.Series {
		m := map[int64]float64{}
		for _, p := range s.Pts {
			m[p.T] = p.V
		}
		um[labelKey(s.Labels)] = m
	}
	seen := map[string]map[int64]bool{}
	for _, s := range sv.Series {
		k := labelKey(s.Labels)
		m, ok := um[k]
		if !ok || seen[k] != nil {
			return nil
		}
		seen[k] = map[int64]bool{}
		for _, p := range s.Pts {
			v, ok := m[p.T]
			if !ok || !feq(v, p.V) {
				return nil
			}
			seen[k][p.T] = true
		}
	}
	var miss []int64
	for k, m := range um {
		for t := range m {
			if seen[k] == nil || !seen[k][t] {
				miss = append(miss, t)
			}
		}
	}
	return miss
}

// straddlesSliceBoundary: at evaluation time t the window of some selector of the expression (range window, or the
// look-back window of an instant-vector selector; shifted by the offset) contains the boundary between two ingestion
// slices, i.e. its samples reach the cursors in (at least) two records
func straddlesSliceBoundary(ds *dataset, expr string, t int64) bool {
	if ds.Slices < 2 {
		return false
	}
	e, err := parser.ParseExpr(expr)
	if err != nil {
		return false
	}
	found := false
	check := func(width, off int64) {
		hi := t - off
		lo := hi - width
		for k := 1; k < ds.Slices; k++ {
			b := baseMs + ds.SpanMs*int64(k)/int64(ds.Slices)
			if lo <= b && b <= hi {
				found = true
			}
		}
	}
	parser.Inspect(e, func(n parser.Node, path []parser.Node) error {
		switch x := n.(type) {
		case *parser.MatrixSelector:
			if vs, ok := x.VectorSelector.(*parser.VectorSelector); ok {
				check(x.Range.Milliseconds(), vs.OriginalOffset.Milliseconds())
			}
		case *parser.VectorSelector:
			if len(path) > 0 {
				if _, under := path[len(path)-1].(*parser.MatrixSelector); under {
					return nil
				}
			}
			check(lookbackMs, x.OriginalOffset.Milliseconds())
		}
		return nil
	})
	return found
}

// lostAtSliceBoundary: sv is up with points missing (nothing else differs) and every missing point belongs to a step
// whose window straddles an ingestion-slice boundary
func lostAtSliceBoundary(ds *dataset, expr string, up, sv result) bool {
	miss := missingPoints(up, sv)
	if len(miss) == 0 {
		return false
	}
	for _, t := range miss {
		if !straddlesSliceBoundary(ds, expr, t) {
			return false
		}
	}
	return true
}

// hasInfSample: some series of the data set carries a +Inf / -Inf sample value
func hasInfSample(ds *dataset) bool {
	for _, s := range ds.Series {
		for _, p := range s.Samples {
			if math.IsInf(p.V, 0) {
				return true
			}
		}
	}
	return false
}

// nanInsteadOf: same label sets and timestamps; values agree except where the server says NaN and upstream says
// something else (at least once)
func nanInsteadOf(up, sv result) bool {
	if up.Kind != sv.Kind || sv.Err != "" || len(up.Series) != len(sv.Series) {
		return false
	}
	um := map[string]rseries{}
	for _, s := range up.Series {
		um[labelKey(s.Labels)] = s
	}
	hit := false
	for _, s := range sv.Series {
		u, ok := um[labelKey(s.Labels)]
		if !ok || len(u.Pts) != len(s.Pts) {
			return false
		}
		for i, p := range s.Pts {
			if p.T != u.Pts[i].T {
				return false
			}
			if feq(p.V, u.Pts[i].V) {
				continue
			}
			if !math.IsNaN(p.V) {
				return false
			}
			hit = true
		}
	}
	return hit
}

// staleCandidates returns the indices of the series that have a staleness marker inside the window of some
// range-vector selector of the expression evaluated at t.
func staleCandidates(ds *dataset, expr string, t int64) []int {
	e, err := parser.ParseExpr(expr)
	if err != nil {
		return nil
	}
	type win struct{ rg, off int64 }
	var wins []win
	parser.Inspect(e, func(n parser.Node, _ []parser.Node) error {
		if ms, ok := n.(*parser.MatrixSelector); ok {
			if vs, ok := ms.VectorSelector.(*parser.VectorSelector); ok {
				wins = append(wins, win{ms.Range.Milliseconds(), vs.OriginalOffset.Milliseconds()})
			}
		}
		return nil
	})
	var out []int
	for i, s := range ds.Series {
		hit := false
		for _, w := range wins {
			hi := t - w.off
			lo := hi - w.rg
			for _, p := range s.Samples {
				if p.T >= lo && p.T <= hi && isStale(p.V) {
					hit = true
				}
			}
		}
		if hit {
			out = append(out, i)
		}
	}
	return out
}

// staleInSpan: some series has a staleness marker inside the union of the windows of a range-vector selector of the
// expression over the whole query [start, end] (instant query: start = end)
func staleInSpan(ds *dataset, expr string, start, end int64) bool {
	e, err := parser.ParseExpr(expr)
	if err != nil {
		return false
	}
	found := false
	parser.Inspect(e, func(n parser.Node, _ []parser.Node) error {
		ms, ok := n.(*parser.MatrixSelector)
		if !ok {
			return nil
		}
		vs, ok := ms.VectorSelector.(*parser.VectorSelector)
		if !ok {
			return nil
		}
		lo := start - vs.OriginalOffset.Milliseconds() - ms.Range.Milliseconds()
		hi := end - vs.OriginalOffset.Milliseconds()
		for _, s := range seriesOfNamed(ds, vs) {
			for _, p := range s.Samples {
				if p.T >= lo && p.T <= hi && isStale(p.V) {
					found = true
				}
			}
		}
		return nil
	})
	return found
}

// seriesOfNamed: the data set's series selected by the selector's metric-name matcher
func seriesOfNamed(ds *dataset, vs *parser.VectorSelector) []*series {
	var out []*series
	for i := range ds.Series {
		ok := true
		for _, m := range vs.LabelMatchers {
			if m.Name == "__name__" && !m.Matches(ds.Series[i].Labels["__name__"]) {
				ok = false
			}
		}
		if ok {
			out = append(out, &ds.Series[i])
		}
	}
	return out
}

// dropStaleEnded returns the number of candidate series (see staleCandidates); kept for the step-wise explanation.
func dropStaleEnded(ds *dataset, expr string, t int64) (dataset, int) {
	return *ds, len(staleCandidates(ds, expr, t))
}

// staleExplainsInstant: the server's instant answer at t equals the upstream answer over the data set WITHOUT the
// series whose window ends in a staleness marker (for one of the candidate readings of the expression).
func staleExplainsInstant(ds *dataset, cands []string, t int64, svInst result) (bool, string) {
	if svInst.Err != "" || len(cands) == 0 {
		return false, ""
	}
	idx := staleCandidates(ds, cands[0], t)
	if len(idx) == 0 || len(idx) > 4 {
		return false, ""
	}
	// which of the candidate series the engine loses depends on the record layout (the piece of the window that comes
	// from one file / the memtable must hold nothing but markers): try every non-empty subset
	for mask := 1; mask < 1<<uint(len(idx)); mask++ {
		drop := map[int]bool{}
		for k, i := range idx {
			if mask&(1<<uint(k)) != 0 {
				drop[i] = true
			}
		}
		d2 := *ds
		d2.Series = nil
		for i, s := range ds.Series {
			if !drop[i] {
				d2.Series = append(d2.Series, s)
			}
		}
		if len(d2.Series) == 0 {
			d2.Series = []series{{Labels: map[string]string{"__name__": nosuchMetric}, Samples: []sample{{T: baseMs, V: 0}}}}
		}
		u2, err := newUpstream(&d2)
		if err != nil {
			return false, ""
		}
		for _, x := range cands {
			if x == "" {
				continue
			}
			if up := u2.instant(x, t); up.Err == "" && cmpResults(up, svInst) == "" {
				u2.close()
				return true, x
			}
		}
		u2.close()
	}
	return false, ""
}

// hasVectorVectorBinop: the expression contains an arithmetic / comparison operator between two instant vectors
func hasVectorVectorBinop(expr string) bool {
	e, err := parser.ParseExpr(expr)
	if err != nil {
		return false
	}
	found := false
	parser.Inspect(e, func(n parser.Node, _ []parser.Node) error {
		if b, ok := n.(*parser.BinaryExpr); ok && !b.Op.IsSetOperator() &&
			b.LHS.Type() == parser.ValueTypeVector && b.RHS.Type() == parser.ValueTypeVector {
			found = true
		}
		return nil
	})
	return found
}

// extraPointsOnly: sv contains every point of up (same label set, timestamp, value) and at least one additional point
func extraPointsOnly(up, sv result) bool {
	if up.Kind != "matrix" || sv.Kind != "matrix" || sv.Err != "" {
		return false
	}
	sm := map[string]map[int64]float64{}
	nsv := 0
	for _, s := range sv.Series {
		k := labelKey(s.Labels)
		if _, dup := sm[k]; dup {
			return false
		}
		m := map[int64]float64{}
		for _, p := range s.Pts {
			m[p.T] = p.V
		}
		sm[k] = m
		nsv += len(s.Pts)
	}
	nup := 0
	for _, s := range up.Series {
		m := sm[labelKey(s.Labels)]
		for _, p := range s.Pts {
			v, ok := m[p.T]
			if !ok || !feq(v, p.V) {
				return false
			}
			nup++
		}
	}
	return nup > 0 && nsv > nup // a vacuous 'superset' of an empty answer explains nothing
}

const nosuchMetric = "c18_metric_without_samples"

// absentOffset: the largest offset (ms) of a selector below absent_over_time / absent, 0 if none
func absentOffset(expr string) int64 {
	e, err := parser.ParseExpr(expr)
	if err != nil {
		return 0
	}
	var mx int64
	parser.Inspect(e, func(n parser.Node, path []parser.Node) error {
		vs, ok := n.(*parser.VectorSelector)
		if !ok || vs.OriginalOffset <= 0 {
			return nil
		}
		for _, p := range path {
			if c, isCall := p.(*parser.Call); isCall && (c.Func.Name == "absent_over_time" || c.Func.Name == "absent") {
				if o := vs.OriginalOffset.Milliseconds(); o > mx {
					mx = o
				}
			}
		}
		return nil
	})
	return mx
}

// absentNegRewrite: if a selector below absent_over_time / absent has a negative matcher (!=, !~) with a non-empty
// value on a label that no series of its metric carries (Prometheus: the matcher holds for every series), return the
// expression with that selector's metric replaced by a metric without samples - today's code answers as if the
// selector matched nothing.
func absentNegRewrite(expr string, ds *dataset) (string, bool) {
	e, err := parser.ParseExpr(expr)
	if err != nil {
		return "", false
	}
	hit := false
	parser.Inspect(e, func(n parser.Node, path []parser.Node) error {
		vs, ok := n.(*parser.VectorSelector)
		if !ok {
			return nil
		}
		under := false
		for _, p := range path {
			if c, isCall := p.(*parser.Call); isCall && (c.Func.Name == "absent_over_time" || c.Func.Name == "absent") {
				under = true
			}
		}
		if !under {
			return nil
		}
		sers := seriesOf(ds, vs)
		neg := false
		for _, m := range vs.LabelMatchers {
			if m.Name == "__name__" || m.Value == "" || !m.Matches("") {
				continue // (matchers with an empty value are dropped by the transpiler: another finding)
			}
			carried := false
			for _, ls := range sers {
				if _, has := ls[m.Name]; has {
					carried = true
				}
			}
			if !carried {
				neg = true
			}
		}
		if neg {
			hit = true
			vs.Name = nosuchMetric
			for _, m := range vs.LabelMatchers {
				if m.Name == "__name__" {
					*m = *labels.MustNewMatcher(labels.MatchEqual, "__name__", nosuchMetric)
				}
			}
		}
		return nil
	})
	return e.String(), hit
}

type explain struct {
	Rewritten string   `json:"rewritten,omitempty"`
	Rules     []string `json:"rules,omitempty"`
	Scale     float64  `json:"scale,omitempty"`
	TruncMs   int64    `json:"trunc_ms,omitempty"`
}

func addRule(rs []string, r string) []string {
	for _, x := range rs {
		if x == r {
			return rs
		}
	}
	return append(rs, r)
}

// seriesOf returns the label sets of the data set's series selected by the selector's name matcher.
func seriesOf(ds *dataset, vs *parser.VectorSelector) []map[string]string {
	var out []map[string]string
	for _, s := range ds.Series {
		ok := true
		for _, m := range vs.LabelMatchers {
			if m.Name == "__name__" && !m.Matches(s.Labels["__name__"]) {
				ok = false
			}
		}
		if ok {
			out = append(out, s.Labels)
		}
	}
	return out
}

// regex renderings: how today's engine may understand a regex matcher R (the tag filter turns some shapes into
// prefix / suffix / substring tests): 0 as upstream (fully anchored), 1 substring, 2 prefix-anchored, 3 suffix-anchored
func regexVariant(v int, val string) string {
	switch v {
	case 1:
		return ".*(?:" + val + ").*"
	case 2:
		return "(?:" + val + ").*"
	case 3:
		return ".*(?:" + val + ")"
	}
	return val
}

// rewriteCurrent rewrites the label matchers of every selector the way today's transpiler treats them and reports
// which of the matcher findings are semantically relevant for this data set. choice selects the rendering of the
// k-th regex matcher (base-4 digits); nregex returns how many regex matchers were met.
func rewriteCurrent(expr string, ds *dataset, choice int) (string, []string, int, error) {
	e, err := parser.ParseExpr(expr)
	if err != nil {
		return "", nil, 0, err
	}
	var rules []string
	nregex := 0
	distinct := map[string]int{} // the reading is chosen per distinct regex matcher text, not per occurrence
	parser.Inspect(e, func(n parser.Node, _ []parser.Node) error {
		vs, ok := n.(*parser.VectorSelector)
		if !ok {
			return nil
		}
		sers := seriesOf(ds, vs)
		var kept []*labels.Matcher
		for _, m := range vs.LabelMatchers {
			if m.Name == "__name__" {
				kept = append(kept, m)
				continue
			}
			carried := false
			for _, ls := range sers {
				if _, has := ls[m.Name]; has {
					carried = true
					break
				}
			}
			switch {
			case m.Value == "":
				// GetTagCondition: `if len(item.Value) == 0 { continue }`
				for _, ls := range sers {
					if !m.Matches(ls[m.Name]) {
						rules = addRule(rules, fEmpty)
					}
				}
				continue
			case !carried:
				// a condition on a key that is no tag of the measurement is ignored by the engine
				if !m.Matches("") {
					rules = addRule(rules, fAbsent)
				}
				continue
			case m.Type == labels.MatchRegexp || m.Type == labels.MatchNotRegexp:
				// regexp.Compile(value) without anchors
				// a matcher whose readings all select the same stored series needs no reading of its own
				effective := false
				for vv := 1; vv <= 3 && !effective; vv++ {
					if alt, err := labels.NewMatcher(m.Type, m.Name, regexVariant(vv, m.Value)); err == nil {
						for _, ls := range sers {
							if m.Matches(ls[m.Name]) != alt.Matches(ls[m.Name]) {
								effective = true
							}
						}
					}
				}
				if !effective {
					kept = append(kept, m)
					continue
				}
				idx, seen := distinct[m.String()]
				if !seen {
					idx = nregex
					distinct[m.String()] = idx
					nregex++
				}
				v := (choice >> (2 * uint(idx))) & 3
				if v == 0 {
					kept = append(kept, m)
					continue
				}
				nm, err := labels.NewMatcher(m.Type, m.Name, regexVariant(v, m.Value))
				if err != nil {
					kept = append(kept, m)
					continue
				}
				for _, ls := range sers {
					if m.Matches(ls[m.Name]) != nm.Matches(ls[m.Name]) {
						rules = addRule(rules, fRegex)
					}
				}
				kept = append(kept, nm)
			default:
				kept = append(kept, m)
			}
		}
		vs.LabelMatchers = kept
		return nil
	})
	return e.String(), rules, nregex, nil
}

// maxOffsetUnderAgg: the largest selector offset (ms) found below an aggregation operator, 0 if none.
func maxOffsetUnderAgg(expr string) int64 {
	e, err := parser.ParseExpr(expr)
	if err != nil {
		return 0
	}
	var mx int64
	parser.Inspect(e, func(n parser.Node, path []parser.Node) error {
		vs, ok := n.(*parser.VectorSelector)
		if !ok || vs.OriginalOffset <= 0 {
			return nil
		}
		for _, p := range path {
			if _, isAgg := p.(*parser.AggregateExpr); isAgg {
				if o := vs.OriginalOffset.Milliseconds(); o > mx {
					mx = o
				}
			}
		}
		return nil
	})
	return mx
}

func scaleResult(r result, k float64) result {
	out := result{Kind: r.Kind, Err: r.Err}
	for _, s := range r.Series {
		ns := rseries{Labels: s.Labels}
		for _, p := range s.Pts {
			ns.Pts = append(ns.Pts, point{T: p.T, V: p.V * k})
		}
		out.Series = append(out.Series, ns)
	}
	return out
}

func truncResult(r result, tmax int64) result {
	out := result{Kind: r.Kind, Err: r.Err}
	for _, s := range r.Series {
		ns := rseries{Labels: s.Labels}
		for _, p := range s.Pts {
			if p.T <= tmax {
				ns.Pts = append(ns.Pts, p)
			}
		}
		if len(ns.Pts) > 0 {
			out.Series = append(out.Series, ns)
		}
	}
	return out
}

// minRangeBelowStep: true if some range-vector selector of the expression has a range shorter than the step
func rangeShorterThanStep(expr string, step int64) bool {
	e, err := parser.ParseExpr(expr)
	if err != nil {
		return false
	}
	found := false
	parser.Inspect(e, func(n parser.Node, _ []parser.Node) error {
		if ms, ok := n.(*parser.MatrixSelector); ok && ms.Range.Milliseconds() < step {
			found = true
		}
		return nil
	})
	return found
}

// groupsByName: the expression has an aggregation `by (...)` that lists __name__
func groupsByName(expr string) bool {
	e, err := parser.ParseExpr(expr)
	if err != nil {
		return false
	}
	found := false
	parser.Inspect(e, func(n parser.Node, _ []parser.Node) error {
		if a, ok := n.(*parser.AggregateExpr); ok && !a.Without {
			for _, g := range a.Grouping {
				if g == "__name__" {
					found = true
				}
			}
		}
		return nil
	})
	return found
}

func dropBefore(r result, tmin int64) result {
	out := result{Kind: r.Kind, Err: r.Err}
	for _, s := range r.Series {
		ns := rseries{Labels: s.Labels}
		for _, p := range s.Pts {
			if p.T >= tmin {
				ns.Pts = append(ns.Pts, p)
			}
		}
		if len(ns.Pts) > 0 {
			out.Series = append(out.Series, ns)
		}
	}
	return out
}

func stripName(r result) result {
	out := result{Kind: r.Kind, Err: r.Err}
	for _, s := range r.Series {
		lb := map[string]string{}
		for k, v := range s.Labels {
			if k != "__name__" {
				lb[k] = v
			}
		}
		out.Series = append(out.Series, rseries{Labels: lb, Pts: s.Pts})
	}
	out.canon()
	return out
}

// explainDiff decides whether a disagreement between upstream and server on this case lies inside the recorded
// signatures. evalUp evaluates an expression with the upstream engine under the case's timing.
func explainDiff(ds *dataset, e *exprCase, mode string, start, lastStep, step int64, sv result, evalUp func(string) result) (bool, *explain) {
	var first *explain
	nchoices := 1
	// first pass: the tight rules under every reading of the regex matchers; second pass: the same readings with the
	// looser shape rules (additional zero points of resets, trailing-point loss, superset / subset shapes) allowed on top
	for _, loose := range []bool{false, true} {
		for choice := 0; choice < nchoices && choice < 256; choice++ {
			ok, ex, nregex := explainWith(ds, e, mode, start, lastStep, step, sv, evalUp, choice, loose)
			if !loose && choice == 0 {
				first = ex
				for k := 0; k < nregex && k < 4; k++ {
					nchoices *= 4
				}
			}
			if ok {
				return true, ex
			}
		}
	}
	return false, first
}

func explainWith(ds *dataset, e *exprCase, mode string, start, lastStep, step int64, sv result, evalUp func(string) result, choice int, allowResets bool) (bool, *explain, int) {
	ex := &explain{}
	rewritten, rules, nregex, err := rewriteCurrent(e.Expr, ds, choice)
	if err != nil {
		return false, nil, 0
	}
	if mode == "range" && maxOffsetUnderAgg(e.Expr) > 0 {
		// whole class (values, merged or missing late points, duplicate-labelset error): see findings.json
		ex.Rules = []string{fOffAgg}
		return true, ex, nregex
	}
	if mode == "range" && rangeShorterThanStep(e.Expr, step) {
		// whole class (bogus points with tiny timestamps, missing points, duplicate-labelset error): see findings.json
		ex.Rules = []string{fStepGtRange}
		return true, ex, nregex
	}
	if mode == "range" && absentOffset(e.Expr) > 0 {
		// whole class: the absent operator enumerates the steps of [start-offset, end-offset] (see findings.json)
		ex.Rules = []string{fAbsentOff}
		return true, ex, nregex
	}
	if mode == "instant" && hasVectorVectorBinop(e.Expr) && maxOffsetUnderAgg(e.Expr) > 0 && emptyAnswer(sv) {
		// the aggregated operand above an offset selector comes back with the shifted time stamp: nothing pairs
		if up := evalUp(e.Expr); up.Err == "" && len(up.Series) > 0 {
			ex.Rules = []string{fOffAgg}
			return true, ex, nregex
		}
	}
	if rw, hit := absentDupRewrite(e.Expr); hit && sv.Err == "" {
		// both engines say "absent" (one element); only the derived label set differs the way today's code derives it
		if orig := evalUp(e.Expr); orig.Err == "" && len(orig.Series) == 1 {
			if up := evalUp(rw); up.Err == "" && cmpResults(up, sv) == "" {
				ex.Rewritten = rw
				ex.Rules = []string{fAbsentDup}
				return true, ex, nregex
			}
		}
	}
	if rw, hit := absentNegRewrite(e.Expr, ds); hit && sv.Err == "" {
		// constructive: the server answers exactly as upstream does when the selector matches nothing
		if up := evalUp(rw); up.Err == "" && cmpResults(up, sv) == "" {
			ex.Rewritten = rw
			ex.Rules = []string{fAbsentNeg}
			return true, ex, nregex
		}
	}
	if sv.Err == oversizeErr && hasMatrixSelector(e.Expr) && staleInSpan(ds, e.Expr, start, lastStep) {
		// the bogus windows from time 0 on (see the staleness finding) make the answer explode
		ex.Rules = []string{fStaleEnd}
		return true, ex, nregex
	}
	if sv.Err != "" {
		return false, nil, nregex
	}
	target := e.Expr
	if len(rules) > 0 {
		target = rewritten
		ex.Rewritten = rewritten
		ex.Rules = rules
	}
	up := evalUp(target)
	if up.Err != "" {
		return false, nil, nregex
	}
	if e.Form == "rangefn" && e.Fn == "rate" && e.RangeMs%1000 != 0 && e.RangeMs >= 1000 {
		// only if the unscaled values do not already agree (the integer division is repaired in fixed trees)
		k := (float64(e.RangeMs) / 1000) / math.Floor(float64(e.RangeMs)/1000)
		if scaled := scaleResult(up, k); cmpResults(up, sv) != "" && cmpResults(scaled, sv) == "" {
			ex.Scale = k
			up = scaled
			ex.Rules = addRule(ex.Rules, fSubsec)
		}
	}
	if groupsByName(e.Expr) {
		up = stripName(up)
		ex.Rules = addRule(ex.Rules, fByName)
	}
	if allowResets && strings.Contains(e.Expr, "resets(") && cmpResults(up, sv) != "" && extraZeros(up, sv) {
		ex.Rules = addRule(ex.Rules, fResetsZero)
		return true, ex, nregex
	}
	if hasVectorVectorBinop(e.Expr) && cmpResults(up, sv) != "" && extraIgnoredLabels(up, sv, ignoringLabels(e.Expr)) {
		ex.Rules = addRule(ex.Rules, fIgnKept)
		return true, ex, nregex
	}
	if allowResets && filterWithOffsetOperand(e.Expr) && cmpResults(up, sv) != "" && subsetOf(up, sv) {
		ex.Rules = addRule(ex.Rules, fFilterOff)
		return true, ex, nregex
	}
	if hasVectorScalarFilter(e.Expr) && cmpResults(up, sv) != "" && nanExtraOnly(up, sv) {
		// value <cmp> scalar is false for NaN: the element must go; today's range path keeps it
		ex.Rules = addRule(ex.Rules, fFilterNaN)
		return true, ex, nregex
	}
	if hasMinMaxAgg(e.Expr) && cmpResults(up, sv) != "" && sentinelInsteadOf(up, sv) {
		// min / max start from +-MaxFloat64 instead of the group's first value
		ex.Rules = addRule(ex.Rules, fMinMaxInit)
		return true, ex, nregex
	}
	if strings.Contains(e.Expr, "holt_winters(") && hasInfSample(ds) && cmpResults(up, sv) != "" && nanInsteadOf(up, sv) {
		// CalcHoltWinters answers NaN as soon as the window holds an infinite value; upstream computes with it
		ex.Rules = addRule(ex.Rules, fHoltInf)
		return true, ex, nregex
	}
	if allowResets && mode == "range" && hasVectorVectorBinop(e.Expr) && cmpResults(up, sv) != "" && extraPointsOnly(up, sv) {
		// the operator walks past the end of the exhausted series' rows into the next series of the chunk
		ex.Rules = addRule(ex.Rules, fBinopNext)
		return true, ex, nregex
	}
	if mode == "range" && hasMatrixSelector(e.Expr) && cmpResults(up, sv) != "" {
		// staleness markers: the point of a step whose window holds a marker is lost
		if miss := missingPoints(up, sv); len(miss) > 0 {
			all := true
			for _, t := range miss {
				if len(staleCandidates(ds, target, t)) == 0 {
					all = false
				}
			}
			if all {
				ex.Rules = addRule(ex.Rules, fStaleEnd)
				return true, ex, nregex
			}
		}
	}
	if hasMatrixSelector(e.Expr) && cmpResults(up, sv) != "" && staleInSpan(ds, e.Expr, start, lastStep) {
		// whole class: a staleness marker inside the windows of the query (see findings.json: a record that holds nothing
		// but markers becomes empty; in range queries the reducers then also emit windows from time 0 on - millions of
		// bogus points - or lose points)
		ex.Rules = addRule(ex.Rules, fStaleEnd)
		return true, ex, nregex
	}
	if mode == "range" && hasMatrixSelector(e.Expr) && cmpResults(up, sv) != "" && trailingLoss(up, sv) {
		ex.Rules = addRule(ex.Rules, fStepGtRange)
		return true, ex, nregex
	}
	if allowResets && mode == "range" && cmpResults(up, sv) != "" && lostAtSliceBoundary(ds, target, up, sv) {
		// a step whose window is fed from two records (files / memtable) loses its point
		if hasMatrixSelector(e.Expr) {
			ex.Rules = addRule(ex.Rules, fStepGtRange)
		} else {
			ex.Rules = addRule(ex.Rules, fSelTrailing)
		}
		return true, ex, nregex
	}
	if allowResets && mode == "range" && !hasMatrixSelector(e.Expr) && cmpResults(up, sv) != "" && trailingLoss(up, sv) {
		// instant-vector selectors in a range query: the last step(s) of some series are lost (layout dependent)
		ex.Rules = addRule(ex.Rules, fSelTrailing)
		return true, ex, nregex
	}
	if len(ex.Rules) == 0 {
		return false, nil, nregex
	}
	if cmpResults(up, sv) == "" {
		return true, ex, nregex
	}
	return false, ex, nregex
}

// extraZeros: the server's answer is upstream's answer plus additional points of value 0
func extraZeros(up, sv result) bool {
	if up.Kind != sv.Kind {
		return false
	}
	um := map[string]map[int64]float64{}
	for _, s := range up.Series {
		m := map[int64]float64{}
		for _, p := range s.Pts {
			m[p.T] = p.V
		}
		um[labelKey(s.Labels)] = m
	}
	extra, n := false, 0
	for _, s := range sv.Series {
		m := um[labelKey(s.Labels)]
		for _, p := range s.Pts {
			if v, ok := m[p.T]; ok {
				if !feq(v, p.V) {
					return false
				}
				n++
			} else if p.V == 0 {
				extra = true
			} else {
				return false
			}
		}
	}
	total := 0
	for _, m := range um {
		total += len(m)
	}
	return extra && n == total
}

func hasMatrixSelector(expr string) bool {
	e, err := parser.ParseExpr(expr)
	if err != nil {
		return false
	}
	found := false
	parser.Inspect(e, func(n parser.Node, _ []parser.Node) error {
		if _, ok := n.(*parser.MatrixSelector); ok {
			found = true
		}
		return nil
	})
	return found
}

// trailingLoss: the server's matrix is upstream's matrix with only trailing points of some series missing
// (every server series is a value-equal prefix of the upstream series with the same labels; a series may be lost
// entirely only if upstream has a single point for it).
func trailingLoss(up, sv result) bool {
	if up.Kind != "matrix" || sv.Kind != "matrix" {
		return false
	}
	um := map[string]rseries{}
	for _, s := range up.Series {
		um[labelKey(s.Labels)] = s
	}
	seen := map[string]bool{}
	lost := false
	for _, s := range sv.Series {
		k := labelKey(s.Labels)
		u, ok := um[k]
		if !ok || seen[k] || len(s.Pts) > len(u.Pts) {
			return false
		}
		seen[k] = true
		for i, p := range s.Pts {
			if p.T != u.Pts[i].T || !feq(p.V, u.Pts[i].V) {
				return false
			}
		}
		if len(s.Pts) < len(u.Pts) {
			lost = true
		}
	}
	for k, u := range um {
		if !seen[k] {
			if len(u.Pts) != 1 {
				return false
			}
			lost = true
		}
	}
	return lost
}
