// C14 black box: a single-node ts-server built from the working tree, retention check interval 3 s. Scenario of finding
// C14-index-outlived-by-shard, arranged around the real wall clock (which cannot be controlled in a server):
//
//	policy rp1: DURATION 100000h, SHARD DURATION 1h, INDEX DURATION 2h; B = start of the PREVIOUS S-block (S in 6h/12h/24h/48h)
//	write p1 at B+30m (shard group [B,B+1h), index group [B,B+2h)); ALTER SHARD DURATION S; write p2 at B+90m: the new
//	group [B,B+S) - which index group serves it is the code's choice; write p3 at B+S-20m (same group);
//	ALTER DURATION S: now p3 (and every point younger than now-S) is inside the retention window, group [B,B+S) expires
//	at B+2S > now, group [B,B+1h) and index group [B,B+2h) are expired.
//
// Direct oracle: after several retention passes p3 is still returned by a query (the statement: points inside the
// window remain queryable) and p1 is gone (eventual removal). Prints one JSON object.
package main

import (
	"encoding/json"
	"fmt"
	"io"
	"net/http"
	"net/url"
	"os"
	"os/exec"
	"path/filepath"
	"strconv"
	"strings"
	"syscall"
	"time"
)

type server struct {
	bin, conf, dir string
	cmd            *exec.Cmd
	base           string
	hc             *http.Client
}

func newServer(bin, confTemplate, dir string, port int) (*server, error) {
	raw, err := os.ReadFile(confTemplate)
	if err != nil {
		return nil, err
	}
	txt := strings.ReplaceAll(string(raw), "/tmp/openGemini", filepath.Join(dir, "og"))
	ports := map[string]int{"8086": 0, "8091": 1, "8092": 2, "8088": 3, "8087": 4, "8400": 5, "8401": 6, "8305": 7, "8010": 8, "8011": 9}
	for from, off := range ports {
		txt = strings.ReplaceAll(txt, "127.0.0.1:"+from, fmt.Sprintf("127.0.0.1:%d", port+off))
	}
	txt = strings.Replace(txt, "store-enabled = true", "store-enabled = false", 1)
	if !strings.Contains(txt, "[retention]") {
		return nil, fmt.Errorf("config template has no [retention] section")
	}
	txt = strings.Replace(txt, "[retention]", "[retention]\n  enabled = true\n  check-interval = \"3s\"", 1)
	conf := filepath.Join(dir, "ts-server.conf")
	if err := os.WriteFile(conf, []byte(txt), 0o644); err != nil {
		return nil, err
	}
	return &server{bin: bin, conf: conf, dir: dir, base: fmt.Sprintf("http://127.0.0.1:%d", port), hc: &http.Client{Timeout: 60 * time.Second}}, nil
}

func (s *server) start() error {
	logf, err := os.OpenFile(filepath.Join(s.dir, "ts-server.log"), os.O_CREATE|os.O_APPEND|os.O_WRONLY, 0o644)
	if err != nil {
		return err
	}
	cmd := exec.Command(s.bin, "-config", s.conf)
	cmd.Dir = s.dir
	cmd.Stdout, cmd.Stderr = logf, logf
	cmd.Env = append(os.Environ(), "HOME="+s.dir, "TMPDIR="+s.dir)
	cmd.SysProcAttr = &syscall.SysProcAttr{Setpgid: true, Pdeathsig: syscall.SIGKILL}
	if err := cmd.Start(); err != nil {
		return err
	}
	s.cmd = cmd
	deadline := time.Now().Add(90 * time.Second)
	for time.Now().Before(deadline) {
		resp, err := s.hc.Get(s.base + "/ping")
		if err == nil {
			resp.Body.Close()
			if resp.StatusCode < 300 {
				for i := 0; i < 100; i++ {
					if _, err := s.query("", "show databases"); err == nil {
						return nil
					}
					time.Sleep(200 * time.Millisecond)
				}
				return nil
			}
		}
		time.Sleep(200 * time.Millisecond)
	}
	s.kill()
	return fmt.Errorf("ts-server did not become ready on %s", s.base)
}

// kill -9 of the server this harness started (its own process group), never by name
func (s *server) kill() {
	if s == nil || s.cmd == nil || s.cmd.Process == nil {
		return
	}
	_ = syscall.Kill(-s.cmd.Process.Pid, syscall.SIGKILL)
	_, _ = s.cmd.Process.Wait()
	s.cmd = nil
}

type qSeries struct {
	Name    string   `json:"name"`
	Columns []string `json:"columns"`
	Values  [][]any  `json:"values"`
}
type qResult struct {
	Series []qSeries `json:"series"`
	Error  string    `json:"error"`
}
type qResp struct {
	Results []qResult `json:"results"`
	Error   string    `json:"error"`
}

func (s *server) query(db, q string) ([]qSeries, error) {
	v := url.Values{"q": {q}, "epoch": {"ns"}}
	if db != "" {
		v.Set("db", db)
	}
	resp, err := s.hc.PostForm(s.base+"/query", v)
	if err != nil {
		return nil, err
	}
	defer resp.Body.Close()
	b, _ := io.ReadAll(resp.Body)
	var r qResp
	dec := json.NewDecoder(strings.NewReader(string(b)))
	dec.UseNumber()
	if err := dec.Decode(&r); err != nil {
		return nil, fmt.Errorf("status %d: unparsable answer %.200q", resp.StatusCode, b)
	}
	if r.Error != "" {
		return nil, fmt.Errorf("%s", r.Error)
	}
	if len(r.Results) == 0 {
		return nil, nil
	}
	if r.Results[0].Error != "" {
		return nil, fmt.Errorf("%s", r.Results[0].Error)
	}
	return r.Results[0].Series, nil
}

func (s *server) write(db, rp, body string) error {
	u := s.base + "/write?db=" + url.QueryEscape(db) + "&rp=" + url.QueryEscape(rp)
	var last error
	for i := 0; i < 20; i++ {
		resp, err := s.hc.Post(u, "text/plain", strings.NewReader(body))
		if err != nil {
			last = err
			time.Sleep(300 * time.Millisecond)
			continue
		}
		b, _ := io.ReadAll(resp.Body)
		resp.Body.Close()
		if resp.StatusCode < 300 {
			return nil
		}
		last = fmt.Errorf("write status %d: %.300s", resp.StatusCode, b)
		time.Sleep(300 * time.Millisecond)
	}
	return last
}

type Out struct {
	Mode    string           `json:"mode"`
	Skipped string           `json:"skipped,omitempty"`
	Error   string           `json:"error,omitempty"` // set-up problem (not a verdict)
	Facts   map[string]int64 `json:"facts"`
	Dirs    []string         `json:"dirs_before"`
	DirsEnd []string         `json:"dirs_after"`
	Log     []string         `json:"log"`
	Oracle  []string         `json:"oracle"`
}

var out = Out{Mode: "bb", Facts: map[string]int64{}, Oracle: []string{}}

func finish(srv *server) {
	srv.kill()
	b, _ := json.Marshal(out)
	fmt.Println(string(b))
	os.Exit(0)
}

// does the point with timestamp t come back?
func (s *server) has(t int64) (bool, error) {
	ser, err := s.query("db0", fmt.Sprintf("SELECT v FROM db0.rp1.m WHERE time >= %d AND time <= %d", t, t))
	if err != nil {
		return false, err
	}
	for _, x := range ser {
		if len(x.Values) > 0 {
			return true, nil
		}
	}
	return false, nil
}

// directories of shards (<id>_<start>_<end>_<indexid>) and indexes (index/<id>_<start>_<end>) of policy rp1
func listDirs(root string) []string {
	var res []string
	_ = filepath.Walk(root, func(p string, info os.FileInfo, err error) error {
		if err != nil || !info.IsDir() {
			return nil
		}
		parent := filepath.Base(filepath.Dir(p))
		gp := filepath.Base(filepath.Dir(filepath.Dir(p)))
		name := info.Name()
		if parent == "rp1" && name != "index" && strings.Count(name, "_") == 3 && strings.Contains(p, "/data/") {
			res = append(res, "shard:"+name)
		}
		if parent == "index" && gp == "rp1" && strings.Count(name, "_") == 2 {
			res = append(res, "index:"+name)
		}
		return nil
	})
	return res
}

func main() {
	if len(os.Args) < 5 {
		fmt.Fprintln(os.Stderr, "usage: c14bb <ts-server> <conf template> <port> <workdir>")
		os.Exit(2)
	}
	port, _ := strconv.Atoi(os.Args[3])
	dir := os.Args[4]
	_ = os.MkdirAll(dir, 0o755)
	srv, err := newServer(os.Args[1], os.Args[2], dir, port)
	if err != nil {
		out.Error = err.Error()
		finish(srv)
	}
	if err := srv.start(); err != nil {
		out.Error = err.Error()
		finish(srv)
	}
	defer srv.kill()
	hour := int64(time.Hour)
	now := time.Now().UnixNano()
	var S, B int64
	for _, s := range []int64{6 * hour, 12 * hour, 24 * hour, 48 * hour, 96 * hour} {
		blk := now - now%s // multiples of 6h..96h counted from year 1 and from 1970 coincide
		if off := now - blk; off > 2*hour+10*int64(time.Minute) && off < s-40*int64(time.Minute) {
			S, B = s, blk-s
			break
		}
	}
	if S == 0 {
		out.Skipped = "the wall clock is too close to a 96h boundary for this scenario"
		finish(srv)
	}
	t1, t2, t3 := B+30*int64(time.Minute), B+90*int64(time.Minute), B+S-20*int64(time.Minute)
	out.Facts["S"], out.Facts["B"], out.Facts["now"], out.Facts["t1"], out.Facts["t2"], out.Facts["t3"] = S, B, now, t1, t2, t3
	step := func(what string, err error) {
		out.Log = append(out.Log, what)
		if err != nil {
			out.Error = what + ": " + err.Error()
			finish(srv)
		}
	}
	q := func(sql string) {
		_, err := srv.query("", sql)
		step(sql, err)
	}
	q("CREATE DATABASE db0")
	q("CREATE RETENTION POLICY rp1 ON db0 DURATION 100000h REPLICATION 1 SHARD DURATION 1h INDEX DURATION 2h DEFAULT")
	step("write p1", srv.write("db0", "rp1", fmt.Sprintf("m,host=a v=1 %d", t1)))
	q(fmt.Sprintf("ALTER RETENTION POLICY rp1 ON db0 SHARD DURATION %dh", S/hour))
	step("write p2", srv.write("db0", "rp1", fmt.Sprintf("m,host=b v=2 %d", t2)))
	step("write p3", srv.write("db0", "rp1", fmt.Sprintf("m,host=c v=3 %d", t3)))
	// all three visible?
	for i := 0; i < 50; i++ {
		a, _ := srv.has(t1)
		b, _ := srv.has(t2)
		c, _ := srv.has(t3)
		if a && b && c {
			break
		}
		if i == 49 {
			step("points visible after the writes", fmt.Errorf("p1=%v p2=%v p3=%v", a, b, c))
		}
		time.Sleep(200 * time.Millisecond)
	}
	out.Dirs = listDirs(filepath.Join(dir, "og"))
	// which index does the long group use, and when does that index group end?
	for _, d := range out.Dirs {
		f := strings.Split(strings.SplitN(d, ":", 2)[1], "_")
		if strings.HasPrefix(d, "shard:") {
			en, _ := strconv.ParseInt(f[2], 10, 64)
			st, _ := strconv.ParseInt(f[1], 10, 64)
			if en-st == S {
				out.Facts["sg_end"] = en
				out.Facts["sg_index"], _ = strconv.ParseInt(f[3], 10, 64)
			}
		}
	}
	for _, d := range out.Dirs {
		f := strings.Split(strings.SplitN(d, ":", 2)[1], "_")
		if strings.HasPrefix(d, "index:") {
			id, _ := strconv.ParseInt(f[0], 10, 64)
			if id == out.Facts["sg_index"] {
				out.Facts["ig_end"], _ = strconv.ParseInt(f[2], 10, 64)
			}
		}
	}
	q(fmt.Sprintf("ALTER RETENTION POLICY rp1 ON db0 DURATION %dh", S/hour))
	// several passes of the retention service (interval 3 s)
	lost := int64(-1)
	p1gone := false
	for i := 0; i < 30; i++ {
		time.Sleep(time.Second)
		c, err := srv.has(t3)
		if (err != nil || !c) && lost < 0 {
			lost = int64(i)
			out.Log = append(out.Log, fmt.Sprintf("p3 no longer returned after %d s (err=%v)", i+1, err))
		}
		if a, err := srv.has(t1); err == nil && !a {
			p1gone = true
		}
		if p1gone && i >= 12 {
			break
		}
	}
	for i := 0; i < 45 && !p1gone; i++ { // a slow machine: give the eventual removal more time before judging it
		time.Sleep(time.Second)
		if a, err := srv.has(t1); err == nil && !a {
			p1gone = true
		}
	}
	out.DirsEnd = listDirs(filepath.Join(dir, "og"))
	c, err := srv.has(t3)
	if err != nil { // the server does not answer: a set-up problem, not a verdict
		out.Error = "final query failed: " + err.Error()
		finish(srv)
	}
	if !c {
		out.Oracle = append(out.Oracle, fmt.Sprintf("point p3 (t=%d, inside the retention window [now-%dh, ..) and in shard group ending %d which expires at %d > now) is no longer queryable after the retention passes (err=%v)",
			t3, S/hour, out.Facts["sg_end"], out.Facts["sg_end"]+S, err))
	}
	if !p1gone {
		out.Oracle = append(out.Oracle, fmt.Sprintf("point p1 (t=%d, shard group [B,B+1h) expired at %d < now) is still returned after the retention passes", t1, B+hour+S))
	}
	finish(srv)
}
