// C08 store-side operator-level harness: the REAL store-side aggregate cursors (fileLoopCursor, fileCursor,
// aggregateCursor, AggTagSetCursor / PreAggTagSetCursor, groupCursor, ChunkReader - whatever the planner builds for the
// statement) on every piece cut of small generated series.
//
// A "piece cut" is where the rows of a series are split between storage generations and batches: the write sequence of a
// data set (in time order, or shuffled = overlapping files) is cut at EVERY pair of positions (c1 <= c2) into file 1,
// file 2 and the memtable, each layout in a fresh shard, and every statement runs under the batch sizes 1, 2, 3 and 1024
// (the store cuts a series into pieces of that many rows). The rows the reader emits are PARTIAL aggregates per series /
// file / tag set; they are handed to the driver unchanged, and the Coq L2 model folds them with its own combination of
// partial aggregates (Pipe.rowop / kagg / fin_row) and compares the result with the reference semantics over the logical
// contents (Corr.store_mismatches). The harness applies a Go twin of the same oracle so that a failure is a direct-oracle
// failure with a concrete layout.
//
// usage: c08s <workdir> <nDatasets>
package main

import (
	"flag"
	"fmt"
	"os"
	"path/filepath"
	"sort"
	"strconv"
	"strings"

	"github.com/openGemini/openGemini/engine"
	"verifharness/internal/gen"
	"verifharness/internal/tsdrv"
)

type Call struct {
	Fn string `json:"fn"` // count sum min max first last
	F  int    `json:"f"`  // 0 = fa_int, 1 = fb_float (value code = 4 * value)
}
type Stmt struct {
	Calls    []Call `json:"calls"`
	HasRange bool   `json:"has_range"`
	Tmin     int    `json:"tmin"`
	Tmax     int    `json:"tmax"`
	FiltGe   int    `json:"filt_ge"` // fa_int >= FiltGe when HasFilt
	HasFilt  bool   `json:"has_filt"`
	Group    string `json:"group"` // "" | host | zone
	Interval int    `json:"interval"`
	Desc     bool   `json:"desc"`
	SQL      string `json:"sql"`
}
type Part struct { // one cell of an emitted partial row
	Null bool  `json:"null,omitempty"`
	V    int64 `json:"v"` // value code
	T    int   `json:"t"` // time index the cell is stamped with (selectors: the point's time)
}
type PRow struct {
	Host int    `json:"host"` // -1 when the row carries no host tag
	Zone int    `json:"zone"` // -1 when the row carries no zone tag
	T    int    `json:"t"`
	C    []Part `json:"c"`
}
type Out struct {
	Key  int      `json:"key"` // group id (host / zone id, 0 without grouping)
	B    int      `json:"b"`   // bucket start (time index), 0 without interval
	Cell []*int64 `json:"cell"`
}
type Case struct {
	DS     int         `json:"ds"`
	Rows   []tsdrv.Row `json:"rows,omitempty"` // the data set, in write order (only on the first case of a layout)
	NSer   int         `json:"nser"`
	C1     int         `json:"c1"`
	C2     int         `json:"c2"`
	Chunk  int         `json:"chunk"`
	Stmt   *Stmt       `json:"stmt"`
	Exprs  []string    `json:"exprs"`
	Parts  []PRow      `json:"parts"`
	Got    []Out       `json:"got"`
	Want   []Out       `json:"want"`
	Err    string      `json:"err,omitempty"`
	Fail   []string    `json:"fail"`
	Layout string      `json:"layout"` // inorder | ooo
}

func render(s *Stmt) string {
	fn := []string{"fa_int", "fb_float"}
	var sel []string
	for _, c := range s.Calls {
		sel = append(sel, fmt.Sprintf("%s(%s)", c.Fn, fn[c.F]))
	}
	q := "SELECT " + strings.Join(sel, ", ") + " FROM m"
	var w []string
	if s.HasRange {
		w = append(w, fmt.Sprintf("time >= %d AND time <= %d", tsdrv.TimeOf(s.Tmin), tsdrv.TimeOf(s.Tmax)))
	}
	if s.HasFilt {
		w = append(w, fmt.Sprintf("fa_int >= %d", s.FiltGe))
	}
	if len(w) > 0 {
		q += " WHERE " + strings.Join(w, " AND ")
	}
	var g []string
	if s.Interval > 0 {
		g = append(g, fmt.Sprintf("time(%ds)", s.Interval))
	}
	if s.Group != "" {
		g = append(g, s.Group)
	}
	if len(g) > 0 {
		q += " GROUP BY " + strings.Join(g, ", ")
	}
	if s.Desc {
		q += " ORDER BY time DESC"
	}
	return q
}

// genStmt: shape 0..7 forces the combinations that matter for the cursors (time buckets x order x filter), the rest is random
func genStmt(r *gen.Rand, ntimes int, shape int) *Stmt {
	s := &Stmt{}
	n := r.Range(1, 2)
	seen := map[string]bool{}
	for len(s.Calls) < n {
		c := Call{Fn: gen.Pick(r, []string{"count", "sum", "min", "max", "first", "last"}), F: r.Range(0, 1)}
		id := c.Fn + strconv.Itoa(c.F)
		if seen[id] {
			continue
		}
		seen[id] = true
		s.Calls = append(s.Calls, c)
	}
	bucketed := shape%8 < 5
	if bucketed || r.Chance(1, 2) {
		s.HasRange = true
		s.Tmin = r.Range(0, ntimes/3)
		s.Tmax = s.Tmin + r.Range(ntimes/2, ntimes)
	}
	if shape%8 == 2 || shape%8 == 6 || r.Chance(1, 5) {
		s.HasFilt, s.FiltGe = true, r.Range(1, 4)
	}
	s.Group = gen.Pick(r, []string{"", "host", "zone"})
	if bucketed {
		s.Interval = gen.Pick(r, []int{2, 2, 4, 5, 10}) // divisors of the base instant: buckets align with the time index
	}
	s.Desc = shape%2 == 1
	s.SQL = render(s)
	return s
}

// value code of field f of a row (nil when absent)
func fieldOf(row tsdrv.Row, f int) *int64 {
	for _, fv := range row.F {
		if fv.F == f {
			v := fv.V
			return &v
		}
	}
	return nil
}

func groupOf(s *Stmt, ser int) int {
	switch s.Group {
	case "host":
		return ser + 1
	case "zone":
		return ser%2 + 1
	}
	return 0
}

func bucketOf(s *Stmt, t int) int {
	if s.Interval == 0 {
		return 0
	}
	return t / s.Interval * s.Interval
}

type acc struct {
	n, sum int64
	have   bool
	bt     int
	bv     int64
	fn     string
}

func (a *acc) better(t int, v int64) bool {
	switch a.fn {
	case "min":
		return v < a.bv || (v == a.bv && t < a.bt)
	case "max":
		return v > a.bv || (v == a.bv && t < a.bt)
	case "first":
		return t < a.bt || (t == a.bt && v > a.bv)
	case "last":
		return t > a.bt || (t == a.bt && v > a.bv)
	}
	return false
}

func (a *acc) point(t int, v int64) {
	a.n++
	a.sum += v
	if !a.have || a.better(t, v) {
		a.bt, a.bv, a.have = t, v, true
	}
}

func (a *acc) cell() *int64 {
	if !a.have {
		return nil
	}
	var v int64
	switch a.fn {
	case "count":
		v = a.n
	case "sum":
		v = a.sum
	default:
		v = a.bv
	}
	return &v
}

type okey struct{ g, b int }

func finish(s *Stmt, m map[okey][]*acc) []Out {
	var out []Out
	for k, as := range m {
		o := Out{Key: k.g, B: k.b}
		any := false
		for _, a := range as {
			c := a.cell()
			o.Cell = append(o.Cell, c)
			any = any || c != nil
		}
		if any {
			out = append(out, o)
		}
	}
	sort.Slice(out, func(i, j int) bool {
		if out[i].Key != out[j].Key {
			return out[i].Key < out[j].Key
		}
		return out[i].B < out[j].B
	})
	return out
}

func newAccs(s *Stmt) []*acc {
	as := make([]*acc, len(s.Calls))
	for i, c := range s.Calls {
		as[i] = &acc{fn: c.Fn}
	}
	return as
}

// reference: the documented aggregate per (group, bucket) over the logical contents (last write wins is not needed:
// every point is written once)
func reference(s *Stmt, rows []tsdrv.Row) []Out {
	m := map[okey][]*acc{}
	for _, row := range rows {
		if s.HasRange && (row.T < s.Tmin || row.T > s.Tmax) {
			continue
		}
		if s.HasFilt {
			fa := fieldOf(row, 0)
			if fa == nil || *fa < int64(s.FiltGe) {
				continue
			}
		}
		k := okey{groupOf(s, row.S), bucketOf(s, row.T)}
		for i, c := range s.Calls {
			v := fieldOf(row, c.F)
			if v == nil {
				continue
			}
			if m[k] == nil {
				m[k] = newAccs(s)
			}
			m[k][i].point(row.T, *v)
		}
	}
	return finish(s, m)
}

// combine: fold the partial rows the store emitted (the upper stages' job; Go twin of the Coq fold)
func combine(s *Stmt, parts []PRow) []Out {
	m := map[okey][]*acc{}
	for _, p := range parts {
		g := 0
		switch s.Group {
		case "host":
			g = p.Host + 1
		case "zone":
			g = p.Zone + 1
		}
		for i, c := range s.Calls {
			cell := p.C[i]
			if cell.Null {
				continue
			}
			k := okey{g, bucketOf(s, cell.T)}
			if m[k] == nil {
				m[k] = newAccs(s)
			}
			a := m[k][i]
			switch c.Fn {
			case "count":
				a.n += cell.V
				a.have = true
			case "sum":
				a.sum += cell.V
				a.have = true
			default:
				if !a.have || a.better(cell.T, cell.V) {
					a.bt, a.bv, a.have = cell.T, cell.V, true
				}
			}
		}
	}
	return finish(s, m)
}

func eqOut(a, b []Out) bool {
	if len(a) != len(b) {
		return false
	}
	for i := range a {
		if a[i].Key != b[i].Key || a[i].B != b[i].B || len(a[i].Cell) != len(b[i].Cell) {
			return false
		}
		for k := range a[i].Cell {
			x, y := a[i].Cell[k], b[i].Cell[k]
			if (x == nil) != (y == nil) || (x != nil && *x != *y) {
				return false
			}
		}
	}
	return true
}

func tagID(tags map[string]string, key, prefix string) int {
	v, ok := tags[key]
	if !ok || !strings.HasPrefix(v, prefix) {
		return -1
	}
	n, err := strconv.Atoi(v[len(prefix):])
	if err != nil {
		return -1
	}
	return n
}

// colOrder: the reader's columns are symbol references (val0, val2, ..) allocated in the order of the select list; one
// column per call is required, anything else is reported
func colOrder(s *Stmt, exprs []string) ([]int, error) {
	if len(exprs) != len(s.Calls) {
		return nil, fmt.Errorf("reader has %d columns %v for %d calls", len(exprs), exprs, len(s.Calls))
	}
	ord := make([]int, len(s.Calls))
	for i := range ord {
		ord[i] = i
	}
	return ord, nil
}

func toParts(s *Stmt, rows []engine.VerifAggRow, exprs []string) ([]PRow, error) {
	var out []PRow
	ord, err := colOrder(s, exprs)
	if err != nil {
		return nil, err
	}
	for _, r := range rows {
		p := PRow{Host: tagID(r.Tags, "host", "h"), Zone: tagID(r.Tags, "zone", "z"), T: tsdrv.IdxOf(r.Time)}
		if len(r.Cells) != len(exprs) {
			return nil, fmt.Errorf("reader emitted %d cells for %d columns", len(r.Cells), len(exprs))
		}
		for i := range s.Calls {
			c := r.Cells[ord[i]]
			if c.Nil {
				p.C = append(p.C, Part{Null: true})
				continue
			}
			var v int64
			if s.Calls[i].Fn == "count" {
				v = c.I
			} else if s.Calls[i].F == 0 {
				v = c.I
			} else {
				v = int64(c.F * 4)
				if float64(v) != c.F*4 {
					return nil, fmt.Errorf("non-dyadic float %v", c.F)
				}
			}
			t := tsdrv.IdxOf(c.Time)
			if !c.HasCT {
				t = tsdrv.IdxOf(r.Time)
			}
			p.C = append(p.C, Part{V: v, T: t})
		}
		out = append(out, p)
	}
	return out, nil
}

func genData(r *gen.Rand, nser, ntimes int) []tsdrv.Row {
	var rows []tsdrv.Row
	for t := 0; t < ntimes; t++ {
		for s := 0; s < nser; s++ {
			if !r.Chance(3, 5) {
				continue
			}
			row := tsdrv.Row{S: s, T: t}
			if r.Chance(3, 4) {
				row.F = append(row.F, tsdrv.FV{F: 0, V: int64(r.Range(0, 7))})
			}
			if r.Chance(3, 4) || len(row.F) == 0 {
				row.F = append(row.F, tsdrv.FV{F: 1, V: int64(r.Range(-8, 24))})
			}
			rows = append(rows, row)
		}
	}
	return rows
}

func main() {
	flag.Parse()
	if flag.NArg() < 2 {
		fmt.Fprintln(os.Stderr, "usage: c08s <workdir> <nDatasets>")
		os.Exit(2)
	}
	work := flag.Arg(0)
	nds, _ := strconv.Atoi(flag.Arg(1))
	r := gen.FromEnv(818)
	if err := tsdrv.Init(work); err != nil {
		fmt.Fprintln(os.Stderr, "init:", err)
		os.Exit(3)
	}
	shardNo := 0
	for ds := 0; ds < nds; ds++ {
		nser, ntimes := r.Range(2, 3), r.Range(4, 7)
		rows := genData(r, nser, ntimes)
		layout := "inorder"
		if ds%2 == 1 { // shuffled write order: the files of a series overlap in time
			layout = "ooo"
			for i := len(rows) - 1; i > 0; i-- {
				j := r.Intn(i + 1)
				rows[i], rows[j] = rows[j], rows[i]
			}
		}
		var stmts []*Stmt
		for i := 0; i < 8; i++ {
			stmts = append(stmts, genStmt(r, ntimes, i))
		}
		n := len(rows)
		for c1 := 0; c1 <= n; c1++ {
			for c2 := c1; c2 <= n; c2++ {
				shardNo++
				sh, err := tsdrv.Open(filepath.Join(work, fmt.Sprintf("sh%d", shardNo)), nser)
				if err != nil {
					fmt.Fprintln(os.Stderr, "open:", err)
					os.Exit(3)
				}
				for b, part := range [][]tsdrv.Row{rows[:c1], rows[c1:c2], rows[c2:]} {
					if len(part) > 0 {
						if err := sh.Write(part); err != nil {
							fmt.Fprintln(os.Stderr, "write:", err)
							os.Exit(3)
						}
					}
					if b < 2 && len(part) > 0 {
						sh.V.ForceFlush()
					}
				}
				first := true
				for _, st := range stmts {
					want := reference(st, rows)
					for _, chunk := range []int{1024, 1, 2, 3} {
						c := &Case{DS: ds, NSer: nser, C1: c1, C2: c2, Chunk: chunk, Stmt: st, Want: want, Layout: layout}
						if first {
							c.Rows, first = rows, false
						}
						vr, exprs, _, err := sh.V.VerifSelectPipelineOpt(st.SQL, tsdrv.FieldQLMap, []string{"host", "zone"}, chunk)
						c.Exprs = exprs
						if err != nil {
							c.Err = err.Error()
							c.Fail = append(c.Fail, "error")
						} else if parts, perr := toParts(st, vr, exprs); perr != nil {
							c.Err = perr.Error()
							c.Fail = append(c.Fail, "error")
						} else {
							c.Parts = parts
							c.Got = combine(st, parts)
							if !eqOut(c.Got, want) {
								c.Fail = append(c.Fail, "spec")
							}
						}
						gen.Emit(map[string]any{"storecase": c})
					}
				}
				_ = sh.Close()
				_ = os.RemoveAll(sh.Dir)
			}
		}
	}
}
