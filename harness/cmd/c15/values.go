// C15 harness, values mode: value-level coverage of the snapshot encoding. A catalogue in which (nearly) every container is
// populated is built through commands; then, for every leaf field reachable in it (by reflection, unexported fields
// included) and every boundary value of the leaf's Go TYPE, that one leaf is set to the value and the catalogue goes through
// the snapshot path - Data.Clone, MarshalBinary, UnmarshalBinary into a fresh Data - and the leaf is read back at the same
// path. One JSON object {"values":[...]} with the outcome per (Type.Field, value class), and the fields the baseline does
// not reach. No randomness.
package main

import (
	"fmt"
	"math"
	"reflect"
	"sort"
	"strings"
	"time"
	"unsafe"

	meta2 "github.com/openGemini/openGemini/lib/util/lifted/influx/meta"
)

type VOutcome struct {
	Field   string `json:"field"`   // Type.Field
	GoType  string `json:"type"`    // Go type of the leaf
	Class   string `json:"class"`   // name of the boundary value
	Outcome string `json:"outcome"` // ok | differs | marshal-error | unmarshal-error | panic | lost (path missing after restore)
	Before  string `json:"before,omitempty"`
	After   string `json:"after,omitempty"`
	Path    string `json:"path,omitempty"`
	Ctx     string `json:"ctx"` // the path with container keys abstracted: the unit of classification
}

type pstep struct {
	kind  int // 0 field, 1 slice index, 2 map key, 3 pointer
	index int
	key   reflect.Value
}

func settable(v reflect.Value) reflect.Value {
	if v.CanSet() {
		return v
	}
	return reflect.NewAt(v.Type(), unsafe.Pointer(v.UnsafeAddr())).Elem()
}

// navigate follows a path from the root; ok=false if some container no longer has the element
func navigate(root reflect.Value, path []pstep) (reflect.Value, bool) {
	v := root
	for _, s := range path {
		switch s.kind {
		case 0:
			v = v.Field(s.index)
		case 1:
			if v.Len() <= s.index {
				return v, false
			}
			v = v.Index(s.index)
		case 2:
			e := v.MapIndex(s.key)
			if !e.IsValid() {
				return v, false
			}
			// map values are not addressable: a pointer is followed as it is, anything else is copied out (not possible for a map
			// reached through an unexported field: such plain values are not swept)
			if e.Kind() == reflect.Ptr {
				v = e
			} else if e.CanInterface() {
				c := reflect.New(e.Type()).Elem()
				c.Set(e)
				v = c
			} else {
				return v, false
			}
		case 3:
			if v.IsNil() {
				return v, false
			}
			v = v.Elem()
		}
	}
	return v, true
}

type bval struct {
	class string
	v     reflect.Value
}

func boundaries(t reflect.Type) []bval {
	mk := func(class string, x any) bval { return bval{class, reflect.ValueOf(x).Convert(t)} }
	if t == timeType {
		return []bval{
			{"zero-time", reflect.ValueOf(time.Time{})},
			{"epoch", reflect.ValueOf(time.Unix(0, 0))},
			{"epoch+1ns", reflect.ValueOf(time.Unix(0, 1))},
			{"epoch-1ns", reflect.ValueOf(time.Unix(0, -1))},
			{"min-int64-ns", reflect.ValueOf(time.Unix(0, math.MinInt64))},
			{"max-int64-ns", reflect.ValueOf(time.Unix(0, math.MaxInt64))},
			{"other-zone", reflect.ValueOf(time.Unix(1700000000, 5).In(time.FixedZone("x", 8*3600)))},
			{"after-int64-ns", reflect.ValueOf(time.Date(3000, 1, 1, 0, 0, 0, 0, time.UTC))},
			{"before-int64-ns", reflect.ValueOf(time.Date(1500, 1, 1, 0, 0, 0, 0, time.UTC))},
		}
	}
	switch t.Kind() {
	case reflect.Bool:
		return []bval{mk("false", false), mk("true", true)}
	case reflect.Int64:
		return []bval{mk("0", int64(0)), mk("1", int64(1)), mk("-1", int64(-1)), mk("min-int64", int64(math.MinInt64)), mk("max-int64", int64(math.MaxInt64))}
	case reflect.Int:
		return []bval{mk("0", 0), mk("1", 1), mk("-1", -1), mk("max-int32", math.MaxInt32), mk("max-int32+1", int64(math.MaxInt32)+1),
			mk("max-uint32+1", int64(math.MaxUint32)+1), mk("min-int32-1", int64(math.MinInt32)-1), mk("max-int64", int64(math.MaxInt64))}
	case reflect.Int32:
		return []bval{mk("0", int32(0)), mk("-1", int32(-1)), mk("max-int32", int32(math.MaxInt32)), mk("min-int32", int32(math.MinInt32))}
	case reflect.Int16:
		return []bval{mk("0", int16(0)), mk("-1", int16(-1)), mk("max-int16", int16(math.MaxInt16))}
	case reflect.Int8:
		return []bval{mk("0", int8(0)), mk("-1", int8(-1)), mk("max-int8", int8(math.MaxInt8))}
	case reflect.Uint64:
		return []bval{mk("0", uint64(0)), mk("1", uint64(1)), mk("max-int64", uint64(math.MaxInt64)), mk("max-int64+1", uint64(math.MaxInt64)+1), mk("max-uint64", uint64(math.MaxUint64))}
	case reflect.Uint32:
		return []bval{mk("0", uint32(0)), mk("1", uint32(1)), mk("max-uint32", uint32(math.MaxUint32))}
	case reflect.Uint16:
		return []bval{mk("0", uint16(0)), mk("max-uint16", uint16(math.MaxUint16))}
	case reflect.Uint8:
		return []bval{mk("0", uint8(0)), mk("max-uint8", uint8(math.MaxUint8))}
	case reflect.Uint:
		return []bval{mk("0", uint(0)), mk("max-uint32+1", uint64(math.MaxUint32)+1)}
	case reflect.Float64, reflect.Float32:
		return []bval{mk("0", 0.0), mk("1.5", 1.5), mk("nan", math.NaN()), mk("+inf", math.Inf(1))}
	case reflect.String:
		return []bval{mk("empty", ""), mk("ascii", "x"), mk("non-utf8", "\xff\xfe"), mk("nul", "a\x00b"), mk("two-byte-rune", "ü")}
	}
	return nil
}

// leaf value as text; DeletedAt stamps only as set/unset (the statement compares wall-clock deletion stamps that way)
func leafText(v reflect.Value, field string) string {
	if v.Type() == timeType {
		return fmt.Sprint(dumpVal(v, field))
	}
	switch v.Kind() {
	case reflect.Float32, reflect.Float64:
		return fmt.Sprintf("%x", math.Float64bits(v.Float()))
	case reflect.String:
		return fmt.Sprintf("%q", v.String())
	}
	return fmt.Sprint(dumpVal(v, field))
}

type valuesRun struct {
	base    *meta2.Data
	out     []VOutcome
	reached map[string]bool
	all     map[string]bool
	empty   map[string]bool // container fields that hold nothing in the baseline: what is below them is not swept
	budget  map[string]int // leaves visited per Type.Field (the first few instances are enough)
}

// snapshotPath: what storeFSM.Snapshot + Persist + Restore do to the catalogue
func snapshotPath(d *meta2.Data) (res *meta2.Data, outcome string) {
	defer func() {
		if e := recover(); e != nil {
			res, outcome = nil, "panic"
		}
	}()
	b, err := d.Clone().MarshalBinary()
	if err != nil {
		return nil, "marshal-error"
	}
	n := &meta2.Data{}
	if err := n.UnmarshalBinary(b); err != nil {
		return nil, "unmarshal-error"
	}
	return n, "ok"
}

func pathText(path []pstep, root reflect.Type) string {
	var sb strings.Builder
	t := root
	for _, s := range path {
		switch s.kind {
		case 0:
			sb.WriteString("/" + t.Field(s.index).Name)
			t = t.Field(s.index).Type
		case 1:
			sb.WriteString(fmt.Sprintf("/[%d]", s.index))
			t = t.Elem()
		case 2:
			sb.WriteString(fmt.Sprintf("/[%v]", s.key))
			t = t.Elem()
		case 3:
			t = t.Elem()
		}
	}
	return sb.String()
}

func (vr *valuesRun) leaf(path []pstep, owner, fname string) {
	key := owner + "." + fname
	root := reflect.ValueOf(vr.base).Elem()
	ctx := keyRe.ReplaceAllString(pathText(path, root.Type()), "[*]")
	if vr.budget[ctx] >= 2 {
		return
	}
	vr.budget[ctx]++
	v, ok := navigate(root, path)
	if !ok {
		return
	}
	// a leaf inside a map value cannot be set in place: such leaves are reached through pointer-valued maps only
	if !v.CanAddr() {
		return
	}
	sv := settable(v)
	orig := reflect.New(v.Type()).Elem()
	orig.Set(sv)
	for _, b := range boundaries(v.Type()) {
		sv.Set(b.v)
		before := leafText(sv, fname)
		o := VOutcome{Field: key, GoType: v.Type().String(), Class: b.class, Path: pathText(path, root.Type()), Ctx: ctx}
		n, outc := snapshotPath(vr.base)
		o.Outcome = outc
		if n != nil {
			rv, ok := navigate(reflect.ValueOf(n).Elem(), path)
			if !ok {
				o.Outcome = "lost"
			} else if after := leafText(rv, fname); after != before {
				o.Outcome, o.Before, o.After = "differs", before, after
			}
		}
		vr.out = append(vr.out, o)
	}
	sv.Set(orig)
}

func (vr *valuesRun) walk(path []pstep, v reflect.Value, owner, fname string) {
	t := v.Type()
	if t == timeType {
		vr.reached[owner+"."+fname] = true
		vr.leaf(path, owner, fname)
		return
	}
	switch t.Kind() {
	case reflect.Struct:
		for i := 0; i < t.NumField(); i++ {
			f := t.Field(i)
			k := t.Name() + "." + f.Name
			if skip[k] || f.Type.Kind() == reflect.Func || f.Type.Kind() == reflect.Chan || strings.HasPrefix(f.Type.String(), "sync.") {
				continue
			}
			vr.all[k] = true
			vr.walk(append(append([]pstep{}, path...), pstep{kind: 0, index: i}), v.Field(i), t.Name(), f.Name)
		}
	case reflect.Ptr:
		if v.IsNil() {
			vr.empty[owner+"."+fname] = true
			return
		}
		vr.reached[owner+"."+fname] = true
		vr.walk(append(append([]pstep{}, path...), pstep{kind: 3}), v.Elem(), owner, fname)
	case reflect.Slice, reflect.Array:
		if v.Len() == 0 {
			vr.empty[owner+"."+fname] = true
			return
		}
		vr.reached[owner+"."+fname] = true
		for i := 0; i < v.Len(); i++ { // every element: the per-field budget in leaf() bounds the sweeps
			vr.walk(append(append([]pstep{}, path...), pstep{kind: 1, index: i}), v.Index(i), owner, fname)
		}
	case reflect.Map:
		if v.Len() == 0 {
			vr.empty[owner+"."+fname] = true
			return
		}
		vr.reached[owner+"."+fname] = true
		keys := v.MapKeys()
		sort.Slice(keys, func(i, j int) bool { return fmt.Sprint(keys[i]) < fmt.Sprint(keys[j]) })
		for _, k := range keys {
			e := v.MapIndex(k)
			if e.Kind() == reflect.Ptr || e.Kind() == reflect.Slice {
				vr.walk(append(append([]pstep{}, path...), pstep{kind: 2, key: k}), e, owner, fname)
			} else {
				vr.reached[owner+"."+fname] = true // maps of scalars / plain structs: not swept in place (map values are not addressable)
			}
		}
	case reflect.Interface:
		return
	default:
		vr.reached[owner+"."+fname] = true
		vr.leaf(path, owner, fname)
	}
}

// valuesBaseline: a catalogue with as many containers populated as commands allow
func valuesBaseline() *meta2.Data {
	R := newReplicaC(Conf{PtPer: 2})
	cmds := []Cmd{
		{K: "cnode", H: 1, T: 1}, {K: "cnode", H: 2, T: 2}, {K: "cmeta", H: 1, T: 5, U1: 7}, {K: "csql", H: 1},
		{K: "cptv", DB: 1}, {K: "cdb", DB: 1, HasRP: true, RP: 1, D: i64(0), SGD: i64(Hour)},
		{K: "cptv", DB: 2, U1: 2}, {K: "cdb", DB: 2, HasRP: true, RP: 1, D: i64(0), SGD: i64(Hour), U1: 2},
		{K: "cmst", DB: 1, RP: 1, M: 1, X: "schema"}, {K: "cmst", DB: 1, RP: 1, M: 2},
		{K: "cdb", DB: 3, HasRP: true, RP: 2, D: i64(0), SGD: i64(Hour), X: "skitype"}, {K: "cmst", DB: 3, RP: 2, M: 3, X: "rich"},
		{K: "cuser", S1: "admin", S2: "h", Def: true}, {K: "cuser", S1: "u1", S2: "h"}, {K: "setpriv", S1: "u1", DB: 1, Status: 2},
		{K: "cstream", S1: "st1", DB: 1, RP: 1, M: 1, Ver: 2, U1: 1},
		{K: "ccq", DB: 1, S1: "cq1", S2: "CREATE CONTINUOUS QUERY q0"}, {K: "cqreport", S1: "cq1", TS: Base},
		{K: "csub", DB: 1, RP: 1, S1: "sub0", S2: "ALL", H: 1},
		{K: "csg", DB: 1, RP: 1, TS: Base}, {K: "csg", DB: 1, RP: 1, TS: Base + 5*Hour}, {K: "delsg", DB: 1, RP: 1, ID: 2},
		{K: "updschema", DB: 1, RP: 1, M: 1, Ver: 2, Eng: 3}, {K: "umst", DB: 1, RP: 1, M: 1, TS: 7},
		{K: "cdsp", DB: 1, RP: 1, U1: 1, TS: 24 * Hour}, {K: "dsinfo", DB: 1, RP: 1, ID: 1, Status: 1, U1: 1, Def: true},
		{K: "cevent", S1: "db1$0", DB: 1, Pt: 0, COwner: 1, CStat: 1, Status: 1, Eng: 1, Ver: 0, Owner: 1, ID: 2},
		{K: "regqid", S1: "s1:8086"}, {K: "nstatus", ID: 1, Status: 1, U1: 3}, {K: "tmpindex", Status: 1, U1: 9, ID: 1},
		{K: "shtier", DB: 1, RP: 1, ID: 1, U1: 2}, {K: "segregate", ID: 1, U1: 1},
	}
	for i := range cmds {
		if res := R.apply(i, buildCmd(&cmds[i], nil)); res != 0 {
			panic(fmt.Sprintf("values baseline: command %d (%s) failed", i, cmds[i].K))
		}
	}
	return R.fsm.Data()
}

// populate fills what the commands of the baseline leave empty (nil pointers to structs, empty slices and maps below
// meta.Data) with one element of plain values, so that the leaves below are swept too. Only containers of the meta package's
// own struct types or of scalars are filled; identity-keyed maps of the catalogue are never empty in the baseline.
var fillable = map[string]bool{"DatabaseInfo.Options": true, "DbPtInfo.Shards": true, "IndexGroupInfo.ClearInfo": true, "IndexOption.TokensTable": true,
	"MeasurementInfo.ObsOptions": true, "MeasurementInfo.ShardIdexes": true}

func populate(v reflect.Value, depth int, filled *[]string, owner, fname string) {
	if depth > 12 {
		return
	}
	if k := v.Kind(); (k == reflect.Ptr && v.IsNil() || (k == reflect.Slice || k == reflect.Map) && v.Len() == 0) && !fillable[owner+"."+fname] {
		return // only the containers no command of the baseline can fill
	}
	t := v.Type()
	if t == timeType {
		return
	}
	switch t.Kind() {
	case reflect.Struct:
		for i := 0; i < t.NumField(); i++ {
			f := t.Field(i)
			k := t.Name() + "." + f.Name
			if skip[k] || f.Type.Kind() == reflect.Func || f.Type.Kind() == reflect.Chan || f.Type.Kind() == reflect.Interface || strings.HasPrefix(f.Type.String(), "sync.") {
				continue
			}
			populate(settable(v.Field(i)), depth+1, filled, t.Name(), f.Name)
		}
	case reflect.Ptr:
		if v.IsNil() {
			if t.Elem().Kind() != reflect.Struct {
				return
			}
			v.Set(reflect.New(t.Elem()))
			*filled = append(*filled, owner+"."+fname)
			fillLeaves(v.Elem(), 0)
			return
		}
		populate(v.Elem(), depth+1, filled, owner, fname)
	case reflect.Slice:
		if v.Len() == 0 {
			e := reflect.New(t.Elem()).Elem()
			fillLeaves(e, 0)
			v.Set(reflect.Append(reflect.MakeSlice(t, 0, 1), e))
			*filled = append(*filled, owner+"."+fname)
			return
		}
		for i := 0; i < v.Len(); i++ {
			populate(v.Index(i), depth+1, filled, owner, fname)
		}
	case reflect.Map:
		if v.Len() == 0 {
			kk := reflect.New(t.Key()).Elem()
			fillLeaves(kk, 0)
			e := reflect.New(t.Elem()).Elem()
			fillLeaves(e, 0)
			m := reflect.MakeMap(t)
			m.SetMapIndex(kk, e)
			v.Set(m)
			*filled = append(*filled, owner+"."+fname)
			return
		}
		for _, k := range v.MapKeys() {
			e := v.MapIndex(k)
			if e.Kind() == reflect.Ptr && !e.IsNil() {
				populate(e.Elem(), depth+1, filled, owner, fname)
			}
		}
	}
}

// fillLeaves gives a freshly allocated value plain non-zero contents (1, "v", true, one element per container)
func fillLeaves(v reflect.Value, depth int) {
	if depth > 6 {
		return
	}
	v = settable(v)
	t := v.Type()
	if t == timeType {
		v.Set(reflect.ValueOf(time.Unix(1700000000, 5)))
		return
	}
	switch t.Kind() {
	case reflect.Bool:
		v.SetBool(true)
	case reflect.Int, reflect.Int8, reflect.Int16, reflect.Int32, reflect.Int64:
		v.SetInt(1)
	case reflect.Uint, reflect.Uint8, reflect.Uint16, reflect.Uint32, reflect.Uint64:
		v.SetUint(1)
	case reflect.Float32, reflect.Float64:
		v.SetFloat(1.5)
	case reflect.String:
		v.SetString("v")
	case reflect.Struct:
		for i := 0; i < t.NumField(); i++ {
			f := t.Field(i)
			if f.Type.Kind() == reflect.Func || f.Type.Kind() == reflect.Chan || f.Type.Kind() == reflect.Interface || strings.HasPrefix(f.Type.String(), "sync.") {
				continue
			}
			fillLeaves(v.Field(i), depth+1)
		}
	case reflect.Ptr:
		if t.Elem().Kind() == reflect.Struct {
			v.Set(reflect.New(t.Elem()))
			fillLeaves(v.Elem(), depth+1)
		}
	case reflect.Slice:
		e := reflect.New(t.Elem()).Elem()
		fillLeaves(e, depth+1)
		v.Set(reflect.Append(reflect.MakeSlice(t, 0, 1), e))
	case reflect.Map:
		kk := reflect.New(t.Key()).Elem()
		fillLeaves(kk, depth+1)
		e := reflect.New(t.Elem()).Elem()
		fillLeaves(e, depth+1)
		m := reflect.MakeMap(t)
		m.SetMapIndex(kk, e)
		v.Set(m)
	}
}

func valuesMode() map[string]any {
	base0 := valuesBaseline()
	var filled []string
	populate(reflect.ValueOf(base0).Elem(), 0, &filled, "", "")
	sort.Strings(filled)
	vr := &valuesRun{base: base0, reached: map[string]bool{}, all: map[string]bool{}, empty: map[string]bool{}, budget: map[string]int{}}
	_, base := snapshotPath(vr.base)
	vr.walk(nil, reflect.ValueOf(vr.base).Elem(), "", "")
	var unreached []string
	for k := range vr.empty {
		// empty at every occurrence met (a field that was populated somewhere has been swept there)
		if !vr.reached[k] {
			unreached = append(unreached, k)
		}
	}
	sort.Strings(unreached)
	return map[string]any{"values": vr.out, "baseline": base, "fields_seen": len(vr.all), "leaf_contexts_swept": len(vr.budget), "empty_in_baseline": unreached, "filled_by_reflection": filled}
}
