// C15 harness: replicas of the real meta state machine (storeFSM.Apply on marshalled commands) are fed the same generated
// log. Replica A applies everything. The donor D applies the same log; at position k its Snapshot() is taken, persisted
// (immediately, or after j further commands, as hashicorp/raft persists concurrently with later applies) and restored into a
// fresh replica C, which then applies the rest of the log. DIRECT ORACLE: canonical reflection dumps of the whole
// catalogue and per-command results are equal (A vs D after every step: same log, different map iteration orders;
// A vs C after every step from k on). One JSON object per case on stdout.
package main

import (
	"bufio"
	"bytes"
	"encoding/base64"
	"encoding/json"
	"fmt"
	"io"
	"os"
	"path/filepath"
	"reflect"
	"regexp"
	"runtime/debug"
	"sort"
	"strconv"
	"strings"
	"time"

	"github.com/hashicorp/raft"
	"github.com/openGemini/openGemini/app/ts-meta/meta"
	"github.com/openGemini/openGemini/lib/config"
	meta2 "github.com/openGemini/openGemini/lib/util/lifted/influx/meta"
	proto2 "github.com/openGemini/openGemini/lib/util/lifted/influx/meta/proto"
	"github.com/openGemini/openGemini/lib/util/lifted/protobuf/proto"
	"go.uber.org/zap"
	"verifharness/internal/gen"
	"verifharness/internal/metacmd"
)

type Cmd = metacmd.Cmd

const Hour = int64(time.Hour)
const Base = int64(1700000000) * 1e9

// ---------------------------------------------------------------------------------------------- canonical dump

// fields that are not part of the replicated catalogue (declared transient; justified in props/C15/NOTES.md)
var skip = map[string]bool{
	"Data.opsMapMu": true, "Data.OpsMap": true, "Data.OpsMapMinIndex": true, "Data.OpsMapMaxIndex": true, "Data.OpsToMarshalIndex": true,
	"Data.SQLite": true, "Data.ExpandShardsEnable": true, "Data.UpdateNodeTmpIndexCommandStart": true,
	"MeasurementInfo.SchemaLock": true, "MeasurementInfo.tagKeysTotal": true, "MeasurementInfo.originName": true,
}

var timeType = reflect.TypeOf(time.Time{})

func dumpVal(v reflect.Value, field string) any {
	switch v.Kind() {
	case reflect.Ptr, reflect.Interface:
		if v.IsNil() {
			return nil
		}
		return dumpVal(v.Elem(), field)
	case reflect.Struct:
		if v.Type() == timeType {
			// reflection cannot call methods on unexported fields: rebuild the value from its own fields
			wall := v.Field(0).Uint()
			ext := v.Field(1).Int()
			zero := wall == 0 && ext == 0
			if field == "DeletedAt" { // wall-clock stamp: set/unset only
				if zero {
					return "unset"
				}
				return "set"
			}
			var sec, nsec int64
			if wall&(1<<63) != 0 {
				sec = int64(wall<<1>>31) + 59453308800 // wall seconds since 1885 -> since year 1
				nsec = int64(wall & (1<<30 - 1))
			} else {
				sec = ext
				nsec = int64(wall & (1<<30 - 1))
			}
			return fmt.Sprintf("t:%d.%09d", sec, nsec)
		}
		m := map[string]any{}
		t := v.Type()
		for i := 0; i < t.NumField(); i++ {
			name := t.Field(i).Name
			if skip[t.Name()+"."+name] {
				continue
			}
			m[name] = dumpVal(v.Field(i), name)
		}
		return m
	case reflect.Map:
		if v.Len() == 0 {
			return nil // nil and empty are the same catalogue
		}
		m := map[string]any{}
		it := v.MapRange()
		for it.Next() {
			m["["+fmt.Sprint(dumpVal(it.Key(), ""))+"]"] = dumpVal(it.Value(), field)
		}
		return m
	case reflect.Slice, reflect.Array:
		if v.Len() == 0 {
			return nil
		}
		l := make([]any, v.Len())
		for i := 0; i < v.Len(); i++ {
			l[i] = dumpVal(v.Index(i), field)
		}
		return l
	case reflect.String:
		return v.String()
	case reflect.Bool:
		return v.Bool()
	case reflect.Int, reflect.Int8, reflect.Int16, reflect.Int32, reflect.Int64:
		return strconv.FormatInt(v.Int(), 10)
	case reflect.Uint, reflect.Uint8, reflect.Uint16, reflect.Uint32, reflect.Uint64:
		return strconv.FormatUint(v.Uint(), 10)
	case reflect.Float32, reflect.Float64:
		return strconv.FormatFloat(v.Float(), 'g', -1, 64)
	}
	return "?" + v.Kind().String()
}

func dumpData(d *meta2.Data) any { return dumpVal(reflect.ValueOf(d), "") }

// diff returns the paths at which two dumps differ (map keys sorted, at most max paths)
func diff(a, b any, path string, out *[]string, max int) {
	if len(*out) >= max {
		return
	}
	switch x := a.(type) {
	case map[string]any:
		y, ok := b.(map[string]any)
		if !ok {
			*out = append(*out, path)
			return
		}
		keys := map[string]bool{}
		for k := range x {
			keys[k] = true
		}
		for k := range y {
			keys[k] = true
		}
		ks := make([]string, 0, len(keys))
		for k := range keys {
			ks = append(ks, k)
		}
		sort.Strings(ks)
		for _, k := range ks {
			xv, ok1 := x[k]
			yv, ok2 := y[k]
			if !ok1 || !ok2 {
				*out = append(*out, path+"/"+k)
				continue
			}
			diff(xv, yv, path+"/"+k, out, max)
		}
	case []any:
		y, ok := b.([]any)
		if !ok || len(x) != len(y) {
			*out = append(*out, path)
			return
		}
		for i := range x {
			diff(x[i], y[i], path+"/["+strconv.Itoa(i)+"]", out, max)
		}
	default:
		if !reflect.DeepEqual(a, b) {
			*out = append(*out, fmt.Sprintf("%s (%v | %v)", path, a, b))
		}
	}
}

// ---------------------------------------------------------------------------------------------- replicas

type bufSink struct{ bytes.Buffer }

func (s *bufSink) Close() error  { return nil }
func (s *bufSink) ID() string    { return "verif" }
func (s *bufSink) Cancel() error { return nil }

type Replica struct {
	fsm *meta.VerifFSM
}

// the configuration switches the apply functions read (enumerated by the translator: config_reads); every replica of a
// case runs under the same configuration, as the nodes of one cluster do
type Conf struct {
	PtPer   int  `json:"ptper"`
	Expand  bool `json:"expand"`  // expand-shards-enable
	NoAuto  bool `json:"noauto"`  // retention-autocreate off
	NoInc   bool `json:"noinc"`   // use-inc-sync-data off
	NoClean bool `json:"noclean"` // schema-clean-en off
	Ha      int  `json:"ha,omitempty"`     // ha-policy: 0 write-available-first, 1 shared-storage, 2 replication
	AzHard  bool `json:"azhard,omitempty"` // replica distribution policy: az-hard instead of node-hard
}

func newReplicaC(cf Conf) *Replica {
	c := config.NewMeta()
	c.PtNumPerNode = uint32(cf.PtPer)
	c.ExpandShardsEnable = cf.Expand
	c.RetentionAutoCreate = !cf.NoAuto
	c.UseIncSyncData = !cf.NoInc
	c.SchemaCleanEn = !cf.NoClean
	// process-wide switches (every replica of a case is created under the same configuration)
	_ = config.SetHaPolicy([]string{config.WAFPolicy, config.SSPolicy, config.RepPolicy}[cf.Ha%3])
	if cf.AzHard {
		meta2.SetRepDisPolicy(1)
	} else {
		meta2.SetRepDisPolicy(0)
	}
	return &Replica{fsm: meta.VerifNewFSM(c)}
}

var curConf Conf

func newReplica(ptper int) *Replica {
	cf := curConf
	cf.PtPer = ptper
	return newReplicaC(cf)
}

// apply returns 0 (nil), 1 (error) or 2 (panic)
func (r *Replica) apply(idx int, data []byte) (res int) {
	defer func() {
		if e := recover(); e != nil {
			if os.Getenv("VERIF_PANIC") != "" { // debugging aid: where did the state machine panic
				fmt.Fprintf(os.Stderr, "panic at index %d: %v\n%s\n", idx, e, debug.Stack())
			}
			res = 2
		}
	}()
	out := r.fsm.Apply(&raft.Log{Index: uint64(idx + 2), Term: 1, Type: raft.LogCommand, Data: data})
	if out != nil {
		return 1
	}
	return 0
}

// applyBatch feeds a run of entries through storeFSM.ApplyBatch; results as apply (a panic marks the whole run)
func (r *Replica) applyBatch(first int, datas [][]byte) (res []int) {
	defer func() {
		if e := recover(); e != nil {
			res = make([]int, len(datas))
			for i := range res {
				res[i] = 2
			}
		}
	}()
	logs := make([]*raft.Log, len(datas))
	for i, d := range datas {
		logs[i] = &raft.Log{Index: uint64(first + i + 2), Term: 1, Type: raft.LogCommand, Data: d}
	}
	out := r.fsm.ApplyBatch(logs)
	res = make([]int, len(datas))
	for i := range out {
		if out[i] != nil {
			res[i] = 1
		}
	}
	return res
}

type Divergence struct {
	Step  int    `json:"step"`
	Pair  string `json:"pair"`  // "A-D" (same log, no snapshot), "A-C@restore" (right after restore vs A at the snapshot position), "A-C", "A-B" (B applies in batches: ApplyBatch), "A-R" (R snapshots, persists and restores in place after every command)
	Class string `json:"class"` // the differing path with container keys abstracted, or "result:<command kind>"
	Path  string `json:"path"`  // first concrete path (with both values)
}

var keyRe = regexp.MustCompile(`\[[^\]]*\]`)

func classOf(p string) string {
	if i := strings.Index(p, " ("); i >= 0 {
		p = p[:i]
	}
	return keyRe.ReplaceAllString(p, "[*]")
}

type Case struct {
	Name    string       `json:"name"`
	PtPer   int          `json:"ptper"`
	Conf    Conf         `json:"conf"`
	Cmds    []Cmd        `json:"cmds"`
	Log     []string     `json:"log"` // base64 of the marshalled commands
	SnapAt  int          `json:"snap_at"`
	Delay   int          `json:"delay"`
	PanicAt int          `json:"panic_at"` // -1, or the step at which replica A's state machine panicked (the case ends there: the process is gone)
	Batch   []int        `json:"batch,omitempty"` // sizes of the runs of entries replica B receives through storeFSM.ApplyBatch (cyclic)
	Res     []int        `json:"res"`
	Div     []Divergence `json:"div"`
	NonTriv bool         `json:"nontrivial"`
	Kinds   int          `json:"kinds"`
}

// persistRestore writes the snapshot out, restores it into a fresh replica and compares that replica with the catalogue
// replica A held at the snapshot position
func persistRestore(cs *Case, snap raft.FSMSnapshot, atSnap any, report func(int, string, []string)) *Replica {
	sink := &bufSink{}
	if err := snap.Persist(sink); err != nil {
		fmt.Fprintln(os.Stderr, "persist:", err)
	}
	C := newReplica(cs.PtPer)
	if err := C.fsm.Restore(io.NopCloser(bytes.NewReader(sink.Bytes()))); err != nil {
		fmt.Fprintln(os.Stderr, "restore:", err)
	}
	var pr []string
	diff(atSnap, dumpData(C.fsm.Data()), "", &pr, 40)
	report(cs.SnapAt, "A-C@restore", pr)
	return C
}

func runCase(cs *Case) {
	curConf = cs.Conf
	A, D := newReplica(cs.PtPer), newReplica(cs.PtPer)
	B, R := newReplica(cs.PtPer), newReplica(cs.PtPer)
	if len(cs.Batch) == 0 {
		cs.Batch = []int{2, 3, 1, 4}
	}
	bi, bstart, bend := 0, 0, 0 // index into cs.Batch, first entry of the current run, end (exclusive) of the current run
	var C *Replica
	var snap raft.FSMSnapshot
	var logs [][]byte
	for _, s := range cs.Log {
		b, _ := base64.StdEncoding.DecodeString(s)
		logs = append(logs, b)
	}
	cs.Res = nil
	cs.PanicAt = -1
	cs.Div = []Divergence{}
	seen := map[string]bool{}
	report := func(step int, pair string, paths []string) {
		for _, p := range paths {
			cl := classOf(p)
			if !seen[pair+"|"+cl] {
				seen[pair+"|"+cl] = true
				cs.Div = append(cs.Div, Divergence{Step: step, Pair: pair, Class: cl, Path: p})
			}
		}
	}
	var atSnap any // A's catalogue at the snapshot position
	pending := -1  // index from which C still has to catch up
	for i, b := range logs {
		if i == cs.SnapAt {
			snap, _ = D.fsm.Snapshot()
			atSnap = dumpData(A.fsm.Data())
			if cs.Delay == 0 {
				C = persistRestore(cs, snap, atSnap, report)
				pending = cs.SnapAt
			}
		}
		ra := A.apply(i, b)
		rd := D.apply(i, b)
		cs.Res = append(cs.Res, ra)
		if ra == 2 || rd == 2 {
			// a panic inside Apply takes the meta process down on every node that applies the entry; all that is left to compare is
			// that the other replicas panic too
			if ra != rd {
				report(i, "A-D", []string{"result:" + cs.Cmds[i].K})
			}
			if rr := R.apply(i, b); rr != ra {
				report(i, "A-R", []string{"result:" + cs.Cmds[i].K})
			}
			cs.PanicAt = i
			break
		}
		da := dumpData(A.fsm.Data())
		if ra != rd {
			report(i, "A-D", []string{"result:" + cs.Cmds[i].K})
		}
		var ps []string
		diff(da, dumpData(D.fsm.Data()), "", &ps, 40)
		report(i, "A-D", ps)
		// R: the same command, then Snapshot -> Persist -> Restore in place (what a follower does when the leader sends it a snapshot)
		if rr := R.apply(i, b); rr != ra {
			report(i, "A-R", []string{"result:" + cs.Cmds[i].K})
		}
		if ra != 2 {
			if R.restoreInPlace() != 0 {
				report(i, "A-R", []string{"result:restore"})
			}
			var pr []string
			diff(da, dumpData(R.fsm.Data()), "", &pr, 40)
			report(i, "A-R", pr)
		}
		// B: runs of entries through ApplyBatch; compared at the end of each run
		if i == bend {
			bstart, bend = i, i+cs.Batch[bi%len(cs.Batch)]
			bi++
			if bend > len(logs) {
				bend = len(logs)
			}
		}
		if i+1 == bend {
			rb := B.applyBatch(bstart, logs[bstart:bend])
			for j, x := range rb {
				if x != cs.Res[bstart+j] {
					report(bstart+j, "A-B", []string{"result:" + cs.Cmds[bstart+j].K})
				}
			}
			var pb []string
			diff(da, dumpData(B.fsm.Data()), "", &pb, 40)
			report(i, "A-B", pb)
		}
		if snap != nil && C == nil && i+1 >= cs.SnapAt+cs.Delay {
			// persist now (Delay commands after the snapshot was taken) and restore into a fresh replica
			C = persistRestore(cs, snap, atSnap, report)
			pending = cs.SnapAt
		}
		if C != nil {
			// C replays the commands after the snapshot position up to the current one
			for ; pending <= i; pending++ {
				rc := C.apply(pending, logs[pending])
				if rc != cs.Res[pending] {
					report(pending, "A-C", []string{"result:" + cs.Cmds[pending].K})
				}
			}
			var pc []string
			diff(da, dumpData(C.fsm.Data()), "", &pc, 40)
			report(i, "A-C", pc)
		}
	}
	d := A.fsm.Data()
	n := 0
	for _, db := range d.Databases {
		for _, rp := range db.RetentionPolicies {
			n += len(rp.Measurements) + len(rp.ShardGroups)
		}
	}
	cs.NonTriv = n >= 2 && C != nil
}

// ---------------------------------------------------------------------------------------------- generator

func code(s string) int {
	if s == "autogen" {
		return 4
	}
	if len(s) == 3 {
		return int(s[2] - '0')
	}
	return 0
}

func i64(v int64) *int64 { return &v }

var users = []string{"u1", "u2", "admin"}
var cqs = []string{"cq1", "cq2"}
var streams = []string{"st1", "st2"}

func genCmd(r *gen.Rand, d *meta2.Data) Cmd {
	type pick struct{ db, rp int }
	var pairs []pick
	var dbs []int
	type gref struct {
		p  pick
		id uint64
	}
	var sgs, igs []gref
	var shards, idxs []uint64
	type sref struct {
		p   pick
		id  uint64
		own uint32
	}
	var firstShard []sref
	ownerless := false
	type mref struct {
		p      pick
		m, ver int
	}
	var msts []mref
	for k, db := range d.Databases {
		dbs = append(dbs, code(k))
		for rk, rp := range db.RetentionPolicies {
			p := pick{code(k), code(rk)}
			pairs = append(pairs, p)
			for _, g := range rp.ShardGroups {
				sgs = append(sgs, gref{p, g.ID})
				for _, s := range g.Shards {
					shards = append(shards, s.ID)
					if len(s.Owners) == 0 {
						ownerless = true // re-sharded groups: the internal store-issued commands below assume owners
					}
				}
				for i := 1; i < len(g.Shards); i++ {
					if g.Shards[i].ID != g.Shards[i-1].ID+1 {
						ownerless = true // expanded groups hold non-consecutive shard ids: UpdateShardDownSampleInfo's range test then hits a missing shard and panics (observed; not generated)
					}
				}
				if len(g.Shards) > 0 && len(g.Shards[0].Owners) > 0 {
					firstShard = append(firstShard, sref{p, g.Shards[0].ID, g.Shards[0].Owners[0]})
				}
			}
			for _, g := range rp.IndexGroups {
				igs = append(igs, gref{p, g.ID})
				for _, s := range g.Indexes {
					idxs = append(idxs, s.ID)
				}
			}
			for mk, m := range rp.Measurements {
				ver, _ := strconv.Atoi(mk[len(mk)-4:])
				msts = append(msts, mref{p, int(m.OriginName()[1] - '0'), ver})
			}
		}
	}
	sort.Ints(dbs)
	sort.Slice(pairs, func(i, j int) bool { return pairs[i].db*10+pairs[i].rp < pairs[j].db*10+pairs[j].rp })
	sort.Slice(sgs, func(i, j int) bool { return sgs[i].id < sgs[j].id })
	sort.Slice(igs, func(i, j int) bool { return igs[i].id < igs[j].id })
	sort.Slice(shards, func(i, j int) bool { return shards[i] < shards[j] })
	sort.Slice(firstShard, func(i, j int) bool { return firstShard[i].id < firstShard[j].id })
	sort.Slice(idxs, func(i, j int) bool { return idxs[i] < idxs[j] })
	sort.Slice(msts, func(i, j int) bool {
		a, b := msts[i], msts[j]
		return a.p.db*1000+a.p.rp*100+a.m*10+a.ver < b.p.db*1000+b.p.rp*100+b.m*10+b.ver
	})
	anyDB := func() int {
		if len(dbs) > 0 && r.Chance(9, 10) {
			return gen.Pick(r, dbs)
		}
		return r.Intn(4)
	}
	anyPair := func() pick {
		if len(pairs) > 0 && r.Chance(9, 10) {
			p := gen.Pick(r, pairs)
			if r.Chance(1, 12) {
				p.rp = 0
			}
			return p
		}
		return pick{anyDB(), r.Intn(5)}
	}
	nodeID := func() uint64 {
		if len(d.DataNodes) > 0 && r.Chance(4, 5) {
			return gen.Pick(r, d.DataNodes).ID
		}
		return uint64(r.Intn(6))
	}
	sgd := []int64{0, Hour, Hour, 2 * Hour, 24 * Hour, 7 * 24 * Hour}
	k := r.Intn(228)
	if len(d.DataNodes) == 0 && r.Chance(3, 4) {
		k = 0
	} else if len(dbs) == 0 && r.Chance(2, 3) {
		k = 12
	}
	p := anyPair()
	switch {
	case k < 8:
		h := r.Range(1, 4)
		c := Cmd{K: "cnode", H: h, T: h}
		if r.Chance(1, 8) {
			c.X = "reader"
		}
		return c
	case k < 22:
		c := Cmd{K: "cdb", DB: r.Range(1, 3), B1: r.Chance(1, 3)}
		if r.Chance(1, 8) {
			c.U1 = 2 // replicated database (replication groups are created with its partition view)
		}
		if r.Chance(1, 10) {
			c.X = "skitype" // a database-level sharding type without shard keys
		}
		if r.Chance(3, 4) {
			c.HasRP, c.RP, c.D, c.SGD = true, r.Range(1, 3), i64(0), i64(gen.Pick(r, sgd))
		} else {
			c.RP = 4
		}
		return c
	case k < 26:
		return Cmd{K: "markdb", DB: anyDB()}
	case k < 29:
		return Cmd{K: "dropdb", DB: anyDB()}
	case k < 36:
		return Cmd{K: "crp", DB: anyDB(), RP: r.Range(1, 3), D: i64(0), SGD: i64(gen.Pick(r, sgd)), Def: r.Chance(1, 3)}
	case k < 44:
		c := Cmd{K: "urp", DB: p.db, RP: p.rp, Def: r.Chance(1, 5), SGD: i64(gen.Pick(r, sgd))}
		if r.Chance(1, 4) {
			c.D = i64([]int64{0, 30 * 24 * Hour, Hour / 2}[r.Intn(3)])
		}
		return c
	case k < 47:
		return Cmd{K: "markrp", DB: p.db, RP: p.rp}
	case k < 50:
		return Cmd{K: "droprp", DB: p.db, RP: p.rp}
	case k < 53:
		return Cmd{K: "setdef", DB: p.db, RP: p.rp}
	case k < 68:
		c := Cmd{K: "cmst", DB: p.db, RP: p.rp, M: r.Range(1, 3)}
		switch r.Intn(6) {
		case 0:
			c.X = "schema"
		case 1:
			c.X = "badschema"
		case 2:
			c.X = "otherkey"
		}
		return c
	case k < 72:
		if len(msts) > 0 && r.Chance(4, 5) {
			m := gen.Pick(r, msts)
			return Cmd{K: "markmst", DB: m.p.db, RP: m.p.rp, M: m.m}
		}
		return Cmd{K: "markmst", DB: p.db, RP: p.rp, M: r.Range(1, 3)}
	case k < 75:
		if len(msts) > 0 && r.Chance(4, 5) {
			m := gen.Pick(r, msts)
			return Cmd{K: "dropmst", DB: m.p.db, RP: m.p.rp, M: m.m, Ver: m.ver}
		}
		return Cmd{K: "dropmst", DB: p.db, RP: p.rp, M: r.Range(1, 3), Ver: r.Intn(2)}
	case k < 95:
		ts := Base + int64(r.Range(-60, 60))*Hour
		if r.Chance(1, 6) {
			// far instants and the borders of the Unix epoch (group spans [-d, 0) and [0, d))
			ts = []int64{0, -1, 1, -Hour, Hour - 1, Hour, -24 * Hour, 1<<62 + 5, -(1 << 62)}[r.Intn(9)]
		}
		return Cmd{K: "csg", DB: p.db, RP: p.rp, TS: ts, Eng: map[bool]int{true: 1, false: 0}[r.Chance(1, 8)]}
	case k < 100:
		if len(sgs) > 0 && r.Chance(9, 10) {
			g := gen.Pick(r, sgs)
			c := Cmd{K: "delsg", DB: g.p.db, RP: g.p.rp, ID: g.id}
			if r.Chance(1, 6) {
				c.X = "cancel"
			}
			return c
		}
		return Cmd{K: "delsg", DB: p.db, RP: p.rp, ID: uint64(r.Intn(6))}
	case k < 105:
		if len(shards) > 0 && r.Chance(9, 10) {
			return Cmd{K: "prunesg", ID: gen.Pick(r, shards)}
		}
		return Cmd{K: "prunesg", ID: uint64(r.Intn(40))}
	case k < 108:
		if len(igs) > 0 && r.Chance(9, 10) {
			g := gen.Pick(r, igs)
			return Cmd{K: "delig", DB: g.p.db, RP: g.p.rp, ID: g.id}
		}
		return Cmd{K: "delig", DB: p.db, RP: p.rp, ID: uint64(r.Intn(6))}
	case k < 110:
		if len(idxs) > 0 && r.Chance(1, 2) {
			return Cmd{K: "pruneig", ID: gen.Pick(r, idxs)}
		}
		return Cmd{K: "pruneig", ID: d.MaxIndexID + uint64(r.Range(1, 5))}
	case k < 113:
		if len(dbs) > 0 {
			c := Cmd{K: "cptv", DB: gen.Pick(r, dbs)}
			if dbi := d.Databases[metacmd.DBName(c.DB)]; dbi != nil && dbi.ReplicaN > 1 {
				c.U1 = uint64(dbi.ReplicaN)
			}
			return c
		}
		return Cmd{K: "cqlease"}
	case k < 116:
		for db, v := range d.PtView {
			if len(v) > 0 {
				pt := v[r.Intn(len(v))]
				c := Cmd{K: "uptinfo", DB: code(db), Pt: int(pt.PtId), COwner: pt.Owner.NodeID, CStat: int(pt.Status), Status: r.Intn(4), Owner: nodeID()}
				return c
			}
		}
		return Cmd{K: "uptinfo", DB: anyDB(), Pt: r.Intn(3), Status: r.Intn(4)}
	case k < 119:
		return Cmd{K: "altkey", DB: p.db, RP: p.rp, M: r.Range(1, 3), Ver: r.Range(1, 3)}
	case k < 126:
		return Cmd{K: "updschema", DB: p.db, RP: p.rp, M: r.Range(1, 3), Ver: r.Range(1, 4), Eng: []int{1, 3, 6}[r.Intn(3)]}
	case k < 128:
		return Cmd{K: "rmnode", ID: nodeID()}
	case k < 130:
		return Cmd{K: "expand"}
	case k < 137:
		return Cmd{K: "cuser", S1: gen.Pick(r, users), S2: "hash" + strconv.Itoa(r.Intn(3)), Def: r.Chance(1, 3), B1: r.Chance(1, 4)}
	case k < 139:
		return Cmd{K: "duser", S1: gen.Pick(r, users)}
	case k < 141:
		return Cmd{K: "uuser", S1: gen.Pick(r, users), S2: "hash" + strconv.Itoa(r.Intn(3))}
	case k < 145:
		return Cmd{K: "setpriv", S1: gen.Pick(r, users), DB: anyDB(), Status: r.Intn(4)}
	case k < 147:
		return Cmd{K: "setadmin", S1: gen.Pick(r, users), Def: r.Bool()}
	case k < 151:
		return Cmd{K: "csub", DB: p.db, RP: p.rp, S1: "sub" + strconv.Itoa(r.Intn(3)), S2: []string{"ALL", "ANY"}[r.Intn(2)], H: r.Range(1, 3)}
	case k < 154:
		return Cmd{K: "dsub", DB: p.db, RP: p.rp, S1: "sub" + strconv.Itoa(r.Intn(3))}
	case k < 156:
		return Cmd{K: "cmeta", H: r.Range(1, 3), T: r.Range(5, 7), U1: uint64(r.Intn(1000))}
	case k < 157:
		return Cmd{K: "setmeta", H: r.Range(1, 3), T: r.Range(5, 7), U1: uint64(r.Intn(1000))}
	case k < 158:
		return Cmd{K: "dmeta", ID: uint64(r.Intn(6))}
	case k < 161:
		return Cmd{K: "csql", H: r.Range(1, 3)}
	case k < 162:
		return Cmd{K: "dnode", ID: nodeID()}
	case k < 165:
		c := Cmd{K: "shtier", DB: p.db, RP: p.rp, ID: uint64(r.Intn(10)), U1: uint64(r.Range(1, 4))}
		if len(shards) > 0 {
			c.ID = gen.Pick(r, shards)
		}
		return c
	case k < 168:
		c := Cmd{K: "ixtier", DB: p.db, RP: p.rp, ID: uint64(r.Intn(10)), U1: uint64(r.Range(1, 4))}
		if len(idxs) > 0 {
			c.ID = gen.Pick(r, idxs)
		}
		return c
	case k < 172:
		return Cmd{K: "nstatus", ID: nodeID(), Status: r.Intn(5), U1: uint64(r.Intn(6))}
	case k < 174:
		c := Cmd{K: "sqlstatus", ID: uint64(r.Intn(6)), Status: r.Intn(5), U1: uint64(r.Intn(6))}
		if len(d.SqlNodes) > 0 {
			c.ID = gen.Pick(r, d.SqlNodes).ID
		}
		return c
	case k < 175:
		return Cmd{K: "metastatus", ID: uint64(r.Intn(6)), Status: r.Intn(5), U1: uint64(r.Intn(6))}
	case k < 176:
		return Cmd{K: "takeover", Def: r.Bool()}
	case k < 177:
		return Cmd{K: "balancer", Def: r.Bool()}
	case k < 181:
		return Cmd{K: "cstream", S1: gen.Pick(r, streams), DB: p.db, RP: p.rp, M: r.Range(1, 3), Ver: r.Range(1, 3), U1: uint64(r.Range(1, 3)), S2: ""}
	case k < 183:
		return Cmd{K: "dstream", S1: gen.Pick(r, streams)}
	case k < 184:
		return Cmd{K: "verify", ID: nodeID()}
	case k < 186:
		return Cmd{K: "ptver", DB: anyDB(), Pt: r.Intn(4)}
	case k < 188:
		return Cmd{K: "regqid", S1: "s" + strconv.Itoa(r.Range(1, 3)) + ":8086"}
	case k < 192:
		return Cmd{K: "ccq", DB: anyDB(), S1: gen.Pick(r, cqs), S2: "CREATE CONTINUOUS QUERY q" + strconv.Itoa(r.Intn(2))}
	case k < 193:
		ts := Base + int64(r.Intn(100))*Hour
		if r.Chance(1, 3) {
			ts = []int64{0, 1, -1, 1<<63 - 1, -1 << 63}[r.Intn(5)] // 0: the instant the snapshot encoding may confuse with "never ran"
		}
		return Cmd{K: "cqreport", S1: gen.Pick(r, cqs), TS: ts}
	case k < 194:
		return Cmd{K: "dcq", S1: gen.Pick(r, cqs), DB: anyDB()}
	case k < 195:
		return Cmd{K: "cqlease"}
	case k < 196:
		return Cmd{K: "segregate", ID: nodeID(), U1: uint64(r.Intn(3))}
	case k < 197:
		return Cmd{K: "umst", DB: p.db, RP: p.rp, M: r.Range(1, 3), TS: int64(r.Range(1, 40))}
	case k < 198:
		return Cmd{K: "tmpindex", Status: r.Intn(2), U1: uint64(r.Intn(50)), ID: nodeID()}
	case k < 200:
		return []Cmd{{K: "urepl", DB: 0, Pt: 0, Status: 0}, {K: "insfiles"}, {K: "rmevent", S1: "db1$0"}}[r.Intn(3)]
	default:
		// the remaining command kinds; arguments that would dereference a missing database or policy are not produced
		switch r.Intn(10) {
		case 9:
			// RecoverMetaData from a backup (the payload is the scratch replica's catalogue as JSON): whole catalogue or one database
			if d.PtView != nil {
				c := Cmd{K: "recover"}
				if len(dbs) > 0 && r.Bool() {
					c.DB = gen.Pick(r, dbs)
				}
				return c
			}
		case 0:
			if len(pairs) > 0 {
				q := gen.Pick(r, pairs)
				return Cmd{K: "cdsp", DB: q.db, RP: q.rp, U1: uint64(r.Range(1, 3)), TS: int64(r.Range(0, 3)) * 24 * Hour}
			}
		case 1:
			if !ownerless {
				c := Cmd{K: "dsinfo", DB: p.db, RP: p.rp, ID: d.MaxShardID + uint64(r.Range(1, 4)), Status: r.Intn(3), U1: uint64(r.Intn(3)), Def: r.Bool()}
				if len(firstShard) > 0 {
					f := gen.Pick(r, firstShard)
					c.DB, c.RP, c.ID = f.p.db, f.p.rp, f.id
				}
				return c
			}
		case 2, 3:
			db := anyDB()
			return Cmd{K: "cevent", S1: fmt.Sprintf("db%d$%d", db, r.Intn(2)), DB: db, Pt: r.Intn(2), COwner: nodeID(), CStat: r.Intn(4), Status: r.Intn(3),
				Eng: r.Intn(4), Ver: r.Intn(4), Owner: nodeID(), ID: nodeID(), Def: r.Chance(1, 3)}
		case 4:
			db := anyDB()
			return Cmd{K: "uevent", S1: fmt.Sprintf("db%d$%d", db, r.Intn(2)), DB: db, U1: d.MaxEventOpId - uint64(r.Intn(2)), Eng: r.Intn(4), Ver: r.Intn(4)}
		case 5:
			// re-sharding indexes the policy's last index group by partition id: only offered when every index group of the
			// policy has an index per partition (otherwise it panics on every replica - observed; not generated)
			if len(sgs) > 0 && !ownerless {
				g := sgs[len(sgs)-1]
				okIG := false
				if dbi := d.Databases[metacmd.DBName(g.p.db)]; dbi != nil {
					if rpi := dbi.RetentionPolicies[metacmd.RPName(g.p.rp)]; rpi != nil && len(rpi.IndexGroups) > 0 {
						okIG = true
						for _, ig := range rpi.IndexGroups {
							if len(ig.Indexes) < int(d.ClusterPtNum) {
								okIG = false
							}
						}
					}
				}
				if okIG {
					return Cmd{K: "reshard", DB: g.p.db, RP: g.p.rp, ID: g.id, TS: Base + int64(r.Range(-10, 10))*Hour}
				}
			}
		case 6:
			// two shards of one partition in two successive groups of one policy, as a store reports them after a merge
			if !ownerless {
				for i := 0; i+1 < len(firstShard); i++ {
					a, b := firstShard[i], firstShard[i+1]
					if a.p == b.p && a.own == b.own && r.Chance(1, 2) {
						return Cmd{K: "merge", DB: a.p.db, RP: a.p.rp, Pt: int(a.own), ID: a.id, U1: b.id}
					}
				}
				// (shard ids that are all unknown - e.g. pruned meanwhile - make ReplaceMergeShards index an empty slice and
				// panic on every replica: observed, reported in NOTES, not generated)
			}
		case 7:
			return Cmd{K: "setdata"}
		}
		if len(dbs) > 0 {
			return Cmd{K: "ddsp", DB: gen.Pick(r, dbs)}
		}
		return Cmd{K: "cqlease"}
	}
}

// buildCmd: like metacmd.Build, plus SetData, whose payload is the catalogue of the generator's scratch replica
func buildCmd(c *Cmd, scratch *meta2.Data) []byte {
	var pc *proto2.Command
	if c.K == "setdata" {
		pc = metacmd.MkCmd(proto2.Command_SetDataCommand, proto2.E_SetDataCommand_Command, &proto2.SetDataCommand{Data: scratch.Marshal()})
	} else if c.K == "recover" {
		js, err := json.Marshal(scratch)
		if err != nil {
			panic(err)
		}
		nm := map[uint64]uint64{}
		for _, n := range scratch.DataNodes {
			nm[n.ID] = n.ID
		}
		v := &proto2.RecoverMetaDataCommand{MetaData: js, NodeMap: nm}
		if c.DB > 0 {
			v.Databases = []string{metacmd.DBName(c.DB)}
		}
		pc = metacmd.MkCmd(proto2.Command_RecoverMetaData, proto2.E_RecoverMetaDataCommand_Command, v)
	} else {
		pc = metacmd.Build(c)
		enrich(c, pc)
	}
	b, err := proto.Marshal(pc)
	if err != nil {
		panic(err)
	}
	return b
}

// enrich: argument shapes the shared command builder (internal/metacmd) does not produce
func enrich(c *Cmd, pc *proto2.Command) {
	ps := func(x string) *string { return &x }
	switch {
	case c.K == "cdb" && c.X == "skitype":
		// a database-level sharding type without shard keys
		ext, _ := proto.GetExtension(pc, proto2.E_CreateDatabaseCommand_Command)
		ext.(*proto2.CreateDatabaseCommand).Ski = &proto2.ShardKeyInfo{Type: ps(meta2.HASH)}
	case c.K == "cmst" && c.X == "rich":
		// a column-store measurement with index relation, options, and a fixed number of shards
		ext, _ := proto.GetExtension(pc, proto2.E_CreateMeasurementCommand_Command)
		v := ext.(*proto2.CreateMeasurementCommand)
		u32, i32, i64p, bp := func(x uint32) *uint32 { return &x }, func(x int32) *int32 { return &x }, func(x int64) *int64 { return &x }, func(x bool) *bool { return &x }
		v.EngineType = u32(1)
		v.InitNumOfShards = i32(2)
		v.SchemaInfo = []*proto2.FieldSchema{{FieldName: ps("tk1"), FieldType: i32(6)}, {FieldName: ps("f1"), FieldType: i32(3)}}
		v.IR = &proto2.IndexRelation{Rid: u32(1), Oid: []uint32{4}, IndexName: []string{"bloomfilter"}, IndexLists: []*proto2.IndexList{{IList: []string{"f1"}}},
			IndexOptions: []*proto2.IndexOptions{{Infos: []*proto2.IndexOption{{Tokens: ps(","), Tokenizers: ps("standard"), TimeClusterDuration: i64p(60)}}}}}
		v.ColStoreInfo = &proto2.ColStoreInfo{PrimaryKey: []string{"tk1"}, SortKey: []string{"tk1"}, PropertyKey: []string{"k"}, PropertyValue: []string{"v"},
			TimeClusterDuration: i64p(int64(time.Minute)), CompactionType: i32(1)}
		v.Options = &proto2.Options{CaseInSensitive: bp(true), AppendMeta: bp(true), WriteThreshold: i32(3), ReadThreshold: i32(4), StorageCapacity: i32(5),
			SplitChar: ps(","), Ttl: i64p(int64(Hour)), TagsSplit: ps(";")}
	}
}

func genCase(r *gen.Rand, idx int) *Case {
	cs := &Case{Name: fmt.Sprintf("gen-%d", idx), PtPer: r.Range(1, 2)}
	cs.Conf = Conf{Expand: r.Chance(1, 2), NoAuto: r.Chance(1, 4), NoInc: r.Chance(1, 4), NoClean: r.Chance(1, 4)}
	for k := r.Range(1, 4); k > 0; k-- {
		cs.Batch = append(cs.Batch, r.Range(1, 5))
	}
	if r.Chance(1, 3) {
		cs.Conf.Ha = r.Range(1, 2)
		cs.Conf.AzHard = r.Chance(1, 3)
	}
	curConf = cs.Conf
	// the generator consults a scratch replica to pick mostly-valid arguments
	S := newReplica(cs.PtPer)
	n := r.Range(12, 40)
	warm := []Cmd{}
	if r.Chance(5, 6) {
		db, rp := r.Range(1, 3), r.Range(1, 3)
		warm = []Cmd{{K: "cnode", H: 1, T: 1}, {K: "cdb", DB: db, HasRP: true, RP: rp, D: i64(0), SGD: i64(Hour)},
			{K: "cmst", DB: db, RP: rp, M: r.Range(1, 3)}, {K: "cmst", DB: db, RP: rp, M: r.Range(1, 3)}}
	}
	kinds := map[string]bool{}
	cs.SnapAt = r.Range(1, n-1)
	if r.Chance(1, 3) {
		cs.Delay = r.Range(1, 6)
	}
	// node joins AFTER the restore (state that is not in the snapshot but steers apply shows up here), followed by
	// shard-group creations that hand out ids
	joinAt := -1
	if r.Chance(2, 3) {
		joinAt = cs.SnapAt + cs.Delay + r.Intn(3)
	}
	emit := func(c Cmd) {
		b := buildCmd(&c, S.fsm.Data())
		S.apply(len(cs.Cmds), b)
		cs.Cmds = append(cs.Cmds, c)
		cs.Log = append(cs.Log, base64.StdEncoding.EncodeToString(b))
		kinds[c.K] = true
	}
	for i := 0; i < n; i++ {
		if len(cs.Cmds) >= joinAt && joinAt >= 0 {
			joinAt = -1
			h := r.Range(5, 9)
			if r.Chance(1, 4) {
				emit(Cmd{K: "csql", H: h})
			} else {
				emit(Cmd{K: "cnode", H: h, T: h})
			}
			for db := 1; db <= 3; db++ {
				emit(Cmd{K: "csg", DB: db, RP: 0, TS: Base + int64(r.Range(100, 200))*Hour})
			}
		}
		if i < len(warm) {
			emit(warm[i])
		} else {
			emit(genCmd(r, S.fsm.Data()))
		}
	}
	cs.Kinds = len(kinds)
	runCase(cs)
	return cs
}

func scripted(name string, ptper, snapAt, delay int, cmds []Cmd) *Case {
	return scriptedC(name, Conf{}, ptper, snapAt, delay, cmds)
}

func scriptedC(name string, cf Conf, ptper, snapAt, delay int, cmds []Cmd) *Case {
	cs := &Case{Name: name, Conf: cf, PtPer: ptper, SnapAt: snapAt, Delay: delay, Cmds: cmds}
	for i := range cmds {
		cs.Log = append(cs.Log, base64.StdEncoding.EncodeToString(buildCmd(&cmds[i], nil)))
	}
	runCase(cs)
	return cs
}

func corpus() []*Case {
	return []*Case{
		// DESIGN C15 witness: the second measurement has ID 1; the snapshot's deep copy drops it
		scripted("witness-clone-mstid", 1, 4, 0, []Cmd{
			{K: "cnode", H: 1, T: 1},
			{K: "cdb", DB: 1, HasRP: true, RP: 1, D: i64(0), SGD: i64(Hour)},
			{K: "cmst", DB: 1, RP: 1, M: 1},
			{K: "cmst", DB: 1, RP: 1, M: 2},
			{K: "csg", DB: 1, RP: 1, TS: Base},
		}),
		// expand-shards-enable: a store joining after a restore must still expand the existing groups
		scriptedC("expand-on-join-after-restore", Conf{Expand: true}, 1, 5, 0, []Cmd{
			{K: "cnode", H: 1, T: 1}, {K: "cdb", DB: 1, HasRP: true, RP: 1, D: i64(0), SGD: i64(Hour)},
			{K: "cmst", DB: 1, RP: 1, M: 1}, {K: "csg", DB: 1, RP: 1, TS: Base}, {K: "csg", DB: 1, RP: 1, TS: Base + 3*Hour},
			{K: "cnode", H: 2, T: 2}, {K: "csg", DB: 1, RP: 1, TS: Base + 6*Hour}, {K: "csql", H: 1}, {K: "cnode", H: 3, T: 3},
			{K: "csg", DB: 1, RP: 1, TS: Base + 9*Hour},
		}),
		// groups bordering the Unix epoch: a stored 0 is the epoch, not the zero time
		scripted("epoch-groups-through-snapshot", 1, 6, 0, []Cmd{
			{K: "cnode", H: 1, T: 1}, {K: "cdb", DB: 1, HasRP: true, RP: 1, D: i64(0), SGD: i64(Hour)},
			{K: "cmst", DB: 1, RP: 1, M: 1},
			{K: "csg", DB: 1, RP: 1, TS: -1}, {K: "csg", DB: 1, RP: 1, TS: 0}, {K: "csg", DB: 1, RP: 1, TS: Hour},
			{K: "csg", DB: 1, RP: 1, TS: -5}, {K: "csg", DB: 1, RP: 1, TS: 5}, {K: "csg", DB: 1, RP: 1, TS: -Hour - 1},
		}),
		scripted("snapshot-with-users-streams-cqs", 2, 11, 0, []Cmd{
			{K: "cnode", H: 1, T: 1}, {K: "cnode", H: 2, T: 2},
			{K: "cdb", DB: 1, HasRP: true, RP: 1, D: i64(0), SGD: i64(Hour)},
			{K: "cmst", DB: 1, RP: 1, M: 1, X: "schema"},
			{K: "cuser", S1: "admin", S2: "h", Def: true}, {K: "cuser", S1: "u1", S2: "h"}, {K: "setpriv", S1: "u1", DB: 1, Status: 2},
			{K: "cstream", S1: "st1", DB: 1, RP: 1, M: 1, Ver: 2, U1: 1},
			{K: "ccq", DB: 1, S1: "cq1", S2: "CREATE CONTINUOUS QUERY q0"},
			{K: "csub", DB: 1, RP: 1, S1: "sub0", S2: "ALL", H: 1},
			{K: "csg", DB: 1, RP: 1, TS: Base}, {K: "cptv", DB: 1},
			{K: "csg", DB: 1, RP: 1, TS: Base + 5*Hour}, {K: "updschema", DB: 1, RP: 1, M: 1, Ver: 2, Eng: 3},
			{K: "delsg", DB: 1, RP: 1, ID: 1}, {K: "csql", H: 1}, {K: "cmeta", H: 1, T: 5, U1: 7},
		}),
		// delayed persist: the snapshot taken before the sql node re-joins must not show the later connection id
		scripted("delayed-persist-sqlnode", 1, 3, 2, []Cmd{
			{K: "cnode", H: 1, T: 1}, {K: "csql", H: 1}, {K: "cdb", DB: 1, HasRP: true, RP: 1, D: i64(0), SGD: i64(Hour)},
			{K: "csql", H: 1}, {K: "csql", H: 1}, {K: "cuser", S1: "u1", S2: "h"},
		}),
		// a choice site: DropSubscription with an empty policy name drops the subscription from whichever policy the map
		// iteration reaches first
		scripted("map-order-dropsubscription", 1, 7, 0, []Cmd{
			{K: "cnode", H: 1, T: 1}, {K: "cdb", DB: 1, HasRP: true, RP: 1, D: i64(0), SGD: i64(Hour)},
			{K: "crp", DB: 1, RP: 2, D: i64(0), SGD: i64(Hour)}, {K: "crp", DB: 1, RP: 3, D: i64(0), SGD: i64(Hour)},
			{K: "csub", DB: 1, RP: 1, S1: "sub0", S2: "ALL", H: 1}, {K: "csub", DB: 1, RP: 2, S1: "sub0", S2: "ALL", H: 1},
			{K: "csub", DB: 1, RP: 3, S1: "sub0", S2: "ALL", H: 1},
			{K: "dsub", DB: 1, RP: 0, S1: "sub0"}, {K: "dsub", DB: 1, RP: 0, S1: "sub0"},
		}),
		// ids handed out while walking several databases and policies (ExpandGroups must walk them in a fixed order)
		scripted("expand-groups-two-databases", 1, 12, 0, []Cmd{
			{K: "cnode", H: 1, T: 1}, {K: "cdb", DB: 1, HasRP: true, RP: 1, D: i64(0), SGD: i64(Hour), B1: true},
			{K: "cdb", DB: 2, HasRP: true, RP: 1, D: i64(0), SGD: i64(Hour)}, {K: "crp", DB: 1, RP: 2, D: i64(0), SGD: i64(Hour)},
			{K: "cdb", DB: 3, HasRP: true, RP: 2, D: i64(0), SGD: i64(Hour)},
			{K: "cmst", DB: 1, RP: 1, M: 1}, {K: "cmst", DB: 2, RP: 1, M: 1}, {K: "cmst", DB: 1, RP: 2, M: 2}, {K: "cmst", DB: 3, RP: 2, M: 2},
			{K: "csg", DB: 1, RP: 1, TS: Base}, {K: "csg", DB: 2, RP: 1, TS: Base}, {K: "csg", DB: 1, RP: 2, TS: Base}, {K: "csg", DB: 3, RP: 2, TS: Base},
			{K: "cnode", H: 2, T: 2}, {K: "expand"}, {K: "csg", DB: 2, RP: 1, TS: Base + 3*Hour},
		}),
		// a measurement re-created under its old name with another sharding type, the old version still in the policy
		scripted("recreated-measurement-other-sharding-type", 2, 6, 0, []Cmd{
			{K: "cnode", H: 1, T: 1}, {K: "cdb", DB: 1, HasRP: true, RP: 1, D: i64(0), SGD: i64(Hour)},
			{K: "cmst", DB: 1, RP: 1, M: 1}, {K: "markmst", DB: 1, RP: 1, M: 1}, {K: "cmst", DB: 1, RP: 1, M: 1, X: "range"},
			{K: "csg", DB: 1, RP: 1, TS: Base}, {K: "csg", DB: 1, RP: 1, TS: Base + 2*Hour},
		}),
		// the partition view must be copied down to its entries: a status change applied while the snapshot is being
		// written must not show up in it
		scripted("delayed-persist-ptview", 2, 4, 2, []Cmd{
			{K: "cnode", H: 1, T: 1}, {K: "cdb", DB: 1, HasRP: true, RP: 1, D: i64(0), SGD: i64(Hour)}, {K: "cptv", DB: 1},
			{K: "cuser", S1: "u1", S2: "h"},
			{K: "uptinfo", DB: 1, Pt: 0, COwner: 1, CStat: 3, Owner: 1, Status: 1}, {K: "ptver", DB: 1, Pt: 1},
			{K: "cuser", S1: "u2", S2: "h"},
		}),
		// az-hard replica distribution: a node is removed while it owns partitions of a replicated database, then stores join
		scriptedC("node-join-after-remove-node-az-hard", Conf{AzHard: true}, 1, 1, 0, []Cmd{
			{K: "cnode", H: 1, T: 1}, {K: "cdb", DB: 2, HasRP: true, RP: 1, D: i64(0), SGD: i64(0), U1: 2}, {K: "cptv", DB: 2, U1: 2},
			{K: "rmnode", ID: 1}, {K: "cnode", H: 3, T: 3}, {K: "cnode", H: 5, T: 5}, {K: "cuser", S1: "u1", S2: "h"},
		}),
		// a last run reported at instant 0 and a never-run query, through a snapshot: both must come back as they were
		scripted("cq-reported-at-epoch", 1, 5, 0, []Cmd{
			{K: "cnode", H: 1, T: 1}, {K: "cdb", DB: 1, HasRP: true, RP: 1, D: i64(0), SGD: i64(Hour)},
			{K: "ccq", DB: 1, S1: "cq1", S2: "CREATE CONTINUOUS QUERY q0"}, {K: "ccq", DB: 1, S1: "cq2", S2: "CREATE CONTINUOUS QUERY q1"},
			{K: "cqreport", S1: "cq2", TS: 0}, {K: "cuser", S1: "u1", S2: "h"}, {K: "cqreport", S1: "cq1", TS: Base},
		}),
		// a database-level sharding type without shard keys must survive the snapshot
		scripted("database-sharding-type-without-keys", 1, 2, 0, []Cmd{
			{K: "cnode", H: 1, T: 1}, {K: "cdb", DB: 1, HasRP: true, RP: 1, D: i64(0), SGD: i64(Hour), X: "skitype"}, {K: "cuser", S1: "u1", S2: "h"},
		}),
		scripted("delayed-persist-subscriptions", 1, 5, 2, []Cmd{
			{K: "cnode", H: 1, T: 1}, {K: "cdb", DB: 1, HasRP: true, RP: 1, D: i64(0), SGD: i64(Hour)},
			{K: "csub", DB: 1, RP: 1, S1: "sub0", S2: "ALL", H: 1}, {K: "csub", DB: 1, RP: 1, S1: "sub1", S2: "ALL", H: 2},
			{K: "csub", DB: 1, RP: 1, S1: "sub2", S2: "ANY", H: 3},
			{K: "dsub", DB: 1, RP: 1, S1: "sub0"}, {K: "cuser", S1: "u1", S2: "h"}, {K: "cuser", S1: "u2", S2: "h"},
		}),
	}
}

// reflFields lists, by reflection over the compiled structs, the fields of every struct type of the meta package reachable
// from meta.Data: the translator's reading of the source is cross-checked against it.
func reflFields() map[string][]string {
	out := map[string][]string{}
	var walk func(t reflect.Type)
	walk = func(t reflect.Type) {
		switch t.Kind() {
		case reflect.Ptr, reflect.Slice, reflect.Array:
			walk(t.Elem())
		case reflect.Map:
			walk(t.Elem())
		case reflect.Struct:
			if !strings.HasSuffix(t.PkgPath(), "lib/util/lifted/influx/meta") {
				return
			}
			if _, ok := out[t.Name()]; ok {
				return
			}
			fs := []string{}
			out[t.Name()] = fs
			for i := 0; i < t.NumField(); i++ {
				fs = append(fs, t.Field(i).Name)
			}
			out[t.Name()] = fs
			for i := 0; i < t.NumField(); i++ {
				walk(t.Field(i).Type)
			}
		}
	}
	walk(reflect.TypeOf(meta2.Data{}))
	return out
}

func main() {
	meta2.DataLogger = zap.NewNop()
	out := bufio.NewWriterSize(os.Stdout, 1<<20)
	defer out.Flush()
	enc := json.NewEncoder(out)
	if len(os.Args) > 1 && os.Args[1] == "fields" {
		var sk []string
		for k := range skip {
			sk = append(sk, k)
		}
		sort.Strings(sk)
		var kinds []string
		for _, t := range meta.VerifCommandTypes() {
			kinds = append(kinds, t.String())
		}
		sort.Strings(kinds)
		_ = enc.Encode(map[string]any{"refl_fields": reflFields(), "dump_skip": sk, "registered_commands": kinds})
		return
	}
	if len(os.Args) > 1 && os.Args[1] == "values" {
		_ = enc.Encode(valuesMode())
		return
	}
	if len(os.Args) > 1 && os.Args[1] == "model" {
		// cases for the Coq hand model (model.go)
		n := 60
		if len(os.Args) > 2 {
			n, _ = strconv.Atoi(os.Args[2])
		}
		for rep := 0; rep < 6; rep++ { // repeated: every run of a case draws fresh map iteration orders
			for _, c := range modelCorpus() {
				if rep > 0 {
					c.MName = fmt.Sprintf("%s#%d", c.MName, rep)
				}
				_ = enc.Encode(c)
			}
		}
		r := gen.FromEnv(1515)
		for i := 0; i < n; i++ {
			rr := r.Fork()
			cf := Conf{PtPer: rr.Range(1, 2), NoInc: rr.Chance(1, 4), NoClean: rr.Chance(1, 3), Expand: rr.Chance(1, 2)}
			_ = enc.Encode(runModelCase(fmt.Sprintf("mgen-%d", i), cf, rr.Range(10, 36), rr, nil))
		}
		return
	}
	if len(os.Args) > 2 && os.Args[1] == "replay" {
		b, err := os.ReadFile(os.Args[2])
		if err != nil {
			fmt.Fprintln(os.Stderr, err)
			os.Exit(2)
		}
		var in Case
		if err := json.Unmarshal(b, &in); err != nil {
			fmt.Fprintln(os.Stderr, err)
			os.Exit(2)
		}
		if in.PtPer == 0 {
			in.PtPer = 1
		}
		if len(in.Log) == 0 {
			c := scriptedC("replay", in.Conf, in.PtPer, in.SnapAt, in.Delay, in.Cmds)
			_ = enc.Encode(c)
			return
		}
		in.Name = "replay"
		runCase(&in)
		_ = enc.Encode(&in)
		return
	}
	n := 250
	if len(os.Args) > 1 {
		n, _ = strconv.Atoi(os.Args[1])
	}
	for rep := 0; rep < 6; rep++ {
		for _, c := range corpus() {
			if rep > 0 {
				c.Name = fmt.Sprintf("%s#%d", c.Name, rep)
			}
			_ = enc.Encode(c)
		}
	}
	if dir := os.Getenv("VERIF_CORPUS"); dir != "" {
		ents, _ := os.ReadDir(dir)
		for _, e := range ents {
			if !strings.HasSuffix(e.Name(), ".case") {
				continue
			}
			b, err := os.ReadFile(filepath.Join(dir, e.Name()))
			if err != nil {
				continue
			}
			var in Case
			if json.Unmarshal(b, &in) != nil {
				fmt.Fprintln(os.Stderr, "c15: bad corpus file", e.Name())
				os.Exit(2)
			}
			if in.PtPer == 0 {
				in.PtPer = 1
			}
			_ = enc.Encode(scriptedC("corpus:"+e.Name(), in.Conf, in.PtPer, in.SnapAt, in.Delay, in.Cmds))
		}
	}
	r := gen.FromEnv(15)
	for i := 0; i < n; i++ {
		_ = enc.Encode(genCase(r.Fork(), i))
	}
}
