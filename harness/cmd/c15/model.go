// C15 harness, model mode: logs restricted to the command kinds of the Coq hand model (coq/C15/Cmds.v) are applied to ONE
// real storeFSM through storeFSM.Apply; after every step the parts of meta.Data the model holds (persistent and transient)
// are emitted as canonical rows of integers. props/C15/run.py evaluates the model on the same log (coq/C15/CmdsCorr.v) and
// compares row sets. A "restore" step is Snapshot -> Persist -> Restore in place.
package main

import (
	"bytes"
	"encoding/base64"
	"fmt"
	"io"
	"math/big"
	"sort"
	"strconv"
	"strings"
	"time"

	meta2 "github.com/openGemini/openGemini/lib/util/lifted/influx/meta"
	"github.com/openGemini/openGemini/lib/util/lifted/protobuf/proto"
	"verifharness/internal/gen"
	"verifharness/internal/metacmd"
)

type MStep struct {
	C    Cmd        `json:"c"`
	Res  int        `json:"res"`
	Rows [][]string `json:"rows"`
}

type MCase struct {
	MName  string  `json:"mname"`
	PtPer  int     `json:"ptper"`
	SClean bool    `json:"sclean"`
	Conf   Conf    `json:"conf"`
	Steps  []MStep `json:"steps"`
	Log    []string `json:"log"`
}

// ---- name coding shared with props/C15/run.py (0 = the empty string, 99 = not a name of the coding) ----
func numAfter(s, prefix string) (int, bool) {
	if !strings.HasPrefix(s, prefix) {
		return 0, false
	}
	n, err := strconv.Atoi(s[len(prefix):])
	return n, err == nil
}

func userCode(s string) int {
	switch s {
	case "":
		return 0
	case "u1":
		return 1
	case "u2":
		return 2
	case "admin":
		return 3
	}
	return 99
}

func hashCode(s string) int {
	if s == "h" {
		return 9
	}
	if n, ok := numAfter(s, "hash"); ok {
		return n + 1
	}
	return 99
}

func addrCode(s string) int { // "h3:8401" / "h3:8400" -> 3, "m2:8091" -> 2, "s1:8086" -> 101
	if i := strings.Index(s, ":"); i > 1 {
		n, err := strconv.Atoi(s[1:i])
		if err != nil {
			return 99
		}
		if s[0] == 's' {
			return 100 + n
		}
		return n
	}
	return 99
}

func subCode(s string) int {
	if s == "" {
		return 0
	}
	if n, ok := numAfter(s, "sub"); ok {
		return n + 1
	}
	return 99
}

func cqCode(s string) int {
	if n, ok := numAfter(s, "cq"); ok {
		return n
	}
	return 99
}

func queryCode(s string) int {
	if n, ok := numAfter(s, "CREATE CONTINUOUS QUERY q"); ok {
		return n + 1
	}
	return 99
}

func mstCode(s string) int {
	if n, ok := numAfter(s, "m"); ok {
		return n
	}
	return 99
}

func streamCode(s string) int {
	if n, ok := numAfter(s, "st"); ok {
		return n
	}
	return 99
}

func modeCode(s string) int {
	switch s {
	case "ALL":
		return 1
	case "ANY":
		return 2
	}
	return 99
}

func b2i(b bool) int {
	if b {
		return 1
	}
	return 0
}

// exact nanoseconds since the Unix epoch of a time.Time that is not the zero value
func nanos(t time.Time) string {
	v := new(big.Int).Mul(big.NewInt(t.Unix()), big.NewInt(1000000000))
	v.Add(v, big.NewInt(int64(t.Nanosecond())))
	return v.String()
}

// modelRows: what the hand model holds, read from the real catalogue
func modelRows(d *meta2.Data) [][]string {
	var rows [][]string
	add := func(vs ...any) {
		r := make([]string, len(vs))
		for i, v := range vs {
			r[i] = fmt.Sprint(v)
		}
		rows = append(rows, r)
	}
	for key, db := range d.Databases {
		add(1, code(key), code(db.DefaultRetentionPolicy), b2i(db.MarkDeleted))
		for rk, rp := range db.RetentionPolicies {
			add(2, code(key), code(rk), b2i(rp.MarkDeleted), int64(rp.Duration), int64(rp.ShardGroupDuration), len(rp.Measurements), len(rp.ShardGroups), len(rp.IndexGroups))
			for gi := range rp.ShardGroups {
				for _, sh := range rp.ShardGroups[gi].Shards {
					add(15, sh.ID, sh.Tier)
				}
			}
			for gi := range rp.IndexGroups {
				for _, ix := range rp.IndexGroups[gi].Indexes {
					add(16, ix.ID, ix.Tier)
				}
			}
			for i, s := range rp.Subscriptions {
				dest := 99
				if len(s.Destinations) == 1 {
					dest = addrCode(strings.TrimPrefix(s.Destinations[0], "http://"))
				}
				add(7, code(key), code(rk), i, subCode(s.Name), modeCode(s.Mode), dest)
			}
		}
		for name, q := range db.ContinuousQueries {
			if q.LastRunTime.IsZero() {
				add(9, code(key), cqCode(name), queryCode(q.Query), 0, 0)
			} else {
				add(9, code(key), cqCode(name), queryCode(q.Query), 1, nanos(q.LastRunTime))
			}
		}
	}
	for i := range d.DataNodes {
		n := &d.DataNodes[i]
		add(3, i, n.ID, addrCode(n.Host), addrCode(n.TCPHost), n.ConnID)
		add(12, n.ID, n.Index)
		add(17, i, int(n.Status), n.LTime, n.AliveConnID, b2i(n.GossipAddr != ""))
	}
	for db, pts := range d.PtView {
		for i, pt := range pts {
			add(18, code(db), i, pt.Owner.NodeID, int(pt.Status), pt.Ver)
		}
	}
	for name, st := range d.Streams {
		add(19, streamCode(name), st.ID, code(st.SrcMst.Database), code(st.SrcMst.RetentionPolicy), mstCode(st.SrcMst.Name), mstCode(st.DesMst.Name), int64(st.Interval/time.Second))
	}
	add(4, d.ClusterPtNum, d.MaxNodeID, d.MaxShardGroupID, d.MaxShardID, d.MaxMstID, d.MaxIndexGroupID, d.MaxIndexID, d.MaxConnID)
	for i := range d.Users {
		u := &d.Users[i]
		add(5, i, userCode(u.Name), hashCode(u.Hash), b2i(u.Admin), b2i(u.Rwuser))
		for db, p := range u.Privileges {
			add(6, userCode(u.Name), code(db), int(p))
		}
	}
	add(8, d.MaxSubscriptionID, d.MaxCQChangeID, d.ClusterID, b2i(d.TakeOverEnabled), b2i(d.BalancerEnabled), d.Term, d.Index, d.MaxStreamID)
	for i := range d.MetaNodes {
		n := &d.MetaNodes[i]
		add(10, i, n.ID, addrCode(n.Host), addrCode(n.TCPHost), int(n.Status), n.LTime)
	}
	for i := range d.SqlNodes {
		n := &d.SqlNodes[i]
		add(11, i, n.ID, addrCode(n.TCPHost), n.ConnID, n.Index, int(n.Status), n.LTime, n.AliveConnID)
	}
	for h, off := range d.QueryIDInit {
		add(13, addrCode(string(h))-100, off)
	}
	add(14, b2i(d.ExpandShardsEnable), b2i(d.AdminUserExists), d.UpdateNodeTmpIndexCommandStart)
	sort.Slice(rows, func(i, j int) bool { return strings.Join(rows[i], ",") < strings.Join(rows[j], ",") })
	return rows
}

// genModelCmd: command kinds and arguments inside the hand model (C16's 19 catalogue commands without policy renames,
// shard-group-duration changes, schemas, readers; the 21 kinds of coq/C15/Cmds.v)
func genModelCmd(r *gen.Rand, d *meta2.Data) Cmd {
	type pick struct{ db, rp int }
	var pairs, ready []pick
	var dbs []int
	type gref struct {
		p  pick
		id uint64
	}
	var sgs, igs []gref
	var shards, idxFree []uint64
	used := map[uint64]bool{}
	type mref struct {
		p      pick
		m, ver int
	}
	var msts []mref
	for k, db := range d.Databases {
		dbs = append(dbs, code(k))
		for rk, rp := range db.RetentionPolicies {
			p := pick{code(k), code(rk)}
			pairs = append(pairs, p)
			if !db.MarkDeleted && !rp.MarkDeleted && len(rp.Measurements) > 0 {
				ready = append(ready, p)
			}
			for _, g := range rp.ShardGroups {
				sgs = append(sgs, gref{p, g.ID})
				for _, s := range g.Shards {
					shards = append(shards, s.ID)
					used[s.IndexID] = true
				}
			}
			for mk, m := range rp.Measurements {
				ver, _ := strconv.Atoi(mk[len(mk)-4:])
				msts = append(msts, mref{p, int(m.OriginName()[1] - '0'), ver})
			}
		}
	}
	for k, db := range d.Databases {
		for rk, rp := range db.RetentionPolicies {
			for _, g := range rp.IndexGroups {
				igs = append(igs, gref{pick{code(k), code(rk)}, g.ID})
				for _, s := range g.Indexes {
					if !used[s.ID] {
						idxFree = append(idxFree, s.ID)
					}
				}
			}
		}
	}
	sort.Ints(dbs)
	sort.Slice(pairs, func(i, j int) bool { return pairs[i].db*10+pairs[i].rp < pairs[j].db*10+pairs[j].rp })
	sort.Slice(ready, func(i, j int) bool { return ready[i].db*10+ready[i].rp < ready[j].db*10+ready[j].rp })
	sort.Slice(sgs, func(i, j int) bool { return sgs[i].id < sgs[j].id })
	sort.Slice(igs, func(i, j int) bool { return igs[i].id < igs[j].id })
	sort.Slice(shards, func(i, j int) bool { return shards[i] < shards[j] })
	sort.Slice(idxFree, func(i, j int) bool { return idxFree[i] < idxFree[j] })
	sort.Slice(msts, func(i, j int) bool {
		a, b := msts[i], msts[j]
		return a.p.db*1000+a.p.rp*100+a.m*10+a.ver < b.p.db*1000+b.p.rp*100+b.m*10+b.ver
	})
	anyDB := func() int {
		if len(dbs) > 0 && r.Chance(9, 10) {
			return gen.Pick(r, dbs)
		}
		return r.Intn(4)
	}
	anyPair := func() pick {
		if len(pairs) > 0 && r.Chance(9, 10) {
			p := gen.Pick(r, pairs)
			if r.Chance(1, 8) {
				p.rp = 0
			}
			return p
		}
		return pick{anyDB(), r.Intn(5)}
	}
	nodeID := func() uint64 {
		if len(d.DataNodes) > 0 && r.Chance(4, 5) {
			return gen.Pick(r, d.DataNodes).ID
		}
		return uint64(r.Intn(6))
	}
	sgd := []int64{0, Hour, Hour, 2 * Hour, 24 * Hour}
	var ixs []uint64
	for _, db := range d.Databases {
		for _, rp := range db.RetentionPolicies {
			for _, g := range rp.IndexGroups {
				for _, x := range g.Indexes {
					ixs = append(ixs, x.ID)
				}
			}
		}
	}
	sort.Slice(ixs, func(i, j int) bool { return ixs[i] < ixs[j] })
	k := r.Intn(252)
	if len(d.DataNodes) == 0 && r.Chance(3, 4) {
		k = 0
	} else if len(dbs) == 0 && r.Chance(2, 3) {
		k = 12
	}
	if r.Chance(1, 14) {
		return Cmd{K: "restore"}
	}
	p := anyPair()
	switch {
	case k < 8:
		h := r.Range(1, 7)
		t := h
		if r.Chance(1, 6) {
			t = r.Range(1, 7)
		}
		return Cmd{K: "cnode", H: h, T: t}
	case k < 20:
		c := Cmd{K: "cdb", DB: r.Range(1, 3)}
		if r.Chance(3, 4) {
			c.HasRP, c.RP, c.D, c.SGD = true, r.Range(1, 3), i64(0), i64(gen.Pick(r, sgd))
		} else {
			c.RP = 4
		}
		return c
	case k < 24:
		return Cmd{K: "markdb", DB: anyDB()}
	case k < 28:
		return Cmd{K: "dropdb", DB: anyDB()}
	case k < 35:
		return Cmd{K: "crp", DB: anyDB(), RP: r.Range(1, 3), D: i64(0), SGD: i64(gen.Pick(r, sgd)), Def: r.Chance(1, 3)}
	case k < 39:
		c := Cmd{K: "urp", DB: p.db, RP: p.rp, Def: r.Chance(1, 3)}
		if r.Chance(1, 2) {
			c.D = i64([]int64{0, 30 * 24 * Hour, Hour / 2}[r.Intn(3)])
		}
		return c
	case k < 42:
		return Cmd{K: "markrp", DB: p.db, RP: p.rp}
	case k < 46:
		return Cmd{K: "droprp", DB: p.db, RP: p.rp}
	case k < 49:
		return Cmd{K: "setdef", DB: p.db, RP: p.rp}
	case k < 58:
		return Cmd{K: "cmst", DB: p.db, RP: p.rp, M: r.Range(1, 3)}
	case k < 61:
		if len(msts) > 0 && r.Chance(4, 5) {
			m := gen.Pick(r, msts)
			return Cmd{K: "markmst", DB: m.p.db, RP: m.p.rp, M: m.m}
		}
		return Cmd{K: "markmst", DB: p.db, RP: p.rp, M: r.Range(1, 3)}
	case k < 63:
		if len(msts) > 0 && r.Chance(4, 5) {
			m := gen.Pick(r, msts)
			return Cmd{K: "dropmst", DB: m.p.db, RP: m.p.rp, M: m.m, Ver: m.ver}
		}
		return Cmd{K: "dropmst", DB: p.db, RP: p.rp, M: r.Range(1, 3), Ver: r.Intn(2)}
	case k < 75:
		if len(ready) > 0 && r.Chance(5, 6) {
			p = gen.Pick(r, ready)
		}
		return Cmd{K: "csg", DB: p.db, RP: p.rp, TS: Base + int64(r.Range(-60, 60))*Hour, Eng: map[bool]int{true: 1, false: 0}[r.Chance(1, 6)]}
	case k < 78:
		if len(sgs) > 0 && r.Chance(9, 10) {
			g := gen.Pick(r, sgs)
			return Cmd{K: "delsg", DB: g.p.db, RP: g.p.rp, ID: g.id}
		}
		return Cmd{K: "delsg", DB: p.db, RP: p.rp, ID: uint64(r.Intn(6))}
	case k < 81:
		if len(shards) > 0 && r.Chance(9, 10) {
			return Cmd{K: "prunesg", ID: gen.Pick(r, shards)}
		}
		return Cmd{K: "prunesg", ID: uint64(r.Intn(40))}
	case k < 83:
		if len(igs) > 0 && r.Chance(9, 10) {
			g := gen.Pick(r, igs)
			return Cmd{K: "delig", DB: g.p.db, RP: g.p.rp, ID: g.id}
		}
		return Cmd{K: "delig", DB: p.db, RP: p.rp, ID: uint64(r.Intn(6))}
	case k < 85:
		if len(idxFree) > 0 {
			return Cmd{K: "pruneig", ID: gen.Pick(r, idxFree)}
		}
		return Cmd{K: "pruneig", ID: d.MaxIndexID + uint64(r.Range(1, 5))}
	case k < 88:
		if len(dbs) > 0 {
			return Cmd{K: "cptv", DB: gen.Pick(r, dbs)}
		}
		return Cmd{K: "cqlease"}
	case k < 91:
		var names []string
		for db := range d.PtView {
			names = append(names, db)
		}
		sort.Strings(names)
		for _, db := range names {
			if v := d.PtView[db]; len(v) > 0 {
				pt := v[r.Intn(len(v))]
				c := Cmd{K: "uptinfo", DB: code(db), Pt: int(pt.PtId), COwner: pt.Owner.NodeID, CStat: int(pt.Status), Status: r.Intn(4), Owner: pt.Owner.NodeID}
				if r.Bool() {
					c.Owner = nodeID()
				}
				return c
			}
		}
		return Cmd{K: "uptinfo", DB: anyDB(), Pt: r.Intn(3), Status: r.Range(1, 3)}
	case k < 101:
		return Cmd{K: "cuser", S1: gen.Pick(r, users), S2: "hash" + strconv.Itoa(r.Intn(3)), Def: r.Chance(1, 3), B1: r.Chance(1, 4)}
	case k < 105:
		return Cmd{K: "duser", S1: gen.Pick(r, users)}
	case k < 109:
		return Cmd{K: "uuser", S1: gen.Pick(r, users), S2: "hash" + strconv.Itoa(r.Intn(3))}
	case k < 115:
		return Cmd{K: "setpriv", S1: gen.Pick(r, users), DB: anyDB(), Status: r.Intn(4)}
	case k < 117:
		return Cmd{K: "setadmin", S1: gen.Pick(r, users), Def: r.Bool()}
	case k < 127:
		return Cmd{K: "csub", DB: p.db, RP: p.rp, S1: "sub" + strconv.Itoa(r.Intn(3)), S2: []string{"ALL", "ANY"}[r.Intn(2)], H: r.Range(1, 3)}
	case k < 135:
		c := Cmd{K: "dsub", DB: p.db, RP: p.rp, S1: "sub" + strconv.Itoa(r.Intn(3))}
		switch r.Intn(12) {
		case 0:
			c.DB, c.RP = 0, 0 // drop every subscription
		case 1:
			c.S1 = "" // drop the subscriptions of the database
		}
		return c
	case k < 140:
		return Cmd{K: "cmeta", H: r.Range(1, 3), T: r.Range(1, 7), U1: uint64(r.Intn(1000))}
	case k < 143:
		return Cmd{K: "setmeta", H: r.Range(1, 3), T: r.Range(1, 7), U1: uint64(r.Intn(1000))}
	case k < 145:
		if len(d.MetaNodes) > 0 && r.Chance(2, 3) {
			return Cmd{K: "dmeta", ID: gen.Pick(r, d.MetaNodes).ID}
		}
		return Cmd{K: "dmeta", ID: uint64(r.Intn(6))}
	case k < 151:
		return Cmd{K: "csql", H: r.Range(1, 3)}
	case k < 153:
		return Cmd{K: "takeover", Def: r.Bool()}
	case k < 155:
		return Cmd{K: "balancer", Def: r.Bool()}
	case k < 157:
		return Cmd{K: "verify", ID: nodeID()}
	case k < 161:
		return Cmd{K: "regqid", S1: "s" + strconv.Itoa(r.Range(1, 3)) + ":8086"}
	case k < 169:
		return Cmd{K: "ccq", DB: anyDB(), S1: gen.Pick(r, cqs), S2: "CREATE CONTINUOUS QUERY q" + strconv.Itoa(r.Intn(2))}
	case k < 174:
		ts := Base + int64(r.Intn(100))*Hour
		if r.Chance(1, 4) {
			ts = []int64{0, 1, -1, 1<<63 - 1, -1 << 63}[r.Intn(5)]
		}
		return Cmd{K: "cqreport", S1: gen.Pick(r, cqs), TS: ts}
	case k < 178:
		return Cmd{K: "dcq", S1: gen.Pick(r, cqs), DB: anyDB()}
	case k < 180:
		return Cmd{K: "cqlease"}
	case k < 200:
		c := Cmd{K: "tmpindex", Status: r.Intn(3), U1: uint64(r.Intn(50)), ID: nodeID()}
		if c.Status == 0 && len(d.SqlNodes) > 0 && r.Chance(4, 5) {
			c.ID = gen.Pick(r, d.SqlNodes).ID
		}
		return c
	case k < 202:
		return Cmd{K: "expand"}
	case k < 203:
		return Cmd{K: "rmnode", ID: nodeID()}
	case k < 207:
		return Cmd{K: "ptver", DB: anyDB(), Pt: r.Intn(4)}
	case k < 216:
		return Cmd{K: "nstatus", ID: nodeID(), Status: r.Intn(5), U1: uint64(r.Intn(6))}
	case k < 220:
		c := Cmd{K: "sqlstatus", ID: uint64(r.Intn(6)), Status: r.Intn(5), U1: uint64(r.Intn(6))}
		if len(d.SqlNodes) > 0 && r.Chance(4, 5) {
			c.ID = gen.Pick(r, d.SqlNodes).ID
		}
		return c
	case k < 224:
		c := Cmd{K: "metastatus", ID: uint64(r.Intn(6)), Status: r.Intn(5), U1: uint64(r.Intn(6))}
		if len(d.MetaNodes) > 0 && r.Chance(4, 5) {
			c.ID = gen.Pick(r, d.MetaNodes).ID
		}
		return c
	case k < 230:
		c := Cmd{K: "shtier", DB: p.db, RP: p.rp, ID: uint64(r.Intn(10)), U1: uint64(r.Range(1, 4))}
		if len(shards) > 0 && r.Chance(5, 6) {
			c.ID = gen.Pick(r, shards)
		}
		return c
	case k < 234:
		c := Cmd{K: "ixtier", DB: p.db, RP: p.rp, ID: uint64(r.Intn(10)), U1: uint64(r.Range(1, 4))}
		if len(ixs) > 0 && r.Chance(5, 6) {
			c.ID = gen.Pick(r, ixs)
		}
		return c
	case k < 246:
		return Cmd{K: "cstream", S1: gen.Pick(r, streams), DB: p.db, RP: p.rp, M: r.Range(1, 3), Ver: r.Range(1, 3), U1: uint64(r.Range(1, 2)), S2: ""}
	default:
		return Cmd{K: "dstream", S1: gen.Pick(r, streams)}
	}
}

func (rp *Replica) restoreInPlace() int {
	snap, err := rp.fsm.Snapshot()
	if err != nil {
		return 1
	}
	sink := &bufSink{}
	if err := snap.Persist(sink); err != nil {
		return 1
	}
	if err := rp.fsm.Restore(io.NopCloser(bytes.NewReader(sink.Bytes()))); err != nil {
		return 1
	}
	return 0
}

func runModelCase(name string, cf Conf, n int, r *gen.Rand, script []Cmd) *MCase {
	mc := &MCase{MName: name, PtPer: cf.PtPer, SClean: !cf.NoClean, Conf: cf}
	R := newReplicaC(cf)
	step := func(c Cmd) bool {
		res := 0
		var b []byte
		if c.K == "restore" {
			res = R.restoreInPlace()
		} else {
			var err error
			b, err = proto.Marshal(metacmd.Build(&c))
			if err != nil {
				panic(err)
			}
			res = R.apply(len(mc.Steps), b)
		}
		mc.Log = append(mc.Log, base64.StdEncoding.EncodeToString(b))
		mc.Steps = append(mc.Steps, MStep{C: c, Res: res, Rows: modelRows(R.fsm.Data())})
		return res != 2
	}
	if script != nil {
		for _, c := range script {
			if !step(c) {
				break
			}
		}
		return mc
	}
	if r.Chance(5, 6) {
		db, rp := r.Range(1, 3), r.Range(1, 3)
		for _, c := range []Cmd{{K: "cnode", H: 1, T: 1}, {K: "cdb", DB: db, HasRP: true, RP: rp, D: i64(0), SGD: i64(Hour)}, {K: "cmst", DB: db, RP: rp, M: r.Range(1, 3)}} {
			step(c)
		}
	}
	for i := 0; i < n; i++ {
		if !step(genModelCmd(r, R.fsm.Data())) {
			break
		}
	}
	return mc
}

func modelCorpus() []*MCase {
	cf := Conf{PtPer: 1}
	return []*MCase{
		// a never-run continuous query and a reported run at the epoch, through a snapshot
		runModelCase("m-cq-times", cf, 0, nil, []Cmd{{K: "cnode", H: 1, T: 1}, {K: "cdb", DB: 1, HasRP: true, RP: 1, D: i64(0), SGD: i64(Hour)},
			{K: "ccq", DB: 1, S1: "cq1", S2: "CREATE CONTINUOUS QUERY q0"}, {K: "ccq", DB: 1, S1: "cq2", S2: "CREATE CONTINUOUS QUERY q1"},
			{K: "cqreport", S1: "cq2", TS: 0}, {K: "restore"}, {K: "cqreport", S1: "cq1", TS: Base}, {K: "restore"}, {K: "dcq", S1: "cq1", DB: 1}}),
		// applied indexes of store and sql nodes, through a snapshot
		runModelCase("m-tmpindex", cf, 0, nil, []Cmd{{K: "cnode", H: 1, T: 1}, {K: "csql", H: 1}, {K: "tmpindex", Status: 1, U1: 30, ID: 1},
			{K: "tmpindex", Status: 0, U1: 7, ID: 2}, {K: "restore"}, {K: "tmpindex", Status: 1, U1: 20, ID: 1}, {K: "tmpindex", Status: 0, U1: 7, ID: 2},
			{K: "tmpindex", Status: 1, U1: 30, ID: 1}, {K: "tmpindex", Status: 2, U1: 1, ID: 1}}),
		// identifiers shared between meta, store and sql nodes on one address
		runModelCase("m-node-ids", cf, 0, nil, []Cmd{{K: "cmeta", H: 1, T: 5, U1: 7}, {K: "cnode", H: 1, T: 1}, {K: "cnode", H: 5, T: 5},
			{K: "cmeta", H: 2, T: 1, U1: 8}, {K: "cmeta", H: 3, T: 1, U1: 9}, {K: "cdb", DB: 1, HasRP: true, RP: 1, D: i64(0), SGD: i64(Hour)}, {K: "cptv", DB: 1},
			{K: "cnode", H: 3, T: 3}, {K: "dmeta", ID: 2}, {K: "setmeta", H: 2, T: 2, U1: 1}, {K: "csql", H: 1}, {K: "csql", H: 1}, {K: "cnode", H: 1, T: 1}, {K: "restore"}}),
		// DropSubscription in its four forms; the empty policy name with one and with several candidate policies
		runModelCase("m-subscriptions", cf, 0, nil, []Cmd{{K: "cnode", H: 1, T: 1}, {K: "cdb", DB: 1, HasRP: true, RP: 1, D: i64(0), SGD: i64(Hour)},
			{K: "crp", DB: 1, RP: 2, D: i64(0), SGD: i64(Hour)}, {K: "cdb", DB: 2}, {K: "csub", DB: 1, RP: 1, S1: "sub0", S2: "ALL", H: 1},
			{K: "csub", DB: 1, RP: 2, S1: "sub1", S2: "ANY", H: 2}, {K: "csub", DB: 2, RP: 0, S1: "sub0", S2: "ALL", H: 3}, {K: "dsub", DB: 1, RP: 0, S1: "sub1"},
			{K: "dsub", DB: 1, RP: 0, S1: "sub1"}, {K: "csub", DB: 1, RP: 2, S1: "sub0", S2: "ANY", H: 2}, {K: "dsub", DB: 1, RP: 0, S1: "sub0"}, {K: "restore"},
			{K: "droprp", DB: 1, RP: 2}, {K: "dsub", DB: 1, S1: ""}, {K: "dsub", DB: 0, S1: "sub0"}, {K: "dropdb", DB: 2}}),
		// node status: takeover switch, logical time, alive connection id, partitions of the node go offline; a partition of an
		// alive node may be set online
		runModelCase("m-node-status", cf, 0, nil, []Cmd{{K: "cnode", H: 1, T: 1}, {K: "cnode", H: 2, T: 2}, {K: "cdb", DB: 1, HasRP: true, RP: 1, D: i64(0), SGD: i64(Hour)},
			{K: "cptv", DB: 1}, {K: "uptinfo", DB: 1, Pt: 0, COwner: 1, CStat: 3, Owner: 1, Status: 0}, {K: "nstatus", ID: 1, Status: 1, U1: 2},
			{K: "uptinfo", DB: 1, Pt: 0, COwner: 1, CStat: 3, Owner: 1, Status: 0}, {K: "nstatus", ID: 1, Status: 4, U1: 1}, {K: "nstatus", ID: 1, Status: 4, U1: 3},
			{K: "ptver", DB: 1, Pt: 1}, {K: "ptver", DB: 1, Pt: 7}, {K: "ptver", DB: 2, Pt: 0}, {K: "takeover", Def: false}, {K: "nstatus", ID: 2, Status: 1, U1: 9},
			{K: "csql", H: 1}, {K: "sqlstatus", ID: 3, Status: 1, U1: 2}, {K: "sqlstatus", ID: 3, Status: 2, U1: 1}, {K: "cmeta", H: 1, T: 5, U1: 7},
			{K: "metastatus", ID: 4, Status: 1, U1: 2}, {K: "metastatus", ID: 9, Status: 1, U1: 2}, {K: "restore"}, {K: "cnode", H: 1, T: 1}, {K: "nstatus", ID: 1, Status: 1, U1: 5},
			{K: "takeover", Def: true}, {K: "nstatus", ID: 1, Status: 1, U1: 5}, {K: "cnode", H: 1, T: 1}, {K: "nstatus", ID: 1, Status: 1, U1: 6}, {K: "restore"}}),
		// tiers, and an expansion on a node join: the new shard takes the tier of the shard before it
		runModelCase("m-tiers-expand", Conf{PtPer: 1, Expand: true}, 0, nil, []Cmd{{K: "cnode", H: 1, T: 1}, {K: "cdb", DB: 1, HasRP: true, RP: 1, D: i64(0), SGD: i64(Hour)},
			{K: "cmst", DB: 1, RP: 1, M: 1}, {K: "csg", DB: 1, RP: 1, TS: Base}, {K: "shtier", DB: 1, RP: 1, ID: 1, U1: 3}, {K: "shtier", DB: 1, RP: 1, ID: 9, U1: 3},
			{K: "ixtier", DB: 1, RP: 1, ID: 1, U1: 2}, {K: "cnode", H: 2, T: 2}, {K: "shtier", DB: 1, RP: 1, ID: 2, U1: 4}, {K: "csg", DB: 1, RP: 1, TS: Base + 3*Hour},
			{K: "restore"}, {K: "cnode", H: 3, T: 3},
			{K: "expand"}, {K: "shtier", DB: 1, RP: 0, ID: 2, U1: 4}}),
		// streams: re-creation takes a new id, a different definition is refused, the Mark commands are refused while a stream refers
		runModelCase("m-streams", cf, 0, nil, []Cmd{{K: "cnode", H: 1, T: 1}, {K: "cdb", DB: 1, HasRP: true, RP: 1, D: i64(0), SGD: i64(Hour)},
			{K: "cmst", DB: 1, RP: 1, M: 1}, {K: "cmst", DB: 1, RP: 1, M: 3}, {K: "cstream", S1: "st1", DB: 1, RP: 1, M: 1, Ver: 2, U1: 1},
			{K: "cstream", S1: "st1", DB: 1, RP: 1, M: 1, Ver: 2, U1: 1}, {K: "cstream", S1: "st1", DB: 1, RP: 1, M: 1, Ver: 2, U1: 2},
			{K: "markmst", DB: 1, RP: 1, M: 1}, {K: "markmst", DB: 1, RP: 1, M: 3}, {K: "markrp", DB: 1, RP: 1}, {K: "markdb", DB: 1}, {K: "restore"},
			{K: "dstream", S1: "st2"}, {K: "dstream", S1: "st1"}, {K: "markmst", DB: 1, RP: 1, M: 1}, {K: "markdb", DB: 1}}),
		// users and privileges; dropping a database removes its privileges and its continuous queries
		runModelCase("m-users", cf, 0, nil, []Cmd{{K: "cnode", H: 1, T: 1}, {K: "cdb", DB: 1}, {K: "cuser", S1: "admin", S2: "hash0", Def: true},
			{K: "cuser", S1: "u1", S2: "hash1"}, {K: "cuser", S1: "u2", S2: "hash1", Def: true}, {K: "setpriv", S1: "u1", DB: 1, Status: 2}, {K: "setpriv", S1: "u1", DB: 2, Status: 1},
			{K: "uuser", S1: "u1", S2: "hash1"}, {K: "uuser", S1: "u1", S2: "hash2"}, {K: "duser", S1: "admin"}, {K: "setadmin", S1: "u1", Def: true},
			{K: "ccq", DB: 1, S1: "cq1", S2: "CREATE CONTINUOUS QUERY q0"}, {K: "restore"}, {K: "dropdb", DB: 1}, {K: "duser", S1: "u1"}, {K: "dropdb", DB: 3}}),
	}
}
