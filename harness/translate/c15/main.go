// C15 translator: reads the repository's meta packages with go/parser and reports, as JSON on stdout,
//
//	(1) for every struct type reachable from meta.Data: its fields (name, kind), the fields read by its marshal
//	    method(s), assigned by its unmarshal method(s) and copied by its clone method (deep / shallow / missing);
//	(2) every `range` over a map-typed expression in functions reachable from the storeFSM apply handlers, with a
//	    syntactic classification (insensitive / choice).
//
// Purely syntactic (go/ast): types are resolved by name inside the package; calls by function or method name.
package main

import (
	"encoding/json"
	"fmt"
	"go/ast"
	"go/parser"
	"go/printer"
	"go/token"
	"os"
	"path/filepath"
	"sort"
	"strings"
)

type Field struct {
	Name     string `json:"name"`
	Type     string `json:"type"`
	Kind     string `json:"kind"` // value | slice | map | ptr | func | chan | iface
	Elem     string `json:"elem"` // named struct type (same package) reached through the field, if any
	Embedded bool   `json:"embedded,omitempty"`
	ElemRef  bool   `json:"elem_ref,omitempty"` // the elements of the slice / values of the map are themselves slices, maps or pointers
}

type TypeInfo struct {
	Name         string            `json:"name"`
	Fields       []Field           `json:"fields"`
	MarshalFns   []string          `json:"marshal_fns"`
	UnmarshalFns []string          `json:"unmarshal_fns"`
	CloneFns     []string          `json:"clone_fns"`
	Marshalled   []string          `json:"marshalled"`
	Unmarshalled []string          `json:"unmarshalled"`
	CloneStyle   string            `json:"clone_style"` // copyall | fieldwise | none (no clone method: copied as a value by its container)
	Cloned       map[string]string `json:"cloned"`      // field -> deep | shallow   (missing fields are absent)
}

type RangeSite struct {
	Func   string `json:"func"`
	Pkg    string `json:"pkg"`
	Expr   string `json:"expr"`
	Ord    int    `json:"ord"` // n-th map range of that expression text in the function
	Class  string `json:"class"`
	Reason string `json:"reason"`
}

// Access: a function of the apply path that reads or writes a field declared transient (matched by field name)
type Access struct {
	Field string `json:"field"`
	Func  string `json:"func"`
	Mode  string `json:"mode"` // read | write
}

type Out struct {
	Types       []*TypeInfo `json:"types"`
	Ranges      []RangeSite `json:"ranges"`
	Funcs       int         `json:"reachable_funcs"`
	Access      []Access    `json:"transient_access"`
	ConfigReads []Access    `json:"config_reads"` // x.config.F read in the apply path
	Commands    []CmdKind   `json:"commands"`     // the keys of the applyFunc dispatch table with their handlers
	Exposed     []Exposure  `json:"exposed_reads"`
}

// CmdKind: one entry of `var applyFunc = map[proto2.Command_Type]func(..){ proto2.Command_X: applyY, ... }`
type CmdKind struct {
	Kind    string `json:"kind"`
	Handler string `json:"handler"`
}

// Exposure: starting at Root (an apply handler or storeFSM.Apply/ApplyBatch/Restore/Snapshot) some path of calls reaches a READ
// of the transient field Field that is not preceded - in the reading function or in a caller on the path, as a statement of
// the function body that comes before the read / the call - by an assignment to that field. The value read may then be the
// one the replica had BEFORE it restored a snapshot (or the zero value of a fresh Data).
type Exposure struct {
	Field string `json:"field"`
	Root  string `json:"root"`
	Via   string `json:"via"` // the call chain, for the reviewer
}

type fn struct {
	pkg  string
	name string // Recv.Name or Name
	recv string // receiver type name ("" for functions)
	rvar string // receiver variable
	decl *ast.FuncDecl
}

var fset = token.NewFileSet()

func exprStr(e ast.Expr) string {
	var sb strings.Builder
	_ = printer.Fprint(&sb, fset, e)
	return sb.String()
}

func parseDir(dir string) []*ast.File {
	ents, err := os.ReadDir(dir)
	if err != nil {
		fmt.Fprintln(os.Stderr, err)
		os.Exit(2)
	}
	var files []*ast.File
	for _, e := range ents {
		n := e.Name()
		if !strings.HasSuffix(n, ".go") || strings.HasSuffix(n, "_test.go") {
			continue
		}
		src, err := os.ReadFile(filepath.Join(dir, n))
		if err != nil {
			continue
		}
		head := string(src)
		if len(head) > 400 {
			head = head[:400]
		}
		if strings.Contains(head, "//go:build verif") || strings.Contains(head, "//go:build windows") || strings.Contains(head, "//go:build streamfs") {
			continue
		}
		f, err := parser.ParseFile(fset, filepath.Join(dir, n), src, parser.SkipObjectResolution)
		if err != nil {
			fmt.Fprintln(os.Stderr, "parse:", err)
			os.Exit(2)
		}
		files = append(files, f)
	}
	return files
}

var structs = map[string]*ast.StructType{} // lifted meta package
var named = map[string]ast.Expr{}          // other named types of the package (underlying type expr)
var funcs = map[string][]*fn{}             // by bare name (function or method name), both packages

func recvOf(d *ast.FuncDecl) (string, string) {
	if d.Recv == nil || len(d.Recv.List) == 0 {
		return "", ""
	}
	t := d.Recv.List[0].Type
	if s, ok := t.(*ast.StarExpr); ok {
		t = s.X
	}
	name := ""
	if id, ok := t.(*ast.Ident); ok {
		name = id.Name
	}
	v := ""
	if len(d.Recv.List[0].Names) > 0 {
		v = d.Recv.List[0].Names[0].Name
	}
	return name, v
}

// kindOf classifies a field type; elem is the same-package struct reached through it
func kindOf(t ast.Expr, depth int) (kind, elem string) {
	switch x := t.(type) {
	case *ast.StarExpr:
		_, e := kindOf(x.X, depth+1)
		return "ptr", e
	case *ast.ArrayType:
		_, e := kindOf(x.Elt, depth+1)
		if x.Len == nil {
			return "slice", e
		}
		return "value", e
	case *ast.MapType:
		_, e := kindOf(x.Value, depth+1)
		return "map", e
	case *ast.FuncType:
		return "func", ""
	case *ast.ChanType:
		return "chan", ""
	case *ast.InterfaceType:
		return "iface", ""
	case *ast.Ident:
		if _, ok := structs[x.Name]; ok {
			return "value", x.Name
		}
		if u, ok := named[x.Name]; ok && depth < 6 {
			return kindOf(u, depth+1)
		}
		return "value", ""
	case *ast.SelectorExpr:
		return "value", ""
	}
	return "value", ""
}

// elemIsRef: for a slice or map type, is the element / value type a slice, map or pointer?
func elemIsRef(t ast.Expr, depth int) bool {
	switch x := t.(type) {
	case *ast.ArrayType:
		k, _ := kindOf(x.Elt, 0)
		return k == "slice" || k == "map" || k == "ptr"
	case *ast.MapType:
		k, _ := kindOf(x.Value, 0)
		return k == "slice" || k == "map" || k == "ptr"
	case *ast.StarExpr:
		return elemIsRef(x.X, depth+1)
	case *ast.Ident:
		if u, ok := named[x.Name]; ok && depth < 6 {
			return elemIsRef(u, depth+1)
		}
	}
	return false
}

func fieldsOf(name string) []Field {
	st := structs[name]
	var out []Field
	for _, f := range st.Fields.List {
		k, e := kindOf(f.Type, 0)
		if len(f.Names) == 0 {
			t := f.Type
			if s, ok := t.(*ast.StarExpr); ok {
				t = s.X
			}
			n := exprStr(t)
			if i := strings.LastIndex(n, "."); i >= 0 {
				n = n[i+1:]
			}
			out = append(out, Field{Name: n, Type: exprStr(f.Type), Kind: k, Elem: e, Embedded: true})
			continue
		}
		for _, id := range f.Names {
			out = append(out, Field{Name: id.Name, Type: exprStr(f.Type), Kind: k, Elem: e, ElemRef: elemIsRef(f.Type, 0)})
		}
	}
	return out
}

// baseSel: if e is recv.F (possibly wrapped in index/star/paren/selector chains), returns F
func baseSel(e ast.Expr, recv string) (string, bool) {
	for {
		switch x := e.(type) {
		case *ast.ParenExpr:
			e = x.X
		case *ast.StarExpr:
			e = x.X
		case *ast.IndexExpr:
			e = x.X
		case *ast.SliceExpr:
			e = x.X
		case *ast.UnaryExpr:
			e = x.X
		case *ast.SelectorExpr:
			if id, ok := x.X.(*ast.Ident); ok && id.Name == recv {
				return x.Sel.Name, true
			}
			e = x.X
		default:
			return "", false
		}
	}
}

// collect fields of recv read anywhere in body; follows methods called on recv and functions receiving recv
func readSet(f *fn, recvType string, seen map[string]bool, out map[string]bool) {
	if f == nil || f.decl.Body == nil || seen[f.pkg+"."+f.name] {
		return
	}
	seen[f.pkg+"."+f.name] = true
	rv := f.rvar
	ast.Inspect(f.decl.Body, func(n ast.Node) bool {
		switch x := n.(type) {
		case *ast.SelectorExpr:
			if id, ok := x.X.(*ast.Ident); ok && id.Name == rv {
				out[x.Sel.Name] = true
			}
		case *ast.CallExpr:
			if se, ok := x.Fun.(*ast.SelectorExpr); ok {
				if id, ok := se.X.(*ast.Ident); ok && id.Name == rv {
					for _, g := range funcs[se.Sel.Name] {
						if g.recv == recvType {
							readSet(g, recvType, seen, out)
						}
					}
				}
			}
		}
		return true
	})
}

// assigned fields of recv in body: LHS of assignments, receivers of method calls (recv.F.m(..)), &recv.F,
// and functions that receive recv as an argument (their parameter plays the receiver)
func assignSet(body *ast.BlockStmt, rv string, recvType string, seen map[string]bool, out map[string]bool) {
	if body == nil {
		return
	}
	ast.Inspect(body, func(n ast.Node) bool {
		switch x := n.(type) {
		case *ast.AssignStmt:
			for _, l := range x.Lhs {
				if f, ok := baseSel(l, rv); ok {
					out[f] = true
				}
			}
		case *ast.IncDecStmt:
			if f, ok := baseSel(x.X, rv); ok {
				out[f] = true
			}
		case *ast.CallExpr:
			if se, ok := x.Fun.(*ast.SelectorExpr); ok {
				// recv.F.method(...)
				if f, ok := baseSel(se.X, rv); ok {
					out[f] = true
				}
				// recv.method(...): follow
				if id, ok := se.X.(*ast.Ident); ok && id.Name == rv {
					for _, g := range funcs[se.Sel.Name] {
						if g.recv == recvType && !seen[g.pkg+"."+g.name] {
							seen[g.pkg+"."+g.name] = true
							assignSet(g.decl.Body, g.rvar, recvType, seen, out)
						}
					}
				}
			}
			// f(recv, ...): follow with the matching parameter name
			if id, ok := x.Fun.(*ast.Ident); ok {
				for i, a := range x.Args {
					if ai, ok := a.(*ast.Ident); ok && ai.Name == rv {
						for _, g := range funcs[id.Name] {
							if g.recv == "" && !seen[g.pkg+"."+g.name] && g.decl.Type.Params != nil {
								idx := 0
								for _, p := range g.decl.Type.Params.List {
									for _, pn := range p.Names {
										if idx == i {
											seen[g.pkg+"."+g.name] = true
											assignSet(g.decl.Body, pn.Name, recvType, seen, out)
										}
										idx++
									}
								}
							}
						}
					}
				}
			}
		case *ast.UnaryExpr:
			if x.Op == token.AND {
				if f, ok := baseSel(x.X, rv); ok {
					out[f] = true
				}
			}
		}
		return true
	})
}

func analyseClone(f *fn, ti *TypeInfo) {
	rv := f.rvar
	other := ""
	copyAll := false
	// find `other := recv` / `other := *recv` / `other := &T{}` / `other := T{}`
	ast.Inspect(f.decl.Body, func(n ast.Node) bool {
		as, ok := n.(*ast.AssignStmt)
		if !ok || len(as.Lhs) != 1 || len(as.Rhs) != 1 || other != "" {
			return true
		}
		l, ok := as.Lhs[0].(*ast.Ident)
		if !ok {
			return true
		}
		r := as.Rhs[0]
		if s, ok := r.(*ast.StarExpr); ok {
			r = s.X
		}
		if id, ok := r.(*ast.Ident); ok && id.Name == rv {
			other, copyAll = l.Name, true
			return true
		}
		if u, ok := as.Rhs[0].(*ast.UnaryExpr); ok && u.Op == token.AND {
			r = u.X
		}
		if cl, ok := r.(*ast.CompositeLit); ok {
			if id, ok := cl.Type.(*ast.Ident); ok && id.Name == ti.Name {
				other = l.Name
				// fields set in the literal
				for _, el := range cl.Elts {
					if kv, ok := el.(*ast.KeyValueExpr); ok {
						if k, ok := kv.Key.(*ast.Ident); ok {
							ti.Cloned[k.Name] = cloneDepth(kv.Value, rv)
						}
					}
				}
			}
		}
		return true
	})
	if other == "" {
		// `return &T{F: recv.F, ...}`
		ast.Inspect(f.decl.Body, func(n ast.Node) bool {
			if cl, ok := n.(*ast.CompositeLit); ok {
				if id, ok := cl.Type.(*ast.Ident); ok && id.Name == ti.Name {
					ti.CloneStyle = "fieldwise"
					for _, el := range cl.Elts {
						if kv, ok := el.(*ast.KeyValueExpr); ok {
							if k, ok := kv.Key.(*ast.Ident); ok {
								ti.Cloned[k.Name] = cloneDepth(kv.Value, rv)
							}
						}
					}
				}
			}
			return true
		})
		return
	}
	if copyAll {
		ti.CloneStyle = "copyall"
		for _, fl := range ti.Fields {
			ti.Cloned[fl.Name] = "shallow"
		}
	} else {
		ti.CloneStyle = "fieldwise"
	}
	ast.Inspect(f.decl.Body, func(n ast.Node) bool {
		as, ok := n.(*ast.AssignStmt)
		if !ok {
			return true
		}
		for i, l := range as.Lhs {
			if fld, ok := baseSel(l, other); ok {
				d := "deep"
				if len(as.Rhs) == len(as.Lhs) {
					d = cloneDepth(as.Rhs[i], rv)
				}
				// element-wise deep copies (other.F[i] = recv.F[i].clone()) after make(): deep
				if _, isIdx := l.(*ast.IndexExpr); isIdx {
					d = "deep"
				}
				if prev, ok := ti.Cloned[fld]; !ok || prev == "shallow" || d == "deep" {
					ti.Cloned[fld] = d
				}
			}
		}
		return true
	})
}

// cloneDepth: a plain recv.F on the right-hand side is a shallow copy; anything else (a call, make, literal) is deep
func cloneDepth(rhs ast.Expr, rv string) string {
	if se, ok := rhs.(*ast.SelectorExpr); ok {
		if id, ok := se.X.(*ast.Ident); ok && id.Name == rv {
			return "shallow"
		}
	}
	// recv.CloneX(): a helper that only copies the outer container (maps.Clone / slices.Clone / returns recv.F) is marked
	// "outer"; whether that is deep enough depends on the element type (decided by the caller of the translator)
	if ce, ok := rhs.(*ast.CallExpr); ok {
		if se, ok := ce.Fun.(*ast.SelectorExpr); ok {
			if id, ok := se.X.(*ast.Ident); ok && id.Name == rv {
				for _, g := range funcs[se.Sel.Name] {
					if g.pkg == "meta" && g.decl.Body != nil && outerCopyOnly(g) {
						return "outer"
					}
				}
			}
		}
	}
	return "deep"
}

// outerCopyOnly: the helper's result comes from maps.Clone / slices.Clone / a bare field, with no per-element copying
func outerCopyOnly(g *fn) bool {
	shallow := false
	loops := false
	ast.Inspect(g.decl.Body, func(n ast.Node) bool {
		switch x := n.(type) {
		case *ast.RangeStmt, *ast.ForStmt:
			loops = true
		case *ast.CallExpr:
			if se, ok := x.Fun.(*ast.SelectorExpr); ok {
				if id, ok := se.X.(*ast.Ident); ok && (id.Name == "maps" || id.Name == "slices") && (se.Sel.Name == "Clone" || se.Sel.Name == "Clip") {
					shallow = true
				}
			}
		case *ast.ReturnStmt:
			for _, r := range x.Results {
				if se, ok := r.(*ast.SelectorExpr); ok {
					if id, ok := se.X.(*ast.Ident); ok && id.Name == g.rvar {
						shallow = true
					}
				}
			}
		}
		return true
	})
	return shallow && !loops
}

func sorted(m map[string]bool) []string {
	r := make([]string, 0, len(m))
	for k := range m {
		r = append(r, k)
	}
	sort.Strings(r)
	return r
}

func main() {
	repo := "/repo"
	if len(os.Args) > 1 {
		repo = os.Args[1]
	}
	lifted := parseDir(filepath.Join(repo, "lib/util/lifted/influx/meta"))
	tsmeta := parseDir(filepath.Join(repo, "app/ts-meta/meta"))
	mapFields := map[string]bool{}
	for pi, files := range [][]*ast.File{lifted, tsmeta} {
		pkg := []string{"meta", "tsmeta"}[pi]
		for _, f := range files {
			for _, d := range f.Decls {
				switch x := d.(type) {
				case *ast.GenDecl:
					if pkg != "meta" {
						continue
					}
					for _, s := range x.Specs {
						if ts, ok := s.(*ast.TypeSpec); ok {
							if st, ok := ts.Type.(*ast.StructType); ok {
								structs[ts.Name.Name] = st
							} else {
								named[ts.Name.Name] = ts.Type
							}
						}
					}
				case *ast.FuncDecl:
					r, v := recvOf(x)
					n := x.Name.Name
					full := n
					if r != "" {
						full = r + "." + n
					}
					funcs[n] = append(funcs[n], &fn{pkg: pkg, name: full, recv: r, rvar: v, decl: x})
				}
			}
		}
	}
	// reachable struct types from Data
	var order []string
	seenT := map[string]bool{}
	var walk func(string)
	walk = func(n string) {
		if seenT[n] || structs[n] == nil {
			return
		}
		seenT[n] = true
		order = append(order, n)
		for _, f := range fieldsOf(n) {
			if f.Elem != "" {
				walk(f.Elem)
			}
		}
	}
	walk("Data")
	// a field name denotes a map if some struct declares it as a map and none declares it otherwise
	notMap := map[string]bool{}
	for n := range structs {
		for _, f := range fieldsOf(n) {
			if f.Kind == "map" {
				mapFields[f.Name] = true
			} else {
				notMap[f.Name] = true
			}
		}
	}
	for n := range notMap {
		delete(mapFields, n)
	}
	out := Out{}
	for _, n := range order {
		ti := &TypeInfo{Name: n, Fields: fieldsOf(n), Cloned: map[string]string{}, CloneStyle: "none"}
		isField := map[string]bool{}
		for _, f := range ti.Fields {
			isField[f.Name] = true
		}
		mar, unm := map[string]bool{}, map[string]bool{}
		for _, name := range []string{"marshal", "Marshal", "MarshalBase"} {
			for _, g := range funcs[name] {
				if g.recv == n && g.pkg == "meta" {
					ti.MarshalFns = append(ti.MarshalFns, g.name)
					readSet(g, n, map[string]bool{}, mar)
				}
			}
		}
		for _, name := range []string{"unmarshal", "Unmarshal"} {
			for _, g := range funcs[name] {
				if g.recv == n && g.pkg == "meta" {
					ti.UnmarshalFns = append(ti.UnmarshalFns, g.name)
					assignSet(g.decl.Body, g.rvar, n, map[string]bool{g.pkg + "." + g.name: true}, unm)
				}
			}
		}
		for _, name := range []string{"clone", "Clone", "Copy"} {
			for _, g := range funcs[name] {
				if g.recv == n && g.pkg == "meta" {
					ti.CloneFns = append(ti.CloneFns, g.name)
					analyseClone(g, ti)
				}
			}
		}
		for k := range mar {
			if !isField[k] {
				delete(mar, k)
			}
		}
		for k := range unm {
			if !isField[k] {
				delete(unm, k)
			}
		}
		for k := range ti.Cloned {
			if !isField[k] {
				delete(ti.Cloned, k)
			}
		}
		ti.Marshalled, ti.Unmarshalled = sorted(mar), sorted(unm)
		out.Types = append(out.Types, ti)
	}

	// ---- map ranges in functions reachable from the apply handlers
	reach := map[*fn]bool{}
	var q []*fn
	for _, l := range funcs {
		for _, g := range l {
			n := g.decl.Name.Name
			if g.pkg == "tsmeta" && (strings.HasPrefix(n, "apply") || (g.recv == "storeFSM" && (n == "Apply" || n == "ApplyBatch" || n == "Restore" || n == "Snapshot" || n == "executeCmd"))) {
				reach[g] = true
				q = append(q, g)
			}
		}
	}
	stop := map[string]bool{"String": true, "Error": true, "Info": true, "Errorf": true, "Sprintf": true, "Lock": true, "Unlock": true,
		"RLock": true, "RUnlock": true, "Len": true, "Less": true, "Swap": true, "Marshal": true, "marshal": true, "Unmarshal": true,
		"unmarshal": true, "Clone": true, "clone": true, "Close": true, "Add": true, "Done": true, "Wait": true, "Now": true, "Get": true, "Set": true}
	for len(q) > 0 {
		g := q[0]
		q = q[1:]
		if g.decl.Body == nil {
			continue
		}
		ast.Inspect(g.decl.Body, func(n ast.Node) bool {
			ce, ok := n.(*ast.CallExpr)
			if !ok {
				return true
			}
			name := ""
			switch f := ce.Fun.(type) {
			case *ast.Ident:
				name = f.Name
			case *ast.SelectorExpr:
				name = f.Sel.Name
			}
			if name == "" || stop[name] {
				return true
			}
			for _, h := range funcs[name] {
				// from the lifted package only calls into the lifted package are followed
				if g.pkg == "meta" && h.pkg != "meta" {
					continue
				}
				if !reach[h] {
					reach[h] = true
					q = append(q, h)
				}
			}
			return true
		})
	}
	out.Funcs = len(reach)
	var rfns []*fn
	for g := range reach {
		rfns = append(rfns, g)
	}
	sort.Slice(rfns, func(i, j int) bool { return rfns[i].pkg+rfns[i].name < rfns[j].pkg+rfns[j].name })
	for _, g := range rfns {
		if g.decl.Body == nil {
			continue
		}
		// local variables bound to map-typed expressions (x := y.MapField ; x, ok := ...)
		localMaps := map[string]bool{}
		ast.Inspect(g.decl.Body, func(n ast.Node) bool {
			if as, ok := n.(*ast.AssignStmt); ok && len(as.Rhs) == 1 && len(as.Lhs) >= 1 {
				if id, ok := as.Lhs[0].(*ast.Ident); ok && isMapExpr(as.Rhs[0], mapFields, nil) {
					localMaps[id.Name] = true
				}
			}
			return true
		})
		ords := map[string]int{}
		ast.Inspect(g.decl.Body, func(n ast.Node) bool {
			if ce, ok := n.(*ast.CallExpr); ok {
				if se, ok := ce.Fun.(*ast.SelectorExpr); ok && mapWalkers[se.Sel.Name] && len(ce.Args) == 1 {
					if fl, ok := ce.Args[0].(*ast.FuncLit); ok {
						ex := se.Sel.Name + "(func)"
						cl, why := "insensitive", "callback with per-element effects only"
						if countsIDs(fl.Body) {
							cl, why = "choice", "the callback hands out identifiers: their values follow the map iteration order"
						}
						ords[ex+"|"+cl]++
						out.Ranges = append(out.Ranges, RangeSite{Func: g.name, Pkg: g.pkg, Expr: ex, Ord: ords[ex+"|"+cl], Class: cl, Reason: why})
					}
				}
			}
			rs, ok := n.(*ast.RangeStmt)
			if !ok || !isMapExpr(rs.X, mapFields, localMaps) {
				return true
			}
			// a site is named by the map FIELD it ranges over (not by the expression text: renaming a variable must not move
			// it) and by its position among the sites of the same function, field and class
			ex := rangedField(rs.X)
			cl, why := classify(rs, g.decl)
			ords[ex+"|"+cl]++
			out.Ranges = append(out.Ranges, RangeSite{Func: g.name, Pkg: g.pkg, Expr: ex, Ord: ords[ex+"|"+cl], Class: cl, Reason: why})
			return true
		})
	}
	// ---- accesses to the declared-transient fields (names given on the command line) and configuration reads
	tnames := map[string]bool{}
	if len(os.Args) > 2 {
		for _, n := range strings.Split(os.Args[2], ",") {
			if n != "" {
				tnames[n] = true
			}
		}
	}
	accSeen := map[string]bool{}
	addAcc := func(list *[]Access, f, fnName, mode string) {
		k := f + "|" + fnName + "|" + mode
		if !accSeen[k] {
			accSeen[k] = true
			*list = append(*list, Access{Field: f, Func: fnName, Mode: mode})
		}
	}
	for _, g := range rfns {
		if g.decl.Body == nil {
			continue
		}
		written := map[ast.Node]bool{}
		ast.Inspect(g.decl.Body, func(n ast.Node) bool {
			switch x := n.(type) {
			case *ast.AssignStmt:
				for _, l := range x.Lhs {
					if se, ok := l.(*ast.SelectorExpr); ok && tnames[se.Sel.Name] {
						written[se] = true
						addAcc(&out.Access, se.Sel.Name, g.name, "write")
					}
				}
			case *ast.IncDecStmt:
				if se, ok := x.X.(*ast.SelectorExpr); ok && tnames[se.Sel.Name] {
					written[se] = true
					addAcc(&out.Access, se.Sel.Name, g.name, "write")
				}
			case *ast.KeyValueExpr:
				if id, ok := x.Key.(*ast.Ident); ok && tnames[id.Name] {
					addAcc(&out.Access, id.Name, g.name, "write")
				}
			}
			return true
		})
		ast.Inspect(g.decl.Body, func(n ast.Node) bool {
			se, ok := n.(*ast.SelectorExpr)
			if !ok {
				return true
			}
			if tnames[se.Sel.Name] && !written[se] {
				addAcc(&out.Access, se.Sel.Name, g.name, "read")
			}
			if inner, ok := se.X.(*ast.SelectorExpr); ok && inner.Sel.Name == "config" {
				addAcc(&out.ConfigReads, se.Sel.Name, g.name, "config")
			}
			if se.Sel.Name == "UseIncSyncData" || se.Sel.Name == "GetHaPolicy" || se.Sel.Name == "IsLogKeeper" {
				addAcc(&out.ConfigReads, se.Sel.Name, g.name, "config")
			}
			return true
		})
		// package-level switches set from the configuration
		ast.Inspect(g.decl.Body, func(n ast.Node) bool {
			if id, ok := n.(*ast.Ident); ok && (id.Name == "SchemaCleanEn" || id.Name == "repDisPolicy") {
				addAcc(&out.ConfigReads, id.Name, g.name, "config")
			}
			return true
		})
	}
	// ---- command kinds: the dispatch table of storeFSM.executeCmd
	for _, f := range tsmeta {
		for _, d := range f.Decls {
			gd, ok := d.(*ast.GenDecl)
			if !ok {
				continue
			}
			for _, sp := range gd.Specs {
				vs, ok := sp.(*ast.ValueSpec)
				if !ok || len(vs.Names) != 1 || vs.Names[0].Name != "applyFunc" || len(vs.Values) != 1 {
					continue
				}
				cl, ok := vs.Values[0].(*ast.CompositeLit)
				if !ok {
					continue
				}
				for _, el := range cl.Elts {
					kv, ok := el.(*ast.KeyValueExpr)
					if !ok {
						continue
					}
					k := exprStr(kv.Key)
					if i := strings.LastIndex(k, "Command_"); i >= 0 {
						k = k[i+len("Command_"):]
					}
					out.Commands = append(out.Commands, CmdKind{Kind: k, Handler: exprStr(kv.Value)})
				}
			}
		}
	}
	sort.Slice(out.Commands, func(i, j int) bool { return out.Commands[i].Kind < out.Commands[j].Kind })
	// ---- exposure of the transient fields (see Exposure)
	out.Exposed = exposures(rfns, tnames)
	sort.Slice(out.Access, func(i, j int) bool {
		a, b := out.Access[i], out.Access[j]
		return a.Field+a.Func+a.Mode < b.Field+b.Func+b.Mode
	})
	sort.Slice(out.ConfigReads, func(i, j int) bool {
		a, b := out.ConfigReads[i], out.ConfigReads[j]
		return a.Field+a.Func < b.Field+b.Func
	})
	enc := json.NewEncoder(os.Stdout)
	enc.SetIndent("", " ")
	_ = enc.Encode(out)
}

// methods that call their argument once per entry of a map, in map iteration order
var mapWalkers = map[string]bool{"WalkDatabases": true, "WalkRetentionPolicy": true, "WalkContinuousQuery": true, "WalkMigrateEvents": true, "WalkPtView": true}

func isMapExpr(e ast.Expr, mapFields map[string]bool, locals map[string]bool) bool {
	switch x := e.(type) {
	case *ast.ParenExpr:
		return isMapExpr(x.X, mapFields, locals)
	case *ast.StarExpr:
		return isMapExpr(x.X, mapFields, locals)
	case *ast.SelectorExpr:
		return mapFields[x.Sel.Name]
	case *ast.Ident:
		return locals != nil && locals[x.Name]
	case *ast.IndexExpr: // PtView[db] is a slice, ReplicaGroups[db] a slice, ShardIdexes[id] a slice: not maps
		return false
	}
	return false
}

// rangedField: the last component of the ranged expression (x.y.Field -> Field; a local variable -> its name)
func rangedField(e ast.Expr) string {
	switch x := e.(type) {
	case *ast.ParenExpr:
		return rangedField(x.X)
	case *ast.StarExpr:
		return rangedField(x.X)
	case *ast.SelectorExpr:
		return x.Sel.Name
	case *ast.Ident:
		return x.Name
	}
	return exprStr(e)
}

// classify a map range syntactically
func classify(rs *ast.RangeStmt, fd *ast.FuncDecl) (string, string) {
	hasBreak, hasReturn, lastWins := false, false, false
	loopVars := map[string]bool{}
	for _, e := range []ast.Expr{rs.Key, rs.Value} {
		if id, ok := e.(*ast.Ident); ok && id.Name != "_" {
			loopVars[id.Name] = true
		}
	}
	var appended []string
	depth := 0
	var visit func(n ast.Node) bool
	visit = func(n ast.Node) bool {
		switch x := n.(type) {
		case *ast.ForStmt, *ast.RangeStmt, *ast.SwitchStmt, *ast.TypeSwitchStmt, *ast.SelectStmt:
			if n != ast.Node(rs) {
				depth++
				ast.Inspect(childBody(n), visit)
				depth--
				return false
			}
		case *ast.FuncLit:
			return false
		case *ast.BranchStmt:
			if x.Tok == token.BREAK && depth == 0 {
				hasBreak = true
			}
		case *ast.ReturnStmt:
			hasReturn = true
		case *ast.AssignStmt:
			for i, r := range x.Rhs {
				if ce, ok := r.(*ast.CallExpr); ok {
					if id, ok := ce.Fun.(*ast.Ident); ok && id.Name == "append" && i < len(x.Lhs) {
						appended = append(appended, exprStr(x.Lhs[i]))
						continue
					}
				}
				// plain variable = something computed from the current element: the last element reached wins
				if x.Tok == token.ASSIGN && i < len(x.Lhs) {
					if id, ok := x.Lhs[i].(*ast.Ident); ok && id.Name != "_" && mentions(r, loopVars) && !mentions(r, map[string]bool{id.Name: true}) {
						lastWins = true
					}
				}
			}
		}
		return true
	}
	ast.Inspect(rs.Body, visit)
	if lastWins && !hasBreak && !hasReturn {
		return "choice", "assigns a value computed from the current element to an outer variable: the last element reached wins"
	}
	return verdict(hasBreak, hasReturn, countsIDs(rs.Body), appended, rs.End(), fd)
}

// countsIDs: the body hands out identifiers (x.Max...ID++ / x.Max... = ...) - their values then depend on the iteration order
func countsIDs(body ast.Node) bool {
	found := false
	isMax := func(e ast.Expr) bool {
		se, ok := e.(*ast.SelectorExpr)
		return ok && strings.HasPrefix(se.Sel.Name, "Max")
	}
	ast.Inspect(body, func(n ast.Node) bool {
		switch x := n.(type) {
		case *ast.IncDecStmt:
			if isMax(x.X) {
				found = true
			}
		case *ast.AssignStmt:
			for _, l := range x.Lhs {
				if isMax(l) {
					found = true
				}
			}
		case *ast.CallExpr:
			// calls that are known to allocate ids
			name := ""
			switch f := x.Fun.(type) {
			case *ast.Ident:
				name = f.Name
			case *ast.SelectorExpr:
				name = f.Sel.Name
			}
			if name == "createIndexGroupIfNeeded" || name == "CreateIndexGroup" || name == "createShards" || name == "newShardGroup" {
				found = true
			}
		}
		return true
	})
	return found
}

func mentions(e ast.Expr, names map[string]bool) bool {
	found := false
	ast.Inspect(e, func(n ast.Node) bool {
		if id, ok := n.(*ast.Ident); ok && names[id.Name] {
			found = true
		}
		return true
	})
	return found
}

func verdict(hasBreak, hasReturn, ids bool, appended []string, end token.Pos, fd *ast.FuncDecl) (string, string) {
	if ids {
		return "choice", "hands out identifiers inside the loop: their values follow the iteration order"
	}
	if hasBreak {
		return "choice", "break inside the loop: the element reached first is used"
	}
	if hasReturn {
		return "choice", "return inside the loop: the element reached first decides"
	}
	if len(appended) > 0 {
		// is every appended slice sorted later in the function?
		sortedLater := map[string]bool{}
		ast.Inspect(fd.Body, func(n ast.Node) bool {
			if ce, ok := n.(*ast.CallExpr); ok && ce.Pos() > end {
				if se, ok := ce.Fun.(*ast.SelectorExpr); ok {
					if id, ok := se.X.(*ast.Ident); ok && id.Name == "sort" && len(ce.Args) > 0 {
						a := exprStr(ce.Args[0])
						for _, s := range appended {
							if strings.Contains(a, s) {
								sortedLater[s] = true
							}
						}
					}
				}
			}
			return true
		})
		for _, s := range appended {
			if !sortedLater[s] {
				return "choice", "appends to " + s + " in iteration order without a later sort"
			}
		}
		return "insensitive", "collects into a slice that is sorted afterwards"
	}
	return "insensitive", "per-element effects only (no break/return, no order-dependent accumulation)"
}

func childBody(n ast.Node) ast.Node {
	switch x := n.(type) {
	case *ast.ForStmt:
		return x.Body
	case *ast.RangeStmt:
		return x.Body
	case *ast.SwitchStmt:
		return x.Body
	case *ast.TypeSwitchStmt:
		return x.Body
	case *ast.SelectStmt:
		return x.Body
	}
	return n
}

// isConfigSel: x.config.F (a read of the node's configuration, not of the catalogue)
func isConfigSel(se *ast.SelectorExpr) bool {
	inner, ok := se.X.(*ast.SelectorExpr)
	return ok && inner.Sel.Name == "config"
}

type fieldEvents struct {
	reads  []token.Pos          // reads of the field anywhere in the body
	writes []token.Pos          // assignments to the field that are statements of the function body itself (they dominate what follows)
	calls  map[string][]token.Pos // bare callee name -> positions
}

func eventsOf(g *fn, field string) *fieldEvents {
	ev := &fieldEvents{calls: map[string][]token.Pos{}}
	lhs := map[*ast.SelectorExpr]bool{}
	for _, st := range g.decl.Body.List {
		if p, ok := topWrite(st, field, 0); ok {
			ev.writes = append(ev.writes, p)
		}
	}
	ast.Inspect(g.decl.Body, func(n ast.Node) bool {
		switch x := n.(type) {
		case *ast.AssignStmt:
			for _, l := range x.Lhs {
				if se, ok := l.(*ast.SelectorExpr); ok && se.Sel.Name == field && x.Tok == token.ASSIGN {
					lhs[se] = true
				}
			}
		case *ast.SelectorExpr:
			if x.Sel.Name == field && !lhs[x] && !isConfigSel(x) {
				ev.reads = append(ev.reads, x.Pos())
			}
		case *ast.CallExpr:
			name := ""
			switch f := x.Fun.(type) {
			case *ast.Ident:
				if !builtins[f.Name] {
					name = f.Name
				}
			case *ast.SelectorExpr:
				name = f.Sel.Name
				// receiver hints: `meta2.F(..)` is a function of the lifted package, `<..>.data.M(..)` a method of Data
				switch r := f.X.(type) {
				case *ast.Ident:
					if r.Name == "meta2" {
						name = "meta2." + name
					} else if r.Name == "data" {
						name = "Data." + name
					}
				case *ast.SelectorExpr:
					if r.Sel.Name == "data" {
						name = "Data." + name
					}
				}
			}
			if name != "" {
				ev.calls[name] = append(ev.calls[name], x.Pos())
			}
		}
		return true
	})
	return ev
}

var builtins = map[string]bool{"close": true, "len": true, "cap": true, "append": true, "make": true, "delete": true, "copy": true, "panic": true, "new": true, "recover": true, "print": true, "println": true, "min": true, "max": true}

// callees resolves a (possibly hinted) callee name of eventsOf
func callees(n string) []*fn {
	if strings.HasPrefix(n, "meta2.") {
		var r []*fn
		for _, h := range funcs[n[6:]] {
			if h.pkg == "meta" && h.recv == "" {
				r = append(r, h)
			}
		}
		return r
	}
	if strings.HasPrefix(n, "Data.") {
		var r []*fn
		for _, h := range funcs[n[5:]] {
			if h.pkg == "meta" && h.recv == "Data" {
				r = append(r, h)
			}
		}
		return r
	}
	return funcs[n]
}

// topWrite: the statement (one of a function body's own statements, so it runs whenever the function gets that far) assigns the
// field - directly, or by calling a helper whose own body does so unconditionally. Returns where the write has taken effect.
func topWrite(st ast.Stmt, field string, depth int) (token.Pos, bool) {
	switch x := st.(type) {
	case *ast.AssignStmt:
		for _, l := range x.Lhs {
			if se, ok := l.(*ast.SelectorExpr); ok && se.Sel.Name == field {
				// the right-hand side is evaluated first: the write takes effect at the end of the statement
				return x.End(), true
			}
		}
	case *ast.ExprStmt:
		ce, ok := x.X.(*ast.CallExpr)
		if !ok || depth > 3 {
			return 0, false
		}
		name := ""
		switch f := ce.Fun.(type) {
		case *ast.Ident:
			name = f.Name
		case *ast.SelectorExpr:
			name = f.Sel.Name
		}
		hs := funcs[name]
		if name == "" || builtins[name] || len(hs) != 1 || hs[0].decl.Body == nil { // only an unambiguous helper
			return 0, false
		}
		for _, hst := range hs[0].decl.Body.List {
			if _, ok := topWrite(hst, field, depth+1); ok {
				return x.End(), true
			}
			if _, isRet := hst.(*ast.ReturnStmt); isRet {
				break
			}
		}
	}
	return 0, false
}

func writtenBefore(ev *fieldEvents, pos token.Pos) bool {
	for _, w := range ev.writes {
		if w <= pos {
			return true
		}
	}
	return false
}

func exposures(rfns []*fn, tnames map[string]bool) []Exposure {
	var res []Exposure
	inReach := map[*fn]bool{}
	for _, g := range rfns {
		inReach[g] = true
	}
	var fields []string
	for f := range tnames {
		fields = append(fields, f)
	}
	sort.Strings(fields)
	for _, field := range fields {
		evs := map[*fn]*fieldEvents{}
		for _, g := range rfns {
			if g.decl.Body != nil {
				evs[g] = eventsOf(g, field)
			}
		}
		// least fixpoint: exposed[g] = chain of function names from g to an unprotected read
		exposed := map[*fn]string{}
		for changed := true; changed; {
			changed = false
			for _, g := range rfns {
				ev := evs[g]
				if ev == nil || exposed[g] != "" {
					continue
				}
				for _, r := range ev.reads {
					if !writtenBefore(ev, r) {
						exposed[g] = g.name
						break
					}
				}
				if exposed[g] == "" {
					var names []string
					for n := range ev.calls {
						names = append(names, n)
					}
					sort.Strings(names)
				search:
					for _, n := range names {
						for _, h := range callees(n) {
							if !inReach[h] || exposed[h] == "" || (g.pkg == "meta" && h.pkg != "meta") {
								continue
							}
							for _, pos := range ev.calls[n] {
								if !writtenBefore(ev, pos) {
									exposed[g] = g.name + " -> " + exposed[h]
									break search
								}
							}
						}
					}
				}
				if exposed[g] != "" {
					changed = true
				}
			}
		}
		for _, g := range rfns {
			n := g.decl.Name.Name
			// the handlers proper (methods of storeFSM; the table entries are one-line wrappers around them, or - applyVerifyDataNode -
			// do nothing) and the entry points raft calls
			isRoot := g.pkg == "tsmeta" && g.recv == "storeFSM" && (strings.HasPrefix(n, "apply") || n == "Apply" || n == "ApplyBatch" || n == "Restore" || n == "Snapshot")
			if isRoot && exposed[g] != "" {
				res = append(res, Exposure{Field: field, Root: g.name, Via: exposed[g]})
			}
		}
	}
	sort.Slice(res, func(i, j int) bool { return res[i].Field+res[i].Root < res[j].Field+res[j].Root })
	return res
}
