// Guard formulas for property C19: for every handler with the authenticated signature, the condition under which the
// handler goes on instead of refusing, as a boolean formula over authorization atoms, obtained by symbolic evaluation
// of the handler and of the functions it hands its user argument to.
//
// Prefix notation:  true | false | authoff | nil | admin | dbread | dbwrite | write | query | ?N | and(a,b) | or(a,b) | not(a)
//   authoff  !h.Config.AuthEnabled            nil     user == nil
//   admin    user.AuthorizeUnrestricted()      dbread / dbwrite   user.AuthorizeDatabase(Read/WritePrivilege, ..)
//   write    _.AuthorizeWrite(user.ID(), ..) == nil            query   AuthorizeQuery(.., user, ..) == nil
//   ?N       a condition the evaluator does not understand (free variable: loop entered, other tests)
//
// Rules. Statements are evaluated in order with a continuation. Only statements that mention the user, a variable bound to
// an authorization result, or contain such statements are looked at; everything else is assumed to fall through (their
// own returns are validation failures, not authorization decisions). `if c {A} else {B}; rest` = or(and(c,A'),and(not c,B'))
// with the continuation `rest` where a branch does not return. In a function without results a `return` reached through
// a looked-at statement is a refusal (false), the end of the body is acceptance (true). In a bool function the value is the
// returned expression; in a function whose last result is an error the value is "returns nil". A loop whose body is
// looked at is entered or not by a fresh ?N. A tag-less switch is an if-chain. A tail call of a result-less function that
// receives the user continues with that function's formula.
package main

import (
	"fmt"
	"go/ast"
	"go/token"
	"go/types"
	"os"
	"strings"

	"golang.org/x/tools/go/packages"
)

var formulaMemo = map[guardKey]string{}
var formulaBusy = map[guardKey]bool{}
var opaqueCounter int

func fOpaque() string {
	opaqueCounter++
	return fmt.Sprintf("?%d", opaqueCounter)
}

func fNot(a string) string {
	switch {
	case a == "true":
		return "false"
	case a == "false":
		return "true"
	case strings.HasPrefix(a, "not(") && balanced(a[4:len(a)-1]):
		return a[4 : len(a)-1]
	}
	return "not(" + a + ")"
}

func balanced(s string) bool {
	d := 0
	for _, ch := range s {
		if ch == '(' {
			d++
		} else if ch == ')' {
			d--
			if d < 0 {
				return false
			}
		}
	}
	return d == 0
}

func fAnd(a, b string) string {
	switch {
	case a == "false" || b == "false":
		return "false"
	case a == "true":
		return b
	case b == "true":
		return a
	case a == b:
		return a
	}
	return "and(" + a + "," + b + ")"
}

func fOr(a, b string) string {
	switch {
	case a == "true" || b == "true":
		return "true"
	case a == "false":
		return b
	case b == "false":
		return a
	case a == b:
		return a
	}
	return "or(" + a + "," + b + ")"
}

func fIte(c, t, e string) string {
	if t == e {
		return t
	}
	return fOr(fAnd(c, t), fAnd(fNot(c), e))
}

type fctx struct {
	q     *packages.Package
	user  types.Object
	binds map[types.Object]string
	kind  byte // 'v' no results, 'b' bool, 'e' last result error
	body  *ast.BlockStmt
}

func (c *fctx) info() *types.Info { return c.q.TypesInfo }

func (c *fctx) objOf(id *ast.Ident) types.Object {
	if o := c.info().Uses[id]; o != nil {
		return o
	}
	return c.info().Defs[id]
}

// related: does the node mention the user or a variable bound to an authorization result?
func (c *fctx) related(n ast.Node) bool {
	if n == nil {
		return false
	}
	found := false
	ast.Inspect(n, func(x ast.Node) bool {
		if _, ok := x.(*ast.FuncLit); ok {
			return false
		}
		if id, ok := x.(*ast.Ident); ok {
			o := c.objOf(id)
			if o != nil && (o == c.user || c.binds[o] != "") {
				found = true
			}
		}
		if sel, ok := x.(*ast.SelectorExpr); ok && sel.Sel.Name == "AuthEnabled" && strings.HasSuffix(render(sel), ".Config.AuthEnabled") {
			found = true // the switch that turns every authorization decision off
		}
		return !found
	})
	return found
}

func resultKind(sig *types.Signature) byte {
	r := sig.Results()
	if r.Len() == 0 {
		return 'v'
	}
	if b, ok := r.At(0).Type().Underlying().(*types.Basic); ok && b.Kind() == types.Bool && r.Len() == 1 {
		return 'b'
	}
	if types.TypeString(r.At(r.Len()-1).Type(), nil) == "error" {
		return 'e'
	}
	return 'o'
}

func (c *fctx) isUser(e ast.Expr) bool {
	id, ok := e.(*ast.Ident)
	return ok && c.user != nil && c.objOf(id) == c.user
}

// call: formula and result kind of a call that involves the user ("" when it does not)
func (c *fctx) call(call *ast.CallExpr) (string, byte) {
	if sel, ok := call.Fun.(*ast.SelectorExpr); ok {
		if c.isUser(sel.X) {
			switch sel.Sel.Name {
			case "AuthorizeUnrestricted":
				return "admin", 'b'
			case "AuthorizeDatabase":
				return dbAtom(call, 0), 'b'
			case "AuthorizeQuery":
				return "query", 'e'
			case "ID":
				return "", 'o'
			}
		}
		switch sel.Sel.Name {
		case "AuthorizeWrite":
			for _, a := range call.Args {
				if ic, ok := a.(*ast.CallExpr); ok {
					if is, ok := ic.Fun.(*ast.SelectorExpr); ok && is.Sel.Name == "ID" && c.isUser(is.X) {
						return "write", 'e'
					}
				}
			}
		case "AuthorizeQuery":
			for _, a := range call.Args {
				if c.isUser(a) {
					return "query", 'e'
				}
			}
		case "AuthorizeDatabase":
			for i, a := range call.Args {
				if c.isUser(a) && i+1 < len(call.Args) {
					return dbAtom(call, i+1), 'e'
				}
			}
		}
	}
	var fid *ast.Ident
	switch f := call.Fun.(type) {
	case *ast.Ident:
		fid = f
	case *ast.SelectorExpr:
		fid = f.Sel
	}
	if fid == nil {
		return "", 'o'
	}
	fn, ok := c.info().Uses[fid].(*types.Func)
	if !ok {
		return "", 'o'
	}
	for i, a := range call.Args {
		if c.isUser(a) {
			sig, _ := fn.Type().(*types.Signature)
			if sig == nil {
				return "", 'o'
			}
			k := resultKind(sig)
			if k == 'o' {
				return "", 'o' // neither a decision value nor an error: it cannot stop its caller
			}
			if _, fd := declOf(fn); fd == nil {
				return "", k
			}
			f := formulaOfFunc(fn, i)
			if !decides(f) {
				return "", k // the callee makes no authorization decision: its result is not one either
			}
			return f, k
		}
	}
	return "", 'o'
}

// decides: does the formula mention an authorization atom at all?
func decides(f string) bool {
	for _, a := range []string{"admin", "dbread", "dbwrite", "write", "query"} {
		if strings.Contains(f, a) {
			return true
		}
	}
	return false
}

func dbAtom(call *ast.CallExpr, i int) string {
	if i < len(call.Args) {
		p := render(call.Args[i])
		if strings.HasSuffix(p, "ReadPrivilege") {
			return "dbread"
		}
		if strings.HasSuffix(p, "WritePrivilege") {
			return "dbwrite"
		}
	}
	return fOpaque()
}

func isNilIdent(e ast.Expr) bool {
	id, ok := e.(*ast.Ident)
	return ok && id.Name == "nil"
}

// cond: formula of a boolean expression ("" when it does not involve the user)
func (c *fctx) cond(e ast.Expr) string {
	switch x := e.(type) {
	case *ast.ParenExpr:
		return c.cond(x.X)
	case *ast.UnaryExpr:
		if x.Op == token.NOT {
			if f := c.cond(x.X); f != "" {
				return fNot(f)
			}
			return ""
		}
	case *ast.Ident:
		if x.Name == "true" || x.Name == "false" {
			return x.Name
		}
		if o := c.objOf(x); o != nil && c.binds[o] != "" {
			return c.binds[o]
		}
		return ""
	case *ast.SelectorExpr:
		if strings.HasSuffix(render(x), ".Config.AuthEnabled") {
			return fNot("authoff")
		}
		return ""
	case *ast.CallExpr:
		f, k := c.call(x)
		if f != "" && k == 'b' {
			return f
		}
		if f != "" {
			return fOpaque()
		}
		return ""
	case *ast.BinaryExpr:
		switch x.Op {
		case token.LAND, token.LOR:
			a, b := c.cond(x.X), c.cond(x.Y)
			if a == "" && b == "" {
				return ""
			}
			if a == "" {
				a = fOpaque()
			}
			if b == "" {
				b = fOpaque()
			}
			if x.Op == token.LAND {
				return fAnd(a, b)
			}
			return fOr(a, b)
		case token.EQL, token.NEQ:
			var other ast.Expr
			if isNilIdent(x.Y) {
				other = x.X
			} else if isNilIdent(x.X) {
				other = x.Y
			}
			if other != nil {
				f := ""
				if c.isUser(other) {
					f = "nil"
				} else if id, ok := other.(*ast.Ident); ok {
					if o := c.objOf(id); o != nil {
						f = c.binds[o] // bound error variable: "is nil"
					}
				} else if call, ok := other.(*ast.CallExpr); ok {
					g, k := c.call(call)
					if g != "" && k == 'e' {
						f = g
					} else if g != "" {
						f = fOpaque()
					}
				}
				if f == "" {
					return ""
				}
				if x.Op == token.NEQ {
					return fNot(f)
				}
				return f
			}
			if id, ok := x.Y.(*ast.Ident); ok && (id.Name == "true" || id.Name == "false") {
				f := c.cond(x.X)
				if f == "" {
					return ""
				}
				if (id.Name == "true") == (x.Op == token.EQL) {
					return f
				}
				return fNot(f)
			}
		}
	}
	if c.related(e) {
		return fOpaque()
	}
	return ""
}

func (c *fctx) assign(st ast.Stmt) {
	as, ok := st.(*ast.AssignStmt)
	if !ok {
		return
	}
	unbind := func() {
		for _, l := range as.Lhs {
			if id, ok := l.(*ast.Ident); ok {
				if o := c.objOf(id); o != nil {
					delete(c.binds, o)
				}
			}
		}
	}
	bind := func(l ast.Expr, f string) {
		if id, ok := l.(*ast.Ident); ok && id.Name != "_" {
			if o := c.objOf(id); o != nil {
				c.binds[o] = f
			}
		}
	}
	if len(as.Rhs) != 1 {
		// a, b := x, y : pairwise
		var fs []string
		if len(as.Rhs) == len(as.Lhs) {
			for _, r := range as.Rhs {
				f := ""
				if call, ok := r.(*ast.CallExpr); ok {
					g, k := c.call(call)
					if g != "" && (k == 'b' || k == 'e') {
						f = g
					}
				} else {
					f = c.cond(r)
				}
				fs = append(fs, f)
			}
		}
		unbind()
		for i, f := range fs {
			if f != "" {
				bind(as.Lhs[i], f)
			}
		}
		return
	}
	if call, ok := as.Rhs[0].(*ast.CallExpr); ok {
		f, k := c.call(call)
		unbind()
		if f == "" {
			return
		}
		switch k {
		case 'b':
			bind(as.Lhs[0], f)
		case 'e':
			bind(as.Lhs[len(as.Lhs)-1], f)
		}
		return
	}
	f := ""
	if len(as.Lhs) == 1 {
		f = c.cond(as.Rhs[0])
	}
	unbind()
	if f != "" {
		bind(as.Lhs[0], f)
	}
}

func (c *fctx) ret(rs *ast.ReturnStmt, top bool) string {
	switch c.kind {
	case 'v':
		if top {
			return "true" // a return on the main path of a result-less function is its end, not a refusal
		}
		return "false"
	case 'b':
		if len(rs.Results) == 1 {
			if f := c.cond(rs.Results[0]); f != "" {
				return f
			}
		}
		return fOpaque()
	case 'e':
		if len(rs.Results) == 0 {
			return fOpaque()
		}
		last := rs.Results[len(rs.Results)-1]
		if isNilIdent(last) {
			return "true"
		}
		if id, ok := last.(*ast.Ident); ok {
			if o := c.objOf(id); o != nil && c.binds[o] != "" {
				return c.binds[o]
			}
		}
		if call, ok := last.(*ast.CallExpr); ok {
			if f, k := c.call(call); f != "" && k == 'e' {
				return f
			}
		}
		return "false"
	}
	return fOpaque()
}

func (c *fctx) fork() map[types.Object]string {
	m := map[types.Object]string{}
	for k, v := range c.binds {
		m[k] = v
	}
	return m
}

func (c *fctx) block(list []ast.Stmt, k string, top bool) string {
	for i, st := range list {
		switch x := st.(type) {
		case *ast.ReturnStmt:
			return c.ret(x, top)
		case *ast.AssignStmt:
			c.assign(x)
		case *ast.DeclStmt:
			// var err error: nothing bound
		case *ast.IfStmt:
			saved := c.fork()
			if x.Init != nil {
				c.assign(x.Init)
			}
			if !c.related(x.Cond) && !c.related(x.Body) && !c.related(x.Else) {
				c.binds = saved
				continue
			}
			cf := c.cond(x.Cond)
			if cf == "" {
				cf = fOpaque()
			}
			inIf := c.fork()
			c.binds = saved
			rest := c.block(list[i+1:], k, top)
			c.binds = inIf
			tb := c.block(x.Body.List, rest, false)
			eb := rest
			switch e := x.Else.(type) {
			case *ast.BlockStmt:
				c.binds = inIf
				eb = c.block(e.List, rest, false)
			case *ast.IfStmt:
				c.binds = inIf
				eb = c.block([]ast.Stmt{e}, rest, false)
			}
			c.binds = saved
			return fIte(cf, tb, eb)
		case *ast.SwitchStmt:
			if !c.related(x) {
				continue
			}
			rest := c.block(list[i+1:], k, top)
			if x.Tag != nil || x.Init != nil {
				return fAnd(fOpaque(), rest)
			}
			// tag-less switch = if-chain (default last)
			res := rest
			var deflt *ast.CaseClause
			var clauses []*ast.CaseClause
			for _, cl := range x.Body.List {
				cc := cl.(*ast.CaseClause)
				if cc.List == nil {
					deflt = cc
				} else {
					clauses = append(clauses, cc)
				}
			}
			if deflt != nil {
				res = c.block(deflt.Body, rest, false)
			}
			for j := len(clauses) - 1; j >= 0; j-- {
				cc := clauses[j]
				cf := "false"
				for _, e := range cc.List {
					f := c.cond(e)
					if f == "" {
						f = fOpaque()
					}
					cf = fOr(cf, f)
				}
				res = fIte(cf, c.block(cc.Body, rest, false), res)
			}
			return res
		case *ast.ForStmt, *ast.RangeStmt:
			var body *ast.BlockStmt
			if f, ok := x.(*ast.ForStmt); ok {
				body = f.Body
			} else {
				body = x.(*ast.RangeStmt).Body
			}
			if !c.related(body) {
				continue
			}
			o := fOpaque()
			saved := c.fork()
			b := c.block(body.List, "true", false)
			c.binds = saved
			rest := c.block(list[i+1:], k, top)
			return fAnd(fOr(fNot(o), fAnd(o, b)), rest)
		case *ast.BlockStmt:
			if c.related(x) {
				return c.block(append(append([]ast.Stmt{}, x.List...), list[i+1:]...), k, top)
			}
		case *ast.ExprStmt:
			// tail call of a result-less function that receives the user
			if call, ok := x.X.(*ast.CallExpr); ok && top && i == len(list)-1 && c.kind == 'v' {
				if f, kd := c.call(call); f != "" && kd == 'v' {
					return f
				}
			}
		case *ast.TypeSwitchStmt, *ast.SelectStmt:
			if c.related(x) {
				return fAnd(fOpaque(), c.block(list[i+1:], k, top))
			}
		}
	}
	return k
}

func formulaOfBody(q *packages.Package, ft *ast.FuncType, body *ast.BlockStmt, user types.Object, kind byte) string {
	if user == nil {
		return "true" // the function cannot look at its user
	}
	c := &fctx{q: q, user: user, binds: map[types.Object]string{}, kind: kind, body: body}
	end := "true"
	if kind != 'v' {
		end = fOpaque()
	}
	return c.block(body.List, end, true)
}

func formulaOfFunc(fn *types.Func, idx int) string {
	k := guardKey{fn, idx}
	if f, ok := formulaMemo[k]; ok {
		return f
	}
	if formulaBusy[k] {
		return fOpaque()
	}
	formulaBusy[k] = true
	defer delete(formulaBusy, k)
	q, fd := declOf(fn)
	if fd == nil {
		return fOpaque()
	}
	sig, _ := fn.Type().(*types.Signature)
	ps := paramObjs(q.TypesInfo, fd.Type)
	var user types.Object
	if idx < len(ps) {
		user = ps[idx]
	}
	f := formulaOfBody(q, fd.Type, fd.Body, user, resultKind(sig))
	if os.Getenv("C19TR_DEBUG") != "" {
		fmt.Fprintf(os.Stderr, "formula %s/%d = %s\n", fn.Name(), idx, f)
	}
	formulaMemo[k] = f
	return f
}

// formulaOfHandler: the handler expression of a route with the authenticated signature
func formulaOfHandler(p *packages.Package, h ast.Expr) string {
	lit := func(q *packages.Package, fl *ast.FuncLit) string {
		ps := paramObjs(q.TypesInfo, fl.Type)
		if len(ps) != 3 {
			return "?0"
		}
		return formulaOfBody(q, fl.Type, fl.Body, ps[2], 'v')
	}
	var id *ast.Ident
	switch x := h.(type) {
	case *ast.SelectorExpr:
		id = x.Sel
	case *ast.Ident:
		id = x
	case *ast.FuncLit:
		return lit(p, x)
	case *ast.CallExpr:
		var fid *ast.Ident
		switch f := x.Fun.(type) {
		case *ast.Ident:
			fid = f
		case *ast.SelectorExpr:
			fid = f.Sel
		}
		if fid != nil {
			if fn, ok := p.TypesInfo.Uses[fid].(*types.Func); ok {
				if q, fd := declOf(fn); fd != nil && len(fd.Body.List) == 1 {
					if rs, ok := fd.Body.List[0].(*ast.ReturnStmt); ok && len(rs.Results) == 1 {
						if fl, ok := rs.Results[0].(*ast.FuncLit); ok {
							return lit(q, fl)
						}
					}
				}
			}
		}
		return "?0"
	default:
		return "?0"
	}
	fn, ok := p.TypesInfo.Uses[id].(*types.Func)
	if !ok {
		return "?0"
	}
	if _, fd := declOf(fn); fd == nil {
		return "?0"
	}
	return formulaOfFunc(fn, 2)
}
