// Translator for property C19: extracts, with go/packages (go/parser + go/types), from the repository's CURRENT
// working tree
//   - every Route handed to (*httpd.Handler).AddRoutes anywhere in the repository (name, method, pattern, handler
//     expression, the handler's Go signature class, the conditions under which it is registered),
//   - the signature -> wrapper rules of AddRoutes itself (which signature is wrapped by `authenticate`),
//   - the path-prefix dispatch chain of (*Handler).ServeHTTP that bypasses the mux,
//   - direct registrations on the mux outside AddRoutes,
//   - the credential methods: declared constants, methods produced by `credentials{...}` literals, methods handled by
//     the switch in `authenticate`, and whether its default arm returns.
//
// Usage: c19tr <repo-root>      (prints one JSON object on stdout)
package main

import (
	"bytes"
	"encoding/json"
	"fmt"
	"go/ast"
	"go/constant"
	"go/parser"
	"go/printer"
	"go/token"
	"go/types"
	"os"
	"path/filepath"
	"sort"
	"strings"

	"golang.org/x/tools/go/packages"
)

const httpdSuffix = "lib/util/lifted/influx/httpd"
const metaSuffix = "lib/util/lifted/influx/meta"

type Route struct {
	Name    string `json:"name"`
	Method  string `json:"method"`
	Pattern string `json:"pattern"`
	Handler string `json:"handler"`
	Sig     string `json:"sig"` // user | plain | reject | other
	Reject  int    `json:"reject_status,omitempty"`
	Cond    string `json:"cond"`
	Src     string `json:"src"`
	// for a handler with the meta.User signature that is a function/method of a loaded package: does its body
	// mention the user parameter at all? "yes" | "no" | "unknown"
	UsesUser string `json:"uses_user"`
	// authorization decisions the user argument reaches (see guardsOfHandler): "admin" (AuthorizeUnrestricted),
	// "db:ReadPrivilege" / "db:WritePrivilege" (AuthorizeDatabase), "write" (WriteAuthorizer.AuthorizeWrite of the
	// user's ID), "query" (AuthorizeQuery); "?" when the handler could not be resolved
	Guards []string `json:"guards"`
	// the condition under which the handler goes on instead of refusing, as a formula over authorization atoms (gexpr.go)
	Formula string `json:"formula"`
}

type WrapRule struct {
	Sig      string `json:"sig"`
	Wrap     string `json:"wrap"` // auth | plain | other
	AuthFlag string `json:"auth_flag,omitempty"`
}

type Prefix struct {
	Prefix string `json:"prefix"`
	Guard  string `json:"guard"`
	Callee string `json:"callee"`
	Kind   string `json:"kind"` // prefix | unknown
	// the callee is <h.M(inner)>.ServeHTTP where M returns authenticate(<literal>, h, h.Config.AuthEnabled): the prefix is
	// behind authentication; Guards = the decisions the literal's user argument reaches
	Auth   bool     `json:"auth"`
	Guards []string `json:"guards"`
}

type Out struct {
	Routes            []Route    `json:"routes"`
	WrapRules         []WrapRule `json:"wrap_rules"`
	Wrappers          []string   `json:"wrappers"`
	HandlerReplaced   []string   `json:"handler_replaced"`
	RegistersByMethod bool       `json:"registers_pattern_method"`
	Prefixes          []Prefix   `json:"prefixes"`
	ElseIsMux         bool       `json:"else_is_mux"`
	MuxServeCalls     int        `json:"mux_serve_calls"`
	DirectMux         []string   `json:"direct_mux"`
	MethodsDeclared   []string   `json:"methods_declared"`
	MethodsProduced   []string   `json:"methods_produced"`
	MethodsHandled    []string   `json:"methods_handled"`
	DefaultReturns    bool       `json:"default_returns"`
	HasDefault        bool       `json:"has_default"`
	AuthEarlyInner    bool       `json:"auth_calls_inner_when_disabled"`
	Problems          []string   `json:"problems"`
	Packages          []string   `json:"packages"`
	Privileges        []StmtPriv `json:"privileges"`
	RwRules           []RwRule   `json:"rw_rules"`
	// (*UserInfo).AuthorizeUnrestricted as a boolean formula over the account's flags, prefix notation:
	// admin | rw | true | false | or(a,b) | and(a,b) | not(a) | ? (not understood)
	Unrestricted string `json:"unrestricted"`
	// (*Handler).checkAuthorization: does EVERY error of QueryAuthorizer.AuthorizeQuery leave the function with a non-nil
	// error? (the `if err := ..AuthorizeQuery(..); err != nil {` body has an unconditional `return <non-nil>` of its own)
	CheckAuthzReturnsAll bool `json:"check_authz_returns_all_errors"`
	CheckAuthzFound      bool `json:"check_authz_found"`
	// lib/metaclient: in every update loop of the client-side catalogue copy (pollForUpdates, pollForUpdatesV2) the password
	// cache is refreshed (UpdateAuthCache) under exactly the conditions under which the waiters are notified of the new
	// catalogue (same enclosing ifs as the `close(notifyC)` loop); AuthRefreshLoops = loops found
	AuthRefreshWithEveryUpdate bool `json:"auth_refresh_with_every_update"`
	AuthRefreshLoops           int  `json:"auth_refresh_loops"`
}

// one arm of the statement type switch of (*UserInfo).AuthorizeQueryForRwUser, in a canonical rendering of what it does
// (continue / refuse / if <cond> { .. } / set <lhs> = <rhs>); Type "<tail>" is what follows the switch
type RwRule struct {
	Type   string `json:"type"`
	Action string `json:"action"`
}

// one ExecutionPrivilege literal found in a RequiredPrivileges method
type PrivEntry struct {
	Admin     bool   `json:"admin"`
	Rwuser    bool   `json:"rwuser"`
	Name      string `json:"name"`      // "" or the expression that names the database (s.Database ...)
	Privilege string `json:"privilege"` // ReadPrivilege | WritePrivilege | AllPrivileges | NoPrivileges | <expr>
	Cond      string `json:"cond"`      // enclosing if-conditions ("" = unconditional)
}

type StmtPriv struct {
	Type    string      `json:"type"`
	Simple  bool        `json:"simple"` // body is exactly one `return ExecutionPrivileges{...}, nil`
	Entries []PrivEntry `json:"entries"`
	Calls   []string    `json:"calls"` // other RequiredPrivileges methods the body delegates to
}

var fset *token.FileSet
var out Out

func problem(f string, a ...interface{}) { out.Problems = append(out.Problems, fmt.Sprintf(f, a...)) }

func render(n ast.Node) string {
	var b bytes.Buffer
	_ = printer.Fprint(&b, fset, n)
	return strings.Join(strings.Fields(b.String()), " ")
}

func pos(repo string, p token.Pos) string {
	ps := fset.Position(p)
	rel, err := filepath.Rel(repo, ps.Filename)
	if err != nil {
		rel = ps.Filename
	}
	return fmt.Sprintf("%s:%d", rel, ps.Line)
}

func isNamed(t types.Type, pkgSuffix, name string) bool {
	t = types.Unalias(t)
	n, ok := t.(*types.Named)
	if !ok || n.Obj() == nil || n.Obj().Pkg() == nil {
		return false
	}
	return n.Obj().Name() == name && strings.HasSuffix(n.Obj().Pkg().Path(), pkgSuffix)
}

func isHTTPPair(p *types.Tuple) bool {
	if p.Len() < 2 {
		return false
	}
	if !isNamed(p.At(0).Type(), "net/http", "ResponseWriter") {
		return false
	}
	pt, ok := types.Unalias(p.At(1).Type()).(*types.Pointer)
	return ok && isNamed(pt.Elem(), "net/http", "Request")
}

// classify a handler's Go type exactly the way the two type assertions in AddRoutes do
func classifyType(t types.Type) string {
	if t == nil {
		return "other"
	}
	s, ok := types.Unalias(t).(*types.Signature) // a defined func type does not satisfy the assertion: only the literal type
	if !ok || s.Variadic() || s.Results().Len() != 0 || s.Recv() != nil && false {
		return "other"
	}
	p := s.Params()
	if !isHTTPPair(p) {
		return "other"
	}
	if p.Len() == 2 {
		return "plain"
	}
	if p.Len() == 3 && isNamed(p.At(2).Type(), metaSuffix, "User") {
		return "user"
	}
	return "other"
}

func constString(info *types.Info, e ast.Expr) (string, bool) {
	tv, ok := info.Types[e]
	if !ok || tv.Value == nil || tv.Value.Kind() != constant.String {
		return "", false
	}
	return constant.StringVal(tv.Value), true
}

// a function literal that does nothing but answer a constant 4xx/5xx status
func rejectLiteral(info *types.Info, e ast.Expr) (int, bool) {
	fl, ok := e.(*ast.FuncLit)
	if !ok || len(fl.Body.List) != 1 {
		return 0, false
	}
	es, ok := fl.Body.List[0].(*ast.ExprStmt)
	if !ok {
		return 0, false
	}
	call, ok := es.X.(*ast.CallExpr)
	if !ok || len(call.Args) != 3 {
		return 0, false
	}
	sel, ok := call.Fun.(*ast.SelectorExpr)
	if !ok || sel.Sel.Name != "Error" {
		return 0, false
	}
	if fn, ok := info.Uses[sel.Sel].(*types.Func); !ok || fn.Pkg() == nil || fn.Pkg().Path() != "net/http" {
		return 0, false
	}
	if _, ok := constString(info, call.Args[1]); !ok {
		return 0, false
	}
	tv, ok := info.Types[call.Args[2]]
	if !ok || tv.Value == nil {
		return 0, false
	}
	code, ok := constant.Int64Val(constant.ToInt(tv.Value))
	if !ok || code < 400 || code > 599 {
		return 0, false
	}
	return int(code), true
}

// path of ast nodes from the file root down to target
func pathTo(file *ast.File, target ast.Node) []ast.Node {
	var path, res []ast.Node
	ast.Inspect(file, func(n ast.Node) bool {
		if res != nil {
			return false
		}
		if n == nil {
			path = path[:len(path)-1]
			return true
		}
		path = append(path, n)
		if n == target {
			res = append([]ast.Node(nil), path...)
			return false
		}
		return true
	})
	return res
}

// conditions (if / else nesting) that guard node `target` inside its function
func condsOf(file *ast.File, target ast.Node) []string {
	p := pathTo(file, target)
	var conds []string
	for i := 0; i+1 < len(p); i++ {
		switch s := p[i].(type) {
		case *ast.IfStmt:
			if p[i+1] == s.Body {
				conds = append(conds, render(s.Cond))
			} else if s.Else != nil && p[i+1] == s.Else {
				conds = append(conds, "!("+render(s.Cond)+")")
			}
		case *ast.CaseClause:
			conds = append(conds, "case "+render(&ast.CaseClause{List: s.List}))
		case *ast.ForStmt, *ast.RangeStmt:
			if i > 0 {
				conds = append(conds, "in-loop")
			}
		}
	}
	return conds
}

func enclosingFunc(file *ast.File, target ast.Node) *ast.FuncDecl {
	p := pathTo(file, target)
	for i := len(p) - 1; i >= 0; i-- {
		if fd, ok := p[i].(*ast.FuncDecl); ok {
			return fd
		}
	}
	return nil
}

type routeLit struct {
	fields map[string]ast.Expr
}

func routeFields(info *types.Info, cl *ast.CompositeLit) (map[string]ast.Expr, bool) {
	t := info.TypeOf(cl)
	if t == nil || !isNamed(t, httpdSuffix, "Route") {
		return nil, false
	}
	st, ok := types.Unalias(t).Underlying().(*types.Struct)
	if !ok {
		return nil, false
	}
	res := map[string]ast.Expr{}
	for i, el := range cl.Elts {
		if kv, ok := el.(*ast.KeyValueExpr); ok {
			if id, ok := kv.Key.(*ast.Ident); ok {
				res[id.Name] = kv.Value
			}
		} else if i < st.NumFields() {
			res[st.Field(i).Name()] = el
		}
	}
	return res, true
}

func main() {
	if len(os.Args) < 2 {
		fmt.Fprintln(os.Stderr, "usage: c19tr <repo>")
		os.Exit(2)
	}
	repo, _ := filepath.Abs(os.Args[1])
	// which packages mention AddRoutes( ?  (cheap textual pre-filter; the real decision is by go/types below)
	dirs := map[string]bool{"./" + httpdSuffix: true}
	_ = filepath.Walk(repo, func(p string, fi os.FileInfo, err error) error {
		if err != nil {
			return nil
		}
		if fi.IsDir() {
			b := fi.Name()
			if b == ".git" || b == "node_modules" || b == "testdata" || (strings.HasPrefix(b, ".") && p != repo) {
				return filepath.SkipDir
			}
			// nested modules (lifted third-party trees) are separate modules
			if p != repo {
				if _, e := os.Stat(filepath.Join(p, "go.mod")); e == nil {
					return filepath.SkipDir
				}
			}
			return nil
		}
		if !strings.HasSuffix(p, ".go") || strings.HasSuffix(p, "_test.go") {
			return nil
		}
		data, e := os.ReadFile(p)
		if e != nil {
			return nil
		}
		if bytes.Contains(data, []byte(".AddRoutes(")) {
			rel, _ := filepath.Rel(repo, filepath.Dir(p))
			dirs["./"+rel] = true
		}
		return nil
	})
	var pats []string
	for d := range dirs {
		pats = append(pats, d)
	}
	sort.Strings(pats)
	out.Packages = pats
	fset = token.NewFileSet()
	cfg := &packages.Config{
		Mode: packages.NeedName | packages.NeedFiles | packages.NeedCompiledGoFiles | packages.NeedImports |
			packages.NeedTypes | packages.NeedSyntax | packages.NeedTypesInfo | packages.NeedTypesSizes,
		Dir: repo, Fset: fset, Env: os.Environ(), BuildFlags: []string{"-tags=verif"},
	}
	pkgs, err := packages.Load(cfg, pats...)
	if err != nil {
		fmt.Fprintln(os.Stderr, "load:", err)
		os.Exit(1)
	}
	bad := false
	for _, p := range pkgs {
		for _, e := range p.Errors {
			fmt.Fprintln(os.Stderr, "package error:", p.PkgPath, e)
			bad = true
		}
	}
	if bad {
		os.Exit(1)
	}
	var httpd *packages.Package
	for _, p := range pkgs {
		if strings.HasSuffix(p.PkgPath, httpdSuffix) {
			httpd = p
		}
	}
	if httpd == nil {
		fmt.Fprintln(os.Stderr, "httpd package not loaded")
		os.Exit(1)
	}
	allPkgs = pkgs
	for _, p := range pkgs {
		scanRoutes(repo, p, httpd)
	}
	scanAddRoutes(repo, httpd)
	scanServeHTTP(repo, httpd)
	scanDirectMux(repo, pkgs)
	scanCreds(repo, httpd)
	scanPrivileges(repo)
	scanRwRules(repo)
	scanUnrestricted(repo)
	scanCheckAuthorization(httpd)
	scanAuthRefresh(repo)
	if out.Problems == nil {
		out.Problems = []string{}
	}
	if out.DirectMux == nil {
		out.DirectMux = []string{}
	}
	if out.HandlerReplaced == nil {
		out.HandlerReplaced = []string{}
	}
	enc := json.NewEncoder(os.Stdout)
	enc.SetIndent("", " ")
	_ = enc.Encode(out)
}

func isAddRoutesCall(info *types.Info, call *ast.CallExpr) bool {
	sel, ok := call.Fun.(*ast.SelectorExpr)
	if !ok || sel.Sel.Name != "AddRoutes" {
		return false
	}
	fn, ok := info.Uses[sel.Sel].(*types.Func)
	if !ok || fn.Pkg() == nil || !strings.HasSuffix(fn.Pkg().Path(), httpdSuffix) {
		return false
	}
	return true
}

// conditions under which function fd (a method of Handler) is called inside package p
func callSiteConds(p *packages.Package, fd *ast.FuncDecl) string {
	obj := p.TypesInfo.Defs[fd.Name]
	if obj == nil {
		return ""
	}
	var alts []string
	n := 0
	for _, f := range p.Syntax {
		ast.Inspect(f, func(nd ast.Node) bool {
			call, ok := nd.(*ast.CallExpr)
			if !ok {
				return true
			}
			var id *ast.Ident
			switch fn := call.Fun.(type) {
			case *ast.SelectorExpr:
				id = fn.Sel
			case *ast.Ident:
				id = fn
			}
			if id != nil && p.TypesInfo.Uses[id] == obj {
				n++
				cs := condsOf(f, call)
				alts = append(alts, strings.Join(cs, " && "))
			}
			return true
		})
	}
	if n == 0 {
		return "no-call-site-in-package"
	}
	// unconditional at some call site => unconditional
	for _, a := range alts {
		if a == "" {
			return ""
		}
	}
	return strings.Join(alts, " || ")
}

func scanRoutes(repo string, p *packages.Package, httpd *packages.Package) {
	info := p.TypesInfo
	for _, f := range p.Syntax {
		file := f
		ast.Inspect(f, func(nd ast.Node) bool {
			call, ok := nd.(*ast.CallExpr)
			if !ok || !isAddRoutesCall(info, call) {
				return true
			}
			fd := enclosingFunc(file, call)
			base := condsOf(file, call)
			if fd != nil && fd.Name.Name != "NewHandler" {
				if c := callSiteConds(p, fd); c != "" && p == httpd {
					base = append(base, c)
				} else if p != httpd {
					// registration from outside the package: keep the local conditions only
					_ = c
				}
			}
			for _, arg := range call.Args {
				emitArg(repo, p, file, fd, arg, base)
			}
			return true
		})
	}
}

func emitArg(repo string, p *packages.Package, file *ast.File, fd *ast.FuncDecl, arg ast.Expr, base []string) {
	info := p.TypesInfo
	switch a := arg.(type) {
	case *ast.CompositeLit:
		if fields, ok := routeFields(info, a); ok {
			emitRoute(repo, p, fields, fields["HandlerFunc"], base, a.Pos())
			return
		}
		// []Route{ {...}, {...} }
		for _, el := range a.Elts {
			cl, ok := el.(*ast.CompositeLit)
			if !ok {
				problem("%s: element of a route slice is not a composite literal: %s", pos(repo, el.Pos()), render(el))
				continue
			}
			// element type is implicit: give it the Route type via TypeOf
			fields, ok := routeFields(info, cl)
			if !ok {
				problem("%s: element is not an httpd.Route literal", pos(repo, el.Pos()))
				continue
			}
			emitRoute(repo, p, fields, fields["HandlerFunc"], base, cl.Pos())
		}
	case *ast.Ident:
		// a local variable holding a Route whose HandlerFunc may be assigned later under conditions
		obj := info.Uses[a]
		if obj == nil || fd == nil {
			problem("%s: cannot resolve route argument %s", pos(repo, a.Pos()), a.Name)
			return
		}
		var fields map[string]ast.Expr
		var litPos token.Pos
		type alt struct {
			e     ast.Expr
			conds []string
		}
		var alts []alt
		var sliceLits []*ast.CompositeLit
		ast.Inspect(fd.Body, func(nd ast.Node) bool {
			as, ok := nd.(*ast.AssignStmt)
			if !ok {
				return true
			}
			for i, lhs := range as.Lhs {
				if i >= len(as.Rhs) {
					break
				}
				if id, ok := lhs.(*ast.Ident); ok && (info.Defs[id] == obj || info.Uses[id] == obj) {
					if cl, ok := as.Rhs[i].(*ast.CompositeLit); ok {
						if fl, ok := routeFields(info, cl); ok {
							fields = fl
							litPos = cl.Pos()
						} else {
							// a slice of routes held in a variable
							sliceLits = append(sliceLits, cl)
						}
					} else if call, ok := as.Rhs[i].(*ast.CallExpr); ok && render(call.Fun) == "append" && len(call.Args) >= 1 {
						for _, a2 := range call.Args[1:] {
							if cl, ok := a2.(*ast.CompositeLit); ok {
								sliceLits = append(sliceLits, cl)
							} else {
								problem("%s: route slice %s extended by a non-literal", pos(repo, as.Pos()), a.Name)
							}
						}
					} else {
						problem("%s: route variable %s assigned from a non-literal", pos(repo, as.Pos()), a.Name)
					}
				}
				if sel, ok := lhs.(*ast.SelectorExpr); ok {
					if id, ok := sel.X.(*ast.Ident); ok && info.Uses[id] == obj {
						if sel.Sel.Name == "HandlerFunc" {
							alts = append(alts, alt{as.Rhs[i], condsOf(file, as)})
						} else {
							problem("%s: route variable field %s reassigned", pos(repo, as.Pos()), sel.Sel.Name)
						}
					}
				}
			}
			return true
		})
		if fields == nil && len(sliceLits) > 0 {
			for _, cl := range sliceLits {
				emitArg(repo, p, file, fd, cl, append(append([]string{}, base...), condsOf(file, cl)...))
			}
			return
		}
		if fields == nil {
			problem("%s: no literal definition of route variable %s found", pos(repo, a.Pos()), a.Name)
			return
		}
		if len(alts) == 0 {
			emitRoute(repo, p, fields, fields["HandlerFunc"], base, litPos)
			return
		}
		for _, al := range alts {
			emitRoute(repo, p, fields, al.e, append(append([]string{}, base...), al.conds...), al.e.Pos())
		}
	default:
		problem("%s: unsupported AddRoutes argument shape: %s", pos(repo, arg.Pos()), render(arg))
	}
}

func emitRoute(repo string, p *packages.Package, fields map[string]ast.Expr, h ast.Expr, conds []string, at token.Pos) {
	info := p.TypesInfo
	r := Route{Src: pos(repo, at), Cond: strings.Join(conds, " && ")}
	get := func(k string) string {
		e, ok := fields[k]
		if !ok {
			problem("%s: route literal lacks %s", r.Src, k)
			return ""
		}
		s, ok := constString(info, e)
		if !ok {
			problem("%s: route field %s is not a constant string: %s", r.Src, k, render(e))
			return "?" + render(e)
		}
		return s
	}
	r.Name, r.Method, r.Pattern = get("Name"), get("Method"), get("Pattern")
	if h == nil {
		r.Handler, r.Sig = "<none>", "other"
	} else {
		if fl, ok := h.(*ast.FuncLit); ok {
			r.Handler = "func-literal@" + pos(repo, fl.Pos())
		} else {
			r.Handler = render(h)
		}
		if id, ok := h.(*ast.Ident); ok && id.Name == "nil" {
			r.Sig = "other"
		} else if code, ok := rejectLiteral(info, h); ok {
			r.Sig, r.Reject = "reject", code
		} else {
			r.Sig = classifyType(info.TypeOf(h))
		}
	}
	r.UsesUser = "unknown"
	r.Guards = []string{}
	if r.Sig == "user" && h != nil {
		r.UsesUser = usesUser(p, h)
		r.Guards = guardsOfHandler(p, h)
		r.Formula = formulaOfHandler(p, h)
		if !decides(r.Formula) && len(r.Guards) > 0 {
			// the evaluator lost a decision the coarser analysis sees (e.g. carried by a result that is neither bool nor
			// error): not understood
			r.Formula = "?0"
		}
	}
	out.Routes = append(out.Routes, r)
}

var allPkgs []*packages.Package

// usesUser: resolve the handler expression to a function declaration and look for a use of its third parameter
func usesUser(p *packages.Package, h ast.Expr) string {
	var id *ast.Ident
	switch x := h.(type) {
	case *ast.SelectorExpr:
		id = x.Sel
	case *ast.Ident:
		id = x
	case *ast.FuncLit:
		return funcUsesThird(p.TypesInfo, x.Type, x.Body)
	default:
		return "unknown"
	}
	fn, ok := p.TypesInfo.Uses[id].(*types.Func)
	if !ok {
		return "unknown"
	}
	for _, q := range allPkgs {
		if q.Types != fn.Pkg() {
			continue
		}
		for _, f := range q.Syntax {
			for _, d := range f.Decls {
				fd, ok := d.(*ast.FuncDecl)
				if ok && q.TypesInfo.Defs[fd.Name] == fn && fd.Body != nil {
					return funcUsesThird(q.TypesInfo, fd.Type, fd.Body)
				}
			}
		}
	}
	return "unknown"
}

func funcUsesThird(info *types.Info, ft *ast.FuncType, body *ast.BlockStmt) string {
	var names []*ast.Ident
	for _, f := range ft.Params.List {
		if len(f.Names) == 0 {
			names = append(names, nil)
		}
		names = append(names, f.Names...)
	}
	if len(names) != 3 {
		return "unknown"
	}
	if names[2] == nil || names[2].Name == "_" {
		return "no"
	}
	obj := info.Defs[names[2]]
	used := false
	ast.Inspect(body, func(n ast.Node) bool {
		if i2, ok := n.(*ast.Ident); ok && info.Uses[i2] == obj {
			used = true
		}
		return !used
	})
	if used {
		return "yes"
	}
	return "no"
}


// ---------------------------------------------------------------------------------------------------------------
// Guards: which authorization decisions does the user argument of a handler reach?
//
// A *decision* is a call
//     X.AuthorizeUnrestricted()                 -> "admin"
//     X.AuthorizeDatabase(P, ..)                -> "db:P"
//     X.AuthorizeQuery(..) / _.AuthorizeQuery(.., X, ..)   -> "query"
//     _.AuthorizeWrite(X.ID(), ..)              -> "write"
// where X is the tracked user parameter. It only counts when it is *decisive*: it occurs in the condition (or init
// statement) of an `if` one of whose branches leaves (return / continue / break), in a `return` expression, in a case
// expression of a switch clause that leaves, or on the right-hand side of an assignment that is immediately followed
// (anywhere later in the same function) by such an `if` over the assigned variable. A call G(.., X, ..) of a function declared in a loaded package in a
// decisive position contributes the decisions G's parameter reaches (transitively; cycles cut).
// A call statement G(.., X, ..) of a function without results counts as well when it is the last statement of the
// body (the request is handed on: nothing happens after G returns).
// So `Authorizer: h.getAuthorizer(user)` (chooses a fine-grained authorizer, refuses nobody) or logging user.ID()
// contribute nothing.

type guardKey struct {
	fn  types.Object
	idx int
}

var guardMemo = map[guardKey][]string{}
var guardBusy = map[guardKey]bool{}

func declOf(fn *types.Func) (*packages.Package, *ast.FuncDecl) {
	for _, q := range allPkgs {
		if q.Types != fn.Pkg() {
			continue
		}
		for _, f := range q.Syntax {
			for _, d := range f.Decls {
				fd, ok := d.(*ast.FuncDecl)
				if ok && q.TypesInfo.Defs[fd.Name] == fn && fd.Body != nil {
					return q, fd
				}
			}
		}
	}
	return nil, nil
}

func paramObjs(info *types.Info, ft *ast.FuncType) []types.Object {
	var res []types.Object
	if ft.Params == nil {
		return res
	}
	for _, f := range ft.Params.List {
		if len(f.Names) == 0 {
			res = append(res, nil)
		}
		for _, n := range f.Names {
			if n.Name == "_" {
				res = append(res, nil)
			} else {
				res = append(res, info.Defs[n])
			}
		}
	}
	return res
}

func leaves(n ast.Node) bool {
	if n == nil {
		return false
	}
	found := false
	ast.Inspect(n, func(c ast.Node) bool {
		switch x := c.(type) {
		case *ast.FuncLit:
			return false
		case *ast.ReturnStmt:
			found = true
		case *ast.BranchStmt:
			if x.Tok == token.CONTINUE || x.Tok == token.BREAK {
				found = true
			}
		}
		return !found
	})
	return found
}

func mentionsObj(info *types.Info, n ast.Node, objs map[types.Object]bool) bool {
	found := false
	ast.Inspect(n, func(c ast.Node) bool {
		if id, ok := c.(*ast.Ident); ok && info.Uses[id] != nil && objs[info.Uses[id]] {
			found = true
		}
		return !found
	})
	return found
}

// decisiveRoots: the expressions of a function body whose value decides whether the function goes on
func decisiveRoots(info *types.Info, body *ast.BlockStmt) []ast.Node {
	var roots []ast.Node
	ifLeaves := func(s *ast.IfStmt) bool { return leaves(s.Body) || leaves(s.Else) }
	if n := len(body.List); n > 0 {
		if es, ok := body.List[n-1].(*ast.ExprStmt); ok {
			if call, ok := es.X.(*ast.CallExpr); ok {
				if tv, ok := info.Types[call]; ok {
					if tup, ok := tv.Type.(*types.Tuple); ok && tup.Len() == 0 {
						roots = append(roots, call)
					}
				}
			}
		}
	}
	ast.Inspect(body, func(c ast.Node) bool {
		switch x := c.(type) {
		case *ast.FuncLit:
			return false
		case *ast.IfStmt:
			if ifLeaves(x) {
				roots = append(roots, x.Cond)
				if x.Init != nil {
					roots = append(roots, x.Init)
				}
			}
		case *ast.ReturnStmt:
			for _, r := range x.Results {
				roots = append(roots, r)
			}
		case *ast.CaseClause:
			lv := false
			for _, st := range x.Body {
				if leaves(st) {
					lv = true
				}
			}
			if lv {
				for _, e := range x.List {
					roots = append(roots, e)
				}
			}
		case *ast.AssignStmt:
			// v := G(..) / v = G(..) where some later `if` of this function that leaves tests v
			objs := map[types.Object]bool{}
			for _, l := range x.Lhs {
				if id, ok := l.(*ast.Ident); ok {
					if o := info.Defs[id]; o != nil {
						objs[o] = true
					}
					if o := info.Uses[id]; o != nil {
						objs[o] = true
					}
				}
			}
			if len(objs) > 0 {
				tested := false
				ast.Inspect(body, func(d ast.Node) bool {
					if _, ok := d.(*ast.FuncLit); ok {
						return false
					}
					if is, ok := d.(*ast.IfStmt); ok && is.Pos() > x.End() && ifLeaves(is) && mentionsObj(info, is.Cond, objs) {
						tested = true
					}
					return !tested
				})
				if tested {
					for _, r := range x.Rhs {
						roots = append(roots, r)
					}
				}
			}
		}
		return true
	})
	return roots
}

func isObjIdent(info *types.Info, e ast.Expr, obj types.Object) bool {
	id, ok := e.(*ast.Ident)
	return ok && obj != nil && info.Uses[id] == obj
}

func guardsIn(q *packages.Package, body *ast.BlockStmt, obj types.Object) map[string]bool {
	res := map[string]bool{}
	if obj == nil || body == nil {
		return res
	}
	info := q.TypesInfo
	for _, root := range decisiveRoots(info, body) {
		ast.Inspect(root, func(c ast.Node) bool {
			if _, ok := c.(*ast.FuncLit); ok {
				return false
			}
			call, ok := c.(*ast.CallExpr)
			if !ok {
				return true
			}
			if sel, ok := call.Fun.(*ast.SelectorExpr); ok {
				if isObjIdent(info, sel.X, obj) {
					switch sel.Sel.Name {
					case "AuthorizeUnrestricted":
						res["admin"] = true
					case "AuthorizeDatabase":
						p := "?"
						if len(call.Args) > 0 {
							p = render(call.Args[0])
							if i := strings.LastIndex(p, "."); i >= 0 {
								p = p[i+1:]
							}
						}
						res["db:"+p] = true
					case "AuthorizeQuery":
						res["query"] = true
					}
				}
				if sel.Sel.Name == "AuthorizeWrite" {
					for _, a := range call.Args {
						if ic, ok := a.(*ast.CallExpr); ok {
							if is, ok := ic.Fun.(*ast.SelectorExpr); ok && is.Sel.Name == "ID" && isObjIdent(info, is.X, obj) {
								res["write"] = true
							}
						}
					}
				}
				if sel.Sel.Name == "AuthorizeQuery" {
					for _, a := range call.Args {
						if isObjIdent(info, a, obj) {
							res["query"] = true
						}
					}
				}
			}
			// the user handed on to a function we can see
			var fid *ast.Ident
			switch f := call.Fun.(type) {
			case *ast.Ident:
				fid = f
			case *ast.SelectorExpr:
				fid = f.Sel
			}
			if fid != nil {
				if fn, ok := info.Uses[fid].(*types.Func); ok {
					for i, a := range call.Args {
						if isObjIdent(info, a, obj) {
							for _, g := range guardsOfFunc(fn, i) {
								res[g] = true
							}
						}
					}
				}
			}
			return true
		})
	}
	return res
}

func guardsOfFunc(fn *types.Func, idx int) []string {
	k := guardKey{fn, idx}
	if g, ok := guardMemo[k]; ok {
		return g
	}
	if guardBusy[k] {
		return nil
	}
	guardBusy[k] = true
	defer delete(guardBusy, k)
	q, fd := declOf(fn)
	if fd == nil {
		guardMemo[k] = nil
		return nil
	}
	ps := paramObjs(q.TypesInfo, fd.Type)
	var res []string
	if idx < len(ps) && ps[idx] != nil {
		for g := range guardsIn(q, fd.Body, ps[idx]) {
			res = append(res, g)
		}
	}
	sort.Strings(res)
	guardMemo[k] = res
	return res
}

// guardsOfHandler: the handler expression of a route with the authenticated signature
func guardsOfHandler(p *packages.Package, h ast.Expr) []string {
	lit := func(q *packages.Package, fl *ast.FuncLit) []string {
		ps := paramObjs(q.TypesInfo, fl.Type)
		res := []string{}
		if len(ps) == 3 && ps[2] != nil {
			for g := range guardsIn(q, fl.Body, ps[2]) {
				res = append(res, g)
			}
		}
		sort.Strings(res)
		return res
	}
	var id *ast.Ident
	switch x := h.(type) {
	case *ast.SelectorExpr:
		id = x.Sel
	case *ast.Ident:
		id = x
	case *ast.FuncLit:
		return lit(p, x)
	case *ast.CallExpr:
		// adapter call such as authenticatedHandler(inner): the function literal it returns is the handler
		var fid *ast.Ident
		switch f := x.Fun.(type) {
		case *ast.Ident:
			fid = f
		case *ast.SelectorExpr:
			fid = f.Sel
		}
		if fid != nil {
			if fn, ok := p.TypesInfo.Uses[fid].(*types.Func); ok {
				if q, fd := declOf(fn); fd != nil && len(fd.Body.List) == 1 {
					if rs, ok := fd.Body.List[0].(*ast.ReturnStmt); ok && len(rs.Results) == 1 {
						if fl, ok := rs.Results[0].(*ast.FuncLit); ok {
							return lit(q, fl)
						}
					}
				}
			}
		}
		return []string{"?"}
	default:
		return []string{"?"}
	}
	fn, ok := p.TypesInfo.Uses[id].(*types.Func)
	if !ok {
		return []string{"?"}
	}
	if _, fd := declOf(fn); fd == nil {
		return []string{"?"}
	}
	res := guardsOfFunc(fn, 2)
	if res == nil {
		res = []string{}
	}
	return res
}

func findMethod(p *packages.Package, recv, name string) (*ast.FuncDecl, *ast.File) {
	for _, f := range p.Syntax {
		for _, d := range f.Decls {
			fd, ok := d.(*ast.FuncDecl)
			if !ok || fd.Name.Name != name {
				continue
			}
			if recv == "" && fd.Recv == nil {
				return fd, f
			}
			if recv != "" && fd.Recv != nil && len(fd.Recv.List) == 1 {
				t := fd.Recv.List[0].Type
				if st, ok := t.(*ast.StarExpr); ok {
					t = st.X
				}
				if id, ok := t.(*ast.Ident); ok && id.Name == recv {
					return fd, f
				}
			}
		}
	}
	return nil, nil
}

func scanAddRoutes(repo string, p *packages.Package) {
	info := p.TypesInfo
	fd, _ := findMethod(p, "Handler", "AddRoutes")
	if fd == nil {
		problem("method Handler.AddRoutes not found")
		return
	}
	handlerVar := types.Object(nil)
	ast.Inspect(fd.Body, func(nd ast.Node) bool {
		switch s := nd.(type) {
		case *ast.IfStmt:
			// if hf, ok := r.HandlerFunc.(T); ok { handler = E }
			as, ok := s.Init.(*ast.AssignStmt)
			if !ok || len(as.Rhs) != 1 {
				return true
			}
			ta, ok := as.Rhs[0].(*ast.TypeAssertExpr)
			if !ok || ta.Type == nil {
				return true
			}
			if sel, ok := ta.X.(*ast.SelectorExpr); !ok || sel.Sel.Name != "HandlerFunc" {
				return true
			}
			rule := WrapRule{Sig: classifyType(info.TypeOf(ta.Type)), Wrap: "other"}
			if len(s.Body.List) == 1 {
				if b, ok := s.Body.List[0].(*ast.AssignStmt); ok && len(b.Rhs) == 1 && len(b.Lhs) == 1 {
					if id, ok := b.Lhs[0].(*ast.Ident); ok {
						handlerVar = info.Uses[id]
					}
					if call, ok := b.Rhs[0].(*ast.CallExpr); ok {
						switch fn := call.Fun.(type) {
						case *ast.Ident:
							if fn.Name == "authenticate" && len(call.Args) == 3 {
								rule.Wrap = "auth"
								rule.AuthFlag = render(call.Args[2])
							}
						case *ast.SelectorExpr:
							if fn.Sel.Name == "HandlerFunc" && len(call.Args) == 1 {
								if tn, ok := info.Uses[fn.Sel].(*types.TypeName); ok && tn.Pkg() != nil && tn.Pkg().Path() == "net/http" {
									rule.Wrap = "plain"
								}
							}
						}
					}
				}
			}
			if s.Else != nil {
				rule.Wrap = "other"
			}
			out.WrapRules = append(out.WrapRules, rule)
		}
		return true
	})
	// later reassignments handler = f(..handler..)
	ast.Inspect(fd.Body, func(nd ast.Node) bool {
		as, ok := nd.(*ast.AssignStmt)
		if !ok || len(as.Lhs) != 1 || len(as.Rhs) != 1 {
			return true
		}
		id, ok := as.Lhs[0].(*ast.Ident)
		if !ok || handlerVar == nil || info.Uses[id] != handlerVar {
			return true
		}
		call, ok := as.Rhs[0].(*ast.CallExpr)
		if !ok {
			out.HandlerReplaced = append(out.HandlerReplaced, pos(repo, as.Pos())+": "+render(as))
			return true
		}
		name := render(call.Fun)
		if name == "authenticate" || name == "http.HandlerFunc" {
			return true
		}
		uses := false
		for _, a := range call.Args {
			ast.Inspect(a, func(x ast.Node) bool {
				if i2, ok := x.(*ast.Ident); ok && info.Uses[i2] == handlerVar {
					uses = true
				}
				return true
			})
		}
		if !uses {
			out.HandlerReplaced = append(out.HandlerReplaced, pos(repo, as.Pos())+": "+render(as))
		}
		out.Wrappers = append(out.Wrappers, name)
		return true
	})
	// registration: h.mux.HandleFunc(r.Pattern, handler.ServeHTTP).Methods(r.Method)
	ast.Inspect(fd.Body, func(nd ast.Node) bool {
		call, ok := nd.(*ast.CallExpr)
		if !ok {
			return true
		}
		sel, ok := call.Fun.(*ast.SelectorExpr)
		if !ok || sel.Sel.Name != "Methods" || len(call.Args) != 1 || render(call.Args[0]) != "r.Method" {
			return true
		}
		inner, ok := sel.X.(*ast.CallExpr)
		if !ok || len(inner.Args) != 2 {
			return true
		}
		if s2, ok := inner.Fun.(*ast.SelectorExpr); ok && s2.Sel.Name == "HandleFunc" && render(inner.Args[0]) == "r.Pattern" &&
			render(inner.Args[1]) == "handler.ServeHTTP" {
			out.RegistersByMethod = true
		}
		return true
	})
}

func scanServeHTTP(repo string, p *packages.Package) {
	fd, _ := findMethod(p, "Handler", "ServeHTTP")
	if fd == nil {
		problem("method Handler.ServeHTTP not found")
		return
	}
	isMuxServe := func(n ast.Node) bool {
		call, ok := n.(*ast.CallExpr)
		if !ok {
			return false
		}
		return render(call.Fun) == "h.mux.ServeHTTP"
	}
	ast.Inspect(fd.Body, func(nd ast.Node) bool {
		if isMuxServe(nd) {
			out.MuxServeCalls++
		}
		return true
	})
	// top-level statements: exactly the if-chain may dispatch
	for _, st := range fd.Body.List {
		if sw, ok := st.(*ast.SwitchStmt); ok && sw.Tag == nil && sw.Init == nil {
			hasDefault := false
			for _, c := range sw.Body.List {
				cc := c.(*ast.CaseClause)
				callee := ""
				if len(cc.Body) == 1 {
					if es, ok := cc.Body[0].(*ast.ExprStmt); ok {
						if call, ok := es.X.(*ast.CallExpr); ok {
							callee = render(call.Fun)
						}
					}
				}
				if cc.List == nil {
					hasDefault = true
					if callee == "h.mux.ServeHTTP" {
						out.ElseIsMux = true
					} else {
						out.Prefixes = append(out.Prefixes, Prefix{Kind: "unknown", Callee: render(cc)})
					}
					continue
				}
				for _, e := range cc.List {
					pf := parsePrefixCond(p.TypesInfo, e)
					pf.Callee = callee
					if len(cc.Body) == 1 {
						if es, ok := cc.Body[0].(*ast.ExprStmt); ok {
							if call, ok := es.X.(*ast.CallExpr); ok {
								pf.Auth, pf.Guards = prefixAuth(p, call)
							}
						}
					}
					if callee == "" {
						pf.Kind = "unknown"
						pf.Callee = render(cc)
					}
					if callee != "h.mux.ServeHTTP" {
						out.Prefixes = append(out.Prefixes, pf)
					}
				}
			}
			if !hasDefault {
				out.Prefixes = append(out.Prefixes, Prefix{Kind: "unknown", Callee: "switch without default"})
			}
			continue
		}
		ifs, ok := st.(*ast.IfStmt)
		if !ok {
			// any other top-level statement that passes both w and r to something is a dispatch we do not understand
			hasDispatch := false
			ast.Inspect(st, func(x ast.Node) bool {
				if call, ok := x.(*ast.CallExpr); ok {
					sawW, sawR := false, false
					for _, a := range call.Args {
						if id, ok := a.(*ast.Ident); ok {
							if id.Name == "w" {
								sawW = true
							}
							if id.Name == "r" {
								sawR = true
							}
						}
					}
					if sawW && sawR {
						hasDispatch = true
					}
				}
				return true
			})
			if hasDispatch {
				out.Prefixes = append(out.Prefixes, Prefix{Kind: "unknown", Callee: render(st)})
			}
			continue
		}
		cur := ifs
		for cur != nil {
			pf := parsePrefixCond(p.TypesInfo, cur.Cond)
			if len(cur.Body.List) == 1 {
				if es, ok := cur.Body.List[0].(*ast.ExprStmt); ok {
					if call, ok := es.X.(*ast.CallExpr); ok {
						pf.Callee = render(call.Fun)
						pf.Auth, pf.Guards = prefixAuth(p, call)
					}
				}
			}
			if pf.Callee == "" {
				pf.Kind = "unknown"
				pf.Callee = render(cur.Body)
			}
			if pf.Callee == "h.mux.ServeHTTP" {
				// a conditional mux dispatch is fine, it is not a bypass
			} else {
				out.Prefixes = append(out.Prefixes, pf)
			}
			switch e := cur.Else.(type) {
			case *ast.IfStmt:
				cur = e
			case *ast.BlockStmt:
				if len(e.List) == 1 {
					if es, ok := e.List[0].(*ast.ExprStmt); ok && isMuxServe(es.X) {
						out.ElseIsMux = true
					}
				}
				if !out.ElseIsMux {
					out.Prefixes = append(out.Prefixes, Prefix{Kind: "unknown", Callee: render(e)})
				}
				cur = nil
			default:
				cur = nil
			}
		}
	}
}

// prefixAuth: is the dispatched call `h.M(..).ServeHTTP(w, r)` with M a method whose whole body is
// `return authenticate(func(w, r, user) {..}, h, h.Config.AuthEnabled)` ?  Then the decisions of the literal.
func prefixAuth(p *packages.Package, call *ast.CallExpr) (bool, []string) {
	sel, ok := call.Fun.(*ast.SelectorExpr)
	if !ok || sel.Sel.Name != "ServeHTTP" {
		return false, nil
	}
	inner, ok := sel.X.(*ast.CallExpr)
	if !ok {
		return false, nil
	}
	var fid *ast.Ident
	switch f := inner.Fun.(type) {
	case *ast.Ident:
		fid = f
	case *ast.SelectorExpr:
		fid = f.Sel
	}
	if fid == nil {
		return false, nil
	}
	fn, ok := p.TypesInfo.Uses[fid].(*types.Func)
	if !ok {
		return false, nil
	}
	q, fd := declOf(fn)
	if fd == nil || len(fd.Body.List) != 1 {
		return false, nil
	}
	rs, ok := fd.Body.List[0].(*ast.ReturnStmt)
	if !ok || len(rs.Results) != 1 {
		return false, nil
	}
	ac, ok := rs.Results[0].(*ast.CallExpr)
	if !ok || render(ac.Fun) != "authenticate" || len(ac.Args) != 3 || render(ac.Args[2]) != "h.Config.AuthEnabled" {
		return false, nil
	}
	fl, ok := ac.Args[0].(*ast.FuncLit)
	if !ok {
		return false, nil
	}
	ps := paramObjs(q.TypesInfo, fl.Type)
	res := []string{}
	if len(ps) == 3 && ps[2] != nil {
		for g := range guardsIn(q, fl.Body, ps[2]) {
			res = append(res, g)
		}
	}
	sort.Strings(res)
	return true, res
}

func parsePrefixCond(info *types.Info, c ast.Expr) Prefix {
	pf := Prefix{Kind: "unknown", Guard: ""}
	var conj []ast.Expr
	var split func(e ast.Expr)
	split = func(e ast.Expr) {
		if b, ok := e.(*ast.BinaryExpr); ok && b.Op == token.LAND {
			split(b.X)
			split(b.Y)
			return
		}
		if pe, ok := e.(*ast.ParenExpr); ok {
			split(pe.X)
			return
		}
		conj = append(conj, e)
	}
	split(c)
	var guards []string
	for _, e := range conj {
		if call, ok := e.(*ast.CallExpr); ok && render(call.Fun) == "strings.HasPrefix" && len(call.Args) == 2 &&
			render(call.Args[0]) == "r.URL.Path" && pf.Kind == "unknown" {
			if s, ok := constString(info, call.Args[1]); ok {
				pf.Prefix = s
				pf.Kind = "prefix"
				continue
			}
		}
		guards = append(guards, render(e))
	}
	pf.Guard = strings.Join(guards, " && ")
	if pf.Kind == "unknown" {
		pf.Prefix = render(c)
	}
	return pf
}

func scanDirectMux(repo string, pkgs []*packages.Package) {
	for _, p := range pkgs {
		for _, f := range p.Syntax {
			file := f
			ast.Inspect(f, func(nd ast.Node) bool {
				call, ok := nd.(*ast.CallExpr)
				if !ok {
					return true
				}
				sel, ok := call.Fun.(*ast.SelectorExpr)
				if !ok {
					return true
				}
				fn, ok := p.TypesInfo.Uses[sel.Sel].(*types.Func)
				if !ok || fn.Pkg() == nil || fn.Pkg().Path() != "github.com/gorilla/mux" {
					return true
				}
				switch fn.Name() {
				case "HandleFunc", "Handle", "PathPrefix", "NewRoute", "Path", "Handler", "HandlerFunc", "Host", "Subrouter", "Use":
					fd := enclosingFunc(file, call)
					if fd != nil && fd.Name.Name == "AddRoutes" && strings.HasSuffix(p.PkgPath, httpdSuffix) && fn.Name() == "HandleFunc" {
						return true
					}
					out.DirectMux = append(out.DirectMux, pos(repo, call.Pos())+": "+render(call.Fun))
				}
				return true
			})
		}
	}
}

func scanCreds(repo string, p *packages.Package) {
	info := p.TypesInfo
	byVal := map[string]string{}
	scope := p.Types.Scope()
	for _, n := range scope.Names() {
		c, ok := scope.Lookup(n).(*types.Const)
		if !ok || !isNamed(c.Type(), httpdSuffix, "AuthenticationMethod") {
			continue
		}
		out.MethodsDeclared = append(out.MethodsDeclared, n)
		byVal[c.Val().ExactString()] = n
	}
	nameOf := func(e ast.Expr) string {
		tv, ok := info.Types[e]
		if ok && tv.Value != nil {
			if n, ok := byVal[tv.Value.ExactString()]; ok {
				return n
			}
			return "value:" + tv.Value.ExactString()
		}
		return "nonconst:" + render(e)
	}
	produced := map[string]bool{}
	for _, f := range p.Syntax {
		ast.Inspect(f, func(nd ast.Node) bool {
			switch x := nd.(type) {
			case *ast.CompositeLit:
				t := info.TypeOf(x)
				if t == nil || !isNamed(t, httpdSuffix, "credentials") {
					return true
				}
				st := types.Unalias(t).Underlying().(*types.Struct)
				found := false
				for i, el := range x.Elts {
					if kv, ok := el.(*ast.KeyValueExpr); ok {
						if id, ok := kv.Key.(*ast.Ident); ok && id.Name == "Method" {
							produced[nameOf(kv.Value)] = true
							found = true
						}
					} else if i < st.NumFields() && st.Field(i).Name() == "Method" {
						produced[nameOf(el)] = true
						found = true
					}
				}
				if !found {
					if n, ok := byVal["0"]; ok {
						produced[n] = true
					} else {
						produced["value:0"] = true
					}
				}
			case *ast.AssignStmt:
				for i, lhs := range x.Lhs {
					sel, ok := lhs.(*ast.SelectorExpr)
					if !ok || sel.Sel.Name != "Method" || i >= len(x.Rhs) {
						continue
					}
					t := info.TypeOf(sel.X)
					if t == nil {
						continue
					}
					if pt, ok := types.Unalias(t).(*types.Pointer); ok {
						t = pt.Elem()
					}
					if isNamed(t, httpdSuffix, "credentials") {
						produced[nameOf(x.Rhs[i])] = true
					}
				}
			}
			return true
		})
	}
	for k := range produced {
		out.MethodsProduced = append(out.MethodsProduced, k)
	}
	sort.Strings(out.MethodsProduced)
	sort.Strings(out.MethodsDeclared)
	fd, _ := findMethod(p, "", "authenticate")
	if fd == nil {
		problem("function authenticate not found")
		return
	}
	nsw := 0
	ast.Inspect(fd.Body, func(nd ast.Node) bool {
		sw, ok := nd.(*ast.SwitchStmt)
		if !ok || sw.Tag == nil {
			return true
		}
		sel, ok := sw.Tag.(*ast.SelectorExpr)
		if !ok || sel.Sel.Name != "Method" {
			return true
		}
		t := info.TypeOf(sw.Tag)
		if t == nil || !isNamed(t, httpdSuffix, "AuthenticationMethod") {
			return true
		}
		nsw++
		for _, c := range sw.Body.List {
			cc := c.(*ast.CaseClause)
			if cc.List == nil {
				out.HasDefault = true
				if n := len(cc.Body); n > 0 {
					_, out.DefaultReturns = cc.Body[n-1].(*ast.ReturnStmt)
				}
				continue
			}
			for _, e := range cc.List {
				out.MethodsHandled = append(out.MethodsHandled, nameOf(e))
			}
		}
		return true
	})
	if nsw != 1 {
		problem("expected exactly one switch over creds.Method in authenticate, found %d", nsw)
	}
	sort.Strings(out.MethodsHandled)
	// `if !requireAuthentication { inner(w, r, nil); return }`
	ast.Inspect(fd.Body, func(nd ast.Node) bool {
		ifs, ok := nd.(*ast.IfStmt)
		if ok && render(ifs.Cond) == "!requireAuthentication" {
			out.AuthEarlyInner = true
		}
		return true
	})
}

// scanPrivileges reads every `func (s T) RequiredPrivileges() (ExecutionPrivileges, error)` of the influxql package
// (go/parser only: the entries are literals whose meaning does not depend on types).
func scanPrivileges(repo string) {
	dir := filepath.Join(repo, "lib/util/lifted/influx/influxql")
	pfset := token.NewFileSet()
	pkgs, err := parser.ParseDir(pfset, dir, func(fi os.FileInfo) bool { return !strings.HasSuffix(fi.Name(), "_test.go") }, 0)
	if err != nil {
		problem("influxql: %v", err)
		return
	}
	rnd := func(n ast.Node) string {
		var b bytes.Buffer
		_ = printer.Fprint(&b, pfset, n)
		return strings.Join(strings.Fields(b.String()), " ")
	}
	for _, pk := range pkgs {
		for _, f := range pk.Files {
			for _, d := range f.Decls {
				fd, ok := d.(*ast.FuncDecl)
				if !ok || fd.Name.Name != "RequiredPrivileges" || fd.Recv == nil || len(fd.Recv.List) != 1 || fd.Body == nil {
					continue
				}
				t := fd.Recv.List[0].Type
				if st, ok := t.(*ast.StarExpr); ok {
					t = st.X
				}
				sp := StmtPriv{Type: rnd(t), Entries: []PrivEntry{}, Calls: []string{}}
				if len(fd.Body.List) == 1 {
					if rs, ok := fd.Body.List[0].(*ast.ReturnStmt); ok && len(rs.Results) == 2 && rnd(rs.Results[1]) == "nil" {
						if cl, ok := rs.Results[0].(*ast.CompositeLit); ok && rnd(cl.Type) == "ExecutionPrivileges" {
							sp.Simple = true
						}
					}
				}
				var walk func(n ast.Node, conds []string)
				entry := func(cl *ast.CompositeLit, conds []string) {
					e := PrivEntry{Privilege: "NoPrivileges", Cond: strings.Join(conds, " && ")}
					for _, el := range cl.Elts {
						kv, ok := el.(*ast.KeyValueExpr)
						if !ok {
							problem("influxql %s.RequiredPrivileges: positional ExecutionPrivilege literal", sp.Type)
							continue
						}
						v := rnd(kv.Value)
						switch rnd(kv.Key) {
						case "Admin":
							e.Admin = v == "true"
							if v != "true" && v != "false" {
								problem("influxql %s.RequiredPrivileges: Admin is not a literal: %s", sp.Type, v)
							}
						case "Rwuser":
							e.Rwuser = v == "true"
							if v != "true" && v != "false" {
								problem("influxql %s.RequiredPrivileges: Rwuser is not a literal: %s", sp.Type, v)
							}
						case "Name":
							e.Name = strings.Trim(v, "\"")
						case "Privilege":
							e.Privilege = v
						}
					}
					sp.Entries = append(sp.Entries, e)
				}
				walk = func(n ast.Node, conds []string) {
					switch x := n.(type) {
					case nil:
						return
					case *ast.IfStmt:
						walk(x.Init, conds)
						walk(x.Body, append(append([]string{}, conds...), rnd(x.Cond)))
						if x.Else != nil {
							walk(x.Else, append(append([]string{}, conds...), "!("+rnd(x.Cond)+")"))
						}
						return
					case *ast.CompositeLit:
						tn := ""
						if x.Type != nil {
							tn = rnd(x.Type)
						}
						if tn == "ExecutionPrivilege" {
							entry(x, conds)
							return
						}
						if tn == "ExecutionPrivileges" {
							for _, el := range x.Elts {
								if cl, ok := el.(*ast.CompositeLit); ok {
									entry(cl, conds)
								}
							}
							return
						}
					case *ast.CallExpr:
						if sel, ok := x.Fun.(*ast.SelectorExpr); ok && sel.Sel.Name == "RequiredPrivileges" {
							sp.Calls = append(sp.Calls, rnd(x.Fun))
						}
					case *ast.AssignStmt:
						// ep[0].Privilege = X style adjustments
						for i, lhs := range x.Lhs {
							if sel, ok := lhs.(*ast.SelectorExpr); ok && i < len(x.Rhs) && (sel.Sel.Name == "Privilege" || sel.Sel.Name == "Admin" || sel.Sel.Name == "Name" || sel.Sel.Name == "Rwuser") {
								sp.Entries = append(sp.Entries, PrivEntry{Name: "assign " + rnd(lhs), Privilege: rnd(x.Rhs[i]), Cond: strings.Join(conds, " && ")})
							}
						}
					}
					// generic descent over children
					ast.Inspect(n, func(c ast.Node) bool {
						if c == n || c == nil {
							return true
						}
						walk(c, conds)
						return false
					})
				}
				walk(fd.Body, nil)
				out.Privileges = append(out.Privileges, sp)
			}
		}
	}
	sort.Slice(out.Privileges, func(i, j int) bool { return out.Privileges[i].Type < out.Privileges[j].Type })
}

// scanRwRules: the statement cases of (*UserInfo).AuthorizeQueryForRwUser (lib/util/lifted/influx/meta/authorizer.go)
func scanRwRules(repo string) {
	out.RwRules = []RwRule{}
	file := filepath.Join(repo, metaSuffix, "authorizer.go")
	pfset := token.NewFileSet()
	f, err := parser.ParseFile(pfset, file, nil, 0)
	if err != nil {
		problem("authorizer.go: %v", err)
		return
	}
	rnd := func(n ast.Node) string {
		var b bytes.Buffer
		_ = printer.Fprint(&b, pfset, n)
		return strings.Join(strings.Fields(b.String()), " ")
	}
	var acts func(list []ast.Stmt) string
	act := func(st ast.Stmt) string {
		switch x := st.(type) {
		case *ast.BranchStmt:
			return strings.ToLower(x.Tok.String())
		case *ast.ReturnStmt:
			if len(x.Results) == 1 && rnd(x.Results[0]) == "nil" {
				return "accept"
			}
			if len(x.Results) == 1 {
				if u, ok := x.Results[0].(*ast.UnaryExpr); ok {
					if cl, ok := u.X.(*ast.CompositeLit); ok && rnd(cl.Type) == "ErrAuthorize" {
						return "refuse"
					}
				}
			}
			return "return " + rnd(x)
		case *ast.IfStmt:
			r := "if " + rnd(x.Cond) + " { " + acts(x.Body.List) + " }"
			if x.Init != nil {
				r = "with " + rnd(x.Init) + " " + r
			}
			if x.Else != nil {
				if b, ok := x.Else.(*ast.BlockStmt); ok {
					r += " else { " + acts(b.List) + " }"
				} else {
					r += " else " + rnd(x.Else)
				}
			}
			return r
		case *ast.AssignStmt:
			return "set " + rnd(x)
		case *ast.RangeStmt:
			return "range " + rnd(x.X) + " { " + acts(x.Body.List) + " }"
		}
		return "stmt " + rnd(st)
	}
	acts = func(list []ast.Stmt) string {
		var parts []string
		for _, st := range list {
			parts = append(parts, act(st))
		}
		return strings.Join(parts, "; ")
	}
	found := false
	for _, d := range f.Decls {
		fd, ok := d.(*ast.FuncDecl)
		if !ok || fd.Name.Name != "AuthorizeQueryForRwUser" || fd.Body == nil {
			continue
		}
		found = true
		ast.Inspect(fd.Body, func(n ast.Node) bool {
			rs, ok := n.(*ast.RangeStmt)
			if !ok {
				return true
			}
			for i, st := range rs.Body.List {
				ts, ok := st.(*ast.TypeSwitchStmt)
				if !ok {
					continue
				}
				for _, c := range ts.Body.List {
					cc := c.(*ast.CaseClause)
					a := acts(cc.Body)
					if cc.List == nil {
						out.RwRules = append(out.RwRules, RwRule{"<default>", a})
					}
					for _, t := range cc.List {
						name := rnd(t)
						name = strings.TrimPrefix(name, "*")
						if j := strings.LastIndex(name, "."); j >= 0 {
							name = name[j+1:]
						}
						out.RwRules = append(out.RwRules, RwRule{name, a})
					}
				}
				// the arms of a type switch over disjoint types are independent of their order: canonical order by type
				sort.SliceStable(out.RwRules, func(a, b int) bool { return out.RwRules[a].Type < out.RwRules[b].Type })
				out.RwRules = append(out.RwRules, RwRule{"<tail>", acts(rs.Body.List[i+1:])})
			}
			return false
		})
	}
	if !found {
		problem("authorizer.go: AuthorizeQueryForRwUser not found")
	}
}

// scanUnrestricted: the body of (*UserInfo).AuthorizeUnrestricted - the only administrator test of serveSysCtrl, checkAuth
// (/backup/*), requireAdmin (tsdb, repository, logstream, recall, stream tasks) and getAuthorizer - as a formula
func scanUnrestricted(repo string) {
	out.Unrestricted = "?"
	file := filepath.Join(repo, metaSuffix, "userinfo.go")
	pfset := token.NewFileSet()
	f, err := parser.ParseFile(pfset, file, nil, 0)
	if err != nil {
		problem("userinfo.go: %v", err)
		return
	}
	for _, d := range f.Decls {
		fd, ok := d.(*ast.FuncDecl)
		if !ok || fd.Name.Name != "AuthorizeUnrestricted" || fd.Recv == nil || fd.Body == nil || len(fd.Recv.List) != 1 {
			continue
		}
		recv := ""
		if len(fd.Recv.List[0].Names) == 1 {
			recv = fd.Recv.List[0].Names[0].Name
		}
		var form func(e ast.Expr) string
		form = func(e ast.Expr) string {
			switch x := e.(type) {
			case *ast.ParenExpr:
				return form(x.X)
			case *ast.Ident:
				if x.Name == "true" || x.Name == "false" {
					return x.Name
				}
			case *ast.SelectorExpr:
				if id, ok := x.X.(*ast.Ident); ok && id.Name == recv {
					switch x.Sel.Name {
					case "Admin":
						return "admin"
					case "Rwuser":
						return "rw"
					}
				}
			case *ast.UnaryExpr:
				if x.Op == token.NOT {
					return "not(" + form(x.X) + ")"
				}
			case *ast.BinaryExpr:
				switch x.Op {
				case token.LOR:
					return "or(" + form(x.X) + "," + form(x.Y) + ")"
				case token.LAND:
					return "and(" + form(x.X) + "," + form(x.Y) + ")"
				case token.EQL:
					if id, ok := x.Y.(*ast.Ident); ok && id.Name == "true" {
						return form(x.X)
					}
					if id, ok := x.Y.(*ast.Ident); ok && id.Name == "false" {
						return "not(" + form(x.X) + ")"
					}
				}
			}
			return "?"
		}
		var body func(list []ast.Stmt) string
		body = func(list []ast.Stmt) string {
			if len(list) == 0 {
				return "?"
			}
			switch x := list[0].(type) {
			case *ast.ReturnStmt:
				if len(x.Results) == 1 {
					return form(x.Results[0])
				}
			case *ast.IfStmt:
				// if c { return a }; rest   ==   (c and a) or (not c and rest)
				if x.Init == nil && x.Else == nil {
					c, a, r := form(x.Cond), body(x.Body.List), body(list[1:])
					return "or(and(" + c + "," + a + "),and(not(" + c + ")," + r + "))"
				}
			}
			return "?"
		}
		out.Unrestricted = body(fd.Body.List)
		return
	}
	problem("userinfo.go: AuthorizeUnrestricted not found")
}

// scanCheckAuthorization: (*Handler).checkAuthorization must hand on every error of the query authorizer
func scanCheckAuthorization(p *packages.Package) {
	fd, _ := findMethod(p, "Handler", "checkAuthorization")
	if fd == nil || fd.Body == nil {
		return
	}
	out.CheckAuthzFound = true
	all := true
	seen := false
	ast.Inspect(fd.Body, func(n ast.Node) bool {
		is, ok := n.(*ast.IfStmt)
		if !ok {
			return true
		}
		callsAuthz := false
		check := func(m ast.Node) {
			if m == nil {
				return
			}
			ast.Inspect(m, func(c ast.Node) bool {
				if call, ok := c.(*ast.CallExpr); ok {
					if sel, ok := call.Fun.(*ast.SelectorExpr); ok && sel.Sel.Name == "AuthorizeQuery" {
						callsAuthz = true
					}
				}
				return true
			})
		}
		check(is.Init)
		check(is.Cond)
		if !callsAuthz {
			return true
		}
		seen = true
		ok2 := false
		for _, st := range is.Body.List {
			if rs, ok := st.(*ast.ReturnStmt); ok && len(rs.Results) == 1 && render(rs.Results[0]) != "nil" {
				ok2 = true
			}
		}
		if !ok2 {
			all = false
		}
		return false
	})
	out.CheckAuthzReturnsAll = seen && all
}

// scanAuthRefresh: see Out.AuthRefreshWithEveryUpdate
func scanAuthRefresh(repo string) {
	file := filepath.Join(repo, "lib/metaclient/meta_client_impl.go")
	pfset := token.NewFileSet()
	f, err := parser.ParseFile(pfset, file, nil, 0)
	if err != nil {
		problem("meta_client_impl.go: %v", err)
		return
	}
	all := true
	for _, d := range f.Decls {
		fd, ok := d.(*ast.FuncDecl)
		if !ok || fd.Body == nil || !strings.HasPrefix(fd.Name.Name, "pollForUpdates") {
			continue
		}
		// enclosing if statements of a node
		var notifyIfs, refreshIfs [][]*ast.IfStmt
		var stack []ast.Node
		ast.Inspect(fd.Body, func(n ast.Node) bool {
			if n == nil {
				stack = stack[:len(stack)-1]
				return true
			}
			stack = append(stack, n)
			call, ok := n.(*ast.CallExpr)
			if !ok {
				return true
			}
			var ifs []*ast.IfStmt
			for _, a := range stack {
				if is, ok := a.(*ast.IfStmt); ok {
					ifs = append(ifs, is)
				}
			}
			if id, ok := call.Fun.(*ast.Ident); ok && id.Name == "close" {
				notifyIfs = append(notifyIfs, ifs)
			}
			if sel, ok := call.Fun.(*ast.SelectorExpr); ok && sel.Sel.Name == "UpdateAuthCache" {
				refreshIfs = append(refreshIfs, ifs)
			}
			return true
		})
		if len(notifyIfs) == 0 {
			continue
		}
		out.AuthRefreshLoops++
		for _, ni := range notifyIfs {
			found := false
			for _, ri := range refreshIfs {
				if len(ri) == len(ni) {
					same := true
					for i := range ri {
						if ri[i] != ni[i] {
							same = false
						}
					}
					if same {
						found = true
					}
				}
			}
			if !found {
				all = false
			}
		}
	}
	out.AuthRefreshWithEveryUpdate = all && out.AuthRefreshLoops > 0
}
