// Package metacmd: a compact description of meta-store commands (Cmd) and their translation into the repository's protobuf
// commands. Shared by the C15 and C16 harnesses.
package metacmd

import (
	"fmt"
	"strconv"

	meta2 "github.com/openGemini/openGemini/lib/util/lifted/influx/meta"
	proto2 "github.com/openGemini/openGemini/lib/util/lifted/influx/meta/proto"
	"github.com/openGemini/openGemini/lib/util/lifted/protobuf/proto"
)

type Cmd struct {
	K      string `json:"k"`
	DB     int    `json:"db,omitempty"`
	RP     int    `json:"rp,omitempty"`
	M      int    `json:"m,omitempty"`
	HasRP  bool   `json:"hasrp,omitempty"`
	D      *int64 `json:"d,omitempty"`
	SGD    *int64 `json:"sgd,omitempty"`
	Def    bool   `json:"def,omitempty"`
	TS     int64  `json:"ts,omitempty"`
	Eng    int    `json:"eng,omitempty"`
	ID     uint64 `json:"id,omitempty"`
	Ver    int    `json:"ver,omitempty"`
	H      int    `json:"h,omitempty"`
	T      int    `json:"t,omitempty"`
	Pt     int    `json:"pt,omitempty"`
	Owner  uint64 `json:"owner,omitempty"`
	Status int    `json:"status,omitempty"`
	COwner uint64 `json:"cowner,omitempty"`
	CStat  int    `json:"cstat,omitempty"`
	X      string `json:"x,omitempty"` // variant tag of commands outside the modelled subset
	S1     string `json:"s1,omitempty"`
	S2     string `json:"s2,omitempty"`
	U1     uint64 `json:"u1,omitempty"`
	B1     bool   `json:"b1,omitempty"`
}

func DBName(c int) string {
	if c <= 0 {
		return ""
	}
	return "db" + strconv.Itoa(c)
}
func RPName(c int) string {
	switch {
	case c <= 0:
		return ""
	case c == 4:
		return "autogen"
	}
	return "rp" + strconv.Itoa(c)
}
func MstName(c int) string { return "m" + strconv.Itoa(c) }

func MkCmd(t proto2.Command_Type, ext *proto.ExtensionDesc, v interface{}) *proto2.Command {
	cmd := &proto2.Command{Type: &t}
	if err := proto.SetExtension(cmd, ext, v); err != nil {
		panic(err)
	}
	return cmd
}

func pS(s string) *string   { return &s }
func pB(b bool) *bool       { return &b }
func pI64(v int64) *int64   { return &v }
func pU64(v uint64) *uint64 { return &v }
func pU32(v uint32) *uint32 { return &v }
func pI32(v int32) *int32   { return &v }

func rpInfo(name string, d, sgd int64) *proto2.RetentionPolicyInfo {
	return &proto2.RetentionPolicyInfo{Name: pS(name), Duration: pI64(d), ShardGroupDuration: pI64(sgd), ReplicaN: pU32(1),
		HotDuration: pI64(0), WarmDuration: pI64(0), IndexGroupDuration: pI64(0)}
}

func deref(p *int64) int64 {
	if p == nil {
		return 0
	}
	return *p
}

func HostHTTP(c int) string { return "h" + strconv.Itoa(c) + ":8400" }
func HostTCP(c int) string  { return "h" + strconv.Itoa(c) + ":8401" }

// Build translates a command description into the protobuf command.
func Build(c *Cmd) *proto2.Command {
	db, rp := DBName(c.DB), RPName(c.RP)
	switch c.K {
	case "cdb":
		v := &proto2.CreateDatabaseCommand{Name: pS(db), ReplicaNum: pU32(1), EnableTagArray: pB(c.B1)}
		if c.U1 > 1 { // a replicated database
			v.ReplicaNum = pU32(uint32(c.U1))
		}
		if c.HasRP {
			v.RetentionPolicy = rpInfo(rp, deref(c.D), deref(c.SGD))
			if c.U1 > 1 {
				v.RetentionPolicy.ReplicaN = pU32(uint32(c.U1))
			}
		}
		return MkCmd(proto2.Command_CreateDatabaseCommand, proto2.E_CreateDatabaseCommand_Command, v)
	case "markdb":
		return MkCmd(proto2.Command_MarkDatabaseDeleteCommand, proto2.E_MarkDatabaseDeleteCommand_Command, &proto2.MarkDatabaseDeleteCommand{Name: pS(db)})
	case "dropdb":
		return MkCmd(proto2.Command_DropDatabaseCommand, proto2.E_DropDatabaseCommand_Command, &proto2.DropDatabaseCommand{Name: pS(db)})
	case "crp":
		return MkCmd(proto2.Command_CreateRetentionPolicyCommand, proto2.E_CreateRetentionPolicyCommand_Command,
			&proto2.CreateRetentionPolicyCommand{Database: pS(db), RetentionPolicy: rpInfo(rp, deref(c.D), deref(c.SGD)), DefaultRP: pB(c.Def)})
	case "urp":
		v := &proto2.UpdateRetentionPolicyCommand{Database: pS(db), Name: pS(rp), Duration: c.D, ShardGroupDuration: c.SGD, MakeDefault: pB(c.Def)}
		if c.X == "rename" {
			v.NewName = pS(RPName(c.M))
		}
		return MkCmd(proto2.Command_UpdateRetentionPolicyCommand, proto2.E_UpdateRetentionPolicyCommand_Command, v)
	case "markrp":
		return MkCmd(proto2.Command_MarkRetentionPolicyDeleteCommand, proto2.E_MarkRetentionPolicyDeleteCommand_Command,
			&proto2.MarkRetentionPolicyDeleteCommand{Database: pS(db), Name: pS(rp)})
	case "droprp":
		return MkCmd(proto2.Command_DropRetentionPolicyCommand, proto2.E_DropRetentionPolicyCommand_Command,
			&proto2.DropRetentionPolicyCommand{Database: pS(db), Name: pS(rp)})
	case "setdef":
		return MkCmd(proto2.Command_SetDefaultRetentionPolicyCommand, proto2.E_SetDefaultRetentionPolicyCommand_Command,
			&proto2.SetDefaultRetentionPolicyCommand{Database: pS(db), Name: pS(rp)})
	case "cmst":
		v := &proto2.CreateMeasurementCommand{DBName: pS(db), RpName: pS(rp), Name: pS(MstName(c.M)),
			Ski: &proto2.ShardKeyInfo{ShardKey: []string{"tk1"}, Type: pS(meta2.HASH)}, EngineType: pU32(0), InitNumOfShards: pI32(0)}
		switch c.X {
		case "otherkey":
			v.Ski.ShardKey = []string{"tk2"}
		case "range":
			v.Ski.Type = pS(meta2.RANGE)
		case "badschema": // the same field twice with conflicting types
			v.SchemaInfo = []*proto2.FieldSchema{{FieldName: pS("f1"), FieldType: pI32(1)}, {FieldName: pS("f1"), FieldType: pI32(3)}}
		case "schema":
			v.SchemaInfo = []*proto2.FieldSchema{{FieldName: pS("tk1"), FieldType: pI32(6)}, {FieldName: pS("f1"), FieldType: pI32(3)}}
		}
		return MkCmd(proto2.Command_CreateMeasurementCommand, proto2.E_CreateMeasurementCommand_Command, v)
	case "markmst":
		return MkCmd(proto2.Command_MarkMeasurementDeleteCommand, proto2.E_MarkMeasurementDeleteCommand_Command,
			&proto2.MarkMeasurementDeleteCommand{Database: pS(db), Policy: pS(rp), Measurement: pS(MstName(c.M))})
	case "dropmst":
		return MkCmd(proto2.Command_DropMeasurementCommand, proto2.E_DropMeasurementCommand_Command,
			&proto2.DropMeasurementCommand{Database: pS(db), Policy: pS(rp), Measurement: pS(fmt.Sprintf("%s_%04d", MstName(c.M), c.Ver))})
	case "csg":
		return MkCmd(proto2.Command_CreateShardGroupCommand, proto2.E_CreateShardGroupCommand_Command,
			&proto2.CreateShardGroupCommand{Database: pS(db), Policy: pS(rp), Timestamp: pI64(c.TS), ShardTier: pU64(1), EngineType: pU32(uint32(c.Eng)), Version: pU32(0)})
	case "delsg":
		v := &proto2.DeleteShardGroupCommand{Database: pS(db), Policy: pS(rp), ShardGroupID: pU64(c.ID)}
		if c.X == "cancel" {
			v.DeleteType = pI32(meta2.CancelDelete)
		}
		return MkCmd(proto2.Command_DeleteShardGroupCommand, proto2.E_DeleteShardGroupCommand_Command, v)
	case "prunesg":
		return MkCmd(proto2.Command_PruneGroupsCommand, proto2.E_PruneGroupsCommand_Command, &proto2.PruneGroupsCommand{ShardGroup: pB(true), ID: pU64(c.ID)})
	case "pruneig":
		return MkCmd(proto2.Command_PruneGroupsCommand, proto2.E_PruneGroupsCommand_Command, &proto2.PruneGroupsCommand{ShardGroup: pB(false), ID: pU64(c.ID)})
	case "delig":
		return MkCmd(proto2.Command_DeleteIndexGroupCommand, proto2.E_DeleteIndexGroupCommand_Command,
			&proto2.DeleteIndexGroupCommand{Database: pS(db), Policy: pS(rp), IndexGroupID: pU64(c.ID)})
	case "cnode":
		role := meta2.NodeWriter
		if c.X == "reader" {
			role = meta2.NodeReader
		}
		return MkCmd(proto2.Command_CreateDataNodeCommand, proto2.E_CreateDataNodeCommand_Command,
			&proto2.CreateDataNodeCommand{HTTPAddr: pS(HostHTTP(c.H)), TCPAddr: pS(HostTCP(c.T)), Role: pS(role), Az: pS("")})
	case "cptv":
		rn := uint32(1)
		if c.U1 > 1 {
			rn = uint32(c.U1)
		}
		return MkCmd(proto2.Command_CreateDbPtViewCommand, proto2.E_CreateDbPtViewCommand_Command, &proto2.CreateDbPtViewCommand{DbName: pS(db), ReplicaNum: pU32(rn)})
	case "uptinfo":
		return MkCmd(proto2.Command_UpdatePtInfoCommand, proto2.E_UpdatePtInfoCommand_Command,
			&proto2.UpdatePtInfoCommand{Db: pS(db), Pt: &proto2.PtInfo{Owner: &proto2.PtOwner{NodeID: pU64(c.COwner)}, Status: pU32(uint32(c.CStat)), PtId: pU32(uint32(c.Pt))},
				OwnerNode: pU64(c.Owner), Status: pU32(uint32(c.Status))})
	case "rmnode":
		return MkCmd(proto2.Command_RemoveNodeCommand, proto2.E_RemoveNodeCommand_Command, &proto2.RemoveNodeCommand{NodeIds: []uint64{c.ID}})
	case "expand":
		return MkCmd(proto2.Command_ExpandGroupsCommand, proto2.E_ExpandGroupsCommand_Command, &proto2.ExpandGroupsCommand{})
	case "altkey":
		return MkCmd(proto2.Command_AlterShardKeyCmd, proto2.E_AlterShardKeyCmd_Command,
			&proto2.AlterShardKeyCmd{DBName: pS(db), RpName: pS(rp), Name: pS(MstName(c.M)), Ski: &proto2.ShardKeyInfo{ShardKey: []string{"tk" + strconv.Itoa(c.Ver)}, Type: pS(meta2.HASH)}})
	case "updschema":
		return MkCmd(proto2.Command_UpdateSchemaCommand, proto2.E_UpdateSchemaCommand_Command,
			&proto2.UpdateSchemaCommand{Database: pS(db), RpName: pS(rp), Measurement: pS(MstName(c.M)),
				FieldToCreate: []*proto2.FieldSchema{{FieldName: pS("f" + strconv.Itoa(c.Ver)), FieldType: pI32(int32(c.Eng))}}})
	case "cuser":
		return MkCmd(proto2.Command_CreateUserCommand, proto2.E_CreateUserCommand_Command,
			&proto2.CreateUserCommand{Name: pS(c.S1), Hash: pS(c.S2), Admin: pB(c.Def), RwUser: pB(c.B1)})
	case "duser":
		return MkCmd(proto2.Command_DropUserCommand, proto2.E_DropUserCommand_Command, &proto2.DropUserCommand{Name: pS(c.S1)})
	case "uuser":
		return MkCmd(proto2.Command_UpdateUserCommand, proto2.E_UpdateUserCommand_Command, &proto2.UpdateUserCommand{Name: pS(c.S1), Hash: pS(c.S2)})
	case "setpriv":
		return MkCmd(proto2.Command_SetPrivilegeCommand, proto2.E_SetPrivilegeCommand_Command,
			&proto2.SetPrivilegeCommand{Username: pS(c.S1), Database: pS(db), Privilege: pI32(int32(c.Status))})
	case "setadmin":
		return MkCmd(proto2.Command_SetAdminPrivilegeCommand, proto2.E_SetAdminPrivilegeCommand_Command,
			&proto2.SetAdminPrivilegeCommand{Username: pS(c.S1), Admin: pB(c.Def)})
	case "csub":
		return MkCmd(proto2.Command_CreateSubscriptionCommand, proto2.E_CreateSubscriptionCommand_Command,
			&proto2.CreateSubscriptionCommand{Name: pS(c.S1), Database: pS(db), RetentionPolicy: pS(rp), Mode: pS(c.S2), Destinations: []string{"http://h" + strconv.Itoa(c.H) + ":9000"}})
	case "dsub":
		return MkCmd(proto2.Command_DropSubscriptionCommand, proto2.E_DropSubscriptionCommand_Command,
			&proto2.DropSubscriptionCommand{Name: pS(c.S1), Database: pS(db), RetentionPolicy: pS(rp)})
	case "cmeta":
		return MkCmd(proto2.Command_CreateMetaNodeCommand, proto2.E_CreateMetaNodeCommand_Command,
			&proto2.CreateMetaNodeCommand{HTTPAddr: pS("m" + strconv.Itoa(c.H) + ":8091"), RPCAddr: pS("m" + strconv.Itoa(c.H) + ":8092"), TCPAddr: pS(HostTCP(c.T)), Rand: pU64(c.U1)})
	case "setmeta":
		return MkCmd(proto2.Command_SetMetaNodeCommand, proto2.E_SetMetaNodeCommand_Command,
			&proto2.SetMetaNodeCommand{HTTPAddr: pS("m" + strconv.Itoa(c.H) + ":8091"), RPCAddr: pS("m" + strconv.Itoa(c.H) + ":8092"), TCPAddr: pS(HostTCP(c.T)), Rand: pU64(c.U1)})
	case "dmeta":
		return MkCmd(proto2.Command_DeleteMetaNodeCommand, proto2.E_DeleteMetaNodeCommand_Command, &proto2.DeleteMetaNodeCommand{ID: pU64(c.ID)})
	case "csql":
		return MkCmd(proto2.Command_CreateSqlNodeCommand, proto2.E_CreateSqlNodeCommand_Command,
			&proto2.CreateSqlNodeCommand{HTTPAddr: pS("s" + strconv.Itoa(c.H) + ":8086"), GossipAddr: pS("s" + strconv.Itoa(c.H) + ":8011")})
	case "dnode":
		return MkCmd(proto2.Command_DeleteDataNodeCommand, proto2.E_DeleteDataNodeCommand_Command, &proto2.DeleteDataNodeCommand{ID: pU64(c.ID)})
	case "shtier":
		return MkCmd(proto2.Command_UpdateShardInfoTierCommand, proto2.E_UpdateShardInfoTierCommand_Command,
			&proto2.UpdateShardInfoTierCommand{ShardID: pU64(c.ID), Tier: pU64(c.U1), DbName: pS(db), RpName: pS(rp)})
	case "ixtier":
		return MkCmd(proto2.Command_UpdateIndexInfoTierCommand, proto2.E_UpdateIndexInfoTierCommand_Command,
			&proto2.UpdateIndexInfoTierCommand{IndexID: pU64(c.ID), Tier: pU64(c.U1), DbName: pS(db), RpName: pS(rp)})
	case "nstatus":
		return MkCmd(proto2.Command_UpdateNodeStatusCommand, proto2.E_UpdateNodeStatusCommand_Command,
			&proto2.UpdateNodeStatusCommand{ID: pU64(c.ID), Status: pI32(int32(c.Status)), Ltime: pU64(c.U1), GossipAddr: pS("8010")})
	case "sqlstatus":
		return MkCmd(proto2.Command_UpdateSqlNodeStatusCommand, proto2.E_UpdateSqlNodeStatusCommand_Command,
			&proto2.UpdateSqlNodeStatusCommand{ID: pU64(c.ID), Status: pI32(int32(c.Status)), Ltime: pU64(c.U1), GossipAddr: pS("8011")})
	case "metastatus":
		return MkCmd(proto2.Command_UpdateMetaNodeStatusCommand, proto2.E_UpdateMetaNodeStatusCommand_Command,
			&proto2.UpdateMetaNodeStatusCommand{ID: pU64(c.ID), Status: pI32(int32(c.Status)), Ltime: pU64(c.U1), GossipAddr: pS("8012")})
	case "takeover":
		return MkCmd(proto2.Command_MarkTakeoverCommand, proto2.E_MarkTakeoverCommand_Command, &proto2.MarkTakeoverCommand{Enable: pB(c.Def)})
	case "balancer":
		return MkCmd(proto2.Command_MarkBalancerCommand, proto2.E_MarkBalancerCommand_Command, &proto2.MarkBalancerCommand{Enable: pB(c.Def)})
	case "cstream":
		return MkCmd(proto2.Command_CreateStreamCommand, proto2.E_CreateStreamCommand_Command, &proto2.CreateStreamCommand{StreamInfo: &proto2.StreamInfo{
			Name: pS(c.S1), ID: pU64(0), SrcMst: &proto2.StreamMeasurementInfo{Name: pS(MstName(c.M)), Database: pS(db), RetentionPolicy: pS(rp)},
			DesMst:   &proto2.StreamMeasurementInfo{Name: pS(MstName(c.Ver)), Database: pS(db), RetentionPolicy: pS(rp)},
			Interval: pI64(int64(c.U1) * 1000000000), Delay: pI64(0), Dims: []string{"tk1"},
			Calls: []*proto2.StreamCall{{Call: pS("sum"), Field: pS("f1"), Alias: pS("sum_f1")}}, Cond: pS(c.S2), IsSelectAll: pB(false)}})
	case "dstream":
		return MkCmd(proto2.Command_DropStreamCommand, proto2.E_DropStreamCommand_Command, &proto2.DropStreamCommand{Name: pS(c.S1)})
	case "verify":
		return MkCmd(proto2.Command_VerifyDataNodeCommand, proto2.E_VerifyDataNodeCommand_Command, &proto2.VerifyDataNodeCommand{NodeID: pU64(c.ID)})
	case "ptver":
		return MkCmd(proto2.Command_UpdatePtVersionCommand, proto2.E_UpdatePtVersionCommand_Command, &proto2.UpdatePtVersionCommand{Db: pS(db), Pt: pU32(uint32(c.Pt))})
	case "regqid":
		return MkCmd(proto2.Command_RegisterQueryIDOffsetCommand, proto2.E_RegisterQueryIDOffsetCommand_Command, &proto2.RegisterQueryIDOffsetCommand{Host: pS(c.S1)})
	case "ccq":
		return MkCmd(proto2.Command_CreateContinuousQueryCommand, proto2.E_CreateContinuousQueryCommand_Command,
			&proto2.CreateContinuousQueryCommand{Database: pS(db), Name: pS(c.S1), Query: pS(c.S2)})
	case "cqreport":
		return MkCmd(proto2.Command_ContinuousQueryReportCommand, proto2.E_ContinuousQueryReportCommand_Command,
			&proto2.ContinuousQueryReportCommand{CQStates: []*proto2.CQState{{Name: pS(c.S1), LastRunTime: pI64(c.TS)}}})
	case "dcq":
		return MkCmd(proto2.Command_DropContinuousQueryCommand, proto2.E_DropContinuousQueryCommand_Command,
			&proto2.DropContinuousQueryCommand{Name: pS(c.S1), Database: pS(db)})
	case "cqlease":
		return MkCmd(proto2.Command_NotifyCQLeaseChangedCommand, proto2.E_NotifyCQLeaseChangedCommand_Command, &proto2.NotifyCQLeaseChangedCommand{})
	case "segregate":
		return MkCmd(proto2.Command_SetNodeSegregateStatusCommand, proto2.E_SetNodeSegregateStatusCommand_Command,
			&proto2.SetNodeSegregateStatusCommand{Status: []uint64{c.U1}, NodeIds: []uint64{c.ID}})
	case "umst":
		return MkCmd(proto2.Command_UpdateMeasurementCommand, proto2.E_UpdateMeasurementCommand_Command,
			&proto2.UpdateMeasurementCommand{Db: pS(db), Rp: pS(rp), Mst: pS(MstName(c.M)), Options: &proto2.Options{Ttl: pI64(c.TS)}})
	case "tmpindex":
		return MkCmd(proto2.Command_UpdateNodeTmpIndexCommand, proto2.E_UpdateNodeTmpIndexCommand_Command,
			&proto2.UpdateNodeTmpIndexCommand{Role: pI32(int32(c.Status)), Index: pU64(c.U1), NodeId: pU64(c.ID)})
	case "urepl":
		return MkCmd(proto2.Command_UpdateReplicationCommand, proto2.E_UpdateReplicationCommand_Command,
			&proto2.UpdateReplicationCommand{Database: pS(db), RepGroupId: pU32(uint32(c.Pt)), MasterId: pU32(uint32(c.Status))})
	case "insfiles":
		return MkCmd(proto2.Command_InsertFilesCommand, proto2.E_InsertFilesCommand_Command, &proto2.InsertFilesCommand{})
	case "rmevent":
		return MkCmd(proto2.Command_RemoveEventCommand, proto2.E_RemoveEventCommand_Command, &proto2.RemoveEventCommand{EventId: pS(c.S1)})
	case "cdsp":
		return MkCmd(proto2.Command_CreateDownSamplePolicyCommand, proto2.E_CreateDownSamplePolicyCommand_Command,
			&proto2.CreateDownSamplePolicyCommand{Database: pS(db), Name: pS(rp), DownSamplePolicyInfo: &proto2.DownSamplePolicyInfo{
				Calls:              []*proto2.DownSampleOperators{{AggOps: []string{"sum", "max"}, DataType: pI64(1)}, {AggOps: []string{"mean"}, DataType: pI64(3)}},
				DownSamplePolicies: []*proto2.DownSamplePolicy{{SampleInterval: pI64(int64(c.U1) * 3600000000000), TimeInterval: pI64(60000000000), WaterMark: pI64(int64(c.U1) * 3600000000000)}},
				Duration:           pI64(c.TS), TaskID: pU64(0)}})
	case "dsinfo":
		return MkCmd(proto2.Command_UpdateShardDownSampleInfoCommand, proto2.E_UpdateShardDownSampleInfoCommand_Command,
			&proto2.UpdateShardDownSampleInfoCommand{Ident: &proto2.ShardIdentifier{ShardID: pU64(c.ID), ShardGroupID: pU64(0), OwnerDb: pS(db), OwnerPt: pU32(0),
				Policy: pS(rp), ShardType: pS("hash"), DownSampleLevel: pI64(int64(c.Status)), DownSampleID: pU64(c.U1), ReadOnly: pB(c.Def), EngineType: pU32(0)}})
	case "cevent", "uevent":
		ev := &proto2.MigrateEventInfo{EventId: pS(c.S1), EventType: pI32(int32(c.Status)), OpId: pU64(c.U1),
			Pti: &proto2.DbPt{Db: pS(db), Pt: &proto2.PtInfo{Owner: &proto2.PtOwner{NodeID: pU64(c.COwner)}, Status: pU32(uint32(c.CStat)), PtId: pU32(uint32(c.Pt))},
				DBBriefInfo: &proto2.DatabaseBriefInfo{Name: pS(db), EnableTagArray: pB(false)}},
			CurrState: pI32(int32(c.Eng)), PreState: pI32(int32(c.Ver)), Src: pU64(c.Owner), Dest: pU64(c.ID), CheckConflict: pB(c.Def), AliveConnId: pU64(0)}
		if c.K == "cevent" {
			return MkCmd(proto2.Command_CreateEventCommand, proto2.E_CreateEventCommand_Command, &proto2.CreateEventCommand{EventInfo: ev})
		}
		return MkCmd(proto2.Command_UpdateEventCommand, proto2.E_UpdateEventCommand_Command, &proto2.UpdateEventCommand{EventInfo: ev})
	case "reshard":
		return MkCmd(proto2.Command_ReShardingCommand, proto2.E_ReShardingCommand_Command,
			&proto2.ReShardingCommand{Database: pS(db), RpName: pS(rp), ShardGroupID: pU64(c.ID), SplitTime: pI64(c.TS), ShardBounds: []string{"m"}})
	case "merge":
		return MkCmd(proto2.Command_ReplaceMergeShardsCommand, proto2.E_ReplaceMergeShardsCommand_Command,
			&proto2.ReplaceMergeShardsCommand{Db: pS(db), Rp: pS(rp), PtId: pU32(uint32(c.Pt)), ShardId: []uint64{c.ID, c.U1}})
	case "ddsp":
		return MkCmd(proto2.Command_DropDownSamplePolicyCommand, proto2.E_DropDownSamplePolicyCommand_Command,
			&proto2.DropDownSamplePolicyCommand{Database: pS(db), RpName: pS(rp), DropAll: pB(true)})
	}
	panic("unknown command kind " + c.K)
}
