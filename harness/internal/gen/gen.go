// Package gen: one deterministic PRNG (splitmix64) from which every random choice of a harness derives,
// boundary-biased integer generators, and small helpers shared by the per-property harnesses.
package gen

import (
	"encoding/json"
	"os"
	"strconv"
)

type Rand struct{ s uint64 }

func New(seed uint64) *Rand {
	// the seed is hashed (splitmix64 finaliser) so that neighbouring seeds give unrelated streams
	z := seed + 0x9E3779B97F4A7C15
	z = (z ^ (z >> 30)) * 0xBF58476D1CE4E5B9
	z = (z ^ (z >> 27)) * 0x94D049BB133111EB
	return &Rand{s: z ^ (z >> 31)}
}

func FromEnv(salt uint64) *Rand {
	v, _ := strconv.ParseUint(os.Getenv("VERIF_SEED"), 10, 64)
	return New(v ^ (salt * 0xBF58476D1CE4E5B9))
}

func (r *Rand) Uint64() uint64 {
	r.s += 0x9E3779B97F4A7C15
	z := r.s
	z = (z ^ (z >> 30)) * 0xBF58476D1CE4E5B9
	z = (z ^ (z >> 27)) * 0x94D049BB133111EB
	return z ^ (z >> 31)
}

// Intn returns a value in [0,n).
func (r *Rand) Intn(n int) int {
	if n <= 0 {
		return 0
	}
	return int(r.Uint64() % uint64(n))
}

func (r *Rand) Range(lo, hi int) int { return lo + r.Intn(hi-lo+1) }
func (r *Rand) Bool() bool           { return r.Uint64()&1 == 1 }
func (r *Rand) Chance(num, den int) bool { return r.Intn(den) < num }
func (r *Rand) Fork() *Rand          { return New(r.Uint64()) }

func Pick[T any](r *Rand, xs []T) T { return xs[r.Intn(len(xs))] }

// Int64Boundary returns boundary-biased int64 values.
func (r *Rand) Int64Boundary() int64 {
	switch r.Intn(8) {
	case 0:
		return []int64{0, 1, -1, 2, -2}[r.Intn(5)]
	case 1:
		k := uint(r.Intn(63))
		return int64(1)<<k + int64(r.Intn(3)-1)
	case 2:
		k := uint(r.Intn(63))
		return -(int64(1) << k) + int64(r.Intn(3)-1)
	case 3:
		return []int64{9223372036854775807, -9223372036854775808, 9223372036854775806, -9223372036854775807}[r.Intn(4)]
	case 4:
		return int64(r.Intn(2000) - 1000)
	default:
		return int64(r.Uint64())
	}
}

func Tier() string {
	t := os.Getenv("VERIF_TIER")
	if t == "" {
		return "quick"
	}
	return t
}

// Emit writes one JSON value per line to stdout.
var enc = json.NewEncoder(os.Stdout)

func Emit(v any) { _ = enc.Encode(v) }
