// Package crashfs wraps the repository's local VFS (through the verif hook fileops.VerifSwapLocalFS) with a recorder
// that calls back before and after every file-system mutation below a chosen root (create, write, sync, rename,
// remove, removeall, truncate, mkdir). Harnesses (C01, C03) use the callbacks to freeze crash images: a copy of the
// directory tree taken between two mutations, optionally with a torn last write (a byte prefix of the write that was
// about to happen). Process-kill semantics: every completed write is visible, nothing else is lost.
package crashfs

import (
	"io"
	"os"
	"path/filepath"
	"strings"
	"sync"

	"github.com/openGemini/openGemini/lib/fileops"
)

type Event struct {
	Seq   int    // ordinal among recorded events
	Kind  string // create write sync rename remove removeall truncate mkdir
	Path  string // absolute path (source path for rename)
	Path2 string // rename target
	Off   int64  // write offset / truncate size
	Data  []byte // write payload (copy)
}

type Recorder struct {
	inner  fileops.VFS
	prev   fileops.VFS
	mu     sync.Mutex
	root   string
	on     bool
	n      int
	Before func(ev *Event)
	After  func(ev *Event)
}

// Install swaps the local VFS for a recorder; recording is off until Start.
func Install() *Recorder {
	r := &Recorder{}
	r.prev = fileops.VerifSwapLocalFS(nil)
	r.inner = r.prev
	fileops.VerifSwapLocalFS(&recFS{VFS: r.inner, r: r})
	return r
}

func (r *Recorder) Uninstall() { fileops.VerifSwapLocalFS(r.prev) }

// Start begins recording mutations of paths below root (event numbering restarts at 0).
func (r *Recorder) Start(root string, before, after func(ev *Event)) {
	r.mu.Lock()
	defer r.mu.Unlock()
	r.root = filepath.Clean(root)
	r.Before, r.After = before, after
	r.n = 0
	r.on = true
}

func (r *Recorder) Stop() {
	r.mu.Lock()
	defer r.mu.Unlock()
	r.on = false
	r.Before, r.After = nil, nil
}

// Locked runs f while no recorded mutation is in progress (mutations are serialised by the same lock), so that an
// image copied by f from outside a callback is a consistent cut as well.
func (r *Recorder) Locked(f func()) {
	r.mu.Lock()
	defer r.mu.Unlock()
	f()
}

func (r *Recorder) covers(p string) bool {
	if !r.on {
		return false
	}
	p = filepath.Clean(p)
	return p == r.root || strings.HasPrefix(p, r.root+string(os.PathSeparator))
}

// do runs one mutation under the recorder lock: mutations are serialised, so an image copied inside a callback is a
// consistent cut.
func (r *Recorder) do(ev *Event, f func() error) error {
	r.mu.Lock()
	defer r.mu.Unlock()
	if !r.covers(ev.Path) {
		return f()
	}
	ev.Seq = r.n
	r.n++
	if r.Before != nil {
		r.Before(ev)
	}
	err := f()
	if err == nil && r.After != nil {
		r.After(ev)
	}
	return err
}

type recFS struct {
	fileops.VFS
	r *Recorder
}

func exists(p string) bool { _, err := os.Lstat(p); return err == nil }

func (v *recFS) OpenFile(name string, flag int, perm os.FileMode, opt ...fileops.FSOption) (fileops.File, error) {
	var f fileops.File
	var err error
	open := func() error { f, err = v.VFS.OpenFile(name, flag, perm, opt...); return err }
	switch {
	case flag&os.O_CREATE != 0 && !exists(name):
		_ = v.r.do(&Event{Kind: "create", Path: name}, open)
	case flag&os.O_TRUNC != 0 && exists(name):
		_ = v.r.do(&Event{Kind: "truncate", Path: name, Off: 0}, open)
	default:
		_ = open()
	}
	if err != nil || f == nil {
		return f, err
	}
	if flag&(os.O_WRONLY|os.O_RDWR) != 0 {
		return &recFile{File: f, r: v.r, name: name, app: flag&os.O_APPEND != 0}, nil
	}
	return f, nil
}

func (v *recFS) Create(name string, opt ...fileops.FSOption) (fileops.File, error) {
	return v.OpenFile(name, os.O_RDWR|os.O_CREATE|os.O_TRUNC, 0600, opt...)
}
func (v *recFS) CreateV1(name string, opt ...fileops.FSOption) (fileops.File, error) {
	return v.Create(name, opt...)
}
func (v *recFS) CreateV2(name string, opt ...fileops.FSOption) (fileops.File, error) {
	return v.Create(name, opt...)
}

func (v *recFS) Remove(name string, opt ...fileops.FSOption) error {
	return v.r.do(&Event{Kind: "remove", Path: name}, func() error { return v.VFS.Remove(name, opt...) })
}
func (v *recFS) RemoveLocal(name string, opt ...fileops.FSOption) error {
	return v.r.do(&Event{Kind: "remove", Path: name}, func() error { return v.VFS.RemoveLocal(name, opt...) })
}
func (v *recFS) RemoveAll(path string, opt ...fileops.FSOption) error {
	return v.r.do(&Event{Kind: "removeall", Path: path}, func() error { return os.RemoveAll(path) })
}
func (v *recFS) RemoveAllWithOutDir(path string, opt ...fileops.FSOption) error {
	return v.r.do(&Event{Kind: "removeall", Path: path}, func() error { return v.VFS.RemoveAllWithOutDir(path, opt...) })
}
func (v *recFS) Mkdir(path string, perm os.FileMode, opt ...fileops.FSOption) error {
	return v.r.do(&Event{Kind: "mkdir", Path: path}, func() error { return v.VFS.Mkdir(path, perm, opt...) })
}
func (v *recFS) MkdirAll(path string, perm os.FileMode, opt ...fileops.FSOption) error {
	if exists(path) {
		return v.VFS.MkdirAll(path, perm, opt...)
	}
	return v.r.do(&Event{Kind: "mkdir", Path: path}, func() error { return v.VFS.MkdirAll(path, perm, opt...) })
}
func (v *recFS) RenameFile(oldPath, newPath string, opt ...fileops.FSOption) error {
	return v.r.do(&Event{Kind: "rename", Path: oldPath, Path2: newPath}, func() error { return v.VFS.RenameFile(oldPath, newPath, opt...) })
}
func (v *recFS) WriteFile(filename string, data []byte, perm os.FileMode, opt ...fileops.FSOption) error {
	f, err := v.OpenFile(filename, os.O_WRONLY|os.O_CREATE|os.O_TRUNC, perm, opt...)
	if err != nil {
		return err
	}
	_, err = f.Write(data)
	if e := f.Close(); err == nil {
		err = e
	}
	return err
}
func (v *recFS) Truncate(name string, size int64, opt ...fileops.FSOption) error {
	return v.r.do(&Event{Kind: "truncate", Path: name, Off: size}, func() error { return v.VFS.Truncate(name, size, opt...) })
}
func (v *recFS) CopyFile(srcFile, dstFile string, opt ...fileops.FSOption) (int64, error) {
	src, err := v.VFS.Open(srcFile, opt...)
	if err != nil {
		return 0, err
	}
	defer src.Close()
	dst, err := v.Create(dstFile, opt...)
	if err != nil {
		return 0, err
	}
	defer dst.Close()
	return io.Copy(dst, src)
}

type recFile struct {
	fileops.File
	r    *Recorder
	name string
	app  bool
}

func (f *recFile) Write(b []byte) (int, error) {
	var n int
	var err error
	off := int64(-1)
	if f.app {
		if st, e := f.File.Stat(); e == nil {
			off = st.Size()
		}
	} else if o, e := f.File.Seek(0, io.SeekCurrent); e == nil {
		off = o
	}
	ev := &Event{Kind: "write", Path: f.name, Off: off, Data: append([]byte(nil), b...)}
	_ = f.r.do(ev, func() error { n, err = f.File.Write(b); return err })
	return n, err
}
func (f *recFile) Truncate(size int64) error {
	return f.r.do(&Event{Kind: "truncate", Path: f.name, Off: size}, func() error { return f.File.Truncate(size) })
}
func (f *recFile) Sync() error {
	return f.r.do(&Event{Kind: "sync", Path: f.name}, func() error { return f.File.Sync() })
}
func (f *recFile) SyncUpdateLength() error {
	return f.r.do(&Event{Kind: "sync", Path: f.name}, func() error { return f.File.SyncUpdateLength() })
}

// ---- crash images ----

// CopyTree copies the directory tree src to dst (regular files and directories only).
func CopyTree(src, dst string) error {
	return filepath.Walk(src, func(p string, info os.FileInfo, err error) error {
		if err != nil {
			if os.IsNotExist(err) {
				return nil
			}
			return err
		}
		rel, _ := filepath.Rel(src, p)
		t := filepath.Join(dst, rel)
		if info.IsDir() {
			return os.MkdirAll(t, 0750)
		}
		if !info.Mode().IsRegular() {
			return nil
		}
		b, err := os.ReadFile(p)
		if err != nil {
			if os.IsNotExist(err) {
				return nil
			}
			return err
		}
		return os.WriteFile(t, b, 0600)
	})
}

// ApplyTorn writes the first k bytes of the write event ev into the image rooted at dstRoot (the image was copied
// from srcRoot before the write happened).
func ApplyTorn(srcRoot, dstRoot string, ev *Event, k int) error {
	rel, err := filepath.Rel(filepath.Clean(srcRoot), filepath.Clean(ev.Path))
	if err != nil {
		return err
	}
	p := filepath.Join(dstRoot, rel)
	f, err := os.OpenFile(p, os.O_WRONLY|os.O_CREATE, 0600)
	if err != nil {
		return err
	}
	defer f.Close()
	if k > len(ev.Data) {
		k = len(ev.Data)
	}
	off := ev.Off
	if off < 0 {
		st, _ := f.Stat()
		off = st.Size()
	}
	_, err = f.WriteAt(ev.Data[:k], off)
	return err
}
