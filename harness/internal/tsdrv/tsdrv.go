// Package tsdrv drives one real openGemini time-series shard in-process through the add-only verif hooks of
// engine/verif_export_c02.go. It fixes a small universe (one measurement, a few series distinguished by the tag
// "host", a few timestamps, four typed fields) and offers: open / reopen, write, flush (plain or paused after the
// memtable swap), level / full compaction, out-of-order merge, row dumps through the real cursors, file listings,
// and a Go last-write-wins reference map. Used by cmd/c02 and cmd/c09.
package tsdrv

import (
	"fmt"
	"math"
	"os"
	"path/filepath"
	"sort"
	"strconv"
	"sync"

	"github.com/openGemini/openGemini/engine"
	"github.com/openGemini/openGemini/engine/executor"
	"github.com/openGemini/openGemini/engine/immutable"
	"github.com/openGemini/openGemini/lib/config"
	"github.com/openGemini/openGemini/lib/cpu"
	"github.com/openGemini/openGemini/lib/logger"
	"github.com/openGemini/openGemini/lib/record"
	"github.com/openGemini/openGemini/lib/resourceallocator"
	"github.com/openGemini/openGemini/lib/util/lifted/influx/influxql"
	"github.com/openGemini/openGemini/lib/util/lifted/vm/protoparser/influx"
	"time"
)

const (
	Mst      = "m"
	BaseTime = int64(1700000000) * 1e9
	StepTime = int64(1e9)
)

// Field universe. Names are in ascending order so that the code's sort-by-name equals the model's sort-by-id.
var FieldNames = []string{"fa_int", "fb_float", "fc_bool", "fd_str"}
var FieldTypes = []int32{influx.Field_Type_Int, influx.Field_Type_Float, influx.Field_Type_Boolean, influx.Field_Type_String}
var FieldQL = []influxql.DataType{influxql.Integer, influxql.Float, influxql.Boolean, influxql.String}
var StrPool = []string{"", "a", "bb", "ccc", "dddd", "x y", "e=1", "zz"}

const NFields = 4

// Value codes: int -> the integer; float -> code/4 (dyadic, sums are exact); bool -> 0/1; string -> index in StrPool.
type FV struct {
	F int   `json:"f"`
	V int64 `json:"v"`
}
type Row struct {
	S int  `json:"s"`
	T int  `json:"t"`
	F []FV `json:"f"`
}

func TimeOf(t int) int64 { return BaseTime + int64(t)*StepTime }
func IdxOf(ts int64) int { return int((ts - BaseTime) / StepTime) }
func FloatOf(code int64) float64 { return float64(code) / 4 }

// MaxRowsPerSegment (config max-rows-per-segment) used by Init; 0 = the engine default (1000). Set before Init.
var MaxRowsPerSegment int

var initOnce sync.Once
var engOpts engine.EngineOptions

// Init initialises the package-level state of the repository's engine once: logger below work, NewEngine (limiters,
// immutable.Init), the chunk-reader resource allocator, and small compaction thresholds so that tiny histories reach
// level compaction and merge-self (they only decide WHEN a plan is made, never what a plan may contain).
func Init(work string) error {
	var err error
	initOnce.Do(func() {
		lc := config.NewLogger(config.AppStore)
		lc.Path = filepath.Join(work, "logs")
		lc.Level = 2 // zapcore.ErrorLevel
		_ = os.MkdirAll(lc.Path, 0750)
		devnull, _ := os.OpenFile(os.DevNull, os.O_WRONLY, 0)
		saved := os.Stdout
		os.Stdout = devnull // InitLogger prints its configuration on stdout
		logger.InitLogger(lc)
		os.Stdout = saved
		engOpts = engine.NewEngineOptions()
		engOpts.WriteColdDuration = 5000 * time.Second
		engOpts.ShardMutableSizeLimit = 30 * 1024 * 1024
		engOpts.NodeMutableSizeLimit = 1e9
		engOpts.MaxWriteHangTime = time.Second
		engOpts.MemDataReadEnabled = true
		engOpts.WalSyncInterval = 100 * time.Millisecond
		engOpts.WalEnabled = true
		engOpts.WalReplayParallel = false
		engOpts.WalReplayAsync = false
		engOpts.DownSampleWriteDrop = true
		engOpts.FullCompactColdDuration = time.Hour
		engOpts.CompactThroughput = 48 * 1024 * 1024 // the server's defaults (config.Store.Corrector); 0 would make every
		engOpts.CompactThroughputBurst = 64 * 1024 * 1024 // compaction write fail on the rate limiter
		engOpts.SnapshotThroughput = 48 * 1024 * 1024
		engOpts.SnapshotThroughputBurst = 48 * 1024 * 1024
		engOpts.BackgroundReadThroughput = 64 * 1024 * 1024
		engOpts.CompactRecovery = true
		engOpts.MaxConcurrentCompactions = 4
		engOpts.MaxFullCompactions = 2
		engOpts.OpenShardLimit = 8
		engOpts.MaxRowsPerSegment = MaxRowsPerSegment
		engOpts.ReadPageSize = "32kb"
		engOpts.ReadMetaPageSize = []string{"4kb", "32kb"}
		if _, err = engine.NewEngine(filepath.Join(work, "eng-data"), filepath.Join(work, "eng-wal"), engOpts, nil); err != nil {
			return
		}
		if err = resourceallocator.InitResAllocator(math.MaxInt64, 1, 1, resourceallocator.GradientDesc, resourceallocator.ChunkReaderRes, 0, 0); err != nil {
			return
		}
		if err = resourceallocator.InitResAllocator(math.MaxInt64, 1, 1, resourceallocator.GradientDesc, resourceallocator.SeriesParallelismRes, 0, 0); err != nil {
			return
		}
		if err = resourceallocator.InitResAllocator(math.MaxInt64, 1, 1, resourceallocator.GradientDesc, resourceallocator.ShardsParallelismRes, 0, 1); err != nil {
			return
		}
		for i := range immutable.LeveLMinGroupFiles {
			immutable.LeveLMinGroupFiles[i] = 2
		}
		immutable.LevelMergeFileNum = []int{2, 2}
	})
	return err
}

// SetWalPartitions sets the number of WAL partitions used by shards opened afterwards (the engine derives it from
// the CPU count: shard.go getWalPartitionNum).
func SetWalPartitions(n int) { cpu.SetCpuNum(n, 1) }

type Shard struct {
	V    *engine.VerifShard
	Dir  string
	NSer int
	sids []uint64
}

func Open(dir string, nser int) (*Shard, error) {
	v, err := engine.VerifOpenShard(dir, engOpts, engine.VerifShardConfig{})
	if err != nil {
		return nil, err
	}
	v.SetBackground(false, false)
	return &Shard{V: v, Dir: dir, NSer: nser, sids: make([]uint64, nser)}, nil
}

func (s *Shard) Close() error { return s.V.Close() }

func (s *Shard) Reopen() error {
	if err := s.V.Close(); err != nil {
		return err
	}
	v, err := engine.VerifOpenShard(s.Dir, engOpts, engine.VerifShardConfig{})
	if err != nil {
		return err
	}
	v.SetBackground(false, false)
	s.V = v
	return nil
}

func hostOf(sr int) string { return "h" + strconv.Itoa(sr) }

func mkRow(r Row) influx.Row {
	var ir influx.Row
	ir.Name = Mst
	ir.Timestamp = TimeOf(r.T)
	ir.Tags = influx.PointTags{{Key: "host", Value: hostOf(r.S)}, {Key: "zone", Value: "z" + strconv.Itoa(r.S%2)}}
	for _, fv := range r.F {
		f := influx.Field{Key: FieldNames[fv.F], Type: FieldTypes[fv.F]}
		switch fv.F {
		case 0:
			f.NumValue = float64(fv.V)
		case 1:
			f.NumValue = FloatOf(fv.V)
		case 2:
			f.NumValue = float64(fv.V & 1)
		case 3:
			f.StrValue = StrPool[int(fv.V)%len(StrPool)]
		}
		ir.Fields = append(ir.Fields, f)
	}
	return ir
}

// Write sends one batch through shard.WriteRows; a nil error is the acknowledgement.
func (s *Shard) Write(rows []Row) error {
	irs := make([]influx.Row, len(rows))
	for i := range rows {
		irs[i] = mkRow(rows[i])
	}
	if err := s.V.WriteRows(irs); err != nil {
		return err
	}
	s.V.FlushIndex() // new series searchable now (index visibility latency is not what C02/C09 are about)
	return nil
}

// Sid returns the series id of series sr (0 when the series has never been written).
func (s *Shard) Sid(sr int) uint64 {
	if s.sids[sr] != 0 {
		return s.sids[sr]
	}
	ir := mkRow(Row{S: sr})
	sort.Sort(&ir.Tags)
	ir.UnmarshalIndexKeys(nil)
	id, err := s.V.SeriesID(ir.IndexKey)
	if err == nil {
		s.sids[sr] = id
	}
	return id
}

// OutRow is one row of a dump: time index and the non-null selected fields (ascending field id).
type OutRow struct {
	T int  `json:"t"`
	F []FV `json:"f"`
}

type Query struct {
	Fields   []int // field ids, ascending
	Tmin     int   // inclusive time indexes
	Tmax     int
	Asc      bool
	Parallel int
	Flat     bool // no GROUP BY; series told apart by the aux tag column "host"
}

func varRefs(fields []int) []influxql.VarRef {
	var out []influxql.VarRef
	for _, f := range fields {
		out = append(out, influxql.VarRef{Val: FieldNames[f], Type: FieldQL[f]})
	}
	return out
}

func seriesOfHost(v string) int {
	if len(v) > 1 && v[0] == 'h' {
		if n, err := strconv.Atoi(v[1:]); err == nil {
			return n
		}
	}
	return -1
}

func code(f int, col *record.ColVal, i int) (int64, bool) {
	switch f {
	case 0:
		v, isNil := col.IntegerValue(i)
		return v, !isNil
	case 1:
		v, isNil := col.FloatValue(i)
		if isNil {
			return 0, false
		}
		c := v * 4
		if c != math.Trunc(c) || math.IsInf(c, 0) || math.IsNaN(c) {
			return math.MinInt64, true // not a value the harness ever wrote
		}
		return int64(c), true
	case 2:
		v, isNil := col.BooleanValue(i)
		if v {
			return 1, !isNil
		}
		return 0, !isNil
	default:
		v, isNil := col.StringValueSafe(i)
		if isNil {
			return 0, false
		}
		for k, p := range StrPool {
			if p == v {
				return int64(k), true
			}
		}
		return math.MinInt64, true
	}
}

func fieldID(name string) int {
	for i, n := range FieldNames {
		if n == name {
			return i
		}
	}
	return -1
}

// RowsOf converts a record (as returned by the cursors) into rows in record order; hosts[i] is the value of the aux
// tag column "host" of row i when the record has one.
func RowsOf(rec *record.Record) ([]OutRow, []string, error) {
	n := rec.RowNums()
	if n == 0 {
		return nil, nil, nil
	}
	hosts := make([]string, n)
	times := rec.Times()
	out := make([]OutRow, n)
	for i := 0; i < n; i++ {
		out[i].T = IdxOf(times[i])
		if TimeOf(out[i].T) != times[i] {
			return nil, nil, fmt.Errorf("timestamp %d is not on the grid", times[i])
		}
	}
	for c := 0; c < len(rec.Schema)-1; c++ {
		col := &rec.ColVals[c]
		if col.Len != n {
			return nil, nil, fmt.Errorf("column %q has %d rows, time column %d", rec.Schema[c].Name, col.Len, n)
		}
		if rec.Schema[c].Name == "host" {
			for i := 0; i < n; i++ {
				hosts[i], _ = col.StringValueSafe(i)
			}
			continue
		}
		f := fieldID(rec.Schema[c].Name)
		if f < 0 {
			return nil, nil, fmt.Errorf("unknown column %q", rec.Schema[c].Name)
		}
		for i := 0; i < n; i++ {
			if v, ok := code(f, col, i); ok {
				out[i].F = append(out[i].F, FV{F: f, V: v})
			}
		}
	}
	for i := range out {
		sort.Slice(out[i].F, func(a, b int) bool { return out[i].F[a].F < out[i].F[b].F })
	}
	return out, hosts, nil
}

// Dump returns, per series, the rows in the order the cursors delivered them. Two production read shapes:
// q.Flat == false: GROUP BY host - every tag section of a record is one series;
// q.Flat == true : no grouping, the tag "host" is selected as an aux column - the rows of all series arrive merged by
// time (then series key) and are attributed by that column. Order holds the global arrival order for Flat dumps.
func (s *Shard) Dump(q Query) (map[int][]OutRow, error) {
	d, _, err := s.DumpOrdered(q)
	return d, err
}

type Arrival struct{ S, T int }

func (s *Shard) DumpOrdered(q Query) (map[int][]OutRow, []Arrival, error) {
	vq := engine.VerifQuery{Mst: Mst, Fields: varRefs(q.Fields), Tmin: TimeOf(q.Tmin), Tmax: TimeOf(q.Tmax), Ascending: q.Asc,
		MaxParallel: q.Parallel}
	if q.Flat {
		vq.Fields = append(vq.Fields, influxql.VarRef{Val: "host", Type: influxql.Tag})
	} else {
		vq.Dims = []string{"host"}
	}
	chunks, err := s.V.Dump(vq)
	if err != nil {
		return nil, nil, err
	}
	out := map[int][]OutRow{}
	var order []Arrival
	for _, c := range chunks {
		rows, hosts, err := RowsOf(c.Rec)
		if err != nil {
			return nil, nil, err
		}
		for i := range rows {
			sr := -1
			if q.Flat {
				sr = seriesOfHost(hosts[i])
			} else {
				for k := len(c.TagIndex) - 1; k >= 0; k-- {
					if c.TagIndex[k] <= i {
						v, _ := executor.NewChunkTagsV2(c.TagKeys[k]).GetChunkTagValue("host")
						sr = seriesOfHost(v)
						break
					}
				}
			}
			if sr < 0 || sr >= s.NSer {
				return nil, nil, fmt.Errorf("row of unknown series (flat=%v)", q.Flat)
			}
			out[sr] = append(out[sr], rows[i])
			order = append(order, Arrival{sr, rows[i].T})
		}
	}
	return out, order, nil
}

// FileSeries / File: the layout as the store reports it.
type FileSeries struct {
	S        int `json:"s"`
	MinT     int `json:"min"`
	MaxT     int `json:"max"`
	Segments int `json:"segs,omitempty"`
}
type File struct {
	Order  bool         `json:"order"`
	Level  int          `json:"level"`
	Seq    uint64       `json:"seq"`
	Merge  int          `json:"merge"`
	Extent int          `json:"ext"`
	Series []FileSeries `json:"series"`
}

func (s *Shard) Files() ([]File, error) {
	var sids []uint64
	idx := map[uint64]int{}
	for sr := 0; sr < s.NSer; sr++ {
		if id := s.Sid(sr); id != 0 {
			sids = append(sids, id)
			idx[id] = sr
		}
	}
	vfs, err := s.V.Files(Mst, sids)
	if err != nil {
		return nil, err
	}
	var out []File
	for _, vf := range vfs {
		f := File{Order: vf.Order, Level: int(vf.Level), Seq: vf.Seq, Merge: int(vf.Merge), Extent: int(vf.Extent)}
		for _, fs := range vf.Series {
			f.Series = append(f.Series, FileSeries{S: idx[fs.Sid], MinT: IdxOf(fs.MinT), MaxT: IdxOf(fs.MaxT), Segments: fs.Segments})
		}
		sort.Slice(f.Series, func(a, b int) bool { return f.Series[a].S < f.Series[b].S })
		out = append(out, f)
	}
	return out, nil
}

// ---- Go last-write-wins reference ----

type Key struct{ S, T, F int }

type LWW struct{ M map[Key]int64 }

func NewLWW() *LWW { return &LWW{M: map[Key]int64{}} }

func (l *LWW) Apply(rows []Row) {
	for _, r := range rows {
		for _, fv := range r.F {
			l.M[Key{r.S, r.T, fv.F}] = fv.V
		}
	}
}

// Rows returns the expected rows of series sr for the query, ascending.
func (l *LWW) Rows(sr int, q Query, ntimes int) []OutRow {
	var out []OutRow
	for t := 0; t < ntimes; t++ {
		if t < q.Tmin || t > q.Tmax {
			continue
		}
		var fs []FV
		for _, f := range q.Fields {
			if v, ok := l.M[Key{sr, t, f}]; ok {
				fs = append(fs, FV{F: f, V: v})
			}
		}
		if len(fs) > 0 {
			out = append(out, OutRow{T: t, F: fs})
		}
	}
	return out
}

func EqRows(a, b []OutRow) bool {
	if len(a) != len(b) {
		return false
	}
	for i := range a {
		if a[i].T != b[i].T || len(a[i].F) != len(b[i].F) {
			return false
		}
		for j := range a[i].F {
			if a[i].F[j] != b[i].F[j] {
				return false
			}
		}
	}
	return true
}

func Reverse(a []OutRow) []OutRow {
	out := make([]OutRow, len(a))
	for i := range a {
		out[len(a)-1-i] = a[i]
	}
	return out
}

// ---- statement-level selects (C09) ----

var FieldQLMap = func() map[string]influxql.DataType {
	m := map[string]influxql.DataType{}
	for i, n := range FieldNames {
		m[n] = FieldQL[i]
	}
	return m
}()

// Select runs an InfluxQL SELECT on the shard's store-side reader (engine.VerifShard.Select).
func (s *Shard) Select(sql string) ([]engine.VerifAggRow, *engine.VerifSelectInfo, error) {
	return s.V.Select(sql, FieldQLMap, []string{"host", "zone"})
}
