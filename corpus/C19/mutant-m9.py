p='lib/util/lifted/influx/influxql/ast.go'
s=open(p).read()
old="""func (s *DropDatabaseStatement) RequiredPrivileges() (ExecutionPrivileges, error) {
	return ExecutionPrivileges{{Admin: true, Name: "", Rwuser: true, Privilege: AllPrivileges}}, nil"""
new="""func (s *DropDatabaseStatement) RequiredPrivileges() (ExecutionPrivileges, error) {
	return ExecutionPrivileges{{Admin: false, Name: "", Rwuser: true, Privilege: AllPrivileges}}, nil"""
assert old in s
open(p,'w').write(s.replace(old,new))
