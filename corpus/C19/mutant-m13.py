# an account with partition privileges may run GRANT ALL PRIVILEGES TO <user> (one more arm that lets the statement through)
p='lib/util/lifted/influx/meta/authorizer.go'
s=open(p).read()
old="""		case *influxql.GrantStatement:
			continue
"""
new="""		case *influxql.GrantStatement, *influxql.GrantAdminStatement:
			continue
"""
assert s.count(old)==1
open(p,'w').write(s.replace(old,new))
