p='lib/util/lifted/influx/meta/userinfo.go'
s=open(p).read()
old="""	return ok && (p == privilege || p == originql.AllPrivileges)"""
new="""	return ok && (p == privilege || p == originql.AllPrivileges || p == originql.ReadPrivilege)"""
assert old in s
open(p,'w').write(s.replace(old,new))
