# checkAuth (backup routes, failpoint) accepts whoever may write to the request's database instead of the administrator
p='lib/util/lifted/influx/httpd/handler.go'
s=open(p).read()
i=s.index("func (h *Handler) checkAuth(")
j=s.index("if !user.AuthorizeUnrestricted() {", i)
s=s[:j]+'if !user.AuthorizeDatabase(originql.WritePrivilege, r.URL.Query().Get("db")) {'+s[j+len("if !user.AuthorizeUnrestricted() {"):]
open(p,'w').write(s)
