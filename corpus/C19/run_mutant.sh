#!/bin/bash
# usage: run_mutant.sh <name> <python-edit-script>
name=$1; script=$2
wt=/tmp/wt_c19_$name
git -C /repo worktree remove --force $wt 2>/dev/null; rm -rf $wt
git -C /repo worktree add -q $wt ${BASE:-HEAD} || exit 9
(cd $wt && python3 $script) || { echo "EDIT FAILED"; exit 8; }
(cd $wt && git diff --stat | tail -1)
cd /verif && VERIF_REPO=$wt timeout 1500 ./check C19 2>&1 | grep -v "^\[C19 .*done\|server up" | tail -${3:-8}
echo "exit=${PIPESTATUS[0]}"
