p='lib/util/lifted/influx/httpd/handler.go'
s=open(p).read()
old="""	if strings.HasPrefix(r.URL.Path, "/debug/pprof") && h.Config.PprofEnabled {
		h.handleProfiles(w, r)
	} else if strings.HasPrefix(r.URL.Path, "/debug/vars") {
		h.serveExpvar(w, r)
	} else if strings.HasPrefix(r.URL.Path, "/debug/query") {
		h.serveDebugQuery(w, r)
	} else {
		h.mux.ServeHTTP(w, r)
	}
"""
new="""	switch {
	case strings.HasPrefix(r.URL.Path, "/debug/pprof") && h.Config.PprofEnabled:
		h.handleProfiles(w, r)
	case strings.HasPrefix(r.URL.Path, "/debug/vars"):
		h.serveExpvar(w, r)
	case strings.HasPrefix(r.URL.Path, "/debug/query"):
		h.serveDebugQuery(w, r)
	default:
		h.mux.ServeHTTP(w, r)
	}
"""
assert old in s
s=s.replace(old,new)
old="""func (h *Handler) AddSysAPIRoutes() {
	h.AddRoutes([]Route{"""
new="""func (h *Handler) AddSysAPIRoutes() {
	sysRoutes := []Route{"""
assert old in s
s=s.replace(old,new)
old="""			"POST", "/backup/status", false, true, h.serveBackupStatus,
		},
	}...)
}"""
new="""			"POST", "/backup/status", false, true, h.serveBackupStatus,
		},
	}
	h.AddRoutes(sysRoutes...)
}"""
assert old in s
s=s.replace(old,new)
open(p,'w').write(s)
