# listing no longer filtered by privilege (C19-logstore-listing-unprivileged, fixed 3986ddb): every authenticated user sees all
p='lib/util/lifted/influx/httpd/handler_logstore.go'
s=open(p).read()
old="""		if h.Config.AuthEnabled && (user == nil || !canSeeRepository(user, repositories[i].Name)) {"""
new="""		if h.Config.AuthEnabled && user == nil {"""
assert s.count(old)==1
open(p,'w').write(s.replace(old,new))
