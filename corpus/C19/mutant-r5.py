# behaviour-preserving: AuthorizeUnrestricted as if/return, checkAuthorization logs by error kind (type switch) and still
# returns every error
p='lib/util/lifted/influx/meta/userinfo.go'
s=open(p).read()
old="""func (u *UserInfo) AuthorizeUnrestricted() bool {
	return u.Admin
}"""
new="""func (u *UserInfo) AuthorizeUnrestricted() bool {
	if u.Admin {
		return true
	}
	return false
}"""
assert s.count(old)==1
open(p,'w').write(s.replace(old,new))
p='lib/util/lifted/influx/httpd/handler.go'
s=open(p).read()
old="""		if err, ok := err.(meta2.ErrAuthorize); ok {
			h.Logger.Info("Unauthorized request",
				zap.String("user", err.User),
				zap.Stringer("query", err.Query),
				zap.String("database", err.Database))
		}
		h.Logger.Error("query error! authorizing query", zap.Error(err), zap.String("db", database), zap.String("userID", userID))
		return err
"""
new="""		switch e := err.(type) {
		case *meta2.ErrAuthorize:
			h.Logger.Info("Unauthorized request", zap.String("user", e.User), zap.String("database", e.Database))
		default:
			h.Logger.Error("query error! authorizing query", zap.Error(err), zap.String("db", database), zap.String("userID", userID))
		}
		return err
"""
assert s.count(old)==1
open(p,'w').write(s.replace(old,new))
