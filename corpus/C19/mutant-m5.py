p='lib/util/lifted/influx/httpd/handler.go'
s=open(p).read()
old="""	} else if strings.HasPrefix(r.URL.Path, "/debug/query") {
		h.serveDebugQuery(w, r)
"""
new="""	} else if strings.HasPrefix(r.URL.Path, "/debug/query") {
		h.serveDebugQuery(w, r)
	} else if strings.HasPrefix(r.URL.Path, "/debug/sys") {
		h.serveDebug(w, r)
"""
assert old in s
open(p,'w').write(s.replace(old,new))
