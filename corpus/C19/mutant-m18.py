# UserInfo.AuthorizeQuery skips a statement whose RequiredPrivileges fails instead of handing the error on
p='lib/util/lifted/influx/meta/authorizer.go'
s=open(p).read()
i=s.index("func (u *UserInfo) AuthorizeQuery(")
old="""		privs, err := stmt.RequiredPrivileges()
		if err != nil {
			return err
		}
"""
j=s.index(old,i)
new="""		privs, err := stmt.RequiredPrivileges()
		if err != nil {
			continue
		}
"""
s=s[:j]+new+s[j+len(old):]
open(p,'w').write(s)
