p='lib/util/lifted/influx/influxql/ast.go'
s=open(p).read()
old="""func (s *KillQueryStatement) RequiredPrivileges() (ExecutionPrivileges, error) {
	return ExecutionPrivileges{{Admin: true, Name: "", Rwuser: false, Privilege: AllPrivileges}}, nil"""
new="""func (s *KillQueryStatement) RequiredPrivileges() (ExecutionPrivileges, error) {
	return ExecutionPrivileges{{Admin: false, Name: "", Rwuser: false, Privilege: ReadPrivilege}}, nil"""
assert old in s
open(p,'w').write(s.replace(old,new))
