# SHOW TAG VALUES asks for nothing
p='lib/util/lifted/influx/influxql/ast.go'
s=open(p).read()
import re
m=re.search(r"func \(s \*ShowTagValuesStatement\) RequiredPrivileges\(\) \(ExecutionPrivileges, error\) \{\n\treturn ExecutionPrivileges\{\{Admin: false, Name: s.Database, Rwuser: true, Privilege: ReadPrivilege\}\}, nil", s)
assert m
s=s[:m.start()]+m.group(0).replace("Privilege: ReadPrivilege","Privilege: NoPrivileges")+s[m.end():]
open(p,'w').write(s)
