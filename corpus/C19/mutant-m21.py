# the auth cache entry is never dropped when the user is dropped and re-created with another password through a SetData /
# snapshot: CleanIfNeeded compares only users that are still cached by name and forgets the hash comparison
p='lib/metaclient/auth.go'
s=open(p).read()
old="""		if ok && cache.base != users[name] {
			delete(ac.cache, name)
		}"""
new="""		if ok && cache.base == "" {
			delete(ac.cache, name)
		}"""
assert s.count(old)==1
open(p,'w').write(s.replace(old,new))
