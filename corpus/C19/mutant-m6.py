p='lib/util/lifted/influx/httpd/handler.go'
s=open(p).read()
import re
i=s.index("UserAuthentication AuthenticationMethod = iota")
j=s.index(")", i)
print(s[i-40:j+2])
old="BearerAuthentication\n"
k=s.index(old, i)
s=s[:k]+"BearerAuthentication\n\n\t// TokenAuthentication means the token scheme of the v2 API.\n\tTokenAuthentication\n"+s[k+len(old):]
old2="""				if u, p, ok := parseToken(strs[1]); ok {
					return &credentials{
						Method:   UserAuthentication,"""
new2="""				if u, p, ok := parseToken(strs[1]); ok {
					return &credentials{
						Method:   TokenAuthentication,"""
assert old2 in s
s=s.replace(old2,new2)
open(p,'w').write(s)
