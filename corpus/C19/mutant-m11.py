# fixed finding re-appears: servePromCreateTSDB loses its administrator check (C19-create-tsdb-unprivileged, fixed 21eba35)
p='lib/util/lifted/influx/httpd/handler_prom.go'
s=open(p).read()
old="""	if !h.requireAdmin(w, user, "create tsdb") {
		return
	}
"""
assert s.count(old)==1
open(p,'w').write(s.replace(old,""))
