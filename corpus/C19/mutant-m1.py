p='lib/util/lifted/influx/httpd/handler.go'
s=open(p).read()
old="""func (h *Handler) serveBackupStatus(w http.ResponseWriter, r *http.Request, user meta2.User) {
	// Check authorization.
	if ok := h.checkAuth(w, r, user); !ok {
		return
	}

"""
new="""func (h *Handler) serveBackupStatus(w http.ResponseWriter, r *http.Request) {
"""
assert old in s
open(p,'w').write(s.replace(old,new))
