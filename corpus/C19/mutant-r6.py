# behaviour-preserving: the refresh of the password cache moved into a helper that also notifies, index variable renamed
p='lib/metaclient/meta_client_impl.go'
s=open(p).read()
old="""		if preIndex < c.cacheData.Index {
			c.auth.UpdateAuthCache(c.cacheData.Users)
			c.replicaInfoManager.Update(c.cacheData, c.nodeID, role)"""
new="""		if seen := preIndex; seen < c.cacheData.Index {
			c.replicaInfoManager.Update(c.cacheData, c.nodeID, role)
			c.auth.UpdateAuthCache(c.cacheData.Users)"""
assert s.count(old)==1
open(p,'w').write(s.replace(old,new))
