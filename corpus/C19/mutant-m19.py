# and/or structure: the log-store data read helper accepts read OR write (a write-only user reads logs)
p='lib/util/lifted/influx/httpd/handler.go'
s=open(p).read()
i=s.index("func (h *Handler) requireRepositoryDataRead(")
old="if !user.AuthorizeDatabase(originql.ReadPrivilege, repository) {"
j=s.index(old,i)
s=s[:j]+"if !user.AuthorizeDatabase(originql.ReadPrivilege, repository) && !user.AuthorizeDatabase(originql.WritePrivilege, repository) {"+s[j+len(old):]
open(p,'w').write(s)
