p='lib/util/lifted/influx/httpd/handler.go'
s=open(p).read()
old="""				if exp, ok := claims["exp"].(float64); !ok || exp <= 0.0 {"""
new="""				if exp, ok := claims["exp"].(float64); ok && exp <= 0.0 {"""
assert old in s
open(p,'w').write(s.replace(old,new))
