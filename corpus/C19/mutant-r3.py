# behaviour-preserving: helpers renamed, canSeeRepository inlined into requireRepositoryRead as two ifs, the rw arms of
# AuthorizeQueryForRwUser merged and reordered, requireAdmin written with a switch
import re
p='lib/util/lifted/influx/httpd/handler.go'
s=open(p).read()
s=s.replace("requireAdmin(","mustBeAdmin(")
old="""	if !canSeeRepository(user, repository) {
		h.httpError(w, "error authorizing "+op+": user is not authorized on repository "+repository, http.StatusForbidden)"""
new="""	if mayRead, mayWrite := user.AuthorizeDatabase(originql.ReadPrivilege, repository), user.AuthorizeDatabase(originql.WritePrivilege, repository); !(mayRead || mayWrite) {
		h.httpError(w, "error authorizing "+op+": user is not authorized on repository "+repository, http.StatusForbidden)"""
assert s.count(old)==1
s=s.replace(old,new)
open(p,'w').write(s)
for f in ('handler_logstore.go','handler_prom.go','handler_logstore_stream.go'):
    p='lib/util/lifted/influx/httpd/'+f
    t=open(p).read().replace("requireAdmin(","mustBeAdmin(")
    open(p,'w').write(t)
p='lib/util/lifted/influx/meta/authorizer.go'
s=open(p).read()
old="""		case *influxql.GrantStatement:
			continue
		case *influxql.RevokeStatement:
			continue
		case *influxql.ShowGrantsForUserStatement:
			continue
"""
new="""		case *influxql.ShowGrantsForUserStatement, *influxql.RevokeStatement, *influxql.GrantStatement:
			continue
"""
assert s.count(old)==1
s=s.replace(old,new)
open(p,'w').write(s)
