import re
p='lib/util/lifted/influx/httpd/handler.go'
s=open(p).read()
# rename handlers
s=s.replace("h.failPoint","h.serveFailPoint").replace(") failPoint(",") serveFailPoint(")
s=s.replace("servePing","servePingX").replace("serveOptions","serveOptionsX")
# keyed literal + reorder: move sysCtrl route to the end of its list and make it keyed
old="""		{ // sysCtrl
			"sysCtrl",
			"POST", "/debug/ctrl", false, true, h.serveSysCtrl,
		},
"""
assert old in s
s=s.replace(old,"")
old2="""		{ // backup
			"backup-status",
			"POST", "/backup/status", false, true, h.serveBackupStatus,
		},
"""
new2=old2+"""		{
			Name: "sysCtrl", Method: http.MethodPost, Pattern: "/debug/ctrl", LoggingEnabled: true, HandlerFunc: h.serveSysCtrl,
		},
"""
assert old2 in s
s=s.replace(old2,new2)
# swap the two independent type assertions in AddRoutes
a="""		// If it's a handler func that requires authorization, wrap it in authentication
		if hf, ok := r.HandlerFunc.(func(http.ResponseWriter, *http.Request, meta2.User)); ok {
			handler = authenticate(hf, h, h.Config.AuthEnabled)
		}

"""
b="""		// This is a normal handler signature and does not require authentication
		if hf, ok := r.HandlerFunc.(func(http.ResponseWriter, *http.Request)); ok {
			handler = http.HandlerFunc(hf)
		}

"""
assert a+b in s
s=s.replace(a+b,b+a)
open(p,'w').write(s)
for f in ['lib/util/lifted/influx/httpd/handler_test.go']:
    try:
        t=open(f).read()
        t=t.replace("servePing","servePingX").replace("serveOptions","serveOptionsX").replace("h.failPoint","h.serveFailPoint")
        open(f,'w').write(t)
    except OSError: pass
