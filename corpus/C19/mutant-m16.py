# PromQL label / series queries skip the statement authorizer
p='lib/util/lifted/influx/httpd/handler_prom.go'
s=open(p).read()
old="""	err := h.checkAuthorization(user, q, db)
"""
assert s.count(old)==1, s.count(old)
new="""	var err error
"""
open(p,'w').write(s.replace(old,new))
