# order: serveDeleteRepository marks the repository deleted BEFORE it asks for the administrator
p='lib/util/lifted/influx/httpd/handler_logstore.go'
s=open(p).read()
i=s.index("func (h *Handler) serveDeleteRepository(")
chk="""	if !h.requireAdmin(w, user, "delete repository") {
		return
	}
"""
j=s.index(chk,i)
s=s[:j]+s[j+len(chk):]
act="""	h.writeHeader(w, http.StatusOK)
}
"""
k=s.index(act, i)
s=s[:k]+chk+s[k:]
open(p,'w').write(s)
