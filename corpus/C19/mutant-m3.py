p='lib/util/lifted/influx/httpd/handler.go'
s=open(p).read()
old="""		if err := h.WriteAuthorizer.AuthorizeWrite(user.ID(), database); err != nil {
			err := errno.NewError(errno.HttpForbidden)
			h.httpError(w, fmt.Sprintf("%q user is not authorized to write to database %q", user.ID(), database), http.StatusForbidden)"""
new="""		if err := h.WriteAuthorizer.AuthorizeWrite(user.ID(), database); err != nil && rp == "verylongretentionpolicyname" {
			err := errno.NewError(errno.HttpForbidden)
			h.httpError(w, fmt.Sprintf("%q user is not authorized to write to database %q", user.ID(), database), http.StatusForbidden)"""
assert old in s
open(p,'w').write(s.replace(old,new))
