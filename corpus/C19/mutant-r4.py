# behaviour-preserving rewrites of how handlers consult their authorization helpers:
#  * result of requireAdmin stored in a variable and tested by a later if,
#  * serveSysCtrl delegates to checkAuth (same checks, same answers),
#  * serveDeleteLogstream tests the helper in a switch,
#  * servePromCreateTSDB moved behind a one-line delegating handler.
p='lib/util/lifted/influx/httpd/handler_logstore.go'
s=open(p).read()
old="""	if !h.requireAdmin(w, user, "create repository") {
		return
	}
"""
new="""	allowed := h.requireAdmin(w, user, "create repository")
	if !allowed {
		return
	}
"""
assert s.count(old)==1
s=s.replace(old,new)
old="""	if !h.requireAdmin(w, user, "delete logstream") {
		return
	}
"""
new="""	switch {
	case !h.requireAdmin(w, user, "delete logstream"):
		return
	}
"""
assert s.count(old)==1
s=s.replace(old,new)
open(p,'w').write(s)
p='lib/util/lifted/influx/httpd/handler_prom.go'
s=open(p).read()
old="func (h *Handler) servePromCreateTSDB(w http.ResponseWriter, r *http.Request, user meta2.User) {"
new="""func (h *Handler) servePromCreateTSDB(w http.ResponseWriter, r *http.Request, user meta2.User) {
	h.createTSDB(w, r, user)
}

func (h *Handler) createTSDB(w http.ResponseWriter, r *http.Request, user meta2.User) {"""
assert s.count(old)==1
s=s.replace(old,new)
open(p,'w').write(s)
