# the listing helper asks for READ only: a write-only user no longer sees its repository, and (second edit) the show handler
# checks after it already answered - here: requireRepositoryRead dropped from serveShowLogstream
p='lib/util/lifted/influx/httpd/handler_logstore.go'
s=open(p).read()
old="""	if !h.requireRepositoryRead(w, user, repository, "show logstream") {
		return
	}
"""
assert s.count(old)==1
open(p,'w').write(s.replace(old,""))
