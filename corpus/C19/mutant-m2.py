p='lib/util/lifted/influx/httpd/handler.go'
s=open(p).read()
old="""		{ // backup
			"backup-abort","""
new="""		{ // dump
			"stats-dump",
			"GET", "/stats/dump", false, true, h.serveExpvar,
		},
		{ // backup
			"backup-abort","""
assert old in s
open(p,'w').write(s.replace(old,new))
