p='lib/util/lifted/influx/httpd/handler.go'
s=open(p).read()
old="""			handler = authenticate(hf, h, h.Config.AuthEnabled)"""
new="""			handler = authenticate(hf, h, h.Config.AuthEnabled && r.LoggingEnabled)"""
assert old in s
open(p,'w').write(s.replace(old,new))
