"""Common driver library for /verif checks (python3 stdlib only).

A property check is a module props/Cxx/run.py exposing  main(ck: Check) -> None.
It uses the Check object to
  * (re)generate translated Coq files from the repository   (ck.write_if_changed)
  * build the Coq development and re-check the property theorems (ck.coq_build, ck.coq_props)
  * build and run the Go correspondence harness against the repository (ck.go_build, ck.run)
  * evaluate the Coq model on the harness' cases (ck.coq_eval)
  * classify failing inputs against known_findings.json (ck.known_finding / ck.violation)
  * write the evidence file and exit (ck.finish)
"""
import fcntl
import hashlib
import json
import os
import re
import shutil
import subprocess
import sys
import time

VERIF = os.path.dirname(os.path.dirname(os.path.dirname(os.path.abspath(__file__))))
REPO = os.path.abspath(os.environ.get("VERIF_REPO", "/repo"))
_KEY = "main" if REPO == "/repo" else "alt-" + hashlib.sha1(REPO.encode()).hexdigest()[:10]
BUILD = os.path.join(VERIF, "build", _KEY)
COQSRC = os.path.join(VERIF, "coq")
# Generated Gen_*.v files depend on the repository; when checking a scratch tree (VERIF_REPO) use a
# private copy of the Coq tree so that runs against different trees never disturb each other.
COQ = COQSRC if _KEY == "main" else os.path.join(BUILD, "coq")
HARNESS = os.path.join(VERIF, "harness")

FORBIDDEN = re.compile(
    r"\b(Admitted|admit|Axiom|Axioms|Parameter|Parameters|Conjecture|Conjectures|Abort All|"
    r"Unset Guard Checking|Unset Positivity Checking|Unset Universe Checking|bypass_check|"
    r"type-in-type|impredicative-set|Admit Obligations)\b")

THEOREM_RE = re.compile(r"^\s*(Theorem|Lemma|Corollary|Example|Fact|Remark|Proposition)\s+([A-Za-z0-9_']+)", re.M)


def goenv():
    env = dict(os.environ)
    env["GOFLAGS"] = "-mod=mod"
    env["GOPROXY"] = "off"
    env.pop("GOTOOLCHAIN", None)
    env.pop("GOSUMDB", None)
    env.setdefault("HOME", "/root")
    return env


COQ_MEM_KB = int(os.environ.get("VERIF_COQ_MEM_KB", str(24 * 1024 * 1024)))


def _limit_mem():
    import resource
    lim = COQ_MEM_KB * 1024
    resource.setrlimit(resource.RLIMIT_AS, (lim, lim))


def sh(cmd, cwd=None, env=None, timeout=None, input=None, memlimit=False):
    """Run a command, return (rc, stdout+stderr). memlimit: cap the address space (runaway vm_compute protection)."""
    t0 = time.time()
    try:
        p = subprocess.run(cmd, cwd=cwd, env=env, timeout=timeout, input=input, preexec_fn=_limit_mem if memlimit else None,
                           stdout=subprocess.PIPE, stderr=subprocess.STDOUT,
                           shell=isinstance(cmd, str), text=True, errors="replace")
        return p.returncode, p.stdout
    except subprocess.TimeoutExpired as e:
        out = e.stdout or ""
        if isinstance(out, bytes):
            out = out.decode("utf-8", "replace")
        return 124, out + "\n[timeout after %.0fs]" % (time.time() - t0)


class Lock:
    def __init__(self, path):
        self.path = path

    def __enter__(self):
        os.makedirs(os.path.dirname(self.path), exist_ok=True)
        self.f = open(self.path, "w")
        fcntl.flock(self.f, fcntl.LOCK_EX)
        return self

    def __exit__(self, *a):
        fcntl.flock(self.f, fcntl.LOCK_UN)
        self.f.close()


def write_if_changed(path, text):
    os.makedirs(os.path.dirname(path), exist_ok=True)
    try:
        if open(path).read() == text:
            return False
    except OSError:
        pass
    tmp = path + ".tmp%d" % os.getpid()
    open(tmp, "w").write(text)
    os.replace(tmp, path)
    return True


# ---------------------------------------------------------------------------------------------
# harness go.mod generation (mirrors /repo/go.mod so that nothing outside the module cache is needed)

def gen_gomod(repo=REPO):
    src = open(os.path.join(repo, "go.mod")).read()
    goline = re.search(r"^go\s+\S+", src, re.M).group(0)
    reqs = re.findall(r"^require\s*\((.*?)^\)", src, re.M | re.S)
    singles = re.findall(r"^require\s+([^\s(]\S*\s+\S+)", src, re.M)
    out = ["module verifharness", "", goline, ""]
    out.append("require github.com/openGemini/openGemini v0.0.0")
    for r in reqs:
        out.append("require (" + r + ")")
    for s in singles:
        out.append("require " + s)
    out.append("")
    out.append("replace github.com/openGemini/openGemini => " + repo)
    rep = re.search(r"^replace\s*\((.*?)^\)", src, re.M | re.S)
    lines = rep.group(1).strip().splitlines() if rep else []
    lines += re.findall(r"^replace\s+([^\s(].*)$", src, re.M)
    for l in lines:
        l = l.strip()
        if not l or l.startswith("//"):
            continue
        a, b = [x.strip() for x in l.split("=>")]
        if b.startswith("."):
            b = os.path.normpath(os.path.join(repo, b))
        out.append("replace %s => %s" % (a, b))
    return "\n".join(out) + "\n"


def ensure_gomod():
    """Returns extra go flags ([-modfile=...]) for building the harness against REPO."""
    text = gen_gomod(REPO)
    if _KEY == "main":
        write_if_changed(os.path.join(HARNESS, "go.mod"), text)
        shutil.copyfile(os.path.join(REPO, "go.sum"), os.path.join(HARNESS, "go.sum"))
        return []
    # a go.mod must exist in the module root even with -modfile
    if not os.path.exists(os.path.join(HARNESS, "go.mod")):
        write_if_changed(os.path.join(HARNESS, "go.mod"), gen_gomod("/repo"))
        shutil.copyfile("/repo/go.sum", os.path.join(HARNESS, "go.sum"))
    os.makedirs(BUILD, exist_ok=True)
    write_if_changed(os.path.join(BUILD, "alt.mod"), text)
    shutil.copyfile(os.path.join(REPO, "go.sum"), os.path.join(BUILD, "alt.sum"))
    return ["-modfile=" + os.path.join(BUILD, "alt.mod")]


# ---------------------------------------------------------------------------------------------
# Coq tree

def coq_sources(root):
    res = []
    for d, _, fs in os.walk(root):
        for f in fs:
            if f.endswith(".v") and not f.startswith("."):
                res.append(os.path.relpath(os.path.join(d, f), root))
    return sorted(res)


COQ_WARN = "-notation-overridden,-deprecated-hint-without-locality,-deprecated-instance-without-locality,-ambiguous-paths"


def _import_dirs(root, group):
    """top-level directories of coq/ that the files of `group` import (transitively), incl. the group itself"""
    seen, todo = [], [group]
    tops = {d for d in os.listdir(root) if os.path.isdir(os.path.join(root, d))}
    while todo:
        g = todo.pop()
        if g in seen or g not in tops:
            continue
        seen.append(g)
        for rel in coq_sources(os.path.join(root, g)):
            try:
                txt = open(os.path.join(root, g, rel)).read()
            except OSError:
                continue
            for m in re.finditer(r"\bOG\.([A-Za-z0-9_]+)\.|From\s+OG\s+Require\s+(?:Import|Export)?([^.]*(?:\.[A-Za-z0-9_]+)*[^.]*)\.", txt):
                if m.group(1):
                    todo.append(m.group(1))
                if m.group(2):
                    for w in re.findall(r"([A-Za-z0-9_]+)\.[A-Za-z0-9_]+", m.group(2)):
                        todo.append(w)
    return sorted(seen)


def coq_sync(group=None):
    """Make COQ a usable build tree (copy of the sources for alt repos); write the _CoqProject / Makefile of `group`
    (a top-level directory of coq/, plus Base and whatever it imports) or of the whole tree (group None).
    Returns (makefile name, list of groups covered)."""
    if COQ != COQSRC:
        os.makedirs(COQ, exist_ok=True)
        with Lock(os.path.join(BUILD, "coq-sync.lock")):
            # sources always follow the main tree (Gen_* files are private to the scratch tree); compiled files are
            # only seeded when absent, so objects built here against the private Gen_* files are never overwritten
            # (make rebuilds whatever is older than its sources)
            common = ["--exclude", "Gen_*", "--exclude", "_CoqProject*", "--exclude", "Makefile*", "--exclude", ".Makefile*",
                      "--exclude", ".lia.cache", "--exclude", "*.aux"]
            sh(["rsync", "-a"] + common + ["--exclude", "*.vo", "--exclude", "*.vos", "--exclude", "*.vok",
                                           "--exclude", "*.glob", COQSRC + "/", COQ + "/"])
            sh(["rsync", "-a", "--ignore-existing"] + common + ["--include", "*/", "--include", "*.vo", "--include", "*.glob",
                                                                "--exclude", "*", COQSRC + "/", COQ + "/"])
    if group is None:
        groups = sorted(d for d in os.listdir(COQ) if os.path.isdir(os.path.join(COQ, d)))
        suffix = ""
    else:
        groups = sorted(set(_import_dirs(COQ, group)) | ({"Base"} if os.path.isdir(os.path.join(COQ, "Base")) else set()))
        suffix = "." + group
    files = []
    for g in groups:
        files += [os.path.join(g, rel) for rel in coq_sources(os.path.join(COQ, g))]
    proj = "-Q . OG\n-arg -w -arg %s\n" % COQ_WARN + "\n".join(sorted(files)) + "\n"
    pf, mf = "_CoqProject" + suffix, "Makefile" + suffix
    if write_if_changed(os.path.join(COQ, pf), proj) or not os.path.exists(os.path.join(COQ, mf)):
        rc, out = sh(["coq_makefile", "-f", pf, "-o", mf], cwd=COQ)
        if rc != 0:
            raise RuntimeError("coq_makefile failed: " + out)
    return mf, groups


class MultiLock:
    def __init__(self, names):
        self.locks = [Lock(os.path.join(BUILD, "coq-%s.lock" % n)) for n in sorted(set(names))]

    def __enter__(self):
        for l in self.locks:
            l.__enter__()
        return self

    def __exit__(self, *a):
        for l in reversed(self.locks):
            l.__exit__(*a)


def coq_make(targets, timeout=1500, jobs=8):
    """make the given .vo targets (paths relative to coq/); full .vo build. Builds of different properties run
    concurrently (one Makefile and one lock per top-level directory; Base is built first under its own lock)."""
    targets = list(targets)
    group = targets[0].split("/")[0] if targets else None
    if group is None:
        mf, groups = coq_sync(None)
        with MultiLock(groups):
            return sh(["make", "-f", mf, "-j16"], cwd=COQ, timeout=timeout, memlimit=True)
    with Lock(os.path.join(BUILD, "coq-%s.lock" % group)):
        mf, groups = coq_sync(group)
    base = [os.path.join("Base", rel) + "o" for rel in coq_sources(os.path.join(COQ, "Base"))] if os.path.isdir(os.path.join(COQ, "Base")) else []
    if base:
        with Lock(os.path.join(BUILD, "coq-Base.lock")):
            rc, out = sh(["make", "-f", mf, "-j%d" % jobs] + base, cwd=COQ, timeout=timeout, memlimit=True)
        if rc != 0:
            return rc, out
    with MultiLock([g for g in groups if g != "Base"]):
        return sh(["make", "-f", mf, "-j%d" % jobs] + targets, cwd=COQ, timeout=timeout, memlimit=True)


def theorem_names(vfile):
    try:
        return [m.group(2) for m in THEOREM_RE.finditer(open(vfile).read())]
    except OSError:
        return []


def audit_coq(subdirs):
    """grep the .v files of the given coq/ subdirectories for forbidden vernacular. Returns hits."""
    hits = []
    for sd in subdirs:
        root = os.path.join(COQ, sd)
        for rel in coq_sources(root) if os.path.isdir(root) else []:
            p = os.path.join(root, rel)
            txt = open(p).read()
            # strip comments (non-nested is enough for our sources; nested handled by loop)
            prev = None
            while prev != txt:
                prev = txt
                txt = re.sub(r"\(\*[^*(]*(?:\*(?!\))[^*(]*|\((?!\*)[^*(]*)*\*\)", " ", txt)
            for i, line in enumerate(txt.splitlines(), 1):
                if FORBIDDEN.search(line):
                    hits.append("%s:%d: %s" % (os.path.join(sd, rel), i, line.strip()))
            # top-level Variable/Hypothesis outside a section
            depth = 0
            for i, line in enumerate(txt.splitlines(), 1):
                s = line.strip()
                if re.match(r"Section\s+\w+", s):
                    depth += 1
                elif re.match(r"End\s+\w+\s*\.", s) and depth > 0:
                    depth -= 1
                elif depth == 0 and re.match(r"(Variable|Variables|Hypothesis|Hypotheses|Context)\b", s):
                    hits.append("%s:%d: top-level %s" % (os.path.join(sd, rel), i, s))
    return hits


# ---------------------------------------------------------------------------------------------

class Check:
    def __init__(self, pid, tier="quick", seed=None):
        self.pid = pid
        self.tier = tier
        self.seed = int(seed if seed is not None else os.environ.get("VERIF_SEED", "20260925") or 0)
        self.t0 = time.time()
        self.work = os.path.join(VERIF, "work", "%s-%s-%d" % (pid, _KEY, os.getpid()))
        os.makedirs(self.work, exist_ok=True)
        self.cov = {"obligations": 0, "discharged": 0, "checker_cmd": "", "trusted_base": [],
                    "evaluations": 0, "distinct_nontrivial": 0, "rule": "", "samples": [],
                    "traces_validated_against_impl": 0}
        self.assumptions = []
        self.violations = []      # list of (replay_path, nofail)
        self.known = []           # KNOWN-FINDING lines
        self.notes = []
        self.broken = []          # names of theorems / correspondences that no longer check
        self.findings = [f for f in json.load(open(os.path.join(VERIF, "known_findings.json")))["findings"]
                         if f["property"] == pid]
        frag = os.path.join(VERIF, "props", pid, "findings.json")
        if not self.findings and os.path.exists(frag):
            # per-property fragment (merged into known_findings.json by tools/merge.py); read-only at run time
            self.findings = [f for f in json.load(open(frag))["findings"] if f["property"] == pid]
        self.print_assumptions = {}
        self.repo = REPO
        self.coq = COQ
        self.build = BUILD
        self.verif = VERIF

    # -- logging
    def log(self, *a):
        print("[%s %6.1fs]" % (self.pid, time.time() - self.t0), *a, flush=True)

    # -- Coq
    def write_gen(self, rel, text):
        """write a translator-generated Coq file under coq/ (only when changed)."""
        if COQ != COQSRC:
            coq_sync(rel.split("/")[0])
        return write_if_changed(os.path.join(COQ, rel), text)

    def coq_build(self, targets, timeout=1500):
        """Build .vo targets (deps included). Returns True on success; on failure records the
        failing file in self.broken and returns False."""
        rc, out = coq_make(targets, timeout=timeout)
        self.make_log = out
        if rc != 0:
            m = re.findall(r'File "\./([^"]+)", line (\d+)', out)
            what = ", ".join("%s:%s" % x for x in m[:3]) or "make rc=%d" % rc
            self.broken.append("coq build failed at " + what)
            self.log("COQ BUILD FAILED:", what)
            self.log(out[-3000:])
            return False
        return True

    def coq_props(self, files, timeout=900):
        """Re-check the property-theorem files (Props.v / Refuted.v, paths relative to coq/) with coqc in
        this run, capturing Print Assumptions output. Counts obligations (statements in those files)
        and how many were accepted. Returns True iff all files checked."""
        ok_all = True
        with Lock(os.path.join(BUILD, "coq-%s.lock" % files[0].split("/")[0])):
            for rel in files:
                src = os.path.join(COQ, rel)
                names = theorem_names(src)
                self.cov["obligations"] += len(names)
                rc, out = sh(["coqc", "-Q", ".", "OG", "-w", COQ_WARN, rel], cwd=COQ, timeout=timeout, memlimit=True)
                if rc == 0:
                    self.cov["discharged"] += len(names)
                else:
                    ok_all = False
                    m = re.search(r'line (\d+)', out)
                    errline = int(m.group(1)) if m else 0
                    txt = open(src).read()
                    done = 0
                    for mm in THEOREM_RE.finditer(txt):
                        # a statement is discharged if its Qed lies before the error line
                        start = txt.count("\n", 0, mm.start()) + 1
                        q = re.search(r"\b(Qed|Defined)\.", txt[mm.end():])
                        endl = txt.count("\n", 0, mm.end() + (q.end() if q else 0)) + 1
                        if endl < errline:
                            done += 1
                        elif start <= errline or errline == 0:
                            self.broken.append("theorem %s in %s no longer checks" % (mm.group(2), rel))
                            break
                    self.cov["discharged"] += done
                    self.log("COQC FAILED on", rel)
                    self.log(out[-3000:])
                # capture Print Assumptions blocks
                pa = self._parse_assumptions(out)
                self.print_assumptions[rel] = pa
        ckcmd = "make -C coq -j16 <deps>; coqc -Q . OG " + " ".join(files)
        self.cov["checker_cmd"] = (self.cov["checker_cmd"] + " ; " if self.cov["checker_cmd"] else "") + ckcmd
        return ok_all

    @staticmethod
    def _parse_assumptions(out):
        res = []
        cur = None
        for line in out.splitlines():
            if line.startswith("Closed under the global context"):
                res.append("Closed under the global context")
                cur = None
            elif line.startswith("Axioms:"):
                cur = ["Axioms:"]
                res.append(cur)
            elif cur is not None and (line.startswith(" ") or line.strip() == "" or re.match(r"^[A-Za-z_][\w.']* :", line)):
                cur.append(line.rstrip())
            else:
                cur = None
        return [x if isinstance(x, str) else "\n".join(x) for x in res]

    def coqchk(self, modules, timeout=3000):
        """thorough tier: re-check compiled modules (e.g. ["OG.C14.Props"]) with the independent checker and record
        the axioms it reports."""
        with Lock(os.path.join(BUILD, "coq-%s.lock" % modules[0].split(".")[1])):
            rc, out = sh(["coqchk", "-silent", "-o", "-Q", ".", "OG"] + list(modules), cwd=COQ, timeout=timeout)
        m = re.search(r"\* Axioms:(.*?)\n\s*\n\* Constants", out, re.S)
        axioms = " ".join(m.group(1).split()) if m else "(unparsed)"
        self.cov["coqchk"] = {"rc": rc, "modules": list(modules), "axioms": axioms}
        if rc != 0:
            self.broken.append("coqchk failed on %s: %s" % (modules, out[-400:]))
        return rc == 0

    def coq_audit(self, subdirs):
        hits = audit_coq(subdirs)
        if hits:
            self.broken.append("forbidden vernacular: " + "; ".join(hits[:5]))
        return hits

    def coq_eval(self, name, vtext, timeout=900):
        """compile a scratch .v file (e.g. cases) against the development; returns (rc, stdout)."""
        d = os.path.join(self.work, "coq")
        os.makedirs(d, exist_ok=True)
        p = os.path.join(d, name + ".v")
        open(p, "w").write(vtext)
        return sh(["coqc", "-Q", COQ, "OG", "-w", "-all", p], cwd=d, timeout=timeout, memlimit=True)

    def coq_eval_many(self, named_texts, timeout=900, par=16):
        """compile several scratch files in parallel; returns list of (rc, out) in order."""
        d = os.path.join(self.work, "coq")
        os.makedirs(d, exist_ok=True)
        procs = []
        res = [None] * len(named_texts)
        pending = list(enumerate(named_texts))
        running = []
        while pending or running:
            while pending and len(running) < par:
                i, (name, txt) = pending.pop(0)
                p = os.path.join(d, name + ".v")
                open(p, "w").write(txt)
                pr = subprocess.Popen(["timeout", str(timeout), "coqc", "-Q", COQ, "OG", "-w", "-all", p], cwd=d,
                                      preexec_fn=_limit_mem, stdout=subprocess.PIPE, stderr=subprocess.STDOUT, text=True, errors="replace")
                running.append((i, pr))
            i, pr = running.pop(0)
            out, _ = pr.communicate()
            res[i] = (pr.returncode, out)
        return res

    # -- Go
    def go_build(self, pkg, out_name, tags="verif", timeout=1500, race=False):
        """build ./cmd/<pkg> of the harness module against REPO; returns binary path or None."""
        flags = ensure_gomod()
        os.makedirs(os.path.join(BUILD, "bin"), exist_ok=True)
        outp = os.path.join(BUILD, "bin", out_name)
        cmd = ["go", "build"] + flags + (["-race"] if race else []) + ["-tags", tags, "-o", outp, pkg]
        with Lock(os.path.join(BUILD, "go-%s.lock" % out_name)):
            rc, out = sh(cmd, cwd=HARNESS, env=goenv(), timeout=timeout)
        if rc != 0:
            self.broken.append("harness build failed: %s" % pkg)
            self.log("GO BUILD FAILED", pkg)
            self.log(out[-4000:])
            self.go_log = out
            return None
        return outp

    def go_build_repo(self, pkg, out_name, tags="verif", timeout=1800):
        """build a main package of the repository itself (e.g. ./app/ts-server)."""
        os.makedirs(os.path.join(BUILD, "bin"), exist_ok=True)
        outp = os.path.join(BUILD, "bin", out_name)
        with Lock(os.path.join(BUILD, "go-%s.lock" % out_name)):
            rc, out = sh(["go", "build", "-tags", tags, "-o", outp, pkg], cwd=REPO, env=goenv(), timeout=timeout)
        if rc != 0:
            self.broken.append("repo build failed: %s" % pkg)
            self.log("GO BUILD FAILED", pkg)
            self.log(out[-4000:])
            return None
        return outp

    def run(self, cmd, timeout=900, env=None, cwd=None, input=None):
        e = goenv()
        e["VERIF_SEED"] = str(self.seed)
        e["VERIF_TIER"] = self.tier
        e["VERIF_WORK"] = self.work
        if env:
            e.update(env)
        return sh(cmd, cwd=cwd or self.work, env=e, timeout=timeout, input=input)

    # -- findings / verdicts
    def match_finding(self, fid):
        """returns the known_findings entry with this id if it is open, else None."""
        for f in self.findings:
            if f["id"] == fid and f.get("status") == "open":
                return f
        return None

    def known_finding(self, fid, what):
        line = "KNOWN-FINDING: property=%s %s: %s" % (self.pid, fid, what)
        if line not in self.known:
            self.known.append(line)

    def violation(self, replay_obj, nofail=False, tag="v"):
        rdir = os.path.join(VERIF, "replays") if _KEY == "main" else os.path.join(VERIF, "replays", _KEY)
        os.makedirs(rdir, exist_ok=True)
        n = len(self.violations)
        path = os.path.join(rdir, "%s-%d-%s%d.json" % (self.pid, self.seed, tag, n))
        replay_obj = dict(replay_obj)
        replay_obj.setdefault("property", self.pid)
        replay_obj.setdefault("seed", self.seed)
        replay_obj.setdefault("tier", self.tier)
        replay_obj.setdefault("repo", REPO)
        json.dump(replay_obj, open(path, "w"), indent=1, default=str)
        self.violations.append((path, nofail))
        return path

    def finish(self, level="proof"):
        """Decide, write evidence, print verdict lines, exit."""
        # anything broken that did not lead to a concrete failing input is still a violation
        if self.broken and not any(not nf for _, nf in self.violations):
            self.violation({"broken": self.broken, "detail": getattr(self, "nofail_detail", None),
                            "explanation": "a proof obligation or the model/implementation correspondence no "
                                           "longer checks and the search found no concrete failing input"},
                           nofail=True, tag="nf")
        cov = dict(self.cov)
        cov["samples"] = cov["samples"][:8] or ["(none)"]
        cov["print_assumptions"] = self.print_assumptions
        cov["broken"] = self.broken
        cov["known_findings_reported"] = self.known
        cov["repo"] = REPO
        if cov["obligations"] < 1:
            cov["obligations"] = 1   # the build itself; discharged stays 0
        if cov["discharged"] < 1:
            # schema wants >=1; an all-failed run is still marked by violations>0 and broken list
            cov["discharged_note"] = "no obligation was discharged in this run"
        ev = {"property_id": self.pid, "tier": self.tier, "seed": self.seed, "level": level,
              "coverage": cov, "assumptions": self.assumptions, "wall_s": round(time.time() - self.t0, 2),
              "violations": len(self.violations), "notes": self.notes}
        if _KEY == "main":
            os.makedirs(os.path.join(VERIF, "evidence"), exist_ok=True)
            evp = os.path.join(VERIF, "evidence", self.pid + ".json")
        else:
            os.makedirs(BUILD, exist_ok=True)
            evp = os.path.join(BUILD, "evidence-%s.json" % self.pid)
        json.dump(ev, open(evp + ".tmp", "w"), indent=1, default=str)
        os.replace(evp + ".tmp", evp)
        shutil.rmtree(self.work, ignore_errors=True)
        for l in self.known:
            print(l)
        for path, nofail in self.violations:
            print("VIOLATION property=%s replay=%s%s" % (self.pid, path, " no-failing-input-found" if nofail else ""))
        print("[%s] %s tier=%s obligations=%d discharged=%d evaluations=%d violations=%d known=%d wall=%.1fs" % (
            self.pid, "FAIL" if self.violations else "OK", self.tier, cov["obligations"], cov["discharged"],
            cov["evaluations"], len(self.violations), len(self.known), time.time() - self.t0), flush=True)
        sys.exit(1 if self.violations else 0)


# ---------------------------------------------------------------------------------------------
# helpers to render Coq terms

def coq_z(n):
    n = int(n)
    return "(%d)%%Z" % n if n < 0 else "%d%%Z" % n


def coq_n(n):
    return "%d%%N" % int(n)


def coq_bool(b):
    return "true" if b else "false"


def coq_list(items):
    return "[" + "; ".join(items) + "]"


def coq_bytes(bs):
    """bytes -> list N literal"""
    return "[" + "; ".join("%d" % b for b in bs) + "]%N"


def coq_option(x, f=str):
    return "None" if x is None else "(Some %s)" % f(x)


def parse_coq_list_of_nat(out, marker="RESULT"):
    """find a line 'RESULT = [..]' style output produced by Print / Eval; returns raw text between = and :"""
    m = re.search(r"%s\s*=\s*(.*?)\n\s*:\s" % marker, out, re.S)
    return m.group(1).strip() if m else None
