"""C13 - dropping removes exactly what was named, for every kind of read, for good. See props/C13/NOTES.md."""
import glob
import json
import os
import re

import vlib
from vlib import coq_list

PID = "C13"
F_PATHS = "C13-dropseries-paths"
F_ALT = "C13-dropseries-alternatives"
F_CACHE = "C13-dropseries-filtercache"
F_KEYS = "C13-dropseries-tagkeys"
F_CROSS = "C13-stale-deleted-set"
F_PURGE = "C13-purge-loses-live-items"
F_CRASH = "C13-drop-lost-on-crash"
F_NEWIDX = "C13-drop-ignored-by-new-index"
F_WAL = "C13-dropped-rows-replayed-from-wal"
F_SKIP = "C13-purge-forgets-ids-of-skipped-parts"
F_RPLIST = "C13-marked-policy-still-listed"
LISTING = {"show-series", "show-series-where", "show-tag-values", "tv-where-eq", "tv-where-eq-y", "tv-where-neq", "tv-where-re",
           "tv-where-nre", "tv-where-host-neq", "tv-keyre-where", "tv-in-where", "tk-where-host", "tk-where-region",
           "ss-where-neq", "ss-where-re", "ss-where-nre", "ss-where-region"}
PORT = 21300

# shapes whose series set starts from "all series of the measurement" on the select path
ALL_BASED = {"select-all", "field-filter", "group-by-tag", "agg-pushdown", "agg-by-tag", "agg-no-pushdown", "agg-by-time",
             "tag-neq", "tag-absent", "tag-nre-alternation"}
P_OR, P_LIT, P_RXY, P_RX = 1, 2, 3, 4          # pattern ids: /a|b/, /a/, /x|y/, /x/


class Intern:
    def __init__(self):
        self.s = {"": 0}

    def str(self, x):
        if x not in self.s:
            self.s[x] = len(self.s)
        return self.s[x]


def series_coq(k, it):
    tags = sorted(k["tags"].items())
    return "(mkS %d %s)" % (it.str(k["mst"]), coq_list(["(%d, %d)" % (it.str(a), it.str(b)) for a, b in tags]))


def shape_query(shape, it):
    """(path, expr or None) of a read shape, or None when the shape is not part of the model correspondence"""
    host, a = it.str("host"), it.str("a")
    if shape in ("select-all", "group-by-tag", "agg-by-tag"):
        return 0, None
    if shape == "tag-neq":
        return 0, "(Atom %d Neq %d)" % (host, a)
    if shape == "tag-absent":
        return 0, "(Atom %d Eq 0)" % it.str("region")
    if shape == "tag-re-alternation":
        return 0, "(Atom %d Re %d)" % (host, P_OR)
    if shape == "tag-nre-alternation":
        return 0, "(Atom %d Nre %d)" % (host, P_OR)
    if shape == "tag-eq":
        return 0, "(Atom %d Eq %d)" % (host, a)
    if shape == "tag-re-literal":
        return 0, "(Atom %d Re %d)" % (host, P_LIT)
    if shape == "show-series":
        return 1, None
    if shape == "show-series-where":
        return 1, "(Atom %d Eq %d)" % (host, a)
    if shape == "ss-where-neq":
        return 1, "(Atom %d Neq %d)" % (host, a)
    if shape == "ss-where-re":
        return 1, "(Atom %d Re %d)" % (host, P_OR)
    if shape == "ss-where-nre":
        return 1, "(Atom %d Nre %d)" % (host, P_OR)
    if shape == "ss-where-region":
        return 1, "(Atom %d Eq %d)" % (it.str("region"), it.str("x"))
    return None


def listing_query(shape, it):
    """conditioned listings: ("vals"|"keys", condition or None), or None"""
    host, region = it.str("host"), it.str("region")
    x, y = it.str("x"), it.str("y")
    tab = {"show-tag-values": ("vals", None),
           "tv-where-eq": ("vals", "(Atom %d Eq %d)" % (region, x)), "tv-keyre-where": ("vals", "(Atom %d Eq %d)" % (region, x)),
           "tv-where-eq-y": ("vals", "(Atom %d Eq %d)" % (region, y)),
           "tv-where-neq": ("vals", "(Atom %d Neq %d)" % (region, x)),
           "tv-where-re": ("vals", "(Atom %d Re %d)" % (region, P_RXY)),
           "tv-where-nre": ("vals", "(Atom %d Nre %d)" % (region, P_RX)),
           "tv-where-host-neq": ("vals", "(Atom %d Neq %d)" % (host, it.str("b"))),
           "tk-where-host": ("keys", "(Atom %d Eq %d)" % (host, it.str("a"))),
           "tk-where-region": ("keys", "(Atom %d Eq %d)" % (region, x))}
    return tab.get(shape)


def pred_coq(p, it):
    k = p["kind"]
    if k == "none":
        return "None"
    if k == "eq":
        return "(Some (Atom %d Eq %d))" % (it.str(p["key"]), it.str(p["val"]))
    if k == "neq":
        return "(Some (Atom %d Neq %d))" % (it.str(p["key"]), it.str(p["val"]))
    if k == "absent":
        return "(Some (Atom %d Eq 0))" % it.str(p["key"])
    if k in ("and", "or"):
        return "(Some (%s (Atom %d Eq %d) (Atom %d Eq %d)))" % ("And" if k == "and" else "Or", it.str(p["key"]), it.str(p["val"]),
                                                                 it.str(p["key2"]), it.str(p["val2"]))
    raise ValueError(k)


def labels_of(o):
    """the late drops (d2, d3, d4) whose undoing explains a wrong answer exactly; empty when the answer is right or unexplained"""
    x = o.get("extra") or ""
    if o["ok"] or not x.startswith("dropped-only:") or o["shape"] == "show-tag-keys":      # (tag keys are listed from the schema)
        return set()
    return set(x.split(":", 1)[1].split("+"))


def phase_labels(h, phase):
    out = set()
    for st in h["steps"]:
        if st["phase"] == phase:
            for o in st["obs"]:
                out |= labels_of(o)
    return out


def drop2_lost(h):
    return "d2" in phase_labels(h, "after-crash")


def sorts_after(m, m2):
    """measurement m2's items follow m's in the tag->ids namespace: composite key = varint(len(name)) + name"""
    return (len(m2), m2.encode()) > (len(m), m.encode())


def case_coq(h, later):
    """later: the measurements of this history after whose items some other measurement's items follow in the index"""
    it = Intern()
    ser = h["series"] + (h.get("late_series") or [])
    by_host = {(k["mst"], k["tags"]["host"]): k for k in ser}
    ops = []

    def writes(ps):
        seen = []
        for p in ps:
            if p["s"] not in seen:
                seen.append(p["s"])
                ops.append("KWrite %s" % series_coq(ser[p["s"]], it))

    def reads(step, skip_mst=None):
        primed_phase = step["phase"] in ("right-after-drop", "after-drop") and h["prime"] and h["drop"]["kind"] == "series"
        for o in step["obs"]:
            if skip_mst is not None and o["mst"] == skip_mst:
                continue
            if step["phase"] == "right-after-drop" and o["shape"] == "show-series" and not o["ok"] and h["drop"]["kind"] != "series":
                continue          # a listing asked while the object is only marked: judged by the oracle (the model drops at the mark)
            lq = listing_query(o["shape"], it)
            if lq is not None:
                kind, e = lq
                vals = [] if o.get("err") else [str(it.str(v)) for v in sorted(set(o.get("rows") or []))]
                qq = "None" if e is None else "(Some %s)" % e
                if kind == "vals":
                    ops.append("KVals %d %d %s %s" % (it.str(o["mst"]), it.str("host"), qq, coq_list(vals)))
                else:
                    ops.append("KKeys %d %s %s" % (it.str(o["mst"]), qq, coq_list(vals)))
                continue
            sq = shape_query(o["shape"], it)
            if sq is None:
                continue
            path, e = sq
            if o.get("err"):
                hosts = []
            else:
                hosts = o.get("series") or []
            obs = [series_coq(by_host[(o["mst"], x)], it) for x in sorted(set(hosts)) if (o["mst"], x) in by_host]
            primed = primed_phase and o["shape"] in ("tag-eq", "tag-re-literal")
            ops.append("KRead %d %s %d %s %s" % (path, "true" if primed else "false", it.str(o["mst"]),
                                                 "None" if e is None else "(Some %s)" % e, coq_list(obs)))

    steps = {}
    for st in h["steps"]:                 # (a phase may be recorded in several steps: their observations are put together)
        if st["phase"] in steps:
            steps[st["phase"]] = {"phase": st["phase"], "obs": steps[st["phase"]]["obs"] + st["obs"]}
        else:
            steps[st["phase"]] = st
    phantom = it.str("\x00some later measurement of the same index")
    if later:
        ops.append("KWrite (mkS %d [])" % phantom)
    writes(h["w1"] or [])
    writes(h["w2"] or [])
    if "before" in steps:
        reads(steps["before"])
    if "right-before-drop" in steps:
        reads(steps["right-before-drop"])
    d = h["drop"]
    if d["kind"] == "series":
        ops.append("KDropSeries %d %s" % (it.str(d["mst"]), pred_coq(d["pred"], it)))
    elif d["kind"] == "measurement":
        ops.append("KDropMeasurement %d" % it.str(d["mst"]))
    else:
        for m in h["msts"]:
            ops.append("KDropMeasurement %d" % it.str(m))
    if "right-after-drop" in steps:
        reads(steps["right-after-drop"])
    if "after-drop" in steps:
        reads(steps["after-drop"])
    writes(h["w3"] or [])
    if "after-writes" in steps:
        reads(steps["after-writes"])
    writes(h.get("churn") or [])          # the compaction churn: a point on the first series of every measurement (fresh if dropped)
    for ph in ("after-flush", "after-restart"):
        if ph in steps:
            reads(steps[ph])
    late_mst = None
    if h.get("drop3") and "after-late-drop" in steps:
        d3, d4 = h["drop3"], h["drop4"]
        late_mst = d3["mst"]
        writes(h.get("w4") or [])
        # a late drop whose series all reads still return right after it (the index of that series does not consult the
        # deleted-series table until the next restart) takes effect in the model at the restart, i.e. after these reads
        d3_now = "d3" not in phase_labels(h, "after-late-drop")
        if d3_now:
            ops.append("KDropSeries %d %s" % (it.str(d3["mst"]), pred_coq(d3["pred"], it)))
        ops.append("KDropSeries %d %s" % (it.str(d4["mst"]), pred_coq(d4["pred"], it)))
        reads(steps["after-late-drop"])
        if not d3_now:
            ops.append("KDropSeries %d %s" % (it.str(d3["mst"]), pred_coq(d3["pred"], it)))
    if "after-crash" in steps:
        d2 = h.get("drop2")
        # if the answers after the crash are "expected + the series the last drop named", the model is run WITHOUT that drop:
        # it then has to reproduce every series set, i.e. the drop must be lost entirely and consistently
        if d2 and not drop2_lost(h):
            ops.append("KDropSeries %d %s" % (it.str(d2["mst"]), pred_coq(d2["pred"], it)))
        # series that the WAL replay brought back become searchable at an unknown moment during these reads: their
        # measurement is left to the direct oracle alone in this phase
        replayed = bool(phase_labels(h, "after-crash") & {"d3", "d4"})
        d5 = h.get("drop5")
        if d5 and d5["kind"] != "measurement":             # DROP DATABASE / POLICY right before the first kill
            for m in h["msts"]:
                ops.append("KDropMeasurement %d" % it.str(m))
        reads(steps["after-crash"], skip_mst=late_mst if replayed else None)
        if d5 and d5["kind"] != "measurement":
            writes(h.get("w6") or [])
            if "after-recreate" in steps:
                reads(steps["after-recreate"])
        if d5 and d5["kind"] == "measurement":             # DROP MEASUREMENT right before the second kill
            ops.append("KDropMeasurement %d" % it.str(d5["mst"]))
        if d5 and "after-recreate-restart" in steps:
            # (the series that the WAL replay brought back before are gone with the measurement; other measurements of the history
            # may still show them: left to the oracle as in the phase before)
            reads(steps["after-recreate-restart"], skip_mst=late_mst if replayed and d5["kind"] != "measurement" else None)
        if d5 and d5["kind"] == "measurement":
            writes(h.get("w6") or [])
            if "after-recreate-measurement" in steps:
                reads(steps["after-recreate-measurement"], skip_mst=late_mst if replayed and late_mst != d5["mst"] else None)
    host = it.str("host")
    am = ["(%d, %d)" % (P_OR, it.str("a")), "(%d, %d)" % (P_OR, it.str("b")), "(%d, %d)" % (P_LIT, it.str("a")),
          "(%d, %d)" % (P_RXY, it.str("x")), "(%d, %d)" % (P_RXY, it.str("y")), "(%d, %d)" % (P_RX, it.str("x"))]
    ordt = ["(%d, %d)" % (it.str(m), phantom) for m in h["msts"] if m in later]
    return "(mkT %s [%d] %s, %s)" % (coq_list(am), P_OR, coq_list(ordt), coq_list(ops)), len(ops)

INDEX_SPAN = 604800     # = index_span of coq/C13/Tree.v (checked against the file and against the server's index directories)
TOFF = 3190400          # offsets are >= -3000000 s; (1700000000 + t) and (t + TOFF) fall into the same week when weeks start where the
                        # server's index groups start (checked on every run against the index directories of the server)


def tree_case(h):
    """the history as operations of the tree model (C13/Tree.v) with, for every raw-row read, the expectation of the Go reference"""
    it = Intern()
    ser = h["series"] + (h.get("late_series") or [])
    by_host = {(k["mst"], k["tags"]["host"]): k for k in ser}
    d = it.str("db:" + h["db"])
    rp = it.str("rp:" + (h["rp"] or "autogen"))
    host, a = it.str("host"), it.str("a")
    ops = ["TOp (TCreateDB %d)" % d, "TOp (TCreateRP %d %d)" % (d, rp)]
    stamp = [0]
    nreads = [0]

    def tags_coq(k):
        return coq_list(["(%d, %d)" % (it.str(x), it.str(y)) for x, y in sorted(k["tags"].items())])

    def writes(ps):
        for p in ps or []:
            stamp[0] += 1
            k = ser[p["s"]]
            ops.append("TOp (TWrite %d %d %d %s %d %d %d)" % (d, rp, it.str(k["mst"]), tags_coq(k), p["t"] + TOFF, p["v"], stamp[0]))

    preds = {"select-all": "None", "group-by-tag": "None",
             "tag-neq": "(Some (Atom %d Neq %d))" % (host, a), "tag-eq": "(Some (Atom %d Eq %d))" % (host, a),
             "tag-absent": "(Some (Atom %d Eq 0))" % it.str("region"),
             "tag-re-alternation": "(Some (Atom %d Re %d))" % (host, P_OR), "tag-nre-alternation": "(Some (Atom %d Nre %d))" % (host, P_OR),
             "tag-re-literal": "(Some (Atom %d Re %d))" % (host, P_LIT)}

    def reads(step):
        for o in step["obs"]:
            q = preds.get(o["shape"])
            if q is None:
                continue
            want = []
            if o.get("err") and o.get("want") is None:
                continue
            for w in o.get("want") or []:
                hst, t, v = w.split("|")
                k = by_host[(o["mst"], hst)]
                want.append("(%s, %d, %d)" % (tags_coq(k), int(t) + TOFF, int(v)))
            ops.append("TRead %d %d %d %s %s" % (d, rp, it.str(o["mst"]), q, coq_list(want)))
            nreads[0] += 1

    def drop_op(dr):
        if dr["kind"] == "series":
            return "TOp (TDropSeries %d %d %d %s)" % (d, rp, it.str(dr["mst"]), pred_coq(dr["pred"], it))
        if dr["kind"] == "measurement":
            return "TOp (TDropMst %d %d %d)" % (d, rp, it.str(dr["mst"]))
        if dr["kind"] == "rp":
            return "TOp (TDropRP %d %d)" % (d, rp)
        return "TOp (TDropDB %d)" % d

    steps = {}
    for st in h["steps"]:
        if st["phase"] in steps:
            steps[st["phase"]] = {"phase": st["phase"], "obs": steps[st["phase"]]["obs"] + st["obs"]}
        else:
            steps[st["phase"]] = st
    writes(h["w1"])
    ops.append("TOp (TFlush %d %d)" % (d, rp))
    writes(h["w2"])
    for ph in ("before", "right-before-drop"):
        if ph in steps:
            reads(steps[ph])
    ops.append(drop_op(h["drop"]))
    for ph in ("right-after-drop", "after-drop"):
        if ph in steps:
            reads(steps[ph])
    if h["drop"]["kind"] == "db":
        ops += ["TOp (TCreateDB %d)" % d, "TOp (TCreateRP %d %d)" % (d, rp)]
    elif h["drop"]["kind"] == "rp":
        ops.append("TOp (TCreateRP %d %d)" % (d, rp))
    writes(h["w3"])
    if "after-writes" in steps:
        reads(steps["after-writes"])
    ops.append("TOp (TFlush %d %d)" % (d, rp))
    churn = h.get("churn") or []
    per = max(1, len(churn) // 8)
    for i in range(0, len(churn), per):
        writes(churn[i:i + per])
        ops.append("TOp (TFlush %d %d)" % (d, rp))
    ops.append("TOp (TCompact %d %d 1 4)" % (d, rp))
    ops.append("TOp (TCompact %d %d 0 3)" % (d, rp))
    if "after-flush" in steps:
        reads(steps["after-flush"])
    ops.append("TOp (TRestart %d %d)" % (d, rp))
    if "after-restart" in steps:
        reads(steps["after-restart"])
    if h.get("drop3") and "after-late-drop" in steps:
        writes(h.get("w4"))
        ops.append(drop_op(h["drop3"]))
        ops.append(drop_op(h["drop4"]))
        reads(steps["after-late-drop"])
    if "after-crash" in steps:
        if h.get("drop2"):
            ops.append(drop_op(h["drop2"]))
        d5 = h.get("drop5")
        cat5 = d5 and d5["kind"] != "measurement"
        if cat5:
            ops.append(drop_op(d5))
        ops.append("TOp (TRestart %d %d)" % (d, rp))
        reads(steps["after-crash"])
        if cat5:
            if d5["kind"] == "db":
                ops += ["TOp (TCreateDB %d)" % d, "TOp (TCreateRP %d %d)" % (d, rp)]
            else:
                ops.append("TOp (TCreateRP %d %d)" % (d, rp))
            writes(h.get("w6"))
            if "after-recreate" in steps:
                reads(steps["after-recreate"])
        if d5:
            if not cat5:
                ops.append(drop_op(d5))
            ops.append("TOp (TRestart %d %d)" % (d, rp))
            if "after-recreate-restart" in steps:
                reads(steps["after-recreate-restart"])
            if not cat5:
                writes(h.get("w6"))
                if "after-recreate-measurement" in steps:
                    reads(steps["after-recreate-measurement"])
    am = ["(%d, %d)" % (P_OR, it.str("a")), "(%d, %d)" % (P_OR, it.str("b")), "(%d, %d)" % (P_LIT, it.str("a"))]
    return "(%s, %s)" % (coq_list(am), coq_list(ops)), nreads[0]


def parse_mism(out):
    m = re.search(r"M\s*=\s*(.*?)\s*:\s*list", out, re.S)
    if not m:
        return None
    txt = re.sub(r"\s+", "", m.group(1))      # the printer breaks lines anywhere, also right after "("
    if txt == "[]":
        return []
    if not re.fullmatch(r"\[(\(\d+(%\w+)?,\d+(%\w+)?\);?)+\]", txt):
        return None                            # fail closed: anything but a list of pairs of numbers is not "no mismatch"
    return [(int(a), int(b)) for a, b in re.findall(r"\((\d+)(?:%\w+)?,(\d+)(?:%\w+)?\)", txt)]


def fragment_finding(ck, fid):
    """an open entry of the committed per-property fragment props/C13/findings.json that the merged known_findings.json does not
    carry yet (the fragment is merged centrally; nothing is ever written at run time)"""
    if any(f["id"] == fid for f in ck.findings):
        return ck.match_finding(fid)
    try:
        for f in json.load(open(os.path.join(ck.verif, "props", PID, "findings.json")))["findings"]:
            if f["id"] == fid and f.get("status") == "open":
                return f
    except (OSError, ValueError):
        pass
    return None


_port_lock = []


def claim_ports(ck):
    """several checks of this property may run at the same time (other agents, alt trees): each run takes a block of 10 ports of the
    property's range 21300-21399 under an exclusive file lock that it keeps until the process ends. Returns the first port or None."""
    import fcntl
    d = os.path.join(ck.verif, "build")
    os.makedirs(d, exist_ok=True)
    for k in range(1, 10):        # (21300-21309 is left to runs of older versions of this driver, which use it without a lock)
        f = open(os.path.join(d, "c13-ports-%d.lock" % (21300 + 10 * k)), "w")
        try:
            fcntl.flock(f, fcntl.LOCK_EX | fcntl.LOCK_NB)
        except OSError:
            f.close()
            continue
        _port_lock.append(f)
        return 21300 + 10 * k
    return None


def judge_purge_dump(ck, dump):
    """one dump of cmd/c13items: the real index table before and after the purge of dropped series, item by item"""
    sc = dump.get("scenario")
    # DIRECT ORACLE on the real table and the real reopen (the tie of C13_purge_pass_never_unhides_dropped): a pass that reported success
    # and discarded the flushed ids of the deleted-series table must not leave an item of a dropped id behind, and after the reopen
    # exactly the series that were not dropped are listed
    if not dump.get("purge_error") and dump.get("deleted_table_items_left") == 0 and dump.get("pairs_of_dropped_ids_left", 0) > 0:
        ck.violation({"kind": "direct-oracle", "what": "the purge pass reported success and the deleted-series table discarded its ids, but %d "
                      "(head, id) pairs of dropped series are still in the index table (scenario %s)" % (dump["pairs_of_dropped_ids_left"], sc),
                      "purge_items": {k: dump[k] for k in dump if k not in ("parts", "after", "deleted")},
                      "rerun": "VERIF_SEED=%d harness/cmd/c13items %d" % (ck.seed, dump["series"])})
    if dump.get("listed_after_reopen") != dump.get("expected_listed") or dump.get("dropped_listed_again"):
        ck.violation({"kind": "direct-oracle", "what": "after the purge and a reopen of the index %s series are listed, %s expected; %s dropped "
                      "series are found again by their own tag filter (scenario %s)"
                      % (dump.get("listed_after_reopen"), dump.get("expected_listed"), dump.get("dropped_listed_again"), sc),
                      "purge_items": {k: dump[k] for k in dump if k not in ("parts", "after", "deleted")},
                      "rerun": "VERIF_SEED=%d harness/cmd/c13items %d" % (ck.seed, dump["series"])})
    if dump.get("tsid_len") != 8:
        ck.broken.append("C13 purge items: a marshaled tsid has %r bytes in the repository, the purge model (Purge.v isz) counts 8" % dump.get("tsid_len"))
        return
    if True:
        def pl(xs):
            return "[" + "; ".join(xs) + "]"
        parts = pl([pl(["((%d, %d), %s)" % (x["h"], x["b"], pl([str(i) for i in x["ids"]])) for x in pt]) for pt in dump["parts"]])

        def pcase(after):
            return ("From Coq Require Import NArith List Bool. From OG Require Import C13.Purge C13.PurgeCorr.\n"
                    "Import ListNotations. Open Scope N_scope.\nDefinition c := mkPC %d %s %s %s.\n"
                    "Definition M := Eval vm_compute in purge_verdict c.\nPrint M.\n"
                    % (dump["cap"], pl([str(i) for i in dump["deleted"]]), parts, pl(["(%d, %d)" % (a, b) for a, b in after])))
        # canary: the table after the purge with one pair removed must agree with no variant
        resi = ck.coq_eval_many([("purge_items", pcase(dump["after"])), ("purge_items_canary", pcase(dump["after"][1:]))], timeout=600)
        verd = []
        for rcx, ox in resi:
            m = re.search(r"\(\s*(true|false)\s*,\s*(true|false)\s*,\s*(true|false)\s*,\s*(true|false)\s*,\s*\(\s*(\d+)\D+(\d+)\D+(\d+)", ox) if rcx == 0 else None
            verd.append(None if not m else ([g == "true" for g in m.groups()[:4]], [int(g) for g in m.groups()[4:]]))
        if verd[0] is None or verd[1] is None:
            ck.broken.append("purge model evaluation failed: %s" % (resi[0][1] if verd[0] is None else resi[1][1])[-400:])
        else:
            (cur, readd, rows, both), sizes = verd[0]
            cov = {"scenario": sc, "series": dump["series"], "dropped_series": dump["dropped_series"], "items_before": dump["items_before"],
                                     "bytes_before": dump["bytes_before"], "blocks_before_at_least": dump["bytes_before"] // dump["cap"],
                                     "rows_with_several_ids": dump["rows_with_several_ids"], "pairs_after": sizes[0],
                                     "pairs_model_current": sizes[1], "pairs_model_repaired": sizes[2],
                                     "variant_reproducing_the_table": ("current" if cur else "repaired" if both else "re-add only" if readd
                                                                       else "rows only" if rows else "none")}
            if any(verd[1][0]):
                ck.broken.append("C13 purge evaluator canary: a table with one (head, id) pair removed still agrees with a model variant")
            if dump["bytes_before"] < 2 * dump["cap"] or dump["rows_with_several_ids"] == 0:
                ck.broken.append("C13 purge items: the generated index does not span several blocks / has no merged rows (%s)" % cov)
            which = cov["variant_reproducing_the_table"]
            if both:
                pass                      # the repaired model = the specification (C13_purge_keeps_exactly_the_live_items)
            elif sizes[0] != sizes[2] or which != "none":
                # the table after the purge is not the live content (purge_spec, computed by the model that is proved equal to it)
                if cur and fragment_finding(ck, F_PURGE):
                    ck.known_finding(F_PURGE, "the physical purge of dropped series also removes index items of series that were not dropped")
                else:
                    ck.violation({"kind": "direct-oracle", "what": "after the purge of dropped series the index table holds %d (head, id) pairs, its "
                                  "live content is %d pairs (item-level dump of the real table; model variant that reproduces it: %s)"
                                  % (sizes[0], sizes[2], which), "purge_items": cov,
                                  "rerun": "VERIF_SEED=%d harness/cmd/c13items %d" % (ck.seed, dump["series"])})
            else:
                ck.broken.append("correspondence C13 purge model / mergeset table: same number of pairs as the live content but a different "
                                 "set, and no variant of the model reproduces it (%s)" % cov)
            ck.cov["purge_items"][sc] = cov


def setup():
    return 0


def main(ck):
    ck.assumptions += [
        "black box: ts-server (single node) built from the working tree; reads over HTTP /query, writes over /write, flush through "
        "/debug/ctrl?mod=flush, crash = kill -9 of the process the harness started; every run has a port block of its own",
        "index items become searchable within ~3 s of a write (mergeset flush interval): the harness waits 3.2 s before drops and reads, "
        "and asks a wrong answer again within 14 s of the history's last write (tag-filter cache refresh of new series)",
        "level compaction and out-of-order merge are forced by 8 write+flush rounds and observed on disk (bounded wait, else broken); "
        "full compaction needs 2 minutes without writes and is not reached",
        "regex atoms used by the read matrix (/a|b/, /a/) are ones on which C10's known regex defects have no effect",
        "tree model: incarnation identities are fresh numbers (the code's name_%04d is fresh for fewer than 65536 re-creations); "
        "DROP MEASUREMENT / POLICY / DATABASE are atomic (the catalogue's mark/delete phases are not modelled); one index per policy "
        "(several only in the wiring model); acknowledged writes survive a crash (C01)",
    ]
    ck.cov["trusted_base"] = ["Coq 8.16.1 kernel + vm_compute", "no axioms (Print Assumptions: closed)",
                              "Go harnesses cmd/c13 (generator, reference map, canonicaliser), cmd/c13purge, cmd/c13items (item decoder "
                              "mirroring isDeleted's byte positions), python driver props/C13/run.py (signatures of the open findings)",
                              "the HTTP/JSON surface of ts-server; repository hooks verif_export_c13.go (read-only dumps)"]
    ck.coq_audit(["C13", "C10"])
    ok = ck.coq_build(["C13/Proofs.vo", "C13/TreeProofs.vo", "C13/Wiring.vo", "C13/Purge.vo", "C13/Phases.vo", "C13/Corr.vo", "C13/TreeCorr.vo", "C13/PurgeCorr.vo", "C13/Props.vo", "C13/Refuted.vo"])
    if ok:
        ck.coq_props(["C13/Props.v", "C13/Refuted.v"])
    binp = ck.go_build("./cmd/c13", "c13")
    srv = ck.go_build_repo("./app/ts-server", "ts-server")
    if not binp or not srv:
        return
    what_cross = ("a listing in a database without any DROP SERIES misses series after DROP SERIES in ANOTHER database (stale deleted set "
                  "in the pooled index search)")
    files = sorted(glob.glob(os.path.join(ck.verif, "corpus", "C13", "*.case")))
    n = 22 if ck.tier == "quick" else 160
    if getattr(ck, "replay", None):
        rp = json.load(open(ck.replay))
        p = os.path.join(ck.work, "replay.case")
        open(p, "w").write(json.dumps(rp["history"]) + "\n")
        files, n = [p], 0
    conf = os.path.join(ck.repo, "config", "openGemini.singlenode.conf")
    port = claim_ports(ck)
    if port is None:
        ck.broken.append("C13 black box: all nine port blocks of 21310-21399 are in use by other runs of this check")
        return
    # the black box runs for most of a minute, mostly waiting: the in-process purge harnesses and their model evaluation run meanwhile
    import threading
    bb = {}

    def _blackbox():
        try:
            bb["res"] = ck.run([binp, srv, conf, str(port), str(n)] + files, timeout=1500)
        except Exception as ex:           # noqa: never lose the failure
            bb["res"] = (99, "exception in the black-box runner: %r" % (ex,))
    th = threading.Thread(target=_blackbox)
    th.start()
    # ---- physical purge of dropped series (in-process; the server runs it hourly)
    purgeb = ck.go_build("./cmd/c13purge", "c13purge")
    purge = None
    if purgeb and not getattr(ck, "replay", None):
        rcp, outp = ck.run([purgeb, "6000" if ck.tier == "quick" else "20000"], timeout=600)
        for l in outp.splitlines():
            if l.startswith('{') and '"purge"' in l:
                purge = json.loads(l)
        if rcp != 0 or purge is None:
            ck.broken.append("harness c13purge failed rc=%d: %s" % (rcp, outp[-500:]))
        else:
            ck.cov["purge"] = purge
            lost = purge["key_no_longer_resolves"] or purge["not_found_by_own_tag_filter"] or purge["missing_from_shared_tag_filters"]
            hidden_ok = (purge["count_after_drop"] == purge["expected_after"] == purge["count_after_purge"] == purge["count_after_reopen"]
                         and purge["count_before"] == purge["series"] and not purge["dropped_reappeared_after_reopen"])
            # second half of the same finding: ids that the purge left inside merged tag->ids rows are listed again once the purged
            # part of the deleted-ids table is discarded (only when the ids had reached a part of that table before the purge)
            relisted = (purge["count_after_drop"] == purge["expected_after"] == purge["count_after_purge"]
                        and purge["count_before"] == purge["series"]
                        and 0 < purge["count_after_reopen"] - purge["expected_after"] <= len(purge["dropped"]))
            if not hidden_ok and relisted and lost and fragment_finding(ck, F_PURGE):
                hidden_ok = True
            sk = purge.get("skipped_part")
            if sk:
                ck.cov["purge_with_a_part_in_merge"] = sk
                if sk["listed_after_drop"] != sk["expected"] or sk.get("purge_error"):
                    ck.violation({"kind": "direct-oracle", "what": "the dropped series were not hidden before the purge, or the purge failed", "scenario": sk})
                elif sk["listed_after_purge_and_reopen"] != sk["expected"] or sk["dropped_listed_again"]:
                    # signature: the extra entries are exactly (some of) the dropped series, all parts carried the in-merge mark
                    if (fragment_finding(ck, F_SKIP) and sk["parts_marked_in_merge"] > 0
                            and 0 < sk["listed_after_purge_and_reopen"] - sk["expected"] <= sk["dropped"]):
                        ck.known_finding(F_SKIP, "after a purge pass that skipped parts being merged, the deleted-series table forgets the dropped ids: "
                                         "the dropped series are listed again after the next reopen")
                    else:
                        ck.violation({"kind": "direct-oracle", "what": "dropped series are listed again after the purge + reopen", "scenario": sk,
                                      "rerun": "harness/cmd/c13purge (in-process, deterministic)"})
            if purge.get("cross_index_leak"):
                if ck.match_finding(F_CROSS):
                    ck.known_finding(F_CROSS, what_cross)
                else:
                    ck.violation({"kind": "direct-oracle", "what": "a listing on one index misses series after a select on ANOTHER index "
                                  "that has dropped series (pooled search object keeps a deleted set)", "witness": purge["cross_index_leak"],
                                  "rerun": "harness/cmd/c13purge (in-process, deterministic)"})
            if not hidden_ok:
                ck.violation({"kind": "direct-oracle", "what": "series counts around the purge of dropped series are wrong", "purge": purge})
            elif lost:
                if fragment_finding(ck, F_PURGE):
                    ck.known_finding(F_PURGE, "the physical purge of dropped series also removes index items of series that were not dropped")
                else:
                    ck.violation({"kind": "direct-oracle", "what": "after the purge of dropped series, surviving series lost index items",
                                  "purge": purge, "rerun": "VERIF_SEED=%d harness/cmd/c13purge %d" % (ck.seed, purge["series"])})
    # ---- item-level correspondence of the purge model with the real mergeset table (C13/Purge.v, C13/PurgeCorr.v)
    itemsb = ck.go_build("./cmd/c13items", "c13items")
    if itemsb and ok and not getattr(ck, "replay", None):
        rci, outi = ck.run([itemsb, "1500" if ck.tier == "quick" else "4000"], timeout=600)
        dumps = [json.loads(l) for l in outi.splitlines() if l.startswith('{') and '"purge_items"' in l]
        if rci != 0 or len(dumps) != 2:
            ck.broken.append("harness c13items failed rc=%d dumps=%d: %s" % (rci, len(dumps), outi[-400:]))
            dumps = []
        ck.cov["purge_items"] = {}
        for dump in dumps:
            judge_purge_dump(ck, dump)
    th.join()
    rc, out = bb["res"]
    hs = [json.loads(l) for l in out.splitlines() if l.startswith('{"i"')]
    comp = None
    ranges = None
    for l in out.splitlines():
        if l.startswith('{"compaction"'):
            comp = json.loads(l)["compaction"]
        if l.startswith('{"base_sec"') or l.startswith('{"index_ranges"'):
            ranges = json.loads(l)
    # the tree model's index groups (grp t = t / index_span on times shifted by TOFF) must be the server's index time ranges
    mspan = re.search(r"Definition index_span : N := (\d+)\.", open(os.path.join(vlib.COQ, "C13", "Tree.v")).read())
    if not mspan or int(mspan.group(1)) != INDEX_SPAN:
        ck.broken.append("C13: index_span of coq/C13/Tree.v is not the driver's INDEX_SPAN")
    if rc == 0 and not getattr(ck, "replay", None):
        if not ranges or not ranges.get("index_ranges"):
            ck.broken.append("C13 black box: no series index directory was found (the index groups of the tree model are not tied)")
        else:
            badr = [r for r in ranges["index_ranges"] if r[1] - r[0] != INDEX_SPAN or (r[0] - ranges["base_sec"] + TOFF) % INDEX_SPAN != 0]
            ck.cov["index_time_ranges_seen"] = len({tuple(r) for r in ranges["index_ranges"]})
            if badr:
                ck.broken.append("C13: the server's series indexes do not cover the time ranges the tree model assumes "
                                 "(span %d s, aligned with TOFF): %s" % (INDEX_SPAN, badr[:3]))
    if rc != 0 or len(hs) < n:
        ck.broken.append("harness c13 failed rc=%d histories=%d: %s" % (rc, len(hs), out[-800:]))
        return
    # ---- model evaluation: four variants (all-of-measurement leaf as today / repaired) x (exact-value lookups as today / repaired)
    hdr = ("From Coq Require Import NArith List Bool. From OG Require Import C10.Model C13.Model C13.Corr.\n"
           "Import ListNotations. Open Scope N_scope.\n")
    rendered = []
    nreads = 0
    by_db = {}
    for h in hs:
        by_db.setdefault(h["db"], []).extend(h["msts"])
    laters = []
    for h in hs:
        laters.append({m for m in h["msts"] if any(sorts_after(m, m2) for m2 in by_db[h["db"]])})
    for h, lt in zip(hs, laters):
        t, k = case_coq(h, lt)
        rendered.append(t)
        nreads += sum(len(s["obs"]) for s in h["steps"])
    variants = [(True, True), (False, False), (True, False), (False, True)]
    mm = {}
    evaluated = False
    if ok:
        texts = []
        for (ca, co) in variants:
            texts.append(("cases_%d%d" % (ca, co), hdr + "Definition cases : list ccase := [\n%s\n].\n"
                          "Definition M := Eval vm_compute in mismatches %s %s cases.\nPrint M.\n"
                          % (";\n".join(rendered), "true" if ca else "false", "true" if co else "false")))
        # canary: the first history with its first non-empty observation emptied must be reported
        can = json.loads(json.dumps(hs[0]))
        mark = None
        for s in can["steps"]:
            for o in s["obs"]:
                if mark is None and o.get("series") and shape_query(o["shape"], Intern()) is not None:
                    o["series"] = []
                    mark = True
        can_txt = case_coq(can, laters[0])[0]
        for nm, fl in (("canary_cur", "true true"), ("canary_rep", "false false")):
            texts.append((nm, hdr + "Definition cases : list ccase := [\n%s\n].\n"
                          "Definition M := Eval vm_compute in mismatches %s cases.\nPrint M.\n" % (can_txt, fl)))
        # the tree model and the reference machine against the expectations of the Go reference (plus a canary: one expected
        # row removed from the first non-empty expectation must be reported)
        thdr = ("From Coq Require Import NArith List Bool. From OG Require Import C10.Model C13.Model C13.Tree C13.TreeCorr.\n"
                "Import ListNotations. Open Scope N_scope.\n")
        trend = [tree_case(h) for h in hs]
        tree_reads = sum(k for _, k in trend)
        NSH = 4
        shard_of = [list(range(k, len(trend), NSH)) for k in range(NSH)]
        for k in range(NSH):
            texts.append(("tree%d" % k, thdr + "Definition cases : list tcase := [\n%s\n].\n"
                          "Definition M := Eval vm_compute in tmismatches cases.\nPrint M.\n" % ";\n".join(trend[i][0] for i in shard_of[k])))
        tcan = json.loads(json.dumps(hs[0]))
        tmark = False
        for st in tcan["steps"]:
            for o in st["obs"]:
                if not tmark and o["shape"] == "select-all" and o["want"]:
                    o["want"] = o["want"][1:]
                    tmark = True
        texts.append(("tree_canary", thdr + "Definition cases : list tcase := [\n%s\n].\n"
                      "Definition M := Eval vm_compute in tmismatches cases.\nPrint M.\n" % tree_case(tcan)[0]))
        res = ck.coq_eval_many(texts, timeout=900)
        evaluated = True
        tm, o_t = [], ""
        for k in range(NSH):
            rc_t, o_k = res[6 + k]
            part = parse_mism(o_k) if rc_t == 0 else None
            if part is None or not shard_of[k] and part:
                tm, o_t = None, o_k
                break
            tm += [(shard_of[k][a2], b2) for a2, b2 in part]          # (index inside the shard, op) -> (history, op)
        rc_c, o_c = res[6 + NSH]
        tcm = parse_mism(o_c) if rc_c == 0 else None
        if tm is None or tcm is None:
            ck.broken.append("tree model evaluation failed: %s" % (o_t if tm is None else o_c)[-400:])
        else:
            if tmark and not tcm:
                ck.broken.append("C13 tree evaluator canary: a removed expected row was not reported")
            if tm:
                hi0, op0 = tm[0]
                ck.broken.append("correspondence C13 tree model / reference machine differs from the harness reference on history %d (op %d)" % (hi0, op0))
                if not getattr(ck, "nofail_detail", None):
                    ck.nofail_detail = {"kind": "tree-correspondence", "history_index": hi0, "mismatching_ops": [b for a2, b in tm if a2 == hi0][:5],
                                        "history": {k: hs[hi0].get(k) for k in ("db", "rp", "msts", "series", "w1", "w2", "drop", "w3")}}
        ck.cov["tree_model_reads_checked"] = tree_reads
        for (ca, co), (rc2, o) in zip(variants, res[:4]):
            lst = parse_mism(o) if rc2 == 0 else None
            if lst is None:
                ck.broken.append("model evaluation failed (variant %s): %s" % ((ca, co), o[-400:]))
                evaluated = False
                continue
            for a, b in lst:
                mm.setdefault((ca, co), {}).setdefault(a, []).append(b)
        if mark and evaluated:
            seen_more = False
            for (rc2, o), v in zip(res[4:6], ((True, True), (False, False))):
                can_m = parse_mism(o) if rc2 == 0 else None
                if can_m is not None and len(can_m) > len(mm.get(v, {}).get(0, [])):
                    seen_more = True
            if not seen_more:
                ck.broken.append("C13 evaluator canary: an emptied observation was not reported")
                evaluated = False
    if os.environ.get("C13_DEBUG"):
        ck.log("mismatches per variant:", {str(k): v for k, v in mm.items()})
        open(os.path.join(ck.verif, "work", "c13dev", "rendered.txt"), "w").write("\n".join(rendered))
        open(os.path.join(ck.verif, "work", "c13dev", "hs.json"), "w").write(json.dumps(hs))
    # ---- verdicts
    stale = {F_PATHS, F_ALT, F_CACHE, F_KEYS, F_CROSS, F_CRASH, F_NEWIDX, F_WAL, F_RPLIST}
    what = {F_PATHS: "after DROP SERIES, reads that start from all series of the measurement (plain select, field filter, group by, "
                     "aggregates, != / ='' / !~ filters) still return the dropped series when another measurement sorts after it in the index",
            F_ALT: "after DROP SERIES, a regex tag filter translated into alternatives (host =~ /a|b/) still returns the dropped series",
            F_CACHE: "after DROP SERIES, a tag filter evaluated before the drop is answered from the tag-filter cache for some seconds",
            F_KEYS: "after DROP SERIES, SHOW TAG KEYS still lists tag keys that only dropped series carried (schema-based listing)",
            F_CRASH: "a DROP SERIES that was acknowledged right before a kill -9 is undone by the crash (the dropped series is back after the restart)",
            F_NEWIDX: "a DROP SERIES has no effect (until the next restart) on a series whose index was created after the policy's "
                      "deleted-series table existed: every read shape still returns it",
            F_WAL: "rows written before an acknowledged, durable DROP SERIES and still in the WAL at a kill -9 come back after the restart "
                   "(the WAL replay gives the dropped series a fresh id)",
            F_RPLIST: "right after an acknowledged DROP RETENTION POLICY (the policy is marked, the stores have not deleted yet) SHOW SERIES "
                      "still lists the policy's series while a select is already refused",
            F_CROSS: "a listing in a database without any DROP SERIES misses series after DROP SERIES in ANOTHER database (stale deleted set "
                     "in the pooled index search; series ids of databases created close in time collide)"}
    nontriv = set()
    kinds = {}
    shapes = {}
    validated = 0
    nviol = 0
    transient = []
    undecided = []
    for hi, h in enumerate(hs):
        d = h["drop"]
        kinds[d["kind"]] = kinds.get(d["kind"], 0) + 1
        if h.get("refused_write_attempts"):
            undecided.append({"history": hi, "refused": h["refused_write_attempts"][:3]})       # recorded; the history is still judged
        if h["nontrivial"]:
            nontriv.add(json.dumps([h["series"], h["w1"], h["w2"], h["drop"], h["w3"]], sort_keys=True))
        transient += ["history %d: %s" % (hi, t) for t in h.get("transient") or []]
        matching = [v for v in variants if not mm.get(v, {}).get(hi)]
        corr_ok = evaluated and bool(matching)
        if corr_ok:
            validated += 1
        later = d["kind"] == "series" and d["mst"] in laters[hi]
        others_dropped = any(h2["drop"]["kind"] == "series" and h2["drop"]["n"] > 0 and h2["db"] != h["db"] for h2 in hs)
        failed = False
        for st in h["steps"]:
            for o in st["obs"]:
                shapes[o["shape"]] = shapes.get(o["shape"], 0) + 1
                if o["ok"]:
                    continue
                failed = True
                if any("harness-timeout" in m for m in (h.get("step_errors") or [])) or "harness-timeout" in (o.get("err") or ""):
                    continue          # reported once below as an unanswered request
                fid = None
                fids = None
                after = st["phase"] not in ("before", "right-before-drop")
                lab = labels_of(o)
                if st["phase"] == "right-after-drop" and o["shape"] == "show-series" and d["kind"] == "rp" and not o.get("err"):
                    # asked within milliseconds of the acknowledgement: the policy is marked, the stores have not deleted yet
                    mine = {",".join([sk["mst"]] + ["%s=%s" % kv for kv in sorted(sk["tags"].items())]) for sk in h["series"] if sk["mst"] == o["mst"]}
                    if not o["want"] and o["rows"] and set(o["rows"]) <= mine:
                        fid = F_RPLIST
                elif st["phase"] == "after-late-drop":
                    # the series named by drop3 lives only in the index created after the restart; no restart since
                    if lab == {"d3"} and h.get("drop3") and o["mst"] == h["drop3"]["mst"] and corr_ok:
                        fid = F_NEWIDX
                elif st["phase"] in ("after-crash", "after-recreate", "after-recreate-restart", "after-recreate-measurement"):
                    # (what a lost drop or a WAL replay left behind at the first kill stays visible in the phases that follow)
                    need = set()
                    if "d2" in lab and h.get("drop2") and o["mst"] == h["drop2"]["mst"]:
                        need.add(F_CRASH)
                    if lab & {"d3", "d4"} and h.get("drop3") and o["mst"] == h["drop3"]["mst"]:
                        need.add(F_WAL)           # W4 rows (series e, f) were still in the WAL at the kill: the writer kept the shards warm
                    covered = ("d2" not in lab or F_CRASH in need) and (not lab & {"d3", "d4"} or F_WAL in need)
                    if lab and corr_ok and covered:
                        fids = sorted(need)
                elif after and d["kind"] == "series" and d["n"] > 0 and o["mst"] == d["mst"] and o.get("extra") == "dropped-only" and corr_ok:
                    if o["shape"] in ALL_BASED and later:
                        fid = F_PATHS
                    elif o["shape"] == "tag-re-alternation":
                        fid = F_ALT
                    elif o["shape"] in ("tag-eq", "tag-re-literal") and h["prime"] and st["phase"] in ("right-after-drop", "after-drop"):
                        fid = F_CACHE
                    elif o["shape"] == "show-tag-keys":
                        fid = F_KEYS
                if fid is None and o["shape"] == "show-tag-keys" and after and not o.get("err") \
                        and (d["kind"] == "series" or h.get("drop2")) and set(o["want"]) <= set(o["rows"]) \
                        and set(o["rows"]) - set(o["want"]) <= {k for sk in h["series"] if sk["mst"] == o["mst"] for k in sk["tags"]}:
                    fid = F_KEYS       # schema-based: keys that only dropped series (of either drop) carried
                if fid is None and o["shape"] in LISTING and d["kind"] != "series" and others_dropped and not o.get("err") \
                        and set(o["rows"]) < set(o["want"]):
                    fid = F_CROSS
                if fids is None and fid:
                    fids = [fid]
                if fids and all(fragment_finding(ck, f) for f in fids):
                    for f in fids:
                        stale.discard(f)
                        ck.known_finding(f, what[f])
                else:
                    nviol += 1
                    if nviol <= 4:
                        ck.violation({"kind": "direct-oracle", "phase": st["phase"], "shape": o["shape"], "measurement": o["mst"],
                                      "got": o["rows"], "want": o["want"], "err": o.get("err"), "extra": o.get("extra"),
                                      "model_reproduces": corr_ok, "signature_candidate": fids or fid,
                                      "history": {k: h[k] for k in ("db", "rp", "msts", "series", "w1", "w2", "prime", "drop", "w3")}})
        if any("harness-timeout" in (o.get("err") or "") for st in h["steps"] for o in st["obs"]) and not any("unanswered" in b for b in ck.broken):
            ck.broken.append("C13 black box: a request was left unanswered by the server for minutes (history %d, a read)" % hi)
        for msg in h.get("step_errors") or []:
            failed = True
            if "harness-timeout" in msg:
                # a statement or write of unknown fate makes the rest of the history undecidable: not an oracle verdict
                if not any("unanswered" in b for b in ck.broken):
                    ck.broken.append("C13 black box: a request was left unanswered by the server for minutes (history %d: %s)" % (hi, msg[:200]))
                continue
            nviol += 1
            if nviol <= 4:
                ck.violation({"kind": "direct-oracle", "what": "a step of the history failed: " + msg,
                              "history": {k: h[k] for k in ("db", "rp", "msts", "series", "w1", "w2", "prime", "drop", "w3")}})
        if evaluated and not corr_ok and not failed:
            v0 = mm.get((True, True), {}).get(hi, [])
            ck.broken.append("correspondence C13 model/implementation differs on history %d (read op %s)" % (hi, v0[:1]))
            if not getattr(ck, "nofail_detail", None):
                ck.nofail_detail = {"kind": "correspondence", "history_index": hi, "mismatching_ops_current_model": v0[:5],
                                    "mismatching_ops_repaired_model": mm.get((False, False), {}).get(hi, [])[:5],
                                    "history": {k: h[k] for k in ("db", "rp", "msts", "series", "w1", "w2", "prime", "drop", "w3")},
                                    "explanation": "no variant of the model reproduces the series sets the server returned, and every answer "
                                                   "matched the reference map"}
    ck.cov["histories_with_a_refused_write_attempt"] = undecided
    ck.cov["compaction"] = comp
    if not getattr(ck, "replay", None) and n > 0 and (not comp or comp.get("dirs_with_compacted_file", 0) == 0):
        ck.broken.append("C13 black box: no level compaction was observed on disk within the bounded wait after %d write+flush rounds "
                         "(the 'never reappears after compaction' reads were not exercised): %s" % (8, comp))
    ck.cov["evaluations"] = nreads
    ck.cov["histories"] = len(hs)
    ck.cov["distinct_nontrivial"] = len(nontriv)
    ck.cov["traces_validated_against_impl"] = validated
    ck.cov["rule"] = ("history = two write batches (flushed / in memory, out of order, sometimes two shard groups) over 1-3 measurements, "
                      "one drop, writes after it, forced compaction, kill -9 + restart, late drops (new index, rows in the WAL) and a kill -9 right after an acknowledged drop, with the 36-38 shape read matrix (selects, aggregates, plain and conditioned listings, exact cardinalities) at up to seven points; evaluations = "
                      "reads compared with the reference; non-trivial = the drop removed some rows and left some; distinct = different "
                      "series/points/drop")
    ck.cov["drop_kind_histogram"] = kinds
    ck.cov["shape_histogram"] = shapes
    ck.cov["transient_wrong_answers"] = transient[:20]
    ck.cov["oracle_failures_outside_every_signature"] = nviol
    ck.cov["open_findings_not_reproduced"] = sorted(s for s in stale if fragment_finding(ck, s))
    ck.cov["samples"] = [{k: h[k] for k in ("msts", "series", "drop", "w3")} for h in hs[:2]]
    if transient:
        ck.notes.append("%d read(s) gave a wrong answer once and the right one on the immediate retry (see coverage.transient_wrong_answers)" % len(transient))
