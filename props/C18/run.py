"""C18 - PromQL queries return what Prometheus itself returns on the same samples. See DESIGN.md section 4 C18.

Three-way check: (a) upstream promql.Engine (module cache) = direct oracle, (b) ts-server built from the working tree,
fed through remote write and queried over /api/v1/query{,_range}, (c) the Coq model (coq/C18) for the modelled reducers.
PARTIAL: functions outside the modelled list, binary operators and matchers are covered by (a) vs (b) only."""
import fcntl
import json
import os
import random
import re
import socket
import time

import vlib

PID = "C18"
PORT_BASE = 21800

FN = {"rate": "FRate", "increase": "FIncrease", "delta": "FDelta", "irate": "FIrate", "idelta": "FIdelta",
      "sum_over_time": "FSum", "count_over_time": "FCount", "avg_over_time": "FAvg", "min_over_time": "FMin",
      "max_over_time": "FMax", "last_over_time": "FLast", "changes": "FChanges", "resets": "FResets",
      "stdvar_over_time": "FStdvar", "stddev_over_time": "FStddev", "present_over_time": "FPresent",
      "quantile_over_time": "FQuantile", "deriv": "FDeriv", "predict_linear": "FPredict"}
AGG = {"sum": "AggSum", "avg": "AggAvg", "min": "AggMin", "max": "AggMax", "count": "AggCount"}
BOP = {"+": "OAdd", "-": "OSub", "*": "OMul", "/": "ODiv", "%": "OMod", "==": "OEq", "!=": "ONe", ">": "OGt", "<": "OLt", ">=": "OGe", "<=": "OLe"}

FINDING_IDS = ["C18-empty-value-matcher-dropped", "C18-absent-label-matcher-ignored", "C18-regex-matcher-unanchored",
               "C18-rate-subsecond-range-integer-division", "C18-range-query-aggregation-over-offset",
               "C18-range-function-step-greater-than-range", "C18-resets-empty-window-zero",
               "C18-absent-over-time-offset-range-query", "C18-absent-negative-matcher-on-absent-label",
               "C18-range-binop-pairs-next-series-after-end", "C18-instant-range-function-drops-series-ending-stale",
               "C18-holt-winters-infinite-sample-nan", "C18-absent-label-kept-despite-second-matcher",
               "C18-min-max-aggregation-sentinel-start-value", "C18-range-selector-trailing-step-lost",
               "C18-ignoring-label-kept-in-result", "C18-vector-comparison-filter-with-offset-operand-loses-elements",
               "C18-range-comparison-filter-keeps-nan"]


_PORT_LOCK = None   # keeps the flock on the chosen port block for the life of this process


def _port_free(port):
    s = socket.socket(socket.AF_INET, socket.SOCK_STREAM)
    try:
        s.bind(("127.0.0.1", port))
        return True
    except OSError:
        return False
    finally:
        s.close()


def acquire_port_block(wait=600):
    """Pick a block of 10 ports inside 21800-21899 that no other run of this check holds (flock on a per-block file shared
    by all trees) and on which nothing listens; None if none becomes free within `wait` seconds."""
    global _PORT_LOCK
    d = os.path.join(vlib.VERIF, "build", "c18-ports")
    os.makedirs(d, exist_ok=True)
    order = list(range(10))
    random.Random(os.getpid()).shuffle(order)
    deadline = time.time() + wait
    while True:
        for b in order:
            f = open(os.path.join(d, "block%d.lock" % b), "w")
            try:
                fcntl.flock(f, fcntl.LOCK_EX | fcntl.LOCK_NB)
            except OSError:
                f.close()
                continue
            base = PORT_BASE + 10 * b
            if all(_port_free(base + i) for i in range(10)):
                _PORT_LOCK = f
                return base
            fcntl.flock(f, fcntl.LOCK_UN)   # something foreign listens inside this block: never start on it
            f.close()
        if time.time() > deadline:
            return None
        time.sleep(3)


def setup():
    ck = vlib.Check(PID)
    ok = ck.go_build_repo("./app/ts-server", "ts-server") is not None
    import shutil
    shutil.rmtree(ck.work, ignore_errors=True)
    return 0 if ok else 1


# ---- Coq rendering ------------------------------------------------------------------------------------------

def finite(vs):
    return vs not in ("NaN", "+Inf", "-Inf", "Inf", "stale")


def coq_q(vs):
    n, d = float(vs).as_integer_ratio()
    return "((%d) # %d)" % (n, d)


def coq_oq(v):
    return "None" if v is None else "(Some %s)" % coq_q(v)


def coq_oxval(v):
    """option xval: engine value (None = no output element); +-Inf only arise from quantile_over_time"""
    if v is None:
        return "None"
    if v in ("+Inf", "Inf"):
        return "(Some XPosInf)"
    if v == "-Inf":
        return "(Some XNegInf)"
    return "(Some (XFin %s))" % coq_q(v)


def coq_z(n):
    return "(%d)%%Z" % n


def coq_str(s):
    return '"%s"%%string' % s.replace('"', '""')


def coq_labels(lb):
    return "[" + "; ".join("(%s, %s)" % (coq_str(k), coq_str(lb[k])) for k in sorted(lb)) + "]"


def samples_coq(s):
    return "[" + "; ".join("(%s, %s)" % (coq_z(p["t"]), coq_q(p["v"])) for p in (s.get("samples") or [])) + "]"


def osamples_coq(s):
    return "[" + "; ".join("(%s, %s)" % (coq_z(p["t"]), "None" if p["v"] == "stale" else "Some %s" % coq_q(p["v"]))
                           for p in (s.get("samples") or [])) + "]"


def scase_coq(fn, param, t, rng, off, s):
    return "(%s, %s, %s, %s, %s, %s, %s, %s, %s)" % (fn, coq_q(param or "0"), coq_z(t), coq_z(rng), coq_z(off), osamples_coq(s), lens_coq(s),
                                                      coq_oxval(s.get("up")), coq_oxval(s.get("sv")))


def lens_coq(s):
    return "[" + "; ".join("%d" % k for k in (s.get("cut") or [])) + "]%nat"


def rcase_coq(fn, param, t, rng, off, s):
    return "(%s, %s, %s, %s, %s, %s, %s, %s, %s)" % (fn, coq_q(param or "0"), coq_z(t), coq_z(rng), coq_z(off), samples_coq(s), lens_coq(s),
                                                      coq_oxval(s.get("up")), coq_oxval(s.get("sv")))


def bcase_coq(m):
    return "(%s, %s, %s, [%s], [%s], %s, %s)" % (coq_z(m["t"]), coq_z(m.get("range_ms", 0)), coq_z(m.get("offset_ms", 0)),
                                                  "; ".join(samples_coq(s) for s in (m.get("series") or [])), "; ".join(lens_coq(s) for s in (m.get("series") or [])),
                                                  "true" if m.get("up_nonempty") else "false", "true" if m.get("sv_nonempty") else "false")


def vec_coq(v):
    return "[" + "; ".join("(%s, %s)" % (coq_labels(e["labels"]), coq_q(e["pts"][0]["v"])) for e in v) + "]"


def acase_coq(m):
    g = "[" + "; ".join(coq_str(x) for x in (m.get("grouping") or [])) + "]"
    return "(%s, %s, %s, %s, %s, %s)" % (AGG[m["agg_op"]], "true" if m.get("without") else "false", g,
                                          vec_coq(m.get("in") or []), vec_coq(m.get("out_up") or []), vec_coq(m.get("out_sv") or []))


def cb(b):
    return "true" if b else "false"


def vscase_coq(m):
    return "(%s, %s, %s, %s, %s, %s, %s)" % (BOP[m["binop"]], cb(m.get("ret_bool")), cb(m.get("swap")), coq_q(m["scalar"]),
                                              vec_coq(m.get("in") or []), vec_coq(m.get("out_up") or []), vec_coq(m.get("out_sv") or []))


def vvcase_coq(m):
    g = "[" + "; ".join(coq_str(x) for x in (m.get("mlabels") or [])) + "]"
    return "(%s, %s, %s, %s, %s, %s, %s, %s)" % (BOP[m["binop"]], cb(m.get("ret_bool")), cb(m.get("on")), g, vec_coq(m.get("in") or []),
                                                  vec_coq(m.get("in2") or []), vec_coq(m.get("out_up") or []), vec_coq(m.get("out_sv") or []))


HEADER = ("From Coq Require Import String.\nFrom Coq Require Import QArith ZArith List Bool NArith.\n"
          "From OG Require Import C18.Model C18.Model2 C18.Model3 C18.Model4 C18.Corr.\nImport ListNotations.\nOpen Scope Q_scope.\n")


def vec_finite(v):
    return all(len(e["pts"]) == 1 and finite(e["pts"][0]["v"]) for e in v)


def main(ck):
    ck.assumptions += [
        "reference semantics = the upstream engine linked from the module cache at the version pinned by the repository's "
        "go.mod (prometheus v0.50.1: closed range/look-back windows); it is run in-process over util/teststorage",
        "samples reach the server only through /api/v1/write (remote write); queries through /api/v1/query and "
        "/api/v1/query_range of a single-node ts-server built from the working tree (default look-back 5m)",
        "floats: values compared with relative tolerance 1e-9 (absolute floor 1e-12); label sets and timestamps exactly; "
        "the model computes over exact rationals, cases on an extrapolation-threshold tie are not used for a verdict",
        "one data set in four carries NaN / +Inf / -Inf sample values and staleness markers (through remote write and the upstream "
        "appender alike); the Coq model is evaluated only on cases whose samples and results are finite (and quantile's +-Inf); "
        "native histograms are not generated",
        "Coq theorems assume strictly increasing sample timestamps inside a series and a positive range",
    ]
    ck.cov["trusted_base"] = ["Coq 8.16.1 kernel + vm_compute (cases evaluation, Examples, refutation witness)",
                              "no axioms (Print Assumptions: closed under the global context)",
                              "upstream Prometheus promql.Engine + tsdb (module cache) as reference",
                              "Go harness cmd/c18 (generators, canonicaliser, finding signatures), python driver props/C18/run.py"]
    # findings of this property's own fragment that the central known_findings.json does not list yet (the central
    # entry wins when both exist); read-only
    frag = os.path.join(ck.verif, "props", PID, "findings.json")
    have = {f["id"] for f in ck.findings}
    ck.findings += [f for f in json.load(open(frag))["findings"] if f.get("property") == PID and f["id"] not in have]
    ck.coq_audit(["C18"])
    ok = ck.coq_build(["C18/Props.vo", "C18/Refuted.vo", "C18/Corr.vo"])
    if ok:
        ck.coq_props(["C18/Props.v", "C18/Refuted.v"])
    canary_idx = -1
    binp = ck.go_build("./cmd/c18", "c18")
    srv = ck.go_build_repo("./app/ts-server", "ts-server")
    if not binp or not srv:
        return
    conf = os.path.join(ck.repo, "config", "openGemini.singlenode.conf")
    port = acquire_port_block()
    if port is None:
        ck.broken.append("no free port block in 21800-21899 (all locked by other runs or something listens there)")
        return
    ck.log("port block %d-%d" % (port, port + 9))
    wdir = os.path.join(ck.work, "srv")
    if getattr(ck, "replay", None):
        return replay(ck, binp, srv, conf, wdir, port)
    nds, ncases = (4, 120) if ck.tier == "quick" else (24, 250)
    ck.log("harness: %d data sets x %d cases" % (nds, ncases))
    cdir = os.path.join(ck.verif, "corpus", PID)
    corpus = sorted(os.path.join(cdir, f) for f in os.listdir(cdir) if f.endswith(".json")) if os.path.isdir(cdir) else []
    ck.cov["corpus_cases"] = len(corpus)
    rc, out = ck.run([binp, "run", srv, conf, wdir, str(port), str(nds), str(ncases)] + corpus, timeout=3000,
                     env={"HOME": ck.work})   # the repository's default logger writes under $HOME/.openGemini
    ck.log("harness done rc=%d" % rc)
    cases, datasets, done = [], [], None
    for l in out.splitlines():
        if not l.startswith("{"):
            continue
        try:
            o = json.loads(l)
        except ValueError:
            continue
        if "case" in o:
            cases.append(o)
        elif "done" in o:
            done = o["done"]
        elif "dataset" in o:
            datasets.append(o)
    if rc != 0 or done is None or done != len(cases) or not cases:
        ck.broken.append("harness c18 failed rc=%d cases=%d done=%s: %s" % (rc, len(cases), done, out[-600:]))
        return

    # ---- direct oracle verdicts ------------------------------------------------------------------------------
    hist, forms, known_count = {}, {}, {}
    nontriv = set()
    unexplained = []
    for c in cases:
        forms[c["form"] + ":" + c["mode"]] = forms.get(c["form"] + ":" + c["mode"], 0) + 1
        if c.get("fn"):
            hist[c["fn"]] = hist.get(c["fn"], 0) + 1
        if not c.get("up_err") and c.get("npoints", 0) > 0:
            nontriv.add(c["expr"] + "|" + c["mode"] + "|%s|%s|%s|%s" % (c.get("t"), c.get("start"), c.get("end"), c.get("step")))
        for k in c.get("known") or []:
            known_count[k] = known_count.get(k, 0) + 1
            if ck.match_finding(k):
                if not any((" %s: " % k) in line for line in ck.known):
                    ck.known_finding(k, "upstream and server disagree inside the recorded signature, e.g. %s" % c["expr"])
            else:
                unexplained.append(c)  # a fixed / unknown entry suppresses nothing
        if c.get("unexplained"):
            unexplained.append(c)
    seen = set()
    for c in unexplained:
        key = (c["form"], c.get("fn"), (c.get("diff") or c.get("ri_diff") or "")[:25])
        if key in seen or len(seen) >= 5:
            continue
        seen.add(key)
        ck.violation({"kind": "direct-oracle", "what": c.get("diff") or ("range query differs from its instant queries: " + c.get("ri_diff", "")),
                      "expr": c["expr"], "mode": c["mode"], "t": c.get("t"), "start": c.get("start"), "end": c.get("end"), "step": c.get("step"),
                      "upstream": c.get("up"), "server": c.get("sv"), "explain_attempt": c.get("explain"),
                      "replay": c.get("replay")})

    # ---- model evaluation ------------------------------------------------------------------------------------
    rcs, acs, bcs = [], [], []     # (case index, series index, coq text, meta)
    extra = {"vs": [], "vv": [], "st": []}     # binary operator cases; st: series with staleness markers
    skipped_nonfinite = 0
    for ci, c in enumerate(cases):
        m = c.get("model")
        if not m:
            continue
        if m["kind"] in ("rangefn", "selector"):
            fn = FN[m["fn"]] if m["kind"] == "rangefn" else "FSelect"
            for si, s in enumerate(m.get("series") or []):
                vals = [p["v"] for p in (s.get("samples") or [])]
                outs = [x for x in (s.get("up"), s.get("sv")) if x is not None]
                # +-Inf results are expressible for quantile_over_time (q outside [0,1]); NaN never is
                outs_ok = all(finite(v) or (fn == "FQuantile" and v in ("+Inf", "-Inf", "Inf")) for v in outs)
                if outs_ok and "stale" in vals and all(finite(v) or v == "stale" for v in vals):
                    extra["st"].append((ci, si, scase_coq(fn, m.get("param"), m["t"], m.get("range_ms", 0), m.get("offset_ms", 0), s)))
                    continue
                if not all(finite(v) for v in vals) or not outs_ok:
                    skipped_nonfinite += 1
                    continue
                rcs.append((ci, si, rcase_coq(fn, m.get("param"), m["t"], m.get("range_ms", 0), m.get("offset_ms", 0), s)))
        elif m["kind"] in ("vs", "vv"):
            vecs = [m.get("in") or [], m.get("in2") or [], m.get("out_up") or [], m.get("out_sv") or []]
            if not all(vec_finite(v) for v in vecs) or not finite(m.get("scalar", "0")):
                skipped_nonfinite += 1    # division / modulo by zero, NaN operands: no rational value
                continue
            extra[m["kind"]].append((ci, 0, vscase_coq(m) if m["kind"] == "vs" else vvcase_coq(m)))
        elif m["kind"] == "absent":
            if not all(finite(p["v"]) for s in (m.get("series") or []) for p in (s.get("samples") or [])):
                skipped_nonfinite += 1
                continue
            bcs.append((ci, 0, bcase_coq(m)))
        elif m["kind"] == "agg":
            if not (vec_finite(m.get("in") or []) and vec_finite(m.get("out_up") or []) and vec_finite(m.get("out_sv") or [])):
                skipped_nonfinite += 1
                continue
            acs.append((ci, 0, acase_coq(m)))
    files = []
    shard = 25
    for i in range(0, len(rcs), shard):
        files.append(("rc%d" % (i // shard), HEADER + "Definition cases : list rcase := [\n%s\n].\n"
                      "Definition M := Eval vm_compute in rmismatches cases.\nPrint M.\n" % ";\n".join(x[2] for x in rcs[i:i + shard])))
    nr = len(files)
    for i in range(0, len(acs), shard):
        files.append(("ac%d" % (i // shard), HEADER + "Definition cases : list acase := [\n%s\n].\n"
                      "Definition M := Eval vm_compute in amismatches cases.\nPrint M.\n" % ";\n".join(x[2] for x in acs[i:i + shard])))
    na = len(files) - nr
    for i in range(0, len(bcs), shard):
        files.append(("bc%d" % (i // shard), HEADER + "Definition cases : list bcase := [\n%s\n].\n"
                      "Definition M := Eval vm_compute in bmismatches cases.\nPrint M.\n" % ";\n".join(x[2] for x in bcs[i:i + shard])))
    nb = len(files) - nr - na
    xfiles = []     # (file index, kind, first case index)
    for kind, typ, fn in (("vs", "vscase", "vsmismatches"), ("vv", "vvcase", "vvmismatches"), ("st", "scase", "smismatches")):
        for i in range(0, len(extra[kind]), shard):
            xfiles.append((len(files), kind, i))
            files.append(("%s%d" % (kind, i // shard), HEADER + "Definition cases : list %s := [\n%s\n].\n"
                          "Definition M := Eval vm_compute in %s cases.\nPrint M.\n" % (typ, ";\n".join(x[2] for x in extra[kind][i:i + shard]), fn)))
    # permanent canary: 20 corrupted copies of a tiny case (sum_over_time of the single sample 4 with engines "answering"
    # 5, 6, ...) and one correct copy; the evaluation must report exactly the 20 corrupted indices with bit 1 set
    ncanary = 20
    can = ["(FSum, 0, (100)%%Z, (100)%%Z, (0)%%Z, [((50)%%Z, (4 # 1))], [1]%%nat, (Some (XFin (%d # 1))), (Some (XFin (%d # 1))))" % (5 + k, 5 + k)
           for k in range(ncanary)]
    can.append("(FSum, 0, (100)%Z, (100)%Z, (0)%Z, [((50)%Z, (4 # 1))], [1]%nat, (Some (XFin (4 # 1))), (Some (XFin (4 # 1))))")
    canary_idx = len(files)
    files.append(("canary", HEADER + "Definition cases : list rcase := [\n%s\n].\n"
                  "Definition M := Eval vm_compute in rmismatches cases.\nPrint M.\n" % ";\n".join(can)))
    ck.log("model evaluation: %d shards" % len(files))
    res = ck.coq_eval_many(files, timeout=240) if ok else []
    ck.log("model evaluation done")
    rmis, amis, bmis = {}, {}, {}
    xmis = {"vs": {}, "vv": {}, "st": {}}
    xof = {fi: (kind, first) for fi, kind, first in xfiles}
    for idx, (rc2, o) in enumerate(res):
        mm = re.search(r"M\s*=\s*(.*?)\s*:\s*list", o, re.S)
        if rc2 != 0 or not mm:
            ck.broken.append("model evaluation failed on shard %s: %s" % (files[idx][0], o[-400:]))
            continue
        # Coq prints e.g. `[(14%nat, 4%N); (\n 17%nat, 4%N)]` (scope suffixes, lines wrapped anywhere): strip white space and
        # suffixes, then every "(" must be the start of one readable pair - fail closed otherwise
        flat = re.sub(r"%\w+", "", re.sub(r"\s+", "", mm.group(1)))
        tups = re.findall(r"\((\d+),(\d+)\)", flat)
        if len(tups) != flat.count("("):
            ck.broken.append("model evaluation: unreadable result on shard %s: %s" % (files[idx][0], mm.group(1)[:300]))
            continue
        if idx == canary_idx:
            got = {int(a): int(b) for a, b in tups}
            if sorted(got) != list(range(ncanary)) or not all(v & 1 and v & 2 and v & 4 for v in got.values()):
                ck.broken.append("C18 canary: a corrupted case was not reported by the model evaluation (got %s)" % sorted(got.items())[:25])
            ck.cov["canary_cases_reported"] = len(got)
            continue
        for a, b in tups:
            if idx < nr:
                rmis[idx * shard + int(a)] = int(b)
            elif idx < nr + na:
                amis[(idx - nr) * shard + int(a)] = int(b)
            elif idx < nr + na + nb:
                bmis[(idx - nr - na) * shard + int(a)] = int(b)
            else:
                kind, first = xof[idx]
                xmis[kind][first + int(a)] = int(b)

    validated = ties = variant_current = variant_repaired = 0
    model_bad = []
    for k, (ci, si, _) in enumerate(rcs):
        code = rmis.get(k, 0)
        c = cases[ci]
        if code & 8:
            ties += 1
            continue
        if code & 1:
            model_bad.append(("spec-vs-upstream", ci, si, code))
            continue
        if c.get("known") or c.get("unexplained"):
            validated += 1   # reference side validated; the server side of this case is already classified above
            continue
        cur_ok, rep_ok = not (code & 4), not (code & 2)
        if cur_ok and rep_ok:
            validated += 1
        elif cur_ok:
            variant_current += 1
            validated += 1
        elif rep_ok:
            variant_repaired += 1
            validated += 1
        else:
            model_bad.append(("impl-vs-server", ci, si, code))
    for k, (ci, si, _) in enumerate(acs):
        code = amis.get(k, 0)
        c = cases[ci]
        if code & 1:
            model_bad.append(("agg-spec-vs-upstream", ci, si, code))
        elif (code & 2) and not (c.get("known") or c.get("unexplained")):
            model_bad.append(("agg-impl-vs-server", ci, si, code))
        else:
            validated += 1
    for k, (ci, si, _) in enumerate(bcs):
        code = bmis.get(k, 0)
        c = cases[ci]
        if code & 1:
            model_bad.append(("absent-spec-vs-upstream", ci, si, code))
        elif (code & 2) and not (c.get("known") or c.get("unexplained")):
            model_bad.append(("absent-impl-vs-server", ci, si, code))
        else:
            validated += 1
    for k, (ci, si, _) in enumerate(extra["st"]):
        code = xmis["st"].get(k, 0)
        c = cases[ci]
        if code & 8:
            ties += 1
        elif code & 1:
            model_bad.append(("stale-spec-vs-upstream", ci, si, code))
        elif (code & 2) and not (c.get("known") or c.get("unexplained")):
            model_bad.append(("stale-impl-vs-server", ci, si, code))
        else:
            validated += 1
    for kind in ("vs", "vv"):
        for k, (ci, si, _) in enumerate(extra[kind]):
            code = xmis[kind].get(k, 0)
            c = cases[ci]
            if code & 1:
                model_bad.append(("binop-%s-spec-vs-upstream" % kind, ci, si, code))
            elif (code & 2) and not (c.get("known") or c.get("unexplained")):
                model_bad.append(("binop-%s-impl-vs-server" % kind, ci, si, code))
            else:
                validated += 1
    if model_bad and not unexplained:
        kind, ci, si, code = model_bad[0]
        c = cases[ci]
        ck.broken.append("correspondence C18 %s differs (code %d) on case %d: %s" % (kind, code, ci, c["expr"]))
        ck.nofail_detail = {"kind": kind, "code": code, "count": len(model_bad), "expr": c["expr"], "mode": c["mode"], "t": c.get("t"),
                            "model_input": (c["model"]["series"][si] if c["model"].get("series") else c["model"]),
                            "explanation": "Coq model and engines disagree although upstream and server agree within tolerance"}
    ties_broken = [c for c in cases if c.get("grouping_tie")]
    ck.cov["grouping_tie_checked"] = sum(1 for c in cases if c["form"] == "binop")
    if ties_broken and not unexplained:
        c = ties_broken[0]
        ck.broken.append("correspondence C18 by/without grouping: %s" % c["grouping_tie"])
        ck.nofail_detail = {"kind": "transpiled-grouping", "count": len(ties_broken), "expr": c["expr"], "detail": c["grouping_tie"],
                            "explanation": "the transpiler gives `aggregation <op> scalar` a different grouping (Without flag / dimensions) than the "
                                           "aggregation itself; the model (group_key, C18_by_without_partition) says the label sets are unchanged. "
                                           "Upstream and the single-node server agreed on every generated query of this shape."}
    if variant_current and not ck.match_finding("C18-rate-subsecond-range-integer-division"):
        ck.broken.append("server matches only the _current (integer division) variant of the rate model but the finding is not open")

    ck.cov["evaluations"] = len(cases)
    ck.cov["distinct_nontrivial"] = len(nontriv)
    ck.cov["traces_validated_against_impl"] = validated
    ck.cov["rule"] = ("one case = (data set, expression, instant time | range start/end/step); non-trivial = upstream evaluated it without "
                      "error and returned at least one point; distinct = different (expression, timing)")
    ck.cov["model_cases"] = {"range_or_selector_series": len(rcs), "aggregations": len(acs), "absent_over_time": len(bcs), "vector_scalar_binops": len(extra["vs"]),
                             "vector_vector_binops": len(extra["vv"]), "series_with_staleness_markers": len(extra["st"]),
                             "threshold_ties_skipped": ties,
                             "non_finite_skipped": skipped_nonfinite, "matched_current_only": variant_current,
                             "matched_repaired_only": variant_repaired, "model_disagreements": len(model_bad)}
    ck.cov["form_histogram"] = forms
    ck.cov["function_histogram"] = hist
    ck.cov["datasets"] = datasets
    ck.cov["known_finding_cases"] = known_count
    ck.cov["upstream_errors_skipped"] = sum(1 for c in cases if c.get("up_err"))
    ck.cov["hits_sample_timestamp"] = sum(1 for c in cases if c.get("hits_sample"))
    ck.cov["range_vs_instants_checked"] = sum(1 for c in cases if c.get("ri_checked"))
    ck.cov["range_queries"] = sum(1 for c in cases if c["mode"] == "range")
    bad_oracle = [c for c in cases if c.get("up_ri_diff")]
    if bad_oracle:
        ck.notes.append("upstream's own range answer differs from its instant answers on %d cases, e.g. %s: %s" % (
            len(bad_oracle), bad_oracle[0]["expr"], bad_oracle[0]["up_ri_diff"]))
    ck.cov["samples"] = [{"expr": c["expr"], "mode": c["mode"], "t": c.get("t"), "start": c.get("start"), "end": c.get("end"),
                          "step": c.get("step"), "nseries": c.get("nseries")} for c in cases[:4]]
    nonrep = [c for c in cases if c.get("non_replayable")]
    ck.cov["non_replayable_disagreements"] = len(nonrep)
    if nonrep:
        ck.notes.append("%d disagreement(s) persisted over 12 s of re-asking but did NOT reproduce on the same samples written again to a fresh "
                        "database (not reported: a violation must be replayable), e.g. %s: %s" % (len(nonrep), nonrep[0]["expr"], nonrep[0]["non_replayable"][:200]))
    stale = [f["id"] for f in ck.findings if f.get("status") == "open" and f["id"] not in known_count]
    if stale:
        ck.notes.append("open findings that did not reproduce in this run (stale or not sampled): " + ", ".join(stale))


def replay(ck, binp, srv, conf, wdir, port):
    obj = json.load(open(ck.replay))
    rp = obj.get("replay") or obj
    path = os.path.join(ck.work, "replay.json")
    json.dump(rp, open(path, "w"))
    rc, out = ck.run([binp, "replay", srv, conf, wdir, str(port), path], timeout=900, env={"HOME": ck.work})
    got = None
    for l in out.splitlines():
        if l.startswith("{"):
            try:
                got = json.loads(l)
            except ValueError:
                pass
    if rc != 0 or got is None:
        ck.broken.append("replay failed rc=%d: %s" % (rc, out[-500:]))
        return
    ck.cov["evaluations"] = 1
    ck.cov["samples"] = [{"expr": got["expr"], "diff": got.get("diff"), "ri_diff": got.get("ri_diff"), "known": got.get("known")}]
    print("replay: expr=%s diff=%r ri_diff=%r known=%r" % (got["expr"], got.get("diff"), got.get("ri_diff"), got.get("known")))
    for k in got.get("known") or []:
        if ck.match_finding(k):
            ck.known_finding(k, "replayed case is inside the recorded signature: %s" % got["expr"])
    if got.get("unexplained") or any(not ck.match_finding(k) for k in got.get("known") or []):
        ck.violation({"kind": "direct-oracle", "what": got.get("diff") or got.get("ri_diff"), "replay": rp,
                      "upstream": got.get("up"), "server": got.get("sv")})
