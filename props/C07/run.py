"""C07 - every persistent and wire encoding decodes to exactly what was encoded. See DESIGN.md section 4 C07 and NOTES.md."""
import json
import math
import os
import re
import struct

PID = "C07"
M63 = 1 << 63

IMODE = {1: "IConst", 3: "IZstd", 4: "IRaw"}
TMODE = {1: "TConst", 3: "TSnappy", 4: "TRaw"}
FMODE = {0: "FNone", 2: "FSnappy", 3: "FGorilla", 4: "FSame", 6: "FMLF"}
SMODE = {0: "SRaw", 1: "SSnappy", 2: "SZstd", 3: "SLz4"}


def zl(xs):
    xs = list(xs)
    if len(xs) > 4096 and len(set(xs)) == 1:
        return "(repeat %d %d%%nat)" % (int(xs[0]), len(xs))
    return "[" + ";".join(str(int(x)) for x in xs) + "]"


def zs(v):
    """signed integer as a Coq Z term"""
    return "(%d)" % v if v < 0 else "%d" % v


def bl(hexs):
    """byte string -> Coq term of type list Z (long strings are shipped as 64-bit words)"""
    b = bytes.fromhex(hexs or "")
    if len(b) <= 24:
        return zl(b)
    pad = b + b"\0" * ((-len(b)) % 8)
    ws = struct.unpack(">%dQ" % (len(pad) // 8), pad)
    return "(unwords %d %s)" % (len(b), zl(ws))


KIND = {"int": 0, "float": 1, "bool": 2, "string": 3}


def whole_term(c):
    """the model READER on the bytes of the real file: check_whole file blocks-table trailer-fields expected-series"""
    if not c.get("file") or not c.get("st") or c.get("oracle"):
        return None
    lim, es = c["lim"], []
    for si, se in enumerate(c["series"]):
        n = len(se["times"])
        if si >= len(c["st"]) or len(c["st"][si]) != len(se["cols"]) + 1:
            return None
        trs = ";".join("(%d, %d)" % (se["times"][lo], se["times"][min(lo + lim, n) - 1]) for lo in range(0, n, lim))
        cols = []
        for ci, col in enumerate(se["cols"] + [{"t": "time", "nulls": [0] * n}]):
            vs = ";".join(boolsl([1 - x for x in col["nulls"][lo:lo + lim]]) for lo in range(0, n, lim))
            cols.append("(%d, ([%s], mkStat %s))" % (KIND.get(col["t"], 4), vs, " ".join(str(int(x)) for x in c["st"][si][ci])))
        es.append("(%d, ([%s], [%s]))" % (se["id"], trs, ";".join(cols)))
    tbl = ";".join("(%s, %s)" % (bl(a), bl(b)) for a, b in c.get("blocks", []))
    return "(check_whole %s [%s] %s [%s])" % (bl(c["file"]), tbl, zl(c["vals"]), ";".join(es))


def case_term(c):
    """Coq term of type Z for one case, or None when the case carries nothing to evaluate; raises ValueError when the
    harness output cannot be interpreted (unknown mode tag, missing third-party decode)."""
    k = c["k"]
    vals = c.get("vals", [])
    if c.get("oracle") == "encode-panic" and k == "float":
        return "(if float_panics_current %s then 0 else 1)" % zl(vals)
    if c.get("oracle") in ("encode-panic", "encode-error"):
        return None
    mode = c["mode"]
    real = bl(c["hex"])
    d, cc = bl(c.get("d", "")), bl(c.get("c", ""))
    if c.get("c") is not None and c.get("c") != "" and "d" not in c and "dv" not in c:
        raise ValueError("third-party decoder rejected the payload located in the real bytes")
    if k == "int":
        if mode == -1:
            m = "IRaw"
        elif mode == 2:
            m = "(IS8 %s)" % zl(c.get("sels", []))
        else:
            m = IMODE[mode]
        return "(check_int %s %s %s %s %s)" % (d, cc, m, zl(vals), real)
    if k == "time":
        if mode == 2:
            m = "(TS8 %d %s)" % (c.get("scale", 0), zl(c.get("sels", [])))
        else:
            m = TMODE[mode]
        return "(check_time %s %s %s %s %s)" % (d, cc, m, zl(vals), real)
    if k == "bool":
        if mode not in (-1, 1):
            raise ValueError("bool mode %r" % mode)
        return "(check_bool %s %s)" % (zl(vals), real)
    if k == "float":
        if mode == -1:
            m = "FNone"
        elif mode == 5:
            m = "(FRLE %s)" % zl(c.get("runs", []))
        else:
            m = FMODE[mode]
        expect = c["dec"] if c.get("oracle") == "roundtrip-differs" else vals
        if c.get("oracle") in ("decode-panic", "decode-error"):
            return None
        return "(let r := check_float %s %s %s %s %s %s %s in fst r + 16 * snd r)" % (
            d, cc, zl(c.get("dv", [])), m, zl(vals), real, zl(expect))
    if k == "string":
        if c.get("shape") == "huge-v1":
            return None     # oracle only: one very large version-1 block
        m = SMODE[mode] if mode != -1 else "SRaw"
        ss = "[" + ";".join(bl(s) for s in c.get("strs", [])) + "]"
        t = "(check_string %s %s %s %s %s)" % (d, cc, m, ss, real)
        if c.get("v1"):
            t = "(%s + 16 * check_string_v1 %s %s)" % (t, ss, bl(c["v1"]))
        return t
    if k in ("file", "compact"):
        if not c.get("hex"):
            return None
        t = "(check_trailer %s %s)" % (zl(c["vals"]), bl(c["hex"]))
        wt = whole_term(c)
        if wt:
            t = "(%s + 4096 * %s)" % (t, wt)
        words = []
        for si, se in enumerate(c.get("series", [])):
            if si >= len(c.get("st") or []):
                break
            n, lim = len(se["times"]), c["lim"]
            for ci, col in enumerate(se["cols"]):
                if col["t"] not in ("int", "float", "bool") or ci >= len(c["st"][si]):
                    continue
                row = lambda i: "(%s, %d)" % ("None" if col["nulls"][i] else "Some %d" % col["vals"][i], se["times"][i])
                cut = lambda a, b: "[" + ";".join("[" + ";".join(row(i) for i in range(lo, min(lo + lim, b))) + "]" for lo in range(a, b, lim)) + "]"
                if k == "compact" and (c.get("cp") or {}).get("stream"):
                    # streaming compaction merges the stored blocks of the source chunks: the rows chunk by chunk
                    at, chunks = 0, []
                    for f in c["cp"]["files"]:
                        if f[si] > 0:
                            chunks.append(cut(at, at + f[si]))
                            at += f[si]
                    words.append("check_stats_%s_stream false [%s] (mkStat %s)" % (col["t"], ";".join(chunks), " ".join(str(int(x)) for x in c["st"][si][ci])))
                    continue
                segs = [cut(0, n)[1:-1]]
                words.append("check_stats_%s %s [%s] (mkStat %s)" % (col["t"], "true" if c.get("cmode", 0) == 3 else "false", ";".join(segs), " ".join(str(int(x)) for x in c["st"][si][ci])))
        if words:
            t = "(%s + 16 * lor_all [%s])" % (t, ";".join(words))
        return t
    if k == "record":
        rj = c.get("recj")
        if not rj or c.get("oracle"):
            return None
        fs = "[" + ";".join("(%s, %d)" % (bl(f["n"]), f["ty"]) for f in rj["schema"]) + "]"
        cs = "[" + ";".join("(%d, (%d, (%d, (%s, (%s, %s)))))" % (x["len"], x["nil"], x["off"], bl(x["val"]), bl(x["bm"]), zl(x["offs"]))
                            for x in rj["cols"]) + "]"
        n = len(c["hex"]) // 2
        ks = sorted(set(range(0, min(n, 16))) | {n - 1, n - 2, n - 4, n // 2, n // 3} & set(range(0, n)))
        return "(check_record_pre (%s, %s) %s %s)" % (fs, cs, bl(c["hex"]), zl(ks))
    if k == "rows":
        if not c.get("rowsj") or c.get("oracle") in ("decode-panic", "decode-error", "roundtrip-differs"):
            return None
        rs = []
        for r in c["rowsj"]:
            tags = "[" + ";".join("(%s, %s)" % (bl(a), bl(b)) for a, b in r["tags"]) + "]"
            fs = "[" + ";".join("(%s, %s)" % (bl(f["k"]), ("FStr %s" % bl(f["s"])) if f["ty"] == 4 else "FNum %d %d" % (f["ty"], f["bits"]))
                                for f in r["fields"]) + "]"
            opts = "[" + ";".join("(%d, %s)" % (o["oid"], zl(o["l"])) for o in r["opts"]) + "]"
            rs.append("(%s, (%s, (%s, (%s, (%s, %d)))))" % (bl(r["n"]), bl(r["sk"]), tags, fs, opts, r["t"]))
        n = len(c["hex"]) // 2
        ks = sorted({k for b in c.get("bounds", []) for k in (b - 1, b, b + 1) if 0 <= k < n} | set(range(0, min(n, 12))) | {n - 1})
        return "(check_rows [%s] %s %s)" % (";".join(rs), bl(c["hex"]), zl(ks))
    if k == "col":
        if not c.get("segs"):
            return None
        return col_term(c)
    if k == "mfile":
        mf = c.get("mf") or {}
        if c.get("oracle") or not mf.get("blocks"):
            return None
        rg = lambda a, b: "(%s, %s)" % (zs(a), zs(b))
        return "(check_ranges [%s] %s [%s])" % (";".join(rg(a, b) for a, b in mf["chunks"]), rg(*mf["trailer"]),
                                               ";".join("(%d, %s)" % (n, rg(a, b)) for n, a, b in mf["blocks"]))
    if k == "merge":
        mg = c.get("mg") or {}
        if c.get("oracle") or not mg.get("got"):
            return None
        st = lambda f: "(mkStat %s)" % " ".join(str(int(x)) for x in f)
        return "(check_merge_%s %s %s %s)" % (mg["kind"], st(mg["a"]), st(mg["b"]), st(mg["got"]))
    if k == "preagg":
        pa = c["pa"]
        if any(m.get("got") is None for m in pa["modes"]) or len(pa["modes"]) == 0:
            return None     # a panic / error of the real coders: direct-oracle failure, nothing to evaluate
        st = lambda f: "(mkStat %s)" % " ".join(str(int(x)) for x in f)
        ms = ";".join("(%d, (%s, %s))" % (m["mode"], bl(m["hex"]), st(m["got"])) for m in pa["modes"])
        return "(pa_modes check_pa_%s %s [%s])" % (pa["kind"], st(pa["f"]), ms)
    if k == "frame":
        return "(check_frame %s %s %d %s %s)" % (d, cc, c["typ"], bl(c.get("payload", "")), real)
    raise ValueError("kind %r" % k)


CT = {"int": "CInt", "float": "CFloat", "bool": "CBool", "string": "CString"}


def bits_lsb(bs):
    return [(b >> i) & 1 for b in bs for i in range(8)]


def boolsl(bits):
    return "[" + ";".join("true" if b else "false" for b in bits) + "]"


def seg_mode(real, nrows):
    """header mode of a real segment (with the bits the real bitmap holds around the segment's own bits)"""
    tag = real[0]
    if 16 < tag < 21:
        return "HOne"
    if 30 < tag < 35:
        return "HFull"
    if 40 < tag < 45:
        return "HEmpty"
    bmlen = int.from_bytes(real[1:5], "big")
    bm = real[5:5 + bmlen]
    off = int.from_bytes(real[5 + bmlen:9 + bmlen], "big")
    bits = bits_lsb(bm)
    if off + nrows > len(bits):
        raise ValueError("bitmap shorter than the segment")
    return "(HBitmap %s %s)" % (boolsl(bits[:off]), boolsl(bits[off + nrows:]))


def col_term(c):
    """sum of check_seg over every data-column segment and every time segment of one chunk"""
    n, lim = c["typ"], c["lim"]
    terms = []
    cols = c["cols"] + [{"t": "int", "nulls": [0] * n, "vals": c["vals"]}]
    for ci, col in enumerate(cols):
        for j, hx in enumerate(c["segs"][ci]):
            lo, hi = j * lim, min((j + 1) * lim, n)
            real = bytes.fromhex(hx)
            rows = []
            for i in range(lo, hi):
                if col["nulls"][i]:
                    rows.append("None")
                elif col["t"] == "string":
                    rows.append("Some %s" % bl(col["strs"][i]))
                elif col["t"] == "bool":
                    rows.append("Some [%d]" % col["vals"][i])
                else:
                    rows.append("Some (le8 %d)" % col["vals"][i])
            terms.append("check_seg %s %s [%s] %s" % (CT[col["t"]], seg_mode(real, hi - lo), ";".join(rows), bl(hx)))
    cm = c.get("cm")
    if cm:
        trs = "[" + ";".join("(%d, %d)" % (a, b) for a, b in cm["trs"]) + "]"
        cols = "[" + ";".join("(%s, (%d, (%s, [%s])))" % (bl(x["n"]), x["ty"], bl(x["pre"]), ";".join("(%d, %d)" % (o, sz) for o, sz in x["ent"]))
                              for x in cm["cols"]) + "]"
        terms.append("32 * check_cm (%d, (%d, (%d, (%s, %s)))) %s" % (cm["sid"], cm["off"], cm["size"], trs, cols, bl(cm["hex"])))
    cs = c.get("cms")
    if cs and cs.get("cm"):
        m = cs["cm"]
        trs = "[" + ";".join("(%d, %d)" % (a, b) for a, b in m["trs"]) + "]"
        cols = "[" + ";".join("(%s, (%d, (%s, [%s])))" % (bl(x["n"]), x["ty"], bl(x["pre"]), ";".join("(%d, %d)" % (o, sz) for o, sz in x["ent"]))
                              for x in m["cols"]) + "]"
        dict_ = "[" + ";".join(bl(d) for d in cs["dict"]) + "]"
        terms.append("4096 * check_cm_self %s %s %s (%d, (%d, (%d, (%s, %s)))) %s" % (
            dict_, zs(cs["k"]), zl(cs["idxs"]) if all(i >= 0 for i in cs["idxs"]) else "[]", m["sid"], m["off"], m["size"], trs, cols, bl(cs["hex"])))
    return "(" + " + ".join(terms) + ")"


def f64(u):
    return struct.unpack("<d", struct.pack("<Q", u))[0]


def gorilla_sum_case(us):
    """root cause of C07-gorilla-error-path, exactly: a float64 block of more than 4 values that holds NO NaN at all
    (on the unchanged tree a block with a NaN anywhere is routed to snappy and never reaches the gorilla encoder), holds
    an infinity, and whose left-to-right float64 sum of values[1:] is NaN (+Inf meeting -Inf) - the only way the tsm1
    encoder can report an error for a NaN-free input."""
    fs = [f64(u) for u in us]
    if len(fs) <= 4 or any(math.isnan(x) for x in fs) or not any(math.isinf(x) for x in fs):
        return False
    s = 0.0
    for x in fs[1:]:
        s += x
    return math.isnan(s)


def float_segments(c):
    """non-null float values of each segment of the float column of a `col` case"""
    out = []
    for col in c.get("cols", []):
        if col["t"] == "float":
            n, lim = c["typ"], c["lim"]
            for lo in range(0, n, lim):
                out.append([col["vals"][i] for i in range(lo, min(lo + lim, n)) if not col["nulls"][i]])
    return out


def sig_gorilla(c):
    """C07-gorilla-error-path: the float block encoder panics on a NaN-free block whose sum of values[1:] is NaN."""
    if c.get("oracle") != "encode-panic" or "slice bounds out of range [:1] with capacity 0" not in c.get("panic", ""):
        return False
    if c["k"] == "float":
        return gorilla_sum_case(c["vals"])
    if c["k"] == "col":     # the panic aborts the whole chunk: some float segment must be a root-cause block
        return any(gorilla_sum_case(seg) for seg in float_segments(c))
    return False


def sig_negzero(c):
    """C07-negzero-same: float column of more than 4 values, each +0.0 or -0.0, at least one -0.0, stored in
    same-value mode and read back as all +0.0."""
    if c["k"] == "col" and c.get("oracle") == "roundtrip-differs" and c.get("badcol") == "float":
        segs = float_segments(c)
        j = c.get("badseg", -1)
        if not (0 <= j < len(segs)):
            return False
        v = segs[j]
        return len(v) > 4 and all(x in (0, M63) for x in v) and any(x == M63 for x in v)
    if c["k"] != "float" or c.get("oracle") != "roundtrip-differs" or c.get("mode") != 4:
        return False
    v = c["vals"]
    return (len(v) > 4 and all(x in (0, M63) for x in v) and any(x == M63 for x in v)
            and c.get("dec") == [0] * len(v))


I64MAX, I64MIN = (1 << 63) - 1, -(1 << 63)
F64MAX = struct.unpack("<d", struct.pack("<Q", 0x7FEFFFFFFFFFFFFF))[0]


def s64(u):
    return u - (1 << 64) if u >= M63 else u


def emulate_stats(c, se, col):
    """the statistics today's builders store for one column of one series: sentinel start values, strict comparisons,
    per-segment accumulation, single-value marshalling (min, minT only); bool: the time column is indexed with the
    position among the non-null values of the segment. Returns [min, minT, max, maxT, count, sum] as 64-bit patterns."""
    lim, n, t = c["lim"], len(se["times"]), col["t"]
    if t == "int":
        mn, mx, sm = I64MAX, I64MIN, 0
    elif t == "float":
        mn, mx, sm = F64MAX, -F64MAX, 0.0
    else:
        mn, mx, sm = 2, -1, 0
    mnT = mxT = cnt = 0
    for lo in range(0, n, lim):
        j = 0
        for i in range(lo, min(lo + lim, n)):
            if col["nulls"][i]:
                continue
            u = col["vals"][i]
            v = s64(u) if t == "int" else f64(u) if t == "float" else u
            tm = se["times"][lo + j] if t == "bool" else se["times"][i]
            j += 1
            cnt += 1
            if mn > v:
                mn, mnT = v, tm
            if mx < v:
                mx, mxT = v, tm
            if t == "int":
                sm = s64((sm + v) & ((1 << 64) - 1))
            elif t == "float":
                sm += v
    if cnt == 1 and t != "bool":
        mx, mxT, sm = mn, mnT, mn
    pat = (lambda x: x & ((1 << 64) - 1)) if t != "float" else (lambda x: struct.unpack("<Q", struct.pack("<d", x))[0])
    return [pat(mn), mnT, pat(mx), mxT, cnt, 0 if t == "bool" else pat(sm)]


def stat_col(c, f):
    se = c["series"][f["series"]]
    t = f.get("col", "")[6:]
    col = [x for x in se["cols"] if x["t"] == t]
    return (se, col[0]) if col and f.get("stored") else (se, None)


def stored_matches(st, emu, t):
    if t == "float":    # sums are compared as numbers (-0.0 == +0.0)
        return st[:5] == emu[:5] and (st[5] == emu[5] or f64(st[5]) == f64(emu[5]))
    return st == emu


def sig_bool_stat(c, f):
    """C07-bool-preagg-time-index: statistics of a boolean column that holds at least one null: what is stored is exactly
    what today's builder computes when it indexes the time column with the position among the non-null values of the
    segment instead of the row number (BooleanPreAgg.addValues); stored min/max values and count are right."""
    if f.get("col") != "stats:bool":
        return False
    se, col = stat_col(c, f)
    return col is not None and any(col["nulls"]) and stored_matches(f["stored"], emulate_stats(c, se, col), "bool")


def sig_sentinel_stat(c, f):
    """C07-preagg-sentinel-init: statistics of an integer (float) column whose minimum equals MaxInt64 (is +Inf) or
    whose maximum equals MinInt64 (is -Inf): what is stored is exactly what today's builders compute - they start from
    MaxInt64/MinInt64 (+-MaxFloat64) with strict comparisons, so such an extreme never registers its time (and, for
    floats, its value)."""
    if f.get("col") not in ("stats:int", "stats:float"):
        return False
    se, col = stat_col(c, f)
    if col is None:
        return False
    vals = [col["vals"][i] for i in range(len(se["times"])) if not col["nulls"][i]]
    if not vals:
        return False
    if col["t"] == "int":
        sv = [s64(u) for u in vals]
        extreme = min(sv) == I64MAX or max(sv) == I64MIN
    else:
        fv = [f64(u) for u in vals]
        if any(math.isnan(x) for x in fv):
            return False
        extreme = min(fv) > F64MAX or max(fv) < -F64MAX or min(fv) == F64MAX or max(fv) == -F64MAX
    return extreme and stored_matches(f["stored"], emulate_stats(c, se, col), col["t"])


def sig_zero_flag_stat(c, f):
    """C07-preagg-vlc-zero-flag at file level: file written under chunk-meta-compress-mode self (3); the statistics of a
    float column whose min and max are zero as float64 are stored as min = max = sum = +0.0 with the times and the count
    today's builder computes, and that differs from the rows only in the sign of a zero (or the sum)."""
    if f.get("col") != "stats:float" or c.get("cmode", 0) != 3:
        return False
    se, col = stat_col(c, f)
    if col is None:
        return False
    emu = emulate_stats(c, se, col)
    if emu[4] == 1 or emu[0] % M63 != 0 or emu[2] % M63 != 0:
        return False
    want = [0, emu[1], 0, emu[3], emu[4], 0]
    return f["stored"] == want and emu != want


FILE_SIGS = [("C07-preagg-vlc-zero-flag", sig_zero_flag_stat,
              "float statistics with min == max == 0 stored under chunk-meta-compress-mode self lose the sign of -0.0 and the sum (flag byte 0)"),
             ("C07-bool-preagg-time-index", sig_bool_stat,
              "stored min/max times of a boolean column with nulls are taken at the wrong rows"),
             ("C07-preagg-sentinel-init", sig_sentinel_stat,
              "stored statistics miss an extreme value equal to the builders' start value (MaxInt64/MinInt64, +-Inf)")]


def file_fail_finding(ck, c, f):
    for fid, sig, what in FILE_SIGS:
        if sig(c, f) and ck.match_finding(fid):
            return fid, what
    return None, None


def sig_same_u16(c):
    """C07-samevalue-u16-len: float block of at least 65536 values, all with the same bit pattern (same-value mode,
    tag 4), read back as len mod 65536 values (the count is stored in 16 bits)."""
    if c["k"] != "float" or c.get("oracle") != "roundtrip-differs" or c.get("mode") != 4:
        return False
    v = c["vals"]
    return len(v) >= 65536 and len(set(v)) == 1 and c.get("dec") == v[:len(v) % 65536]


def pa_mode_words(code, n):
    return [(code >> (12 * i)) & 4095 for i in range(n)]


def sig_pa_zero_flag(c):
    """C07-preagg-vlc-zero-flag: float statistics with min == 0 and max == 0 as float64 (either sign) that are not all
    three +0.0 bit for bit read back, under chunk-meta-compress-mode self ONLY, as min = max = sum = +0.0 with times and
    count intact; in every other mode they read back exactly."""
    if c["k"] != "preagg" or c.get("oracle") != "roundtrip-differs" or c["pa"]["kind"] != "float":
        return False
    f = c["pa"]["f"]
    if not (f[0] % M63 == 0 and f[1] % M63 == 0 and (f[0], f[1], f[4]) != (0, 0, 0)):
        return False
    for m in c["pa"]["modes"]:
        want = [0, 0, f[2], f[3], 0, f[5]] if m["mode"] == 3 else f
        if m.get("got") != want:
            return False
    return True


def sig_wal_header(c):
    """C07-wal-header-only-tail: the only strict prefixes of a record the real replay failed to reject are the ones of
    length exactly 5 (= WalRecordHeadSize: header complete, not one payload byte), alone (5) or after a complete copy of
    the record (1000005), for a record whose compressed payload is not empty."""
    return (c["k"] == "frame" and c.get("oracle") == "prefix-accepted" and len(c.get("c", "")) > 0
            and set(c.get("pref", [])) <= {5, 1000005} and len(c.get("pref", [])) > 0)


def has_nan(c):
    return any(math.isnan(f64(u)) for u in c.get("vals", []))


def nontrivial(c):
    """a case is non-trivial when the implementation produced a block in a compressed / structured mode (not the
    uncompressed fall-back, not an empty block) or when a frame had at least 5 prefixes tried"""
    if c["k"] == "record":      # rows present and strict prefixes tried on the real decoder
        return c.get("typ", 0) > 0 and c.get("ppanic", 0) > 10
    if c["k"] == "col":
        return c.get("typ", 0) > 0
    if c["k"] in ("file", "compact"):
        return len(c.get("series", [])) > 0
    if c["k"] == "merge":
        return bool((c.get("mg") or {}).get("got"))
    if c["k"] == "rows":
        return c.get("npref", 0) > 10
    if c["k"] == "mfile":       # more than one series and at least one row lookup through the reopened file
        return len(c.get("series", [])) > 1 and (c.get("mf") or {}).get("nlook", 0) > 0
    if c["k"] == "preagg":      # the variable-length form is within one byte of a length the reader dispatches on
        return c["pa"].get("vlen", 0) in (15, 16, 17, 47, 48, 49) or c["pa"]["f"][5] == 1
    if c["k"] == "frame":
        return c.get("npref", 0) >= 5
    if c["k"] == "bool":
        return len(c.get("vals", [])) > 8
    if c["k"] == "string":
        return c.get("mode", -1) >= 1 or len(c.get("strs", [])) > 1
    return c.get("mode", -1) in ((1, 2, 3) if c["k"] in ("int", "time") else (2, 3, 4, 5, 6))


def consts_text(obj):
    """Gen_Consts.v from the output of `c07 consts` (constants evaluated by the Go compiler)"""
    c = obj["consts"]
    names = sorted(c)
    lines = ["(* GENERATED by props/C07/run.py from the Go constants of the repository (harness `c07 consts`:",
             "   lib/encoding, lib/compress, simple8b, engine WAL, lib/util). Do not edit. *)",
             "From Coq Require Import ZArith List.", "Import ListNotations.", "Open Scope Z_scope."]
    for k in names:
        lines.append("Definition g_%s : Z := %d." % (k, c[k]))
    lines.append("Definition g_s8_table : list (Z * Z) := [%s]." % "; ".join("(%d, %d)" % (a, b) for a, b in obj["s8"]))
    lines.append("Definition g_scales : list Z := [%s]." % "; ".join(str(int(x)) for x in obj.get("scales", [])))
    for k in sorted(obj.get("lists", {})):
        lines.append("Definition g_%s : list Z := [%s]." % (k, "; ".join(str(int(x)) for x in obj["lists"][k])))
    lines.append("Ltac g_unfold := unfold %s in *." % ", ".join("g_" + k for k in names))
    return "\n".join(lines) + "\n"


def gen_consts(ck, binp):
    rc, out = ck.run([binp, "consts"], timeout=120)
    obj = None
    for l in out.splitlines():
        if l.startswith('{"consts"'):
            obj = json.loads(l)
    if rc != 0 or obj is None:
        ck.broken.append("harness `c07 consts` failed: " + out[-300:])
        return False
    ck.write_gen("C07/Gen_Consts.v", consts_text(obj))
    ck.cov["generated_constants"] = len(obj["consts"]) + len(obj["s8"]) + len(obj.get("scales", [])) + sum(len(v) for v in obj.get("lists", {}).values())
    return True


def scan_obligation(ck, binp):
    """the static obligation behind the unmodelled tag-1 float format: no code of this version writes it"""
    rc, out = ck.run([binp, "scan", ck.repo], timeout=120)
    obj = None
    for l in out.splitlines():
        if l.startswith('{"scan"'):
            try:
                obj = json.loads(l)["scan"]
            except (ValueError, KeyError):
                obj = None
    if rc != 0 or obj is None or not isinstance(obj.get("writes"), list):
        ck.broken.append("harness `c07 scan` failed: " + out[-300:])
        return
    ck.cov["float_tag1_scan"] = obj
    ck.cov["obligations"] += 1
    if obj["writes"] or obj.get("decl", 0) < 1 or obj.get("files", 0) < 2:
        ck.broken.append("obligation C07: float tag 1 (deprecated gorilla format, decoder not modelled) is written nowhere - "
                         "no longer holds: " + (", ".join(obj["writes"]) or "tag constant not found"))
        ck.nofail_detail = {"kind": "static-obligation", "scan": obj}
    else:
        ck.cov["discharged"] += 1


def run_harness(ck, binp, n, extra, seed=None):
    env = {"VERIF_SEED": str(seed)} if seed is not None else None
    rc, out = ck.run([binp, str(n)] + extra, timeout=1800, env=env)
    cases = []
    done = False
    for l in out.splitlines():
        if l.startswith('{"k"'):
            try:
                cases.append(json.loads(l))
            except ValueError:
                return None, "unparsable harness line: " + l[:200]
        elif l.startswith('{"done"'):
            done = True
    if rc != 0 or not done:
        return None, "harness c07 failed rc=%d cases=%d: %s" % (rc, len(cases), out[-600:])
    return cases, None


CANARY = "(check_merge_float (mkStat 1 2 3 4 5 6) (mkStat 0 9 1 1 1 1) (mkStat 1 2 3 4 5 7))"
stats_canaries = [0]


def evaluate(ck, cases):
    """returns list of codes (int or None) aligned with cases; appends to ck.broken on machinery failure"""
    terms = []
    for i, c in enumerate(cases):
        try:
            t = case_term(c)
        except (ValueError, KeyError) as e:
            ck.broken.append("correspondence C07: harness case %d (%s) cannot be interpreted: %r" % (i, c["k"], e))
            ck.nofail_detail = {"case": c}
            t = None
        terms.append(t)
    idx = [i for i, t in enumerate(terms) if t is not None]
    # shard by size so that every coqc job gets a similar amount of text
    shards, cur, size = [], [], 0
    for i in idx:
        cur.append(i)
        size += len(terms[i])
        if size > 400000 or len(cur) >= 120:
            shards.append(cur)
            cur, size = [], 0
    if cur:
        shards.append(cur)
    files = []
    for s, ids in enumerate(shards):
        # permanent canary: the last term of every shard is a deliberately falsified case (a merge whose claimed result is
        # wrong); it must come back as the mismatch code 2, else the evaluation of the shard is not to be trusted
        txt = ("From Coq Require Import ZArith List Bool. From OG Require Import C07.Model C07.ModelRows C07.ModelFile C07.ModelPreAgg C07.ModelStats C07.Corr C07.Corr2.\n"
               "Import ListNotations. Open Scope Z_scope.\n"
               "Definition R : list Z := Eval vm_compute in [\n%s\n].\nPrint R.\n") % ";\n".join([terms[i] for i in ids] + [CANARY])
        files.append(("cases%d" % s, txt))
    codes = [None] * len(cases)
    res = ck.coq_eval_many(files, timeout=1200)
    for s, (rc, o) in enumerate(res):
        m = re.search(r"R\s*=\s*\[(.*?)\]\s*:\s*list Z", o, re.S)
        nums = [int(x) for x in re.findall(r"-?\d+", m.group(1))] if m else []
        if rc != 0 or not m or len(nums) != len(shards[s]) + 1 or re.search(r"[^\d;\s-]", m.group(1)):
            ck.broken.append("model evaluation failed on shard %d: %s" % (s, o[-400:]))
            continue
        if nums[-1] != 2:
            ck.broken.append("model evaluation canary of shard %d came back as %r instead of the mismatch code 2" % (s, nums[-1]))
            continue
        nums = nums[:-1]
        stats_canaries[0] += 1
        for i, v in zip(shards[s], nums):
            codes[i] = v
    return codes


def slim(c):
    d = {k: v for k, v in c.items() if k not in ("hex", "c", "d", "dv", "segs", "recj", "rowsj", "cm", "cms", "file", "blocks")}
    if c.get("pa"):
        d["pa"] = c["pa"]
    if c.get("mf"):
        d["mf"] = c["mf"]
    for k in ("cp", "mg"):
        if c.get(k):
            d[k] = c[k]
    if len(c.get("hex", "")) <= 400:
        d["hex"] = c.get("hex", "")
    return d


def classify(ck, cases, codes, stats):
    """apply the decision procedure to evaluated cases"""
    mism = []
    for i, c in enumerate(cases):
        code = codes[i]
        orc = c.get("oracle")
        if orc and c["k"] in ("file", "compact") and c.get("fails"):
            # every difference found in the file is classified on its own
            unknown = []
            for f in c["fails"]:
                fid, what = file_fail_finding(ck, c, f)
                if fid == "C07-preagg-sentinel-init" and code is not None and ((code >> 4) & 2) and ((code >> 4) & 8):
                    fid = None      # no variant with the Coq model of today's builders explains what is stored
                if fid:
                    ck.known_finding(fid, what)
                    stats["known"][fid] = stats["known"].get(fid, 0) + 1
                else:
                    unknown.append(f)
            if unknown:
                if len(ck.violations) < 5:
                    ck.violation({"kind": "direct-oracle", "what": orc, "case": slim(c), "differences": unknown[:5],
                                  "explanation": "whole data file: what the real reader returns differs from what was written"})
                stats["violations"] += 1
            continue
        if orc:
            # the property statement itself fails on the real code
            fid = None
            if sig_gorilla(c) and (code == 0 or c["k"] == "col"):
                fid = "C07-gorilla-error-path"
            elif sig_negzero(c) and code is not None and ((code >> 4) == 0 or (c["k"] == "col" and code == 0)):
                fid = "C07-negzero-same"
            elif sig_wal_header(c) and code == 0:
                fid = "C07-wal-header-only-tail"
            elif sig_same_u16(c) and code is not None and (code & 15) == 1 and (code >> 4) == 1:
                fid = "C07-samevalue-u16-len"
            elif sig_pa_zero_flag(c) and code is not None and all(((w >> 6) & 31) == 0 for w in pa_mode_words(code, len(c["pa"]["modes"]))):
                fid = "C07-preagg-vlc-zero-flag"     # the model of today's zero test explains bytes and decode in every mode
            if fid and ck.match_finding(fid):
                what = {"C07-gorilla-error-path": "float block encoder panics (gorilla encoder error examined after re-slicing)",
                        "C07-negzero-same": "float column of -0.0/+0.0 stored in same-value mode reads back as +0.0",
                        "C07-wal-header-only-tail": "WAL record cut exactly after its 5-byte header is not recognised as "
                                                    "incomplete: stale buffer content is decoded and delivered as a record",
                        "C07-samevalue-u16-len": "float block of >= 65536 equal values stores its count in 16 bits and reads "
                                                 "back truncated (reachable with max-rows-per-segment > 65535)",
                        "C07-preagg-vlc-zero-flag": "float statistics with min == max == 0 stored under chunk-meta-compress-mode "
                                                    "self lose the sign of -0.0 and the sum (flag byte 0)"}[fid]
                ck.known_finding(fid, what)
                stats["known"][fid] = stats["known"].get(fid, 0) + 1
            else:
                if len(ck.violations) < 5:
                    ck.violation({"kind": "direct-oracle", "what": orc, "case": slim(c), "model_code": code,
                                  "explanation": "decode(encode x) != x bit for bit, or a panic/error, on the real coders"})
                stats["violations"] += 1
            continue
        if code is None:
            continue
        if c["k"] == "float":
            code &= 15      # the repaired model is the reference when the round trip is exact
        if c["k"] in ("file", "compact"):
            whole = code >> 12          # flags of the model reader run on the real file
            w = (code >> 4) & 15
            code = (code & 15) | (whole << 5)
            if w & 1:
                # the stored statistics are not the reference (repaired builders, repaired codec) although the direct
                # oracle did not look at them (column with a NaN): which variant of the tree explains them?
                need = None
                for bit, fids in ((2, ["C07-preagg-sentinel-init"]), (4, ["C07-preagg-vlc-zero-flag"]),
                                  (8, ["C07-preagg-sentinel-init", "C07-preagg-vlc-zero-flag"])):
                    if not (w & bit):
                        need = fids
                        break
                if need is not None and all(ck.match_finding(fid) for fid in need):
                    for fid in need:
                        ck.known_finding(fid, dict((a, b) for a, _, b in FILE_SIGS)[fid])
                        stats["known"][fid] = stats["known"].get(fid, 0) + 1
                else:
                    code |= 16      # stored statistics explained by no admissible variant of the builders / codec
        if c["k"] == "frame":
            code &= 15      # flag 16 (model of today's reader) only matters when a prefix was accepted
        if c["k"] == "merge" and c["mg"]["kind"] == "int":
            # either variant of the integer merge explains the result: today's (through float64) or the exact one
            stats["merge_variant"] = stats.get("merge_variant", {})
            v = "float64-routed" if not (code & 2) else "exact" if not (code & 4) else "none"
            if code in (2, 4):
                stats["merge_variant"][v] = stats["merge_variant"].get(v, 0) + 1
            code = 0 if code in (0, 2, 4) else code
        if c["k"] == "preagg":
            ws = pa_mode_words(code, len(c["pa"]["modes"]))
            stats["pa_writer_choice_differs"] = stats.get("pa_writer_choice_differs", 0) + sum(1 for w in ws if w & 32)
            # the repaired model is the reference when the round trip is exact; flag 32 (the writer's choice among
            # applicable layouts differs from the model of today's writer) is informational
            code = sum((w & 31) << (5 * i) for i, w in enumerate(ws))
        if code != 0:
            mism.append((i, code))
    return mism


def main(ck):
    ck.assumptions += [
        "third-party compressors (klauspost snappy/zstd, golang snappy, lz4, tsm1 gorilla, MLF) round-trip: Section "
        "hypotheses of the Coq theorems; in the correspondence their real output is substituted",
        "little-endian host (the coders reinterpret []int64/[]float64 as bytes)",
        "a block holds fewer than 2^29 values and a same-value float block fewer than 2^16 (segments hold at most "
        "MaxRowsPerSegment rows); carried as `applicable` side conditions",
    ]
    ck.cov["trusted_base"] = ["Coq 8.16.1 kernel + vm_compute (cases evaluation, Examples, Refuted witnesses)",
                              "Go harness cmd/c07 (generators, mode/selector/run extraction from the real bytes), python driver props/C07/run.py",
                              "no axioms; third-party behaviour as Section hypotheses (see print_assumptions)"]
    # findings of this property's fragment that the merged known_findings.json does not carry yet (read-only; the
    # merged file wins for ids it knows)
    frag = os.path.join(ck.verif, "props", PID, "findings.json")
    have = {f["id"] for f in ck.findings}
    mine = [f for f in json.load(open(frag))["findings"] if f["property"] == PID]
    ck.findings += [f for f in mine if f["id"] not in have]
    # the stricter status wins: a finding this fragment records as fixed suppresses nothing even while the merged file
    # still lists it as open
    fixed_here = {f["id"] for f in mine if f.get("status") == "fixed"}
    ck.findings = [dict(f, status="fixed") if f["id"] in fixed_here else f for f in ck.findings]
    binp = ck.go_build("./cmd/c07", "c07")
    if not binp:
        return
    if not gen_consts(ck, binp):     # translator: Gen_Consts.v is rewritten (only when it changed) before the proofs are built
        return
    ck.coq_audit(["C07"])
    ok = ck.coq_build(["C07/Props.vo", "C07/Refuted.vo", "C07/Corr.vo"])
    if ok:
        ck.coq_props(["C07/Props.v", "C07/Refuted.v"])
    scan_obligation(ck, binp)
    n = 800 if ck.tier == "quick" else 16000
    extra = [os.path.join(ck.verif, "corpus", PID)]
    if getattr(ck, "replay", None):
        rp = json.load(open(ck.replay))
        cf = os.path.join(ck.work, "replay.case")
        open(cf, "w").write(json.dumps({k: v for k, v in rp.get("case", {}).items()
                                        if k in ("k", "vals", "strs", "algo", "typ", "payload", "lim", "cols", "seed", "series", "rep", "cmode", "pa", "mf", "cp", "mg")}) + "\n")
        n, extra = 0, [cf]
    cases, err = run_harness(ck, binp, n, extra)
    if err:
        ck.broken.append(err)
        return
    stats = {"known": {}, "violations": 0}
    codes = evaluate(ck, cases) if ok else [None] * len(cases)
    mism = classify(ck, cases, codes, stats) if ok else []
    if getattr(ck, "replay", None):
        for c, code in zip(cases, codes):
            ck.log("replay:", json.dumps(slim(c))[:600], "model_code=%r" % code)
    if mism and not stats["violations"]:
        # model and implementation disagree although the direct oracle passed on those cases: search a fresh,
        # larger boundary-biased stream for a concrete failing input before reporting no-failing-input-found
        more, err = run_harness(ck, binp, 4 * n + 2000, [], seed=ck.seed + 1)
        if more:
            for c in more:
                if c.get("oracle") and not ((sig_gorilla(c) and ck.match_finding("C07-gorilla-error-path")) or
                                            (sig_negzero(c) and ck.match_finding("C07-negzero-same")) or
                                            (sig_wal_header(c) and ck.match_finding("C07-wal-header-only-tail")) or
                                            (sig_same_u16(c) and ck.match_finding("C07-samevalue-u16-len")) or
                                            (sig_pa_zero_flag(c) and ck.match_finding("C07-preagg-vlc-zero-flag")) or
                                            (c["k"] in ("file", "compact") and c.get("fails") and all(file_fail_finding(ck, c, f)[0] for f in c["fails"]))):
                    ck.violation({"kind": "direct-oracle", "what": c["oracle"], "case": slim(c),
                                  "explanation": "found by the fresh stream after a model/implementation disagreement"})
                    stats["violations"] += 1
                    break
        if not stats["violations"]:
            i, code = mism[0]
            ck.broken.append("correspondence C07 (%s block): model and implementation differ, flags=%d "
                             "(1 mode not applicable, 2 bytes differ, 4 model decoder differs, 8 prefix accepted; file: 16 stored statistics differ from the builder models, 32.. flags of the model reader on the real file << 5)" % (cases[i]["k"], code))
            ck.nofail_detail = {"kind": "correspondence", "case_index": i, "flags": code, "case": slim(cases[i]),
                                "mismatching_cases": len(mism)}
    # stale open findings (reported, never a violation)
    for f in ck.findings:
        if f.get("status") == "open" and f["id"] not in stats["known"]:
            ck.notes.append("open finding %s did not reproduce on this tree (stale or repaired)" % f["id"])
    # coverage
    hist, shapes = {}, {}
    seen = set()
    for c in cases:
        key = "%s/mode%s" % (c["k"], c.get("mode"))
        hist[key] = hist.get(key, 0) + 1
        sk = "%s/%s" % (c["k"], c.get("shape"))
        shapes[sk] = shapes.get(sk, 0) + 1
        if nontrivial(c):
            seen.add(json.dumps([c["k"], c.get("vals"), c.get("strs"), c.get("algo"), c.get("typ"), c.get("payload"), c.get("shape"), c.get("cols"), c.get("seed"), c.get("series"), (c.get("pa") or {}).get("f"), c.get("cmode"), c.get("cp"), c.get("mg")]))
    ck.cov["evaluations"] = len(cases)
    ck.cov["distinct_nontrivial"] = len(seen)
    ck.cov["traces_validated_against_impl"] = sum(1 for i, c in enumerate(cases) if codes[i] is not None) - len(mism)
    ck.cov["rule"] = ("columns / string lists / log records from one PRNG (shape histogram below) plus corpus/C07; non-trivial = the "
                      "implementation chose a compressed or structured mode (not the uncompressed fall-back, not an empty block); "
                      "distinct = different inputs")
    ck.cov["mode_histogram"] = hist
    ck.cov["shape_histogram"] = shapes
    ck.cov["known_finding_cases"] = stats["known"]
    ck.cov["evaluation_canaries_returned"] = stats_canaries[0]
    ck.cov["integer_merge_variant_beyond_2^53"] = stats.get("merge_variant", {})
    ck.cov["preagg_writer_choice_differs_from_model_of_todays_writer"] = stats.get("pa_writer_choice_differs", 0)
    ck.cov["samples"] = [slim(c) for c in cases[3:6]]
