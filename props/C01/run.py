"""C01 - acknowledged writes survive a crash at any moment, with their latest values. See DESIGN.md section C01, NOTES.md."""
import json
import os
import re
import vlib
from vlib import coq_n, coq_z, coq_list

PID = "C01"
WAL_HEAD = 5  # WalRecordHeadSize: [type:1][len:4]


def mst_of(h, s):
    n = h.get("nmst", 1) or 1
    return s % n if n > 1 else 0


def key_coq(h, s, t, f):
    # Model.v: series s belongs to measurement s / 1000
    return "(%s, %s, %s)" % (coq_n(s + 1000 * mst_of(h, s)), coq_n(t), coq_n(f))


def rows_coq(h, rows):
    cells = []
    for r in rows:
        for fv in r["f"]:
            cells.append("(%s, %s)" % (key_coq(h, r["s"], r["t"], fv["f"]), coq_z(fv["v"])))
    return coq_list(cells)


def cop_coq(h, op):
    if op["k"] == "W":
        return "CW %s" % rows_coq(h, op["rows"])
    if op["k"] == "D":
        return "CD %s" % coq_n(op.get("m", 0) % (h.get("nmst", 1) or 1))
    return "CN"


def xops_coq(h):
    """per op the steps of the flush/drop machine (Model.v xstate): FB = log switch, FE = commit + log removal,
    F = switch + commit + removal (after finishing a held flush), D = mark, flush, remove the data files (XDropDone)"""
    out, held = [], False
    fin = ["XCommit", "XRemove"]
    for op in h["ops"]:
        k = op["k"]
        if k == "W":
            out.append(["XWrite %s" % rows_coq(h, op["rows"])])
        elif k == "FB":
            out.append([] if held else ["XSwitch"])
            held = True
        elif k == "FE":
            out.append(fin if held else [])
            held = False
        elif k == "F":
            out.append((fin if held else []) + ["XSwitch"] + fin)
            held = False
        elif k == "D":
            m = coq_n(op.get("m", 0) % (h.get("nmst", 1) or 1))
            out.append((fin if held else []) + ["XDropBegin %s" % m, "XSwitch"] + fin + ["XDropDone %s" % m])
            held = False
        else:
            out.append([])
    return coq_list([coq_list(x) for x in out])


def parts_coq(parts):
    return coq_list([coq_list(["%d%%nat" % i for i in p]) for p in parts])


def epochs_of(h, im):
    """the switch epochs of the history machine at the image: the first nrec write ops grouped by the first nsw log switches
    (F, D, and FB when no flush is held; FE/F/D end a held flush)"""
    eps, cur, nw, ns, held = [], [], 0, 0, False
    missing = set(im.get("missing") or [])
    for i, op in enumerate(h["ops"]):
        k = op["k"]
        if k == "W":
            if i in missing:
                cur.append(i)  # slot taken, record not on disk yet
            elif nw < im["nrec"]:
                cur.append(i)
                nw += 1
        elif k in ("F", "D") or (k == "FB" and not held):
            if ns < im["nsw"]:
                eps.append(cur)
                cur = []
                ns += 1
            held = (k == "FB")
        elif k == "FE":
            held = False
    return eps + [cur], nw, ns


def image_coq(h, im, parent_parts):
    chain = [parts_coq(im["parts"])] if im["sub"] < 0 else [parts_coq(parent_parts), parts_coq(im["parts"])]
    infl = "None" if im["inflight"] < 0 or im["inflight"] >= len(h["ops"]) else "(Some %d%%nat)" % im["inflight"]
    obs = coq_list(["(%s, %s)" % (key_coq(h, c["s"], c["t"], c["f"]), coq_z(c["got"])) for c in im["dump"]])
    post = []
    a = im.get("async")
    if a:
        if a["drop_tried"] and not a["drop_refused"]:
            post.append("CD %s" % coq_n(a["drop_m"]))
        if a.get("extra") and a["extra_acked"]:
            post.append("CW %s" % rows_coq(h, a["extra"]))
    tie = "None"
    if im.get("tie") and im["sub"] < 0:
        eps, nw, ns = epochs_of(h, im)
        if nw == im["nrec"] and ns == im["nsw"]:
            tie = "(Some (mkct %s %d%%nat %s %s))" % (parts_coq(eps), im["nj"], coq_list(["%d%%nat" % p for p in im.get("gone") or []]),
                                                      coq_list(["%d%%nat" % p for p in im.get("missing") or []]))
        else:
            tie = "(Some (mkct [] 0%nat [] []))"  # bookkeeping impossible for the op list: reported as a tie failure
    return "mkci %d%%nat %s %s %s %s %s" % (im["acked"], infl, coq_list(post), coq_list(chain), tie, obs)


def writes_to(h, upto, inflight, cell, extra=None):
    """(op index, value) of every write op in ops[:upto] (+ inflight) touching the cell, in ack order"""
    out = []
    idxs = list(range(upto)) + ([inflight] if inflight is not None and inflight >= upto and inflight < len(h["ops"]) else [])
    for i in idxs:
        op = h["ops"][i]
        if op["k"] == "D" and op.get("m", 0) % (h.get("nmst", 1) or 1) == mst_of(h, cell["s"]):
            out = []  # writes before an acknowledged drop of the cell's measurement do not count
        if op["k"] != "W":
            continue
        for r in op["rows"]:
            if r["s"] == cell["s"] and r["t"] == cell["t"]:
                for fv in r["f"]:
                    if fv["f"] == cell["f"]:
                        out.append((i, fv["v"]))
    return out


def partition_of(h, i):
    return sum(1 for o in h["ops"][:i] if o["k"] == "W") % h["nwal"]


def lww_py(h, upto, inflight, post=None):
    m = {}

    def ap(op):
        if op["k"] == "D":
            dm = op.get("m", 0) % (h.get("nmst", 1) or 1)
            for k in [k for k in m if mst_of(h, k[0]) == dm]:
                del m[k]
        if op["k"] == "W":
            for r in op["rows"]:
                for fv in r["f"]:
                    m[(r["s"], r["t"], fv["f"])] = fv["v"]
    idxs = list(range(upto)) + ([inflight] if inflight is not None and inflight >= upto and inflight < len(h["ops"]) else [])
    for i in idxs:
        ap(h["ops"][i])
    for op in post or []:
        ap(op)
    return m


def post_ops(im):
    a = im.get("async")
    out = []
    if a:
        if a["drop_tried"] and not a["drop_refused"]:
            out.append({"k": "D", "m": a["drop_m"]})
        if a.get("extra") and a["extra_acked"]:
            out.append({"k": "W", "rows": a["extra"]})
    return out


def diff_py(h, im, inflight):
    exp = lww_py(h, im["acked"], inflight, post_ops(im))
    got = {(c["s"], c["t"], c["f"]): c["got"] for c in im.get("dump") or []}
    out = []
    for k in sorted(set(exp) | set(got)):
        if exp.get(k) != got.get(k):
            out.append({"s": k[0], "t": k[1], "f": k[2], "want": exp.get(k, 0), "wok": k in exp, "got": got.get(k, 0), "gok": k in got})
    return out


def walphase_signature(h, im):
    """holds against the acknowledged state or against acknowledged + the one write in flight"""
    if walphase_signature1(h, im, im.get("diff")):
        return True
    if im["inflight"] >= 0 and im.get("dump"):
        for infl in (None, im["inflight"]):
            d = diff_py(h, im, infl)
            if d and walphase_signature1(h, dict(im, diff=d), d):
                return True
    return False


def walphase_signature1(h, im, diff):
    """two acknowledged writes to the failing (series,time,field), routed to different WAL partitions, and the value
    recovered is that of the older one (replay applied the older record after, or without, the newer one)"""
    if h["nwal"] < 2 or not diff:
        return False
    for c in diff:
        ws = writes_to(h, im["acked"], im["inflight"] if im["inflight"] >= 0 else None, c)
        if len(ws) < 2 or not c["gok"]:
            return False
        if not c["wok"]:
            return False
        pos = [n for n, (i, v) in enumerate(ws) if v == c["want"]]
        if not pos:
            return False
        last_n = pos[-1]  # w2: the write whose value should have been recovered
        older = [(i, v) for (i, v) in ws[:last_n] if v == c["got"]]
        if not older:
            return False
        last_i = ws[last_n][0]
        if all(partition_of(h, i) == partition_of(h, last_i) for (i, _) in older):
            return False
    return True


def asyncreplay_cells(h, im, diff):
    """asynchronous replay: a write acknowledged by the re-opened shard while the log had not been re-applied yet; a failing
    cell is explained when it is a cell of that write, the value wanted is the value it wrote, and the value found is the value
    of a record of that cell in the image's live log (the replay re-applied the older record over the newer write)"""
    a = im.get("async")
    if not a or not a.get("extra") or not a["extra_acked"] or not diff:
        return []
    extra = {(r["s"], r["t"], fv["f"]): fv["v"] for r in a["extra"] for fv in r["f"]}
    live = [i for p in (im.get("parts") or []) for i in p]
    out = []
    for c in diff:
        k = (c["s"], c["t"], c["f"])
        if k not in extra or not c["wok"] or not c["gok"] or c["want"] != extra[k]:
            continue
        logged = [v for (i, v) in writes_to(h, im["acked"], im["inflight"] if im["inflight"] >= 0 else None, c) if i in live]
        if c["got"] in logged:
            out.append(c)
    return out


def asyncclose_cells(h, im, diff):
    """clean shutdown during an asynchronous replay: the shard was closed while the replay was held (cancelled); a failing cell
    is explained when the value wanted was written by a request whose record sits in the image's live log - the log files
    the cancelled replay's cleanup removed"""
    a = im.get("async")
    if not a or not a.get("closed") or not diff:
        return []
    live = [i for p in (im.get("parts") or []) for i in p]
    out = []
    for c in diff:
        if not c["wok"]:
            continue
        logged = [v for (i, v) in writes_to(h, im["acked"], im["inflight"] if im["inflight"] >= 0 else None, c) if i in live]
        if c["want"] in logged:
            out.append(c)
    return out


def parallelreplay_cells(h, im, diff):
    """wal-replay-parallel: every partition is re-applied by its own goroutine; a failing cell is explained when the value found
    and the value wanted are both values of records of that cell in the image's live log, in DIFFERENT partitions"""
    if not h.get("par") or not diff:
        return []
    where = {}
    # a second-level image: the first recovery (parallel replay, flush, log removal) has already made its order durable
    for p, recs in enumerate((im.get("_parent_parts") if im["sub"] >= 0 else im.get("parts")) or []):
        for i in recs:
            where[i] = p
    out = []
    for c in diff:
        if not (c["wok"] and c["gok"]):
            continue
        ws = [(i, v) for (i, v) in writes_to(h, im["acked"], im["inflight"] if im["inflight"] >= 0 else None, c) if i in where]
        pw = {where[i] for (i, v) in ws if v == c["want"]}
        pg = {where[i] for (i, v) in ws if v == c["got"]}
        if pw and pg and (len(pw | pg) > 1):
            out.append(c)
    return out


def classify(h, im, dff, code, parent_torn):
    """ids of the known findings that together explain EVERY failing cell, or [] """
    if not dff:
        if im.get("err") and "open after crash failed" in im["err"] and im.get("txn", 0) >= 2:
            return ["C01-idxtxn"]
        return ["C01-walheadereof"] if parent_torn == WAL_HEAD else []
    cc = asyncclose_cells(h, im, dff)
    if cc and len(cc) == len(dff):
        return ["C01-asyncclose"]
    pc = parallelreplay_cells(h, im, dff)
    if pc and len(pc) == len(dff):
        return ["C01-parallelreplay"]
    ac = asyncreplay_cells(h, im, dff)
    rest = [c for c in dff if c not in ac]
    fids = ["C01-asyncreplay"] if ac else []
    if rest:
        cur_ok = code is not None and (code & 2)
        if cur_ok and (walphase_signature1(h, im, rest) or (not ac and walphase_signature(h, im))):
            fids.append("C01-walphase")
        elif not ac and parent_torn == WAL_HEAD:
            return ["C01-walheadereof"]
        else:
            return []
    return fids


def main(ck):
    ck.assumptions += [
        "process-kill crash semantics: completed writes/renames/removes are visible after the crash; the torn last WAL append is any "
        "byte prefix of the record (no power loss: unsynced data is not dropped)",
        "crash images are copies of the shard directory (data, wal, series index) frozen inside file-system mutation callbacks and "
        "re-opened at the same path with the real code; the series index (mergeset) is part of the image",
        "the model abstracts data files to their logical content (file codec: C07; layout precedence: C02); records are whole "
        "write batches; the repaired variant assumes an epoch tag in the WAL file name and whole-epoch removal",
        "snappy / row marshalling of WAL payloads round-trip and reject damaged payloads (C07's obligation)",
        "a DROP MEASUREMENT that was not acknowledged before the crash may leave its measurement in any partially dropped state "
        "(cells gone or back at an older flushed value, nothing invented); every other measurement is exact",
        "writers are sequential (one write request at a time); flushes, drops and the replay run concurrently with them",
    ]
    ck.cov["trusted_base"] = ["Coq 8.16.1 kernel + vm_compute (cases evaluation, Examples, refutation witnesses)",
                              "no axioms (Print Assumptions: closed)",
                              "Go harness cmd/c01 (gate over the recording VFS, watchdog) + internal/crashfs + internal/tsdrv (hooks "
                              "lib/fileops/verif_export_c03.go, engine/verif_export_c02.go, engine/verif_export_c01.go, "
                              "engine/verif_export_c01b.go), python driver props/C01/run.py"]
    # findings of this property's fragment that the merged known_findings.json does not know yet (read-only, never written)
    try:
        frag = json.load(open(os.path.join(vlib.VERIF, "props", PID, "findings.json")))["findings"]
        have = {f["id"] for f in ck.findings}
        ck.findings += [f for f in frag if f["property"] == PID and f["id"] not in have]
    except (OSError, ValueError, KeyError):
        pass
    ck.coq_audit(["C01"])
    ok = ck.coq_build(["C01/Proofs.vo", "C01/Proofs2.vo", "C01/Proofs3.vo", "C01/Proofs4.vo", "C01/Proofs5.vo", "C01/ProofsC.vo", "C01/ProofsF.vo", "C01/Corr.vo"])
    if ok:
        ck.coq_props(["C01/Props.v", "C01/Refuted.v"])
    binp = ck.go_build("./cmd/c01", "c01")
    if not binp:
        return
    quick = ck.tier == "quick"
    n = 7 if quick else 60
    # the harness has a per-history watchdog (no progress for 60 s -> the history is reported and the run ends); the
    # process timeout is the second line of defence: ~9 min in the quick tier
    if ck.replay:
        rp = json.load(open(ck.replay))
        hf = os.path.join(ck.work, "replay_history.json")
        json.dump({"case": rp["case"], "nwal": rp["nwal"], "nser": rp["nser"], "nmst": rp.get("nmst", 1), "pre": rp.get("pre", 0),
                   "auto": rp.get("auto", False), "async": rp.get("async", False), "par": rp.get("par", False), "ops": rp["ops"]}, open(hf, "w"))
        rc, out = ck.run([binp, "1", hf], timeout=540 if quick else 3000)
    else:
        rc, out = ck.run([binp, str(n)], timeout=540 if quick else 6000)
    hs = [json.loads(l) for l in out.splitlines() if l.startswith('{"case"')]
    starts = [json.loads(l) for l in out.splitlines() if l.startswith('{"start"')]
    if rc != 0 or "c01 done" not in out or not hs:
        done = {h["case"] for h in hs}
        unfinished = [s for s in starts if s["start"] not in done]
        ck.broken.append("harness c01 did not finish (rc=%d, %d histories finished%s): %s" % (
            rc, len(hs), ", history %d was running" % unfinished[-1]["start"] if unfinished else "", out[-400:]))
        if unfinished:
            s = unfinished[-1]
            ck.nofail_detail = {"kind": "harness-died-or-timed-out", "case": s["start"], "nwal": s["nwal"], "nser": s["nser"], "nmst": s.get("nmst", 1),
                                "pre": s.get("pre", 0), "auto": s.get("auto", False), "async": s.get("async", False), "ops": s["ops"]}
        if not hs:
            return
    for h in hs:
        if h.get("crash"):
            ck.broken.append("harness c01: history %d did not run to its end: %s" % (h["case"], h["crash"][:300]))
            if not getattr(ck, "nofail_detail", None):
                ck.nofail_detail = {"kind": "history-aborted", "why": h["crash"][:600], "case": h["case"], "nwal": h["nwal"], "nser": h["nser"],
                                    "nmst": h.get("nmst", 1), "pre": h.get("pre", 0), "auto": h.get("auto", False), "async": h.get("async", False), "ops": h["ops"]}
        if h.get("tie_err"):
            ck.broken.append("correspondence C01 (log protocol: a flush removes exactly the log files of the epoch it switched - model wstep "
                             "WRemove / C01_recovery_exact; no request is acknowledged while another holds a slot without a record - model "
                             "cwstep / C01_barrier_replay_respects_ack_order): history %d: %s" % (h["case"], h["tie_err"][:300]))
            if not getattr(ck, "nofail_detail", None):
                ck.nofail_detail = {"kind": "flush-protocol", "why": h["tie_err"], "case": h["case"], "nwal": h["nwal"], "nser": h["nser"],
                                    "nmst": h.get("nmst", 1), "pre": h.get("pre", 0), "ops": h["ops"]}
    # ---- placement tie: record i lives in partition (#writes before i) mod N ----
    for h in hs:
        for im in h["images"]:
            for p, recs in enumerate(im["parts"] or []):
                for i in recs:
                    if partition_of(h, i) != p:
                        ck.broken.append("WAL placement differs from (writeReq mod N): history %d op %d found in partition %d" % (h["case"], i, p))
                        break
    # ---- model evaluation (one scratch file per few histories) ----
    shard = 2
    files = []
    nframes = [0]
    for i in range(0, len(hs), shard):
        chunk = hs[i:i + shard]
        cases = []
        for h in chunk:
            imgs = []
            parent = []
            for im in h["images"]:
                if im["sub"] < 0:
                    parent = im["parts"] or []
                im["_parent_parts"] = parent
                if im.get("dump") is None:
                    im["dump"] = []
                imgs.append(image_coq(h, im, parent))
            wals = []
            for im in h["images"]:
                for wf in im.get("walbytes") or []:
                    wals.append("mkcw %s %d%%nat %d%%nat" % (vlib.coq_bytes(bytes.fromhex(wf["hex"])), wf["nrec"], max(wf.get("torn", 0), 0)))
            nframes[0] += len(wals)
            cases.append("mkcc %d%%nat %s\n %s\n %s\n %s" % (h["nwal"], coq_list([cop_coq(h, o) for o in h["ops"]]), xops_coq(h), coq_list(imgs), coq_list(wals)))
        txt = ("From Coq Require Import NArith ZArith List Bool. From OG Require Import C01.Model C01.Corr.\n"
               "Import ListNotations.\nDefinition cases : list ccase := [\n%s\n].\n"
               "Definition M := Eval vm_compute in all_codes cases.\nPrint M.\n"
               "Definition FR := Eval vm_compute in all_frame_fails cases.\nPrint FR.\n") % ";\n".join(cases)
        files.append(("c01cases%d" % (i // shard), txt))
    res = ck.coq_eval_many(files) if ok else []
    for idx in range(len(res)):  # a shard that failed (machine under load, build dir disturbed) is evaluated once more, alone
        if res[idx][0] != 0 or not re.search(r"M\s*=", res[idx][1]):
            res[idx] = ck.coq_eval_many([files[idx]])[0]
    codes = {}
    for idx, (rc2, o) in enumerate(res):
        m = re.search(r"M\s*=\s*(.*?)\s*:\s*list", o, re.S)
        if rc2 != 0 or not m:
            ck.broken.append("model evaluation failed on shard %d: %s" % (idx, o[-400:]))
            continue
        fr = re.search(r"FR\s*=\s*\[([0-9;\s]*)\]", o)
        if not fr:
            ck.broken.append("framing tie: no result on shard %d" % idx)
        else:
            for j, x in enumerate([int(x) for x in fr.group(1).replace("\n", " ").split(";") if x.strip()]):
                if x and idx * shard + j < len(hs):
                    ck.broken.append("correspondence C01 (framing: the bytes of %d log file(s) of history %d are not what Model.v read_frame expects: "
                                     "[type:1][len:4 big endian][payload] records, the tracked count, then the torn append)" % (x, hs[idx * shard + j]["case"]))
        body = re.sub(r"%\w+", "", m.group(1))   # scope suffixes (3%nat) if a scope is ever opened by the imports
        lists = re.findall(r"\[([0-9;\s]*)\]", body.strip()[1:-1])
        for j, l in enumerate(lists):
            if idx * shard + j < len(hs):
                codes[idx * shard + j] = [int(x) for x in l.replace("\n", " ").split(";") if x.strip()]
        # fail closed: one code list per history of the shard, one code per image (a list that did not parse must not
        # turn into "no code, nothing to compare")
        for j in range(len(hs[idx * shard:(idx + 1) * shard])):
            hi = idx * shard + j
            if len(codes.get(hi) or []) != len(hs[hi]["images"]):
                ck.broken.append("model evaluation of shard %d: %d codes parsed for the %d images of history %d: %s" % (
                    idx, len(codes.get(hi) or []), len(hs[hi]["images"]), hs[hi]["case"], o[-300:]))
    # ---- verdicts ----
    nimg = 0
    fail_known = {"C01-walphase": 0, "C01-asyncreplay": 0, "C01-asyncclose": 0, "C01-parallelreplay": 0, "C01-idxtxn": 0, "C01-walheadereof": 0}
    nviol = 0
    model_disagree = []
    crashk = {}
    nontriv = set()
    ntie = 0
    nasync = {"images": 0, "drop_refused": 0, "extra_writes": 0}
    what_known = {"C01-walphase": "an acknowledged overwrite is reverted to an older acknowledged value after crash + restart (WAL replay order)",
                  "C01-asyncreplay": "wal-replay-async: a write acknowledged while the log is still being re-applied is reverted to the older logged value by the replay",
                  "C01-asyncclose": "wal-replay-async: a clean shutdown while the log is still being re-applied removes the unread log files: acknowledged rows are gone after the restart",
                  "C01-parallelreplay": "wal-replay-parallel: the partitions are re-applied concurrently, an acknowledged overwrite whose two records sit in different partitions can come back as the older value",
                  "C01-idxtxn": "shard cannot be opened after a crash that leaves two pending series-index transaction files",
                  "C01-walheadereof": "a torn WAL record consisting of exactly its 5 header bytes makes replay apply stale buffer contents"}
    for hi, h in enumerate(hs):
        cl = codes.get(hi)
        parent_torn = -1
        if h["flags"]["overwrite"] and h["flags"]["flushes"] > 0:
            nontriv.add(json.dumps(h["ops"], sort_keys=True))
        for j, im in enumerate(h["images"]):
            nimg += 1
            if im["sub"] < 0:
                parent_torn = im["torn"]
            kind = "torn-wal-append" if im["torn"] >= 0 else ("in-flush" if im["at"].startswith(("flush", "after rename", "after create data", "after mkdir data")) else
                                                              ("index" if im["at"].startswith("index") else ("wal-append-unacked" if im["inflight"] >= 0 else "between-ops")))
            kind += "+recovery-crash" if im["sub"] >= 0 else ""
            kind += "+async-replay" if im.get("async") else ""
            crashk[kind] = crashk.get(kind, 0) + 1
            code = cl[j] if cl and j < len(cl) else None
            if code is not None and (code & 4):
                model_disagree.append((h, j, "live-log tie: the log files found in the image differ from the model's live log (live_current: "
                                             "placement by counter mod N, epochs below nj removed, gone partitions of epoch nj)"))
            if code is not None and (code & 8):
                model_disagree.append((h, j, "the flush/drop machine of the model (xstate: commit with the per-measurement skip, drop = mark, flush, "
                                             "file removal; C01_flush_skip_exact) recovers something else than the shard shows"))
            if code is not None:
                code &= 3
            if im.get("tie") and im["sub"] < 0:
                ntie += 1
            # asynchronous replay: the model's volatile flags (replaying after a crash; a refused drop changes nothing)
            a = im.get("async")
            failures = []  # (what, diff) of the direct oracle
            if a:
                nasync["images"] += 1
                if a["walfiles"] > 0 and not a["replaying"]:
                    model_disagree.append((h, j, "asynchronous replay: the re-opened shard does not report replayingWal while its log files are still unread (model: XCrash sets x_replaying)"))
                if a["drop_tried"]:
                    nasync["drop_refused"] += 1 if a["drop_refused"] else 0
                    if not a["drop_refused"]:
                        model_disagree.append((h, j, "a DROP MEASUREMENT during the log replay was accepted (model: refused while x_replaying)"))
                    if a["mark_after"]:
                        model_disagree.append((h, j, "a refused DROP MEASUREMENT left the measurement's deleting mark set (model: C01_refused_drop_changes_nothing)"))
                if a.get("extra") and a["extra_acked"]:
                    nasync["extra_writes"] += 1
                if a.get("closed"):
                    nasync["closed_during_replay"] = nasync.get("closed_during_replay", 0) + 1
                if not im.get("err") and not a.get("live"):
                    failures.append(("rows read from the re-opened shard after its asynchronous replay finished differ from the acknowledged last-write-wins state: %s"
                                     % json.dumps((a.get("live_diff") or [])[:3]), a.get("live_diff") or []))
            okimg = bool(im["match"])
            if okimg and not failures:
                if code is not None and not (code & 1):
                    model_disagree.append((h, j, "oracle passes but the model's repaired recovery differs"))
                continue
            if not okimg:
                failures.append((im.get("err") or ("recovered rows differ from the acknowledged last-write-wins state: %s" % json.dumps((im.get("diff") or [])[:3])), im.get("diff")))
            for what, dff in failures:
                fids = classify(h, im, dff, code, parent_torn)
                if fids and all(ck.match_finding(f) for f in fids):
                    for fid in fids:
                        fail_known[fid] += 1
                        ck.known_finding(fid, what_known[fid])
                else:
                    nviol += 1
                    if nviol <= 3:
                        ck.violation({"kind": "direct-oracle", "what": what, "case": h["case"], "nwal": h["nwal"], "nser": h["nser"], "nmst": h.get("nmst", 1),
                                      "pre": h.get("pre", 0), "auto": h.get("auto", False), "async": h.get("async", False), "par": h.get("par", False), "ops": h["ops"],
                                      "crash": {"at": im["at"], "during_op": im["op"], "acked_ops": im["acked"], "inflight_op": im["inflight"],
                                                "torn_bytes": im["torn"], "recovery_mutations_before_second_crash": im["sub"],
                                                "live_wal_parts": im["parts"], "pending_index_txn": im.get("txn"), "async_replay": a},
                                      "diff": dff, "model_code": code, "matched_fixed_or_unknown_finding": fids or None})
    ck.cov["evaluations"] = nimg
    ck.cov["distinct_nontrivial"] = len(nontriv)
    ck.cov["traces_validated_against_impl"] = sum(len(c) for c in codes.values()) - len(model_disagree)
    ck.cov["rule"] = ("evaluation = one crash image of a real shard (frozen at a WAL append - also torn -, a flush step, an index write, "
                      "between ops, while a flush is held at one of its steps and writes go on, or during the recovery of such an image) re-opened "
                      "with the real code (synchronous or held asynchronous replay) and dumped through real cursors; "
                      "non-trivial history = overwrites some (series,time,field) and contains a flush; distinct = different op lists")
    ck.cov["histories"] = len(hs)
    ck.cov["crash_point_histogram"] = crashk
    ck.cov["wal_partitions_histogram"] = {str(k): sum(1 for h in hs if h["nwal"] == k) for k in sorted({h["nwal"] for h in hs})}
    ck.cov["live_log_tie_images"] = ntie
    ck.cov["log_files_read_by_the_model_reader"] = nframes[0]
    ck.cov["async_replay"] = nasync
    ck.cov["writes_acknowledged_while_a_flush_was_held"] = sum(h["flags"].get("paused_writes", 0) for h in hs)
    ck.cov["torn_prefix_sweep_images"] = sum(h["flags"].get("torn_all", 0) for h in hs)
    ck.cov["writers_held_at_their_log_append"] = sum(h["flags"].get("held_writers", 0) for h in hs)
    ck.cov["parallel_replay_histories"] = sum(1 for h in hs if h.get("par"))
    ck.cov["two_measurement_histories"] = sum(1 for h in hs if h.get("nmst", 1) > 1)
    ck.cov["known_finding_images"] = fail_known
    ck.cov["variant_implemented"] = "current (known findings reproduce)" if any(fail_known.values()) else "repaired on the explored domain"
    ck.cov["samples"] = [{"case": h["case"], "nwal": h["nwal"], "ops": [o["k"] for o in h["ops"]], "images": len(h["images"])} for h in hs[:3]]
    for fid in fail_known:
        f = ck.match_finding(fid)
        if f and fail_known[fid] == 0:
            ck.notes.append("open finding %s did not reproduce in this run (stale or not sampled)" % fid)
    if model_disagree:
        h, j, why = model_disagree[0]
        ck.broken.append("correspondence C01: %s (history %d image %d)" % (why, h["case"], j))
        if not ck.violations and not getattr(ck, "nofail_detail", None):
            ck.nofail_detail = {"kind": "correspondence", "why": why, "case": h["case"], "image": h["images"][j], "ops": h["ops"], "nwal": h["nwal"],
                                "nser": h["nser"], "nmst": h.get("nmst", 1), "pre": h.get("pre", 0), "async": h.get("async", False)}
