"""C01 - acknowledged writes survive a crash at any moment, with their latest values. See DESIGN.md section C01, NOTES.md."""
import json
import os
import re
import vlib
from vlib import coq_n, coq_z, coq_list

PID = "C01"
WAL_HEAD = 5  # WalRecordHeadSize: [type:1][len:4]


def key_coq(s, t, f):
    return "(%s, %s, %s)" % (coq_n(s), coq_n(t), coq_n(f))


def batch_coq(op):
    if op["k"] != "W":
        return "[]"
    cells = []
    for r in op["rows"]:
        for fv in r["f"]:
            cells.append("(%s, %s)" % (key_coq(r["s"], r["t"], fv["f"]), coq_z(fv["v"])))
    return coq_list(cells)


def parts_coq(parts):
    return coq_list([coq_list(["%d%%nat" % i for i in p]) for p in parts])


def image_coq(im, parent_parts):
    chain = [parts_coq(im["parts"])] if im["sub"] < 0 else [parts_coq(parent_parts), parts_coq(im["parts"])]
    infl = "None" if im["inflight"] < 0 else "(Some %d%%nat)" % im["inflight"]
    obs = coq_list(["(%s, %s)" % (key_coq(c["s"], c["t"], c["f"]), coq_z(c["got"])) for c in im["dump"]])
    return "mkci %d%%nat %s %s %s" % (im["acked"], infl, coq_list(chain), obs)


def writes_to(h, upto, inflight, cell):
    """(op index, value) of every write op in ops[:upto] (+ inflight) touching the cell, in ack order"""
    out = []
    idxs = list(range(upto)) + ([inflight] if inflight is not None and inflight >= upto else [])
    for i in idxs:
        op = h["ops"][i]
        if op["k"] == "D":
            out = []  # writes before an acknowledged drop do not count
        if op["k"] != "W":
            continue
        for r in op["rows"]:
            if r["s"] == cell["s"] and r["t"] == cell["t"]:
                for fv in r["f"]:
                    if fv["f"] == cell["f"]:
                        out.append((i, fv["v"]))
    return out


def partition_of(h, i):
    return sum(1 for o in h["ops"][:i] if o["k"] == "W") % h["nwal"]


def lww_py(h, upto, inflight):
    m = {}
    idxs = list(range(upto)) + ([inflight] if inflight is not None and inflight >= upto else [])
    for i in idxs:
        op = h["ops"][i]
        if op["k"] == "D":
            m = {}
        if op["k"] == "W":
            for r in op["rows"]:
                for fv in r["f"]:
                    m[(r["s"], r["t"], fv["f"])] = fv["v"]
    return m


def diff_py(h, im, inflight):
    exp = lww_py(h, im["acked"], inflight)
    got = {(c["s"], c["t"], c["f"]): c["got"] for c in im.get("dump") or []}
    out = []
    for k in sorted(set(exp) | set(got)):
        if exp.get(k) != got.get(k):
            out.append({"s": k[0], "t": k[1], "f": k[2], "want": exp.get(k, 0), "wok": k in exp, "got": got.get(k, 0), "gok": k in got})
    return out


def walphase_signature(h, im):
    """holds against the acknowledged state or against acknowledged + the one write in flight"""
    if walphase_signature1(h, im, im.get("diff")):
        return True
    if im["inflight"] >= 0 and im.get("dump"):
        for infl in (None, im["inflight"]):
            d = diff_py(h, im, infl)
            if d and walphase_signature1(h, dict(im, diff=d), d):
                return True
    return False


def walphase_signature1(h, im, diff):
    """two acknowledged writes to the failing (series,time,field), routed to different WAL partitions, and the value
    recovered is that of the older one (replay applied the older record after, or without, the newer one)"""
    if h["nwal"] < 2 or not diff:
        return False
    for c in diff:
        ws = writes_to(h, im["acked"], im["inflight"] if im["inflight"] >= 0 else None, c)
        if len(ws) < 2 or not c["gok"]:
            return False
        if not c["wok"]:
            return False
        pos = [n for n, (i, v) in enumerate(ws) if v == c["want"]]
        if not pos:
            return False
        last_n = pos[-1]  # w2: the write whose value should have been recovered
        older = [(i, v) for (i, v) in ws[:last_n] if v == c["got"]]
        if not older:
            return False
        last_i = ws[last_n][0]
        if all(partition_of(h, i) == partition_of(h, last_i) for (i, _) in older):
            return False
    return True


def main(ck):
    ck.assumptions += [
        "process-kill crash semantics: completed writes/renames/removes are visible after the crash; the torn last WAL append is any "
        "byte prefix of the record (no power loss: unsynced data is not dropped)",
        "crash images are copies of the shard directory (data, wal, series index) frozen inside file-system mutation callbacks and "
        "re-opened at the same path with the real code; the series index (mergeset) is part of the image",
        "the model abstracts data files to their logical content (file codec: C07; layout precedence: C02); records are whole "
        "write batches; the repaired variant assumes an epoch tag in the WAL file name and whole-epoch removal",
        "snappy / row marshalling of WAL payloads round-trip and reject damaged payloads (C07's obligation)",
    ]
    ck.cov["trusted_base"] = ["Coq 8.16.1 kernel + vm_compute (cases evaluation, Examples, refutation witnesses)",
                              "no axioms (Print Assumptions: closed)",
                              "Go harness cmd/c01 + internal/crashfs + internal/tsdrv (hooks lib/fileops/verif_export_c03.go, "
                              "engine/verif_export_c02.go), python driver props/C01/run.py"]
    ck.coq_audit(["C01"])
    ok = ck.coq_build(["C01/Proofs.vo", "C01/Proofs2.vo", "C01/Corr.vo"])
    if ok:
        ck.coq_props(["C01/Props.v", "C01/Refuted.v"])
    binp = ck.go_build("./cmd/c01", "c01")
    if not binp:
        return
    n = 9 if ck.tier == "quick" else 150
    if ck.replay:
        rp = json.load(open(ck.replay))
        hf = os.path.join(ck.work, "replay_history.json")
        json.dump({"case": rp["case"], "nwal": rp["nwal"], "nser": rp["nser"], "pre": rp.get("pre", 0), "auto": rp.get("auto", False),
                   "async": rp.get("async", False), "ops": rp["ops"]}, open(hf, "w"))
        rc, out = ck.run([binp, "1", hf], timeout=3000)
    else:
        rc, out = ck.run([binp, str(n)], timeout=6000)
    hs = [json.loads(l) for l in out.splitlines() if l.startswith('{"case"')]
    if rc != 0 or "c01 done" not in out or not hs:
        ck.broken.append("harness c01 failed rc=%d histories=%d: %s" % (rc, len(hs), out[-600:]))
        return
    for h in hs:
        if h.get("crash"):
            ck.broken.append("harness c01: history %d aborted: %s" % (h["case"], h["crash"][:300]))
    # ---- placement tie: record i lives in partition (#writes before i) mod N ----
    for h in hs:
        for im in h["images"]:
            for p, recs in enumerate(im["parts"] or []):
                for i in recs:
                    if partition_of(h, i) != p:
                        ck.broken.append("WAL placement differs from (writeReq mod N): history %d op %d found in partition %d" % (h["case"], i, p))
                        break
    # ---- model evaluation (one scratch file per few histories) ----
    shard = 2
    files = []
    for i in range(0, len(hs), shard):
        chunk = hs[i:i + shard]
        cases = []
        for h in chunk:
            imgs = []
            parent = []
            for im in h["images"]:
                if im["sub"] < 0:
                    parent = im["parts"] or []
                if im.get("dump") is None:
                    im["dump"] = []
                imgs.append(image_coq(im, parent))
            drops = coq_list(["%d%%nat" % i for i, o in enumerate(h["ops"]) if o["k"] == "D"])
            cases.append("mkcc %s %s\n %s" % (coq_list([batch_coq(o) for o in h["ops"]]), drops, coq_list(imgs)))
        txt = ("From Coq Require Import NArith ZArith List Bool. From OG Require Import C01.Model C01.Corr.\n"
               "Import ListNotations.\nDefinition cases : list ccase := [\n%s\n].\n"
               "Definition M := Eval vm_compute in all_codes cases.\nPrint M.\n") % ";\n".join(cases)
        files.append(("c01cases%d" % (i // shard), txt))
    res = ck.coq_eval_many(files) if ok else []
    codes = {}
    for idx, (rc2, o) in enumerate(res):
        m = re.search(r"M\s*=\s*(.*?)\s*:\s*list", o, re.S)
        if rc2 != 0 or not m:
            ck.broken.append("model evaluation failed on shard %d: %s" % (idx, o[-400:]))
            continue
        lists = re.findall(r"\[([0-9;\s]*)\]", m.group(1).strip()[1:-1])
        for j, l in enumerate(lists):
            if idx * shard + j < len(hs):
                codes[idx * shard + j] = [int(x) for x in l.replace("\n", " ").split(";") if x.strip()]
    # ---- verdicts ----
    nimg = 0
    fail_known = {"C01-walphase": 0, "C01-idxtxn": 0, "C01-walheadereof": 0}
    nviol = 0
    model_disagree = []
    crashk = {}
    nontriv = set()
    for hi, h in enumerate(hs):
        cl = codes.get(hi)
        parent_torn = -1
        if h["flags"]["overwrite"] and h["flags"]["flushes"] > 0:
            nontriv.add(json.dumps(h["ops"], sort_keys=True))
        for j, im in enumerate(h["images"]):
            nimg += 1
            if im["sub"] < 0:
                parent_torn = im["torn"]
            kind = "torn-wal-append" if im["torn"] >= 0 else ("in-flush" if im["at"].startswith(("flush", "after rename", "after create data", "after mkdir data")) else
                                                              ("index" if im["at"].startswith("index") else ("wal-append-unacked" if im["inflight"] >= 0 else "between-ops")))
            kind += "+recovery-crash" if im["sub"] >= 0 else ""
            crashk[kind] = crashk.get(kind, 0) + 1
            code = cl[j] if cl and j < len(cl) else None
            okimg = bool(im["match"])
            if okimg:
                if code is not None and not (code & 1):
                    model_disagree.append((h, j, "oracle passes but the model's repaired recovery differs"))
                continue
            what = im.get("err") or ("recovered rows differ from the acknowledged last-write-wins state: %s" % json.dumps(im["diff"][:3]))
            fid = None
            if im.get("diff") and code is not None and (code & 2) and walphase_signature(h, im):
                fid = "C01-walphase"
            elif im.get("err") and "open after crash failed" in im["err"] and im.get("txn", 0) >= 2:
                fid = "C01-idxtxn"
            elif parent_torn == WAL_HEAD:
                fid = "C01-walheadereof"
            if fid and ck.match_finding(fid):
                fail_known[fid] += 1
                ck.known_finding(fid, {"C01-walphase": "an acknowledged overwrite is reverted to an older acknowledged value after crash + restart (WAL replay order)",
                                       "C01-idxtxn": "shard cannot be opened after a crash that leaves two pending series-index transaction files",
                                       "C01-walheadereof": "a torn WAL record consisting of exactly its 5 header bytes makes replay apply stale buffer contents"}[fid])
            else:
                nviol += 1
                if nviol <= 3:
                    ck.violation({"kind": "direct-oracle", "what": what, "case": h["case"], "nwal": h["nwal"], "nser": h["nser"], "pre": h.get("pre", 0), "auto": h.get("auto", False), "async": h.get("async", False), "ops": h["ops"],
                                  "crash": {"at": im["at"], "during_op": im["op"], "acked_ops": im["acked"], "inflight_op": im["inflight"],
                                            "torn_bytes": im["torn"], "recovery_mutations_before_second_crash": im["sub"],
                                            "live_wal_parts": im["parts"], "pending_index_txn": im.get("txn")},
                                  "diff": im.get("diff"), "model_code": code, "matched_fixed_or_unknown_finding": fid})
    ck.cov["evaluations"] = nimg
    ck.cov["distinct_nontrivial"] = len(nontriv)
    ck.cov["traces_validated_against_impl"] = sum(len(c) for c in codes.values()) - len(model_disagree)
    ck.cov["rule"] = ("evaluation = one crash image of a real shard (frozen at a WAL append - also torn -, a flush step, an index write, "
                      "between ops, or during the recovery of such an image) re-opened with the real code and dumped through real cursors; "
                      "non-trivial history = overwrites some (series,time,field) and contains a flush; distinct = different op lists")
    ck.cov["histories"] = len(hs)
    ck.cov["crash_point_histogram"] = crashk
    ck.cov["wal_partitions_histogram"] = {str(k): sum(1 for h in hs if h["nwal"] == k) for k in sorted({h["nwal"] for h in hs})}
    ck.cov["known_finding_images"] = fail_known
    ck.cov["variant_implemented"] = "current (known findings reproduce)" if any(fail_known.values()) else "repaired on the explored domain"
    ck.cov["samples"] = [{"case": h["case"], "nwal": h["nwal"], "ops": [o["k"] for o in h["ops"]], "images": len(h["images"])} for h in hs[:3]]
    for fid in fail_known:
        f = ck.match_finding(fid)
        if f and fail_known[fid] == 0:
            ck.notes.append("open finding %s did not reproduce in this run (stale or not sampled)" % fid)
    if model_disagree and not ck.violations:
        h, j, why = model_disagree[0]
        ck.broken.append("correspondence C01: %s (history %d image %d)" % (why, h["case"], j))
        ck.nofail_detail = {"kind": "correspondence", "why": why, "case": h["case"], "image": h["images"][j], "ops": h["ops"], "nwal": h["nwal"], "nser": h["nser"]}
