"""C14 - retention removes only data that has expired. See DESIGN.md section C14."""
import json
import os
import sys
import vlib
from vlib import coq_z, coq_bool, coq_list
sys.path.insert(0, os.path.dirname(os.path.abspath(__file__)))
import xcases  # noqa: E402

PID = "C14"


def ev_coq(e):
    k = e["kind"]
    if k == "tick":
        return "Tick %s" % coq_z(e["now"])
    if k == "alter":
        return "Alter %s %s" % (coq_z(e.get("rp", 0)), coq_z(e.get("d", 0)))
    if k == "tickfail":
        return "TickAborted %s" % coq_z(e["now"])
    if k == "restart":
        return "Restart"
    if k == "addgroup":
        return "AddGroup (mk_group %s %s %s %s %s) %s" % (
            coq_z(e["gid"]), coq_z(e["rp"]), coq_z(e["start"]), coq_z(e["end"]),
            coq_list([coq_z(s) for s in e["shards"]]), coq_bool(e.get("loaded", False)))
    raise ValueError(k)


def obs_coq(o):
    node = coq_list([coq_z(x) for x in o["node"]])
    groups = coq_list(["(%s, %s, %s)" % (coq_z(g["id"]), coq_bool(g["deleted"]),
                                          coq_list(["(%s, %s)" % (coq_z(s[0]), coq_bool(s[1] == 1)) for s in g["shards"]]))
                       for g in o["groups"]])
    return "(%s, %s)" % (node, groups)


def case_coq(t):
    ps = coq_list(["(%s, %s)" % (coq_z(p[0]), coq_z(p[1])) for p in t["policies"]])
    es = coq_list([ev_coq(e) for e in t["events"]])
    os_ = coq_list([obs_coq(o) for o in t["obs"]])
    return "(%s, %s, (%s : list obs))" % (ps, es, os_)


def replay(ck):
    """./check C14 --replay <file>: re-run the trace of a replay file on the implementation and on the model."""
    obj = json.load(open(ck.replay))
    tr = obj.get("trace") or obj.get("detail", {}).get("trace") or obj
    ck.coq_build(["C14/Corr.vo", "C14/XCorr.vo"])
    binp = ck.go_build("./cmd/c14", "c14")
    if not binp:
        return
    if "ptnum" in tr:
        p = os.path.join(ck.work, "replay_in.json")
        json.dump({k: tr[k] for k in ("policies", "ptnum", "events")}, open(p, "w"))
        rc, out = ck.run([binp, "ixreplay", p])
        ts = [json.loads(l) for l in out.splitlines() if l.startswith('{"mode":"ix"')]
        if not ts:
            ck.broken.append("replay failed: %s" % out[-400:])
            return
        t = ts[0]
        rc2, o = ck.coq_eval("replay", xcases.xfile([t]))
        v = xcases.parse_verdicts(o) if rc2 == 0 else None
        print("REPLAY oracle failures on the implementation:", json.dumps(t["oracle"], indent=1))
        print("REPLAY model variants (0 = agrees; k = first disagreeing event + 1) as-is/as-is, as-is/prune-repaired, "
              "index-repaired/as-is, both repaired; then the same four with clipped shard groups:", v)
        for f in t["oracle"]:
            fid = next((name for name, sig in SIGS if sig(f)), None)
            if fid and ck.match_finding(fid):
                ck.known_finding(fid, f["msg"])
            else:
                ck.violation({"kind": "direct-oracle", "mode": "ix", "what": f, "trace": tr})
        if v and all(x != 0 for x in v[0]) and not t["oracle"]:
            ck.broken.append("replayed trace: no model variant agrees with the implementation")
    else:
        print("REPLAY: only extended (ix) traces can be replayed; write-admission and node traces depend on the run's clock/seed")


def parse_pairs(out):
    """`M = [(a%nat, b%nat); ..] : list (nat * nat)` -> [(a, b), ..]; None if the result cannot be read completely
    (fail closed: Coq prints the %nat suffix under Z_scope and wraps long lists right after an opening parenthesis)."""
    import re
    m = re.search(r"M\s*=\s*(.*?)\s*:\s*list", out, re.S)
    if not m:
        return None
    flat = re.sub(r"%\w+", "", re.sub(r"\s+", "", m.group(1)))
    tups = re.findall(r"\((\d+),(\d+)\)", flat)
    if len(tups) != flat.count("(") or (not tups and flat not in ("[]", "nil")):
        return None
    return [(int(a), int(b)) for a, b in tups]


def main(ck):
    if getattr(ck, "replay", None):
        return replay(ck)
    ck.assumptions += [
        "Go time.Time.Add/Before on the generated instants behave as unbounded integer arithmetic (no wrap in range)",
        "the clock is controlled by patching time.Now (gomonkey) inside the harness process; the retention code under "
        "test is the repository's own (engine.ExpiredShards/IsExpired/nilShardIsExpired, retention.Service.handle, "
        "meta.Data.DurationInfos/DeleteShardGroup/PruneGroups/UpdateRetentionPolicy); physical shard deletion and the "
        "meta RPC transport are stubbed",
    ]
    ck.cov["trusted_base"] = ["Coq 8.16.1 kernel + vm_compute (cases evaluation, Example)", "no axioms (Print Assumptions: closed)",
                              "Go harness cmd/c14, python driver props/C14/run.py"]
    ck.coq_audit(["C14"])
    ok = ck.coq_build(["C14/Proofs.vo", "C14/Inv.vo", "C14/Corr.vo", "C14/XCorr.vo", "C14/XProofs.vo", "C14/XInv.vo", "C14/XNode.vo", "C14/XAgree.vo", "C14/XAgreeIx.vo", "C14/LK.vo", "C14/XGuard.vo", "C14/TTL.vo", "C14/Mono.vo"])
    if ok:
        ck.coq_props(["C14/Props.v", "C14/Refuted.v"])
        if ck.tier == "thorough":
            ck.coq_build(["C14/Props.vo", "C14/Refuted.vo"])
            ck.coqchk(["OG.C14.Props", "OG.C14.Refuted"])
    binp = ck.go_build("./cmd/c14", "c14")
    if not binp:
        return
    n = 300 if ck.tier == "quick" else 4000
    rc, out = ck.run([binp, str(n)], timeout=1200)
    traces = [json.loads(l) for l in out.splitlines() if l.startswith('{"policies"')]
    if rc != 0 or len(traces) != n:
        ck.broken.append("harness c14 failed rc=%d traces=%d: %s" % (rc, len(traces), out[-500:]))
        return
    # model evaluation, sharded
    shard = 250
    files = []
    for i in range(0, len(traces), shard):
        chunk = traces[i:i + shard]
        txt = ("From Coq Require Import ZArith List Bool. From OG Require Import C14.Model C14.Corr.\n"
               "Import ListNotations. Open Scope Z_scope.\n"
               "Definition cases : list (list (Z * Z) * list event * list obs) := [\n%s\n].\n"
               "Definition M := Eval vm_compute in mismatches cases.\nPrint M.\n") % ";\n".join(case_coq(t) for t in chunk)
        files.append(("cases%d" % (i // shard), txt))
    # permanent canary: 20 copies of trace 0 whose first observation is corrupted - all 20 must be reported
    NCAN = 20
    bad = json.loads(json.dumps(traces[0]))
    bad["obs"][0]["node"] = list(bad["obs"][0]["node"]) + [987654321]
    files.append(("casescanary", ("From Coq Require Import ZArith List Bool. From OG Require Import C14.Model C14.Corr.\n"
                  "Import ListNotations. Open Scope Z_scope.\n"
                  "Definition cases : list (list (Z * Z) * list event * list obs) := [\n%s\n].\n"
                  "Definition M := Eval vm_compute in mismatches cases.\nPrint M.\n") % ";\n".join([case_coq(bad)] * NCAN)))
    res = ck.coq_eval_many(files) if ok else []
    mism = []
    for idx, (rc2, o) in enumerate(res):
        pairs = parse_pairs(o) if rc2 == 0 else None
        if pairs is None:
            ck.broken.append("model evaluation failed or gave an unreadable result on shard %d: %s" % (idx, o[-400:]))
            continue
        if idx == len(res) - 1:  # the canary shard
            if sorted(a for a, _ in pairs) != list(range(NCAN)):
                ck.broken.append("C14 canary: a corrupted case was not reported by the model evaluation (node traces)")
            continue
        for a, b in pairs:
            mism.append((idx * shard + a, b))
    # verdicts
    nontriv = set()
    hist = {}
    for t in traces:
        if t["nontrivial"]:
            nontriv.add(json.dumps(t["events"], sort_keys=True))
        for e in t["events"]:
            hist[e["kind"]] = hist.get(e["kind"], 0) + 1
    ck.cov["evaluations"] = len(traces)
    ck.cov["distinct_nontrivial"] = len(nontriv)
    ck.cov["traces_validated_against_impl"] = len(traces) - len(mism) if ok else 0
    ck.cov["rule"] = ("event traces (addgroup/alter/restart/tick with clock readings aimed at end+d-1h,-1ns,0,+1ns,+2ns,+1h) from one "
                      "PRNG; non-trivial = at least one tick deleted a shard; distinct = different event lists")
    ck.cov["event_histogram"] = hist
    ck.cov["samples"] = [t["events"] for t in traces[:2]]
    oracle_fail = [(i, t) for i, t in enumerate(traces) if t["oracle"]]
    for i, t in oracle_fail[:3]:
        ck.violation({"kind": "direct-oracle", "what": t["oracle"], "trace": t, "case": i})
    if mism and not oracle_fail:
        i, k = mism[0]
        ck.broken.append("correspondence C14 model/implementation differs on case %d at event %d" % (i, k))
        ck.nofail_detail = {"kind": "correspondence", "explanation": "model and implementation observables differ; the direct "
                            "oracle (deleted => expired under the policy in force; expired+listed => removed) found no failing input",
                            "case": i, "event_index": k, "trace": traces[i]}

    run_ix(ck, binp, ok)
    run_wa(ck, binp, ok)
    run_lk(ck, binp, ok)
    run_ttl(ck, binp, ok)
    if ck.tier == "thorough" or os.environ.get("C14_BB"):
        run_bb(ck)


# ---------------------------------------------------------------------------------------------
# extended traces: catalogue built by the real meta.Data, shard groups + index groups, one node per partition

def sig_index_outlived(f):
    """C14-index-outlived-by-shard: the shard's group ends after the index group that holds the shard's index."""
    fa = f.get("facts", {})
    return f["kind"] == "index-before-shard" and fa.get("sg_end", 0) > fa.get("ig_end", 0)


def sig_prune_neighbour(f):
    """C14-prune-marks-neighbour: the element marked is not one the pass deleted; it is the first element >= a deleted
    id v of a group whose id range contains v although v is not a member (interleaved or gapped id ranges)."""
    if f["kind"] not in ("prune-wrong-mark", "group-dropped-with-live-shard"):
        return False
    if f.get("facts", {}).get("earlier_wrong_mark") == 1:
        return True
    ids = sorted(f.get("ids") or [])
    m = f.get("facts", {}).get("marked")
    for v in f.get("victims") or []:
        if ids and v not in ids and ids[0] <= v <= ids[-1] and m == min(x for x in ids if x >= v):
            return True
    return False


SIGS = [("C14-index-outlived-by-shard", sig_index_outlived), ("C14-prune-marks-neighbour", sig_prune_neighbour)]
_V4 = ["index-choice as-is / prune as-is", "index-choice as-is / prune repaired",
       "index-choice repaired / prune as-is", "index-choice repaired / prune repaired"]
VARIANTS = [v + " / no clip" for v in _V4] + [v + " / clip" for v in _V4]
NV = len(VARIANTS)


def run_ix(ck, binp, coq_ok):
    n = 320 if ck.tier == "quick" else 6000
    # the kept witnesses first (corpus/C14), then the generated stream
    corpus = os.path.join(ck.verif, "corpus", "C14", "ix_witness.json")
    rc0, out0 = ck.run([binp, "ixreplay", corpus], timeout=600)
    ctraces = [json.loads(l) for l in out0.splitlines() if l.startswith('{"mode":"ix"')]
    if rc0 != 0 or len(ctraces) != len(json.load(open(corpus))):
        ck.broken.append("harness c14 ixreplay of the corpus failed rc=%d: %s" % (rc0, out0[-500:]))
        return
    rc, out = ck.run([binp, "ix", str(n)], timeout=2400)
    traces = [json.loads(l) for l in out.splitlines() if l.startswith('{"mode":"ix"')]
    if rc != 0 or len(traces) != n:
        ck.broken.append("harness c14 ix failed rc=%d traces=%d: %s" % (rc, len(traces), out[-500:]))
        return
    traces = ctraces + traces
    shard = 20
    files = [("xcases%d" % (i // shard), xcases.xfile(traces[i:i + shard])) for i in range(0, len(traces), shard)]
    # permanent canary: copies of trace 0 with a corrupted first observation - no variant may agree with any of them
    NCAN = 10
    bad = json.loads(json.dumps(traces[0]))
    bad["obs"][0]["nsh"] = list(bad["obs"][0]["nsh"]) + [[987654321, 0]]
    files.append(("xcasescanary", xcases.xfile([bad] * NCAN)))
    res = ck.coq_eval_many(files) if coq_ok else []
    if res:
        rcc, oc = res.pop()
        vc = xcases.parse_verdicts(oc) if rcc == 0 else None
        if vc is None or len(vc) != NCAN or any(x == 0 for v in vc for x in v):
            ck.broken.append("C14 canary: a corrupted case was not reported by the model evaluation (ix traces)")
    verdicts = []
    for idx, (rc2, o) in enumerate(res):
        v = xcases.parse_verdicts(o) if rc2 == 0 else None
        want = len(traces[idx * shard:(idx + 1) * shard])
        if v is None or len(v) != want:
            ck.broken.append("model evaluation (ix) failed on shard %d: %s" % (idx, o[-400:]))
            verdicts += [None] * want
        else:
            verdicts += v
    # which variant of the model does the working tree implement? (one that agrees with every trace)
    alive = [True] * NV
    first_bad = None
    for i, v in enumerate(verdicts):
        if v is None:
            continue
        for k in range(NV):
            if v[k] != 0:
                alive[k] = False
        if first_bad is None and all(x != 0 for x in v):
            first_bad = (i, min(v) - 1)
    impl = [VARIANTS[k] for k in range(NV) if alive[k]]
    ck.cov["ix_variant_of_tree"] = impl
    ck.cov["ix_traces_distinguishing"] = sum(1 for v in verdicts if v and len(set(x == 0 for x in v)) > 1)
    # direct oracle
    oracle_fail = False
    reported = 0
    known = {}
    for i, t in enumerate(traces):
        for f in t["oracle"]:
            fid = next((name for name, sig in SIGS if sig(f)), None)
            if fid and ck.match_finding(fid):
                known.setdefault(fid, [0, "case %d event %d: %s" % (i, f["event"], f["msg"])])[0] += 1
                continue
            oracle_fail = True
            if reported < 3:
                reported += 1
                ck.violation({"kind": "direct-oracle", "mode": "ix", "what": f, "inside_signature_of": fid, "case": i,
                              "trace": {k: t[k] for k in ("policies", "ptnum", "events")}, "obs": t["obs"]})
    for fid, (cnt, first) in sorted(known.items()):
        ck.known_finding(fid, "%d failing inputs inside the signature; first: %s" % (cnt, first))
    if coq_ok and not any(alive) and not oracle_fail:
        i, k = first_bad if first_bad else (next(j for j, v in enumerate(verdicts) if v and v[0] != 0), 0)
        ck.broken.append("correspondence C14 (ix) model/implementation differs on case %d at event %d" % (i, k))
        ck.nofail_detail = {"kind": "correspondence-ix", "explanation": "no variant of the extended model reproduces the implementation's "
                            "catalogue / node observables on every trace; the direct oracle found no failing input",
                            "case": i, "event_index": k, "verdict_per_variant": verdicts[i],
                            "trace": {kk: traces[i][kk] for kk in ("policies", "ptnum", "events")}, "obs": traces[i]["obs"]}
    hist = {}
    nontriv = set()
    for t in traces:
        for e in t["events"]:
            hist["ix:" + e["kind"]] = hist.get("ix:" + e["kind"], 0) + 1
        if t["nontrivial"]:
            nontriv.add(json.dumps(t["events"], sort_keys=True))
    ck.cov["evaluations"] += len(traces)
    ck.cov["distinct_nontrivial"] += len(nontriv)
    ck.cov["traces_validated_against_impl"] += sum(1 for v in verdicts if v and any(x == 0 for x in v)) if coq_ok else 0
    ck.cov["event_histogram"].update(hist)
    ck.cov["ix"] = {"traces": len(traces), "index_deletions": sum(t["ixdel"] for t in traces),
                    "traces_with_shared_index": sum(1 for t in traces if t["shared"]),
                    "index_deletions_not_judged": sum(t["skipped"] for t in traces),
                    "oracle_failures_by_kind": {}}
    for t in traces:
        for f in t["oracle"]:
            d = ck.cov["ix"]["oracle_failures_by_kind"]
            d[f["kind"]] = d.get(f["kind"], 0) + 1
    ck.cov["rule"] += (" || ix: traces of create/mat/alter(d,sgd,igd)/expand/restart/tick per partition over the real meta.Data; "
                       "non-trivial = a pass deleted a shard or an index")


# ---------------------------------------------------------------------------------------------
# write admission: the real coordinator step under its own coarse clock (bracketed)

def run_wa(ck, binp, coq_ok):
    import re
    n = 400 if ck.tier == "quick" else 6000
    rc, out = ck.run([binp, "wa", str(n)], timeout=1800)
    cases = [json.loads(l) for l in out.splitlines() if l.startswith('{"mode":"wa"')]
    if rc != 0 or len(cases) != n:
        ck.broken.append("harness c14 wa failed rc=%d cases=%d: %s" % (rc, len(cases), out[-500:]))
        return
    def wa_coq(c):
        return "(%s, %s, %s, %s)" % (coq_z(c["d"]), coq_z(c["nowsec"]), coq_z(c["min_time"]),
                                     coq_list(["(%s, %s)" % (coq_z(r["t"]), coq_bool(r["mapped"])) for r in c["rows"]]))
    # permanent canary: corrupted copies of case 0 appended after the real cases; exactly they must be reported in addition
    NCAN = 10
    bad = json.loads(json.dumps(cases[0]))
    bad["min_time"] += 1
    body = ";\n".join([wa_coq(c) for c in cases] + [wa_coq(bad)] * NCAN)
    txt = (xcases.XHEAD + "Definition cases : list wacase := [\n%s\n].\n"
           "Definition M := Eval vm_compute in wa_mismatches cases.\nPrint M.\n") % body
    mism = []
    if coq_ok:
        rc2, o = ck.coq_eval("wacases", txt)
        m = re.search(r"M\s*=\s*(.*?)\s*:\s*list nat", o, re.S)
        if rc2 != 0 or not m:
            ck.broken.append("model evaluation (wa) failed: %s" % o[-400:])
        else:
            got = [int(x) for x in re.findall(r"\d+", re.sub(r"%\w+", "", m.group(1)))]
            if [x for x in got if x >= len(cases)] != list(range(len(cases), len(cases) + NCAN)):
                ck.broken.append("C14 canary: a corrupted case was not reported by the model evaluation (write admission)")
            mism = [x for x in got if x < len(cases)]
    oracle_fail = [(i, c) for i, c in enumerate(cases) if c["oracle"]]
    for i, c in oracle_fail[:3]:
        ck.violation({"kind": "direct-oracle", "mode": "wa", "what": c["oracle"], "case": i, "batch": c})
    if mism and not oracle_fail:
        i = mism[0]
        ck.broken.append("correspondence C14 (write admission) model/implementation differs on case %d" % i)
        ck.nofail_detail = {"kind": "correspondence-wa", "explanation": "the coordinator admitted/rejected a row differently from "
                            "write_accept(d at lookup, coordinator clock) or used a different threshold; the direct oracle (in-window "
                            "points are admitted, admitted points land in a live group) found no failing input", "case": i, "batch": cases[i]}
    rows = sum(len(c["rows"]) for c in cases)
    near = sum(1 for c in cases for r in c["rows"] if abs(r["off"]) <= 2)
    ck.cov["evaluations"] += len(cases)
    ck.cov["distinct_nontrivial"] += len({json.dumps([c["d"], [r["off"] for r in c["rows"]]]) for c in cases
                                          if any(r["mapped"] for r in c["rows"]) and any(not r["mapped"] for r in c["rows"])})
    ck.cov["traces_validated_against_impl"] += len(cases) - len(mism) if coq_ok else 0
    ck.cov["wa"] = {"batches": len(cases), "rows": rows, "rows_within_2ns_of_threshold": near,
                    "batches_with_alter_during_routing": sum(1 for c in cases if c["alter_at"] >= 0)}
    ck.cov["rule"] += (" || wa: write batches with timestamps at threshold-1h,-1s,-2ns,-1ns,0,+1ns,+2ns,+1s,.. under the coordinator's "
                       "clock; non-trivial = a batch with both admitted and rejected rows")


# ---------------------------------------------------------------------------------------------
# black box (thorough tier): single-node ts-server of the working tree, retention every 3 s, the scenario of
# C14-index-outlived-by-shard arranged around the real wall clock; oracle: the in-window point stays queryable and the
# expired one disappears

def run_bb(ck):
    srv = ck.go_build_repo("./app/ts-server", "ts-server")
    binp = ck.go_build("./cmd/c14bb", "c14bb")
    if not srv or not binp:
        return
    port = 21400 + (os.getpid() % 9) * 10
    conf = os.path.join(ck.repo, "config", "openGemini.singlenode.conf")
    rc, out = ck.run([binp, srv, conf, str(port), os.path.join(ck.work, "bb")], timeout=600)
    line = next((l for l in out.splitlines() if l.startswith('{"mode":"bb"')), None)
    if rc != 0 or not line:
        ck.broken.append("black-box harness c14bb failed rc=%d: %s" % (rc, out[-400:]))
        return
    r = json.loads(line)
    ck.cov["bb"] = {"facts": r["facts"], "skipped": r.get("skipped"), "log": r["log"], "dirs_before": r["dirs_before"], "dirs_after": r["dirs_after"]}
    if r.get("skipped"):
        ck.notes.append("black box skipped: " + r["skipped"])
        return
    if r.get("error"):
        ck.broken.append("black-box set-up problem: " + r["error"])
        return
    ck.cov["evaluations"] += 1
    for msg in r["oracle"]:
        fa = r["facts"]
        inside = "p3" in msg and fa.get("sg_end", 0) > fa.get("ig_end", 1 << 62)
        if inside and ck.match_finding("C14-index-outlived-by-shard"):
            ck.known_finding("C14-index-outlived-by-shard", "black box (ts-server): " + msg)
        else:
            ck.violation({"kind": "direct-oracle", "mode": "bb", "what": msg, "facts": fa, "log": r["log"],
                          "dirs_before": r["dirs_before"], "dirs_after": r["dirs_after"]})


# ---------------------------------------------------------------------------------------------
# LogKeeper flavour: real metaclient.Client.GetExpiredShards/GetExpiredIndexes + retention.Service.HandleSharedStorage

def lk_ev(e):
    k = e["kind"]
    if k == "add":
        return "LAdd %s %s %s" % (coq_z(e["gid"]), coq_z(e["end"]), coq_list([coq_z(x) for x in e["shards"]]))
    if k == "alter":
        return "LAlter %s" % coq_z(e["d"])
    if k == "tick":
        return "LTick %s" % coq_z(e["now"])
    if k == "recall":
        return "LRecall"
    raise ValueError(k)


def lk_obs(o):
    gs = coq_list(["(%s, %s, %s, %s)" % (coq_z(g["id"]), coq_z(g["end"]), "None" if g["mark"] < 0 else "(Some %s)" % coq_z(g["mark"]),
                                         coq_list(["(%s, %s)" % (coq_z(x[0]), coq_bool(x[1] == 1)) for x in g["shards"]]))
                   for g in o["groups"]])
    return "(%s, %s)" % (gs, coq_list([coq_z(x) for x in o["del"]]))


def lk_case(t):
    return "(%s, %s, (%s : list lobs))" % (coq_z(t["d0"]), coq_list([lk_ev(e) for e in t["events"]]), coq_list([lk_obs(o) for o in t["obs"]]))


def run_lk(ck, binp, coq_ok):
    import re
    n = 200 if ck.tier == "quick" else 3000
    rc, out = ck.run([binp, "lk", str(n)], timeout=1800)
    traces = [json.loads(l) for l in out.splitlines() if l.startswith('{"mode":"lk"')]
    if rc != 0 or len(traces) != n:
        ck.broken.append("harness c14 lk failed rc=%d traces=%d: %s" % (rc, len(traces), out[-500:]))
        return
    # permanent canary: corrupted copies of the first trace that has an observation with a group, appended after the real ones
    NCAN = 5
    src = next((t for t in traces if t["obs"] and t["obs"][0]["groups"]), None)
    cases = [lk_case(t) for t in traces]
    if src is not None:
        bad = json.loads(json.dumps(src))
        bad["obs"][0]["groups"][0]["end"] += 1
        cases += [lk_case(bad)] * NCAN
    shard = 100
    files = [("lkcases%d" % (i // shard),
              "From Coq Require Import ZArith List Bool. From OG Require Import C14.Model C14.LK.\nImport ListNotations. Open Scope Z_scope.\n"
              "Definition cases : list lkcase := [\n%s\n].\nDefinition V := Eval vm_compute in lk_verdicts cases.\nPrint V.\n"
              % ";\n".join(cases[i:i + shard])) for i in range(0, len(cases), shard)]
    verd = []
    if coq_ok:
        for idx, (rc2, o) in enumerate(ck.coq_eval_many(files)):
            m = re.search(r"V\s*=\s*\[(.*?)\]\s*:\s*list nat", o, re.S) if rc2 == 0 else None
            want = len(cases[idx * shard:(idx + 1) * shard])
            nums = [int(x) for x in re.findall(r"\d+", re.sub(r"%\w+", "", m.group(1)))] if m else None
            if nums is None or len(nums) != want:
                ck.broken.append("model evaluation (lk) failed or unreadable on shard %d: %s" % (idx, o[-300:]))
                verd += [None] * want
            else:
                verd += nums
        if src is not None and any(v == 0 for v in verd[len(traces):] if v is not None):
            ck.broken.append("C14 canary: a corrupted case was not reported by the model evaluation (logkeeper traces)")
    mism = [(i, v - 1) for i, v in enumerate(verd[:len(traces)]) if v]
    oracle_fail = [(i, t) for i, t in enumerate(traces) if t["oracle"]]
    for i, t in oracle_fail[:3]:
        ck.violation({"kind": "direct-oracle", "mode": "lk", "what": t["oracle"], "case": i, "trace": t})
    if mism and not oracle_fail:
        i, k = mism[0]
        ck.broken.append("correspondence C14 (logkeeper) model/implementation differs on case %d at event %d" % (i, k))
        ck.nofail_detail = {"kind": "correspondence-lk", "case": i, "event_index": k, "trace": traces[i]}
    ck.cov["evaluations"] += len(traces)
    ck.cov["distinct_nontrivial"] += len({json.dumps(t["events"]) for t in traces if t["nontrivial"]})
    ck.cov["traces_validated_against_impl"] += len(traces) - len(mism) if coq_ok else 0
    ck.cov["lk"] = {"traces": len(traces), "traces_with_physical_removal": sum(1 for t in traces if t["nontrivial"]),
                    "object_store_paths_removed": sum(t["paths"] for t in traces)}
    ck.cov["rule"] += " || lk: add/alter/recall/tick traces of the two-phase deletion; non-trivial = a pass physically removed a shard"


# ---------------------------------------------------------------------------------------------
# measurement TTL (engine.ExpiredShardsForMst / ExpiredIndexesForMst) and SchemaClean (MeasurementInfo.SchemaClean)

def run_ttl(ck, binp, coq_ok):
    import re
    n = 300 if ck.tier == "quick" else 6000
    rc, out = ck.run([binp, "ttl", str(n)], timeout=900)
    cases = [json.loads(l) for l in out.splitlines() if l.startswith('{"mode":"ttl"')]
    if rc != 0 or len(cases) != n:
        ck.broken.append("harness c14 ttl failed rc=%d cases=%d: %s" % (rc, len(cases), out[-500:]))
        return
    tt = [c for c in cases if c["kind"] != "schema"]
    sc = [c for c in cases if c["kind"] == "schema"]

    def tt_coq(c):
        return "(%s, %s, %s, %s, %s)" % (coq_z(c["rp"]), coq_z(c["ttl"]), coq_z(c["now"]),
                                         coq_list(["(%s, %s, %s)" % tuple(coq_z(x) for x in it) for it in c["items"]]),
                                         coq_list([coq_z(x) for x in c["got"]]))

    def sc_coq(c):
        return "(%s, %s, %s)" % (coq_list(["(%s, %s)" % (coq_z(it[0]), coq_z(it[1])) for it in c["items"]]), coq_z(c["pruned"]),
                                 coq_list([coq_z(x) for x in c["got"]]))
    # canaries: a corrupted copy of the first case of each kind, appended last
    NCAN = 3
    badt = json.loads(json.dumps(tt[0])); badt["got"] = sorted(badt["got"] + [987654])
    bads = json.loads(json.dumps(sc[0])); bads["got"] = sorted(bads["got"] + [987654])
    txt = ("From Coq Require Import ZArith List Bool. From OG Require Import C14.Model C14.TTL.\nImport ListNotations. Open Scope Z_scope.\n"
           "Definition tcases : list ttlcase := [\n%s\n].\nDefinition scases : list sccase := [\n%s\n].\n"
           "Definition T := Eval vm_compute in ttl_bad tcases.\nPrint T.\nDefinition S := Eval vm_compute in sc_bad scases.\nPrint S.\n"
           % (";\n".join([tt_coq(c) for c in tt] + [tt_coq(badt)] * NCAN), ";\n".join([sc_coq(c) for c in sc] + [sc_coq(bads)] * NCAN)))
    mism = []
    if coq_ok:
        rc2, o = ck.coq_eval("ttlcases", txt)
        for name, real in (("T", tt), ("S", sc)):
            m = re.search(name + r"\s*=\s*(\[.*?\]|nil)\s*:\s*list nat", o, re.S) if rc2 == 0 else None
            if not m:
                ck.broken.append("model evaluation (ttl/%s) failed or unreadable: %s" % (name, o[-300:]))
                continue
            got = [int(x) for x in re.findall(r"\d+", re.sub(r"%\w+", "", m.group(1)))]
            if [x for x in got if x >= len(real)] != list(range(len(real), len(real) + NCAN)):
                ck.broken.append("C14 canary: a corrupted case was not reported by the model evaluation (ttl/%s)" % name)
            mism += [(name, x) for x in got if x < len(real)]
    oracle_fail = [(i, c) for i, c in enumerate(cases) if c["oracle"]]
    for i, c in oracle_fail[:3]:
        ck.violation({"kind": "direct-oracle", "mode": "ttl", "what": c["oracle"], "case": i, "input": c})
    if mism and not oracle_fail:
        name, i = mism[0]
        c = (tt if name == "T" else sc)[i]
        ck.broken.append("correspondence C14 (%s) model/implementation differs" % ("measurement TTL" if name == "T" else "schema clean"))
        ck.nofail_detail = {"kind": "correspondence-ttl", "input": c}
    ck.cov["evaluations"] += len(cases)
    ck.cov["distinct_nontrivial"] += len({json.dumps([c["kind"], c["items"], c["ttl"], c["now"], c["pruned"]]) for c in cases if c["got"]})
    ck.cov["traces_validated_against_impl"] += len(cases) - len(mism) if coq_ok else 0
    ck.cov["ttl"] = {"mst_ttl_cases": len(tt), "schema_clean_cases": len(sc)}
    ck.cov["rule"] += " || ttl: measurement-TTL decisions and SchemaClean decisions at their boundaries; non-trivial = something reported / left"
