"""C14 - retention removes only data that has expired. See DESIGN.md section C14."""
import json
import vlib
from vlib import coq_z, coq_bool, coq_list

PID = "C14"


def ev_coq(e):
    k = e["kind"]
    if k == "tick":
        return "Tick %s" % coq_z(e["now"])
    if k == "alter":
        return "Alter %s %s" % (coq_z(e.get("rp", 0)), coq_z(e.get("d", 0)))
    if k == "tickfail":
        return "TickAborted %s" % coq_z(e["now"])
    if k == "restart":
        return "Restart"
    if k == "addgroup":
        return "AddGroup (mk_group %s %s %s %s %s) %s" % (
            coq_z(e["gid"]), coq_z(e["rp"]), coq_z(e["start"]), coq_z(e["end"]),
            coq_list([coq_z(s) for s in e["shards"]]), coq_bool(e.get("loaded", False)))
    raise ValueError(k)


def obs_coq(o):
    node = coq_list([coq_z(x) for x in o["node"]])
    groups = coq_list(["(%s, %s, %s)" % (coq_z(g["id"]), coq_bool(g["deleted"]),
                                          coq_list(["(%s, %s)" % (coq_z(s[0]), coq_bool(s[1] == 1)) for s in g["shards"]]))
                       for g in o["groups"]])
    return "(%s, %s)" % (node, groups)


def case_coq(t):
    ps = coq_list(["(%s, %s)" % (coq_z(p[0]), coq_z(p[1])) for p in t["policies"]])
    es = coq_list([ev_coq(e) for e in t["events"]])
    os_ = coq_list([obs_coq(o) for o in t["obs"]])
    return "(%s, %s, (%s : list obs))" % (ps, es, os_)


def main(ck):
    ck.assumptions += [
        "Go time.Time.Add/Before on the generated instants behave as unbounded integer arithmetic (no wrap in range)",
        "the clock is controlled by patching time.Now (gomonkey) inside the harness process; the retention code under "
        "test is the repository's own (engine.ExpiredShards/IsExpired/nilShardIsExpired, retention.Service.handle, "
        "meta.Data.DurationInfos/DeleteShardGroup/PruneGroups/UpdateRetentionPolicy); physical shard deletion and the "
        "meta RPC transport are stubbed",
    ]
    ck.cov["trusted_base"] = ["Coq 8.16.1 kernel + vm_compute (cases evaluation, Example)", "no axioms (Print Assumptions: closed)",
                              "Go harness cmd/c14, python driver props/C14/run.py"]
    ck.coq_audit(["C14"])
    ok = ck.coq_build(["C14/Proofs.vo", "C14/Inv.vo", "C14/Corr.vo"])
    if ok:
        ck.coq_props(["C14/Props.v"])
        if ck.tier == "thorough":
            ck.coq_build(["C14/Props.vo"])
            ck.coqchk(["OG.C14.Props"])
    binp = ck.go_build("./cmd/c14", "c14")
    if not binp:
        return
    n = 300 if ck.tier == "quick" else 4000
    rc, out = ck.run([binp, str(n)], timeout=1200)
    traces = [json.loads(l) for l in out.splitlines() if l.startswith('{"policies"')]
    if rc != 0 or len(traces) != n:
        ck.broken.append("harness c14 failed rc=%d traces=%d: %s" % (rc, len(traces), out[-500:]))
        return
    # model evaluation, sharded
    shard = 250
    files = []
    for i in range(0, len(traces), shard):
        chunk = traces[i:i + shard]
        txt = ("From Coq Require Import ZArith List Bool. From OG Require Import C14.Model C14.Corr.\n"
               "Import ListNotations. Open Scope Z_scope.\n"
               "Definition cases : list (list (Z * Z) * list event * list obs) := [\n%s\n].\n"
               "Definition M := Eval vm_compute in mismatches cases.\nPrint M.\n") % ";\n".join(case_coq(t) for t in chunk)
        files.append(("cases%d" % (i // shard), txt))
    res = ck.coq_eval_many(files) if ok else []
    mism = []
    import re
    for idx, (rc2, o) in enumerate(res):
        m = re.search(r"M\s*=\s*(.*?)\s*:\s*list", o, re.S)
        if rc2 != 0 or not m:
            ck.broken.append("model evaluation failed on shard %d: %s" % (idx, o[-400:]))
            continue
        for a, b in re.findall(r"\((\d+),\s*(\d+)\)", m.group(1)):
            mism.append((idx * shard + int(a), int(b)))
    # verdicts
    nontriv = set()
    hist = {}
    for t in traces:
        if t["nontrivial"]:
            nontriv.add(json.dumps(t["events"], sort_keys=True))
        for e in t["events"]:
            hist[e["kind"]] = hist.get(e["kind"], 0) + 1
    ck.cov["evaluations"] = len(traces)
    ck.cov["distinct_nontrivial"] = len(nontriv)
    ck.cov["traces_validated_against_impl"] = len(traces) - len(mism) if ok else 0
    ck.cov["rule"] = ("event traces (addgroup/alter/restart/tick with clock readings aimed at end+d-1h,-1ns,0,+1ns,+2ns,+1h) from one "
                      "PRNG; non-trivial = at least one tick deleted a shard; distinct = different event lists")
    ck.cov["event_histogram"] = hist
    ck.cov["samples"] = [t["events"] for t in traces[:2]]
    oracle_fail = [(i, t) for i, t in enumerate(traces) if t["oracle"]]
    for i, t in oracle_fail[:3]:
        ck.violation({"kind": "direct-oracle", "what": t["oracle"], "trace": t, "case": i})
    if mism and not oracle_fail:
        i, k = mism[0]
        ck.broken.append("correspondence C14 model/implementation differs on case %d at event %d" % (i, k))
        ck.nofail_detail = {"kind": "correspondence", "explanation": "model and implementation observables differ; the direct "
                            "oracle (deleted => expired under the policy in force; expired+listed => removed) found no failing input",
                            "case": i, "event_index": k, "trace": traces[i]}
