"""C14: rendering of the extended ("ix") harness traces as Coq terms for C14/XCorr.v."""
from vlib import coq_z, coq_bool, coq_list


def opt(x):
    return "None" if x is None else "(Some %s)" % coq_z(x)


def xev_coq(e):
    k = e["kind"]
    if k == "create":
        return "XCreate %s %s" % (coq_z(e.get("rp", 0)), coq_z(e.get("ts", 0)))
    if k == "mat":
        return "XMat %s %s" % (coq_z(e.get("gid", 0)), coq_bool(e.get("loaded", False)))
    if k == "alter":
        return "XAlter %s %s %s %s" % (coq_z(e.get("rp", 0)), opt(e.get("d")), opt(e.get("sgd")), opt(e.get("igd")))
    if k == "expand":
        return "XExpand"
    if k == "tick":
        return "XTick %s %s %s" % (coq_z(e.get("pt", 0)), coq_z(e.get("now", 0)), coq_z(e.get("now2") or e.get("now", 0)))
    if k == "tickfail":
        return "XTickAborted %s %s" % (coq_z(e.get("pt", 0)), coq_z(e.get("now", 0)))
    if k == "restart":
        return "XRestart %s" % coq_z(e.get("pt", 0))
    raise ValueError(k)


def zl(xs):
    return coq_list([coq_z(x) for x in xs])


def xobs_coq(o):
    pols = coq_list(["(%s, %s, %s, %s)" % tuple(coq_z(x) for x in p) for p in o["pols"]])
    sgs = coq_list(["(%s, %s, %s, %s, %s, %s)" % (
        coq_z(g["ID"]), coq_z(g["RP"]), coq_z(g["Start"]), coq_z(g["End"]), coq_bool(g["Del"]),
        coq_list(["(%s, %s, %s, %s)" % (coq_z(s[0]), coq_z(s[1]), coq_z(s[2]), coq_bool(s[3] == 1)) for s in g["Shards"]]))
        for g in o["sgs"]])
    igs = coq_list(["(%s, %s, %s, %s, %s, %s)" % (
        coq_z(g["ID"]), coq_z(g["RP"]), coq_z(g["Start"]), coq_z(g["End"]), coq_bool(g["Del"]),
        coq_list(["(%s, %s, %s)" % (coq_z(s[0]), coq_z(s[1]), coq_bool(s[2] == 1)) for s in g["Ixs"]]))
        for g in o["igs"]])
    return ("{| o_ok := %s; o_pols := %s; o_sgs := %s; o_igs := %s; o_nsh := %s; o_nix := %s; o_dsh := %s; o_dix := %s |}"
            % (coq_bool(o["ok"]), pols, sgs, igs, coq_list(["(%s, %s)" % (coq_z(x[0]), coq_z(x[1])) for x in o["nsh"]]), coq_list(["(%s, %s)" % (coq_z(x[0]), coq_z(x[1])) for x in o["nix"]]), zl(o["dsh"]), zl(o["dix"])))


def xcase_coq(t):
    ps = coq_list(["(%s, %s, %s, %s)" % tuple(coq_z(x) for x in p) for p in t["policies"]])
    es = coq_list([xev_coq(e) for e in t["events"]])
    os_ = coq_list([xobs_coq(o) for o in t["obs"]])
    return "(%s, %d%%nat, %s, (%s : list xobs))" % (ps, t["ptnum"], es, os_)


XHEAD = ("From Coq Require Import ZArith List Bool. From OG Require Import C14.Model C14.XModel C14.XCorr.\n"
         "Import ListNotations. Open Scope Z_scope.\n")


def xfile(chunk):
    return (XHEAD + "Definition cases : list xcase := [\n%s\n].\n"
            "Definition V := Eval vm_compute in xverdicts cases.\nPrint V.\n") % ";\n".join(xcase_coq(t) for t in chunk)


def parse_verdicts(out):
    """-> list of 8 numbers per case (0 = variant agrees, k>0 = first disagreeing event + 1), or None."""
    import re
    m = re.search(r"V\s*=\s*(.*?)\s*:\s*list \(list nat\)", out, re.S)
    if not m:
        return None
    body = m.group(1)
    res = []
    for grp in re.findall(r"\[([^\[\]]*)\]", body):
        nums = [int(x) for x in re.findall(r"\d+", grp)]
        if len(nums) == 8:
            res.append(nums)
    return res
